package main

// PeekSize / ReadObjectFromReader against what the writers wrote (round 6): `sr` requests whose reader program is the
// mirrored program of a writer program with a `peek LP` in front of every sized call (ReadBytesWithSize,
// ReadObjectWithSize, ReadCollection) and, half of the time, wrapped as a whole or in parts into `ofr ( … )`
// (ReadObjectFromReader).  Go oracle independent of Lean (`peek-oracle`): whenever the same program without the peeks
// and wrappers reads the data successfully, the peeking program must succeed too, consume the same number of bytes,
// run the same number of collection callbacks, return the same values — and every peeked size must be the length of
// the value read next (sized bytes / object) or the number of elements the collection read next delivers.

import (
	"fmt"
	"strconv"
	"strings"

	"verifharness/c02/sx"
	"verifharness/hx"
)

func hasPeek(p []sx.ROp) bool {
	for _, o := range p {
		if o.K == "peek" || o.K == "ofr" || hasPeek(o.Item) {
			return true
		}
	}

	return false
}

// stripPeek removes the peeks and unwraps the ofr wrappers.
func stripPeek(p []sx.ROp) []sx.ROp {
	var out []sx.ROp
	for _, o := range p {
		switch o.K {
		case "peek":
		case "ofr":
			out = append(out, stripPeek(o.Item)...)
		case "coll":
			c := o
			c.Item = stripPeek(o.Item)
			out = append(out, c)
		default:
			out = append(out, o)
		}
	}

	return out
}

// withPeeks puts a peek in front of every sized call (also inside collection items) and wraps runs of calls into ofr.
func withPeeks(rng *hx.Rng, p []sx.ROp, top bool) []sx.ROp {
	var out []sx.ROp
	for _, o := range p {
		switch o.K {
		case "bws", "ows":
			if rng.Chance(4, 5) {
				out = append(out, sx.ROp{K: "peek", LPt: o.LPt})
			}
			out = append(out, o)
		case "coll":
			if rng.Chance(4, 5) {
				out = append(out, sx.ROp{K: "peek", LPt: o.LPt})
			}
			c := o
			c.Item = withPeeks(rng, o.Item, false)
			out = append(out, c)
		default:
			out = append(out, o)
		}
	}
	if len(out) > 0 && rng.Chance(1, 2) {
		if top && len(out) > 1 && rng.Bool() {
			k := 1 + rng.Intn(len(out)-1) // a prefix inside the callback, the rest outside
			out = append([]sx.ROp{{K: "ofr", Item: append([]sx.ROp(nil), out[:k]...)}}, out[k:]...)
		} else {
			out = []sx.ROp{{K: "ofr", Item: out}}
		}
	}

	return out
}

// alignPeek walks a peeking program over the values it returned: a peeked size must be what the next call delivers.
// Returns the values without the sizes, or a complaint.
func alignPeek(p []sx.ROp, vals []string) (plain []string, rest []string, bad string) {
	pending := -1
	for _, o := range p {
		switch o.K {
		case "peek":
			if len(vals) == 0 || !strings.HasPrefix(vals[0], "#") {
				return nil, nil, "a PeekSize call returned no size"
			}
			n, err := strconv.Atoi(vals[0][1:])
			if err != nil {
				return nil, nil, "bad size " + vals[0]
			}
			pending, vals = n, vals[1:]
		case "ofr":
			pl, r, b := alignPeek(o.Item, vals)
			if b != "" {
				return nil, nil, b
			}
			plain, vals = append(plain, pl...), r
		case "coll":
			if pending < 0 {
				// count unknown: cannot align behind it (the generator always peeks or the stripped comparison decides)
				return nil, nil, "skip"
			}
			for i := 0; i < pending; i++ {
				pl, r, b := alignPeek(o.Item, vals)
				if b != "" {
					return nil, nil, b
				}
				plain, vals = append(plain, pl...), r
			}
			pending = -1
		default:
			if len(vals) == 0 || strings.HasPrefix(vals[0], "#") {
				return nil, nil, "fewer values than calls (a peeked collection count is larger than what the collection delivered)"
			}
			if pending >= 0 && (o.K == "bws" || o.K == "ows") && len(hx.UnHex(vals[0])) != pending {
				return nil, nil, fmt.Sprintf("PeekSize said %d, the sized value read next has %d bytes", pending, len(hx.UnHex(vals[0])))
			}
			pending = -1
			plain, vals = append(plain, vals[0]), vals[1:]
		}
	}

	return plain, vals, ""
}

func checkPeek(r *hx.Run, op string, f []string, ans string) {
	prog, _ := sx.ParseR(f[3:])
	if !hasPeek(prog) {
		return
	}
	plainProg := stripPeek(prog)
	ref := sx.ExecSR(append(append([]string{}, f[:3]...), strings.Fields(sx.ShowR(plainProg))...))
	if !strings.HasPrefix(ref, "ok ") {
		r.Count("peek:reference-not-ok")

		return
	}
	short := op
	if len(short) > 500 {
		short = short[:500] + "..."
	}
	sig := func(o string) map[string]string { return map[string]string{"oracle": o, "op": "sr-peek"} }
	if !strings.HasPrefix(ans, "ok ") {
		r.Fail("peek-oracle", fmt.Sprintf("the program without PeekSize/ReadObjectFromReader answers %q, with them %q; op: %s", clipS(ref), clipS(ans), short), sig("peek-breaks-read"))

		return
	}
	a, b := strings.Fields(ans), strings.Fields(ref)
	if a[1] != b[1] || a[2] != b[2] {
		r.Fail("peek-oracle", fmt.Sprintf("consumed/callbacks differ: %s %s with peeks, %s %s without; op: %s", a[1], a[2], b[1], b[2], short), sig("peek-consumes"))
	}
	var vals, refVals []string
	if a[3] != "." {
		vals = strings.Split(a[3], ",")
	}
	if b[3] != "." {
		refVals = strings.Split(b[3], ",")
	}
	plain, rest, bad := alignPeek(prog, vals)
	switch {
	case bad == "skip":
		r.Count("peek:unaligned")
	case bad != "":
		r.Fail("peek-oracle", bad+"; op: "+short, sig("peek-size"))
	case len(rest) != 0 || strings.Join(plain, ",") != strings.Join(refVals, ","):
		r.Fail("peek-oracle", fmt.Sprintf("values with peeks %v (+%d left over), without %v; op: %s", clipL(plain), len(rest), clipL(refVals), short), sig("peek-values"))
	default:
		r.Count("peek:checked")
	}
}

func clipS(s string) string {
	if len(s) > 200 {
		return s[:200] + "..."
	}

	return s
}

func clipL(l []string) []string {
	if len(l) > 12 {
		return l[:12]
	}

	return l
}
