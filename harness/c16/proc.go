package main

import (
	"bufio"
	"encoding/json"
	"fmt"
	"os"
	"os/exec"
	"path/filepath"
	"regexp"
	"runtime"
	"strings"
	"sync"

	"verifharness/hx"
)

// Crash isolation.  A panic inside a goroutine that the code under test started itself (the pool's dispatcher, a
// worker) cannot be recovered in-process and kills the harness.  Cases are therefore executed by child processes (this
// same binary with --child); the parent merges their results in order and turns a dead child into an oracle failure
// "crash" whose replay is the descriptor that was running.

type job struct {
	Sub  uint64 `json:"sub"`
	Desc string `json:"desc"`
}

// wire is a result as it travels from a child to the parent.
type wire struct {
	Idx     int            `json:"idx"`
	Begin   bool           `json:"begin,omitempty"`
	Lines   [][2]string    `json:"lines,omitempty"`
	Fails   []hx.Finding   `json:"fails,omitempty"`
	Counts  map[string]int `json:"counts,omitempty"`
	Nontriv string         `json:"nontriv,omitempty"`
}

func toWire(i int, r *result) wire {
	return wire{Idx: i, Lines: r.lines, Fails: r.fails, Counts: r.counts, Nontriv: r.nontriv}
}

func fromWire(w wire) *result {
	r := newResult()
	r.lines, r.fails, r.nontriv = w.Lines, w.Fails, w.Nontriv
	if w.Counts != nil {
		r.counts = w.Counts
	}

	return r
}

// childMain executes the descriptors of a chunk file (a few at a time in parallel, each has its own pool and log) and
// appends one record when a descriptor begins and one when it is done.
func childMain(chunkFile, resFile string) {
	var jobs []job
	b, err := os.ReadFile(chunkFile)
	if err != nil {
		panic(err)
	}
	if err := json.Unmarshal(b, &jobs); err != nil {
		panic(err)
	}
	installHooks()
	if runtime.GOMAXPROCS(0) < 4 {
		runtime.GOMAXPROCS(4)
	}
	out, err := os.OpenFile(resFile, os.O_CREATE|os.O_WRONLY|os.O_APPEND, 0o644)
	if err != nil {
		panic(err)
	}
	var mu sync.Mutex
	emit := func(w wire) {
		mu.Lock()
		defer mu.Unlock()
		line, _ := json.Marshal(w)
		out.Write(append(line, '\n'))
		out.Sync()
	}
	const par = 4
	for i := 0; i < len(jobs); i += par {
		end := min(i+par, len(jobs))
		var wg sync.WaitGroup
		for k := i; k < end; k++ {
			wg.Add(1)
			go func() {
				defer wg.Done()
				emit(wire{Idx: k, Begin: true})
				res := execDescriptor(jobs[k].Desc)
				if res == nil {
					res = newResult()
					res.lines = append(res.lines, [2]string{jobs[k].Desc, "bad-descriptor"})
				}
				emit(toWire(k, res))
			}()
		}
		wg.Wait()
	}
	out.Close()
}

var hiveFrame = regexp.MustCompile(`github\.com/iotaledger/hive\.go/[^\s(]+(\([^)]*\))?[.\w]*`)

// crashInfo extracts the panic message and the first hive.go frame from a dead child's stderr.
func crashInfo(stderr string) (msg, where string) {
	msg, where = "process died", "unknown"
	lines := strings.Split(stderr, "\n")
	for i, l := range lines {
		if strings.HasPrefix(l, "panic:") || strings.HasPrefix(l, "fatal error:") {
			msg = strings.TrimSpace(l)
			for _, m := range lines[i+1:] {
				if f := hiveFrame.FindString(m); f != "" {
					where = strings.TrimPrefix(f, "github.com/iotaledger/hive.go/")
					if k := strings.Index(where, "(0x"); k > 0 {
						where = where[:k]
					}

					break
				}
			}

			break
		}
	}

	return msg, where
}

// crashed is what the parent records for the descriptor a child died in.
func crashed(j job, stderr string, alone bool) *result {
	r := newResult()
	msg, where := crashInfo(stderr)
	ans := "ok"
	if strings.HasPrefix(j.Desc, "sched ") {
		ans = "crashed" // a forced schedule has an outcome the model predicts: this is none of them
	}
	r.lines = append(r.lines, [2]string{j.Desc, ans})
	how := "re-run alone it crashed again"
	if !alone {
		how = "it was one of the cases running when the process died; re-run alone it did not crash"
	}
	r.fail("crash", fmt.Sprintf("the code under test crashed the process while executing '%s' (%s): %s; first hive.go frame: %s",
		j.Desc, how, msg, where), map[string]string{"oracle": "crash", "what": "process-died", "where": where, "kind": strings.Fields(j.Desc + " x")[0]})
	r.count("child-process-crash")

	return r
}

// runChild runs one child over jobs; it returns the results it delivered, the indices that had begun but not finished
// when it died, and its stderr (empty if it exited normally).
func runChild(dir string, seq int, jobs []job) (done map[int]*result, open []int, stderr string) {
	chunkFile := filepath.Join(dir, fmt.Sprintf("chunk%d.json", seq))
	resFile := filepath.Join(dir, fmt.Sprintf("res%d.jsonl", seq))
	b, _ := json.Marshal(jobs)
	if err := os.WriteFile(chunkFile, b, 0o644); err != nil {
		panic(err)
	}
	os.Remove(resFile)
	self, err := os.Executable()
	if err != nil {
		panic(err)
	}
	cmd := exec.Command(self, "--child", chunkFile, resFile)
	var errBuf strings.Builder
	cmd.Stderr = &errBuf
	cmd.Stdout = os.Stdout
	runErr := cmd.Run()
	done = map[int]*result{}
	begun := map[int]bool{}
	if f, err := os.Open(resFile); err == nil {
		sc := bufio.NewScanner(f)
		sc.Buffer(make([]byte, 1<<20), 1<<28)
		for sc.Scan() {
			var w wire
			if json.Unmarshal(sc.Bytes(), &w) != nil {
				continue
			}
			if w.Begin {
				begun[w.Idx] = true
			} else {
				done[w.Idx] = fromWire(w)
			}
		}
		f.Close()
	}
	os.Remove(chunkFile)
	os.Remove(resFile)
	// forward what the child said that is not a crash dump
	for _, l := range strings.Split(errBuf.String(), "\n") {
		if strings.HasPrefix(l, "slow case") {
			fmt.Fprintln(os.Stderr, l)
		}
	}
	if runErr == nil {
		return done, nil, ""
	}
	for i := range jobs {
		if begun[i] && done[i] == nil {
			open = append(open, i)
		}
	}

	return done, open, errBuf.String() + "\n" + runErr.Error()
}

// runJobs executes all jobs in child processes, in chunks, and calls deliver for each job in order.  It stops early
// (returning false) when deliver says so.
func runJobs(dir string, jobs []job, chunk int, deliver func(j job, res *result) bool) {
	seq := 0
	for pos := 0; pos < len(jobs); {
		end := min(pos+chunk, len(jobs))
		part := jobs[pos:end]
		results := make([]*result, len(part))
		todo := make([]int, len(part))
		for i := range todo {
			todo[i] = i
		}
		for len(todo) > 0 {
			sub := make([]job, len(todo))
			for k, i := range todo {
				sub[k] = part[i]
			}
			seq++
			done, open, stderr := runChild(dir, seq, sub)
			for k, res := range done {
				results[todo[k]] = res
			}
			if stderr == "" {
				break
			}
			// the child died: find the culprit among the cases that were running by running each alone
			culprit := false
			for _, k := range open {
				seq++
				d1, _, e1 := runChild(dir, seq, []job{sub[k]})
				if e1 != "" {
					results[todo[k]] = crashed(sub[k], e1, true)
					culprit = true
				} else if d1[0] != nil {
					results[todo[k]] = d1[0]
				}
			}
			if !culprit {
				if len(open) > 0 {
					results[todo[open[0]]] = crashed(sub[open[0]], stderr, false)
				} else if len(todo) > 0 {
					results[todo[0]] = crashed(sub[0], stderr, false)
				}
			}
			var rest []int
			for _, i := range todo {
				if results[i] == nil {
					rest = append(rest, i)
				}
			}
			todo = rest
		}
		for i, res := range results {
			if res == nil {
				res = crashed(part[i], "no result delivered", false)
			}
			if !deliver(part[i], res) {
				return
			}
		}
		pos = end
	}
}
