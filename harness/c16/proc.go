package main

import (
	"bytes"
	"encoding/json"
	"fmt"
	"io"
	"os"
	"os/exec"
	"path/filepath"
	"regexp"
	"runtime"
	"strings"
	"sync"
	"sync/atomic"
	"time"

	"verifharness/hx"

	"github.com/iotaledger/hive.go/runtime/debug"
)

// scratchDir: where a child may put the files of a process it starts itself (taskpanic, debug-* cases).
var scratchDir string

var subSeq atomic.Int64

// runInDebugProcess executes one descriptor in a process of its own that runs with debug.SetEnabled(true).
func runInDebugProcess(outer, inner string) *result {
	dir := scratchDir
	if dir == "" {
		dir = os.TempDir()
	}
	pc := &parentCtl{env: hangs.snapshot(), grace: time.Minute}
	oc := runChild(dir, int(1000000+subSeq.Add(1)*1000)+os.Getpid()%1000, []job{{0, inner}}, pc, nil, "C16_DEBUG=1")
	var res *result
	switch {
	case oc.stderr != "":
		res = crashed(job{0, outer}, oc.stderr, true)
	case oc.done[0] != nil:
		res = oc.done[0]
		if len(res.lines) > 0 {
			res.lines[0][0] = outer
		}
		if res.nontriv != "" {
			res.nontriv = "debug|" + res.nontriv
		}
	default:
		res = newResult()
		res.lines = append(res.lines, [2]string{outer, "ok"})
		res.count("skipped-in-debug-process")
	}
	res.count("debug-mode-cases")

	return res
}

// Crash isolation.  A panic inside a goroutine that the code under test started itself (the pool's dispatcher, a
// worker) cannot be recovered in-process and kills the harness.  Cases are therefore executed by child processes (this
// same binary with --child); the parent merges their results in order and turns a dead child into an oracle failure
// "crash" whose replay is the descriptor that was running.

type job struct {
	Sub  uint64 `json:"sub"`
	Desc string `json:"desc"`
}

// wire is a result as it travels from a child to the parent.
type wire struct {
	Idx     int            `json:"idx"`
	Begin   bool           `json:"begin,omitempty"`
	Lines   [][2]string    `json:"lines,omitempty"`
	Fails   []hx.Finding   `json:"fails,omitempty"`
	Counts  map[string]int `json:"counts,omitempty"`
	Nontriv string         `json:"nontriv,omitempty"`
	Hang    bool           `json:"hang,omitempty"`    // (Idx -1) a watchdog ran out its full bound: the hang is confirmed
	Skipped string         `json:"skipped,omitempty"` // the case was not started: why
}

func toWire(i int, r *result) wire {
	return wire{Idx: i, Lines: r.lines, Fails: r.fails, Counts: r.counts, Nontriv: r.nontriv}
}

func fromWire(w wire) *result {
	r := newResult()
	r.lines, r.fails, r.nontriv = w.Lines, w.Fails, w.Nontriv
	if w.Counts != nil {
		r.counts = w.Counts
	}

	return r
}

// childMain executes the descriptors of a chunk file (a few at a time in parallel, each has its own pool and log) and
// appends one record when a descriptor begins and one when it is done (or skipped, see hang.go).  A case that exceeds
// its time limit as a whole is given up (its goroutine is leaked).
func childMain(chunkFile, resFile string) {
	var jobs []job
	b, err := os.ReadFile(chunkFile)
	if err != nil {
		panic(err)
	}
	if err := json.Unmarshal(b, &jobs); err != nil {
		panic(err)
	}
	installHooks()
	if runtime.GOMAXPROCS(0) < 4 {
		runtime.GOMAXPROCS(4)
	}
	out, err := os.OpenFile(resFile, os.O_CREATE|os.O_WRONLY|os.O_APPEND, 0o644)
	if err != nil {
		panic(err)
	}
	var mu sync.Mutex
	emit := func(w wire) {
		mu.Lock()
		defer mu.Unlock()
		line, _ := json.Marshal(w)
		out.Write(append(line, '\n'))
		out.Sync()
	}
	hangs.load()
	hangs.emit = emit
	scratchDir = filepath.Dir(resFile)
	if os.Getenv("C16_DEBUG") == "1" {
		// the whole process runs with hive.go's debug mode: Task.run starts a deadlock detector per task (short timeout, so
		// that gated tasks are reported — on stdout, which nobody reads) and newTask records the closure's stack trace
		debug.SetEnabled(true)
		debug.DeadlockDetectionTimeout = 20 * time.Millisecond
	}
	const par = 4
	sem := make(chan struct{}, par)
	var wg sync.WaitGroup
	for k := range jobs {
		sem <- struct{}{}
		if why := hangs.skip(jobs[k].Desc); why != "" {
			emit(wire{Idx: k, Skipped: why})
			<-sem

			continue
		}
		wg.Add(1)
		go func() {
			defer wg.Done()
			defer func() { <-sem }()
			emit(wire{Idx: k, Begin: true})
			res := guardedExec(jobs[k].Desc)
			hangs.note(jobs[k].Desc, res.fails)
			emit(toWire(k, res))
		}()
	}
	wg.Wait()
	out.Close()
}

// guardedExec executes a descriptor, but gives it up when it takes longer than the limit for a whole case: some
// blocking call that no watchdog guards does not return.
func guardedExec(desc string) *result {
	ch := make(chan *result, 1)
	t0 := time.Now()
	go func() {
		res := execDescriptor(desc)
		if res == nil {
			res = newResult()
			res.lines = append(res.lines, [2]string{desc, "bad-descriptor"})
		}
		ch <- res
	}()
	tick := time.NewTicker(200 * time.Millisecond)
	defer tick.Stop()
	for {
		select {
		case res := <-ch:
			return res
		case <-tick.C:
			if lim := hangs.caseLimit(); time.Since(t0) > lim {
				hangs.expired(bound)
				res := newResult()
				ans := "ok"
				if strings.HasPrefix(desc, "sched ") {
					ans = "stuck"
				}
				res.lines = append(res.lines, [2]string{desc, ans})
				res.fail("termination", fmt.Sprintf("the case '%s' did not end within %s: a call into the code under test that no single watchdog guards does not return", desc, lim),
					map[string]string{"api": "workerpool", "effect": "case-exceeded-its-time-limit", "kind": descKind(desc)})
				res.count("case-given-up")

				return res
			}
		}
	}
}

var hiveFrame = regexp.MustCompile(`github\.com/iotaledger/hive\.go/[^\s(]+(\([^)]*\))?[.\w]*`)

// crashInfo extracts the panic message and the first hive.go frame from a dead child's stderr.
func crashInfo(stderr string) (msg, where string) {
	msg, where = "process died", "unknown"
	lines := strings.Split(stderr, "\n")
	for i, l := range lines {
		if strings.HasPrefix(l, "panic:") || strings.HasPrefix(l, "fatal error:") {
			msg = strings.TrimSpace(l)
			for _, m := range lines[i+1:] {
				if f := hiveFrame.FindString(m); f != "" {
					where = strings.TrimPrefix(f, "github.com/iotaledger/hive.go/")
					if k := strings.Index(where, "(0x"); k > 0 {
						where = where[:k]
					}

					break
				}
			}

			break
		}
	}

	return msg, where
}

// crashed is what the parent records for the descriptor a child died in.
func crashed(j job, stderr string, alone bool) *result {
	r := newResult()
	msg, where := crashInfo(stderr)
	ans := "ok"
	if strings.HasPrefix(j.Desc, "sched ") {
		ans = "crashed" // a forced schedule has an outcome the model predicts: this is none of them
	}
	r.lines = append(r.lines, [2]string{j.Desc, ans})
	how := "re-run alone it crashed again"
	if !alone {
		how = "it was one of the cases running when the process died; re-run alone it did not crash"
	}
	r.fail("crash", fmt.Sprintf("the code under test crashed the process while executing '%s' (%s): %s; first hive.go frame: %s",
		j.Desc, how, msg, where), map[string]string{"oracle": "crash", "what": "process-died", "where": where, "kind": strings.Fields(j.Desc + " x")[0]})
	r.count("child-process-crash")

	return r
}

// childOutcome is what one child process delivered.
type childOutcome struct {
	done    map[int]*result
	skipped map[int]string
	open    []int  // begun, neither finished nor skipped when the child ended
	stderr  string // empty if it exited normally or was stopped by the parent
	stopped bool   // the parent killed it (hang budget used up)
}

// parentCtl is the parent's view of the hang state (see hang.go).
type parentCtl struct {
	env       hangEnv
	firstHang time.Time
	grace     time.Duration
}

// runConfirmed: the parent has seen a confirmed hang in this run.
var runConfirmed atomic.Bool

func hangConfirmedInRun() bool { return runConfirmed.Load() }

func (pc *parentCtl) confirm() {
	runConfirmed.Store(true)
	if !pc.env.Confirmed {
		pc.env.Confirmed = true
		pc.firstHang = time.Now()
		pc.env.StopAtMs = pc.firstHang.Add(pc.grace).UnixMilli()
		fmt.Fprintf(os.Stderr, "hang confirmed: later waits are shortened to %s, cases that keep hanging the same way are skipped, no new case after %s\n", afterHangBound, pc.grace)
	}
}

func (pc *parentCtl) exhausted() bool {
	return pc.env.Confirmed && time.Now().UnixMilli() > pc.env.StopAtMs
}

// runChild runs one child over jobs and follows its result stream while it runs.
func runChild(dir string, seq int, jobs []job, pc *parentCtl, progress func(oc *childOutcome) (stop bool), env ...string) childOutcome {
	chunkFile := filepath.Join(dir, fmt.Sprintf("chunk%d.json", seq))
	resFile := filepath.Join(dir, fmt.Sprintf("res%d.jsonl", seq))
	b, _ := json.Marshal(jobs)
	if err := os.WriteFile(chunkFile, b, 0o644); err != nil {
		panic(err)
	}
	os.Remove(resFile)
	self, err := os.Executable()
	if err != nil {
		panic(err)
	}
	cmd := exec.Command(self, "--child", chunkFile, resFile)
	envJSON, _ := json.Marshal(pc.env)
	cmd.Env = append(append(os.Environ(), "C16_HANGCTL="+string(envJSON)), env...)
	var errBuf strings.Builder
	cmd.Stderr = &errBuf
	cmd.Stdout = os.Stdout
	if len(env) > 0 {
		cmd.Stdout = nil // a debug-mode process prints its deadlock reports there
	}
	oc := childOutcome{done: map[int]*result{}, skipped: map[int]string{}}
	begun := map[int]bool{}
	if err := cmd.Start(); err != nil {
		oc.stderr = "cannot start child: " + err.Error()

		return oc
	}
	exited := make(chan error, 1)
	go func() { exited <- cmd.Wait() }()
	var off int64
	var rest []byte
	poll := func() {
		f, err := os.Open(resFile)
		if err != nil {
			return
		}
		defer f.Close()
		if _, err := f.Seek(off, 0); err != nil {
			return
		}
		data, _ := io.ReadAll(f)
		off += int64(len(data))
		rest = append(rest, data...)
		for {
			i := bytes.IndexByte(rest, '\n')
			if i < 0 {
				break
			}
			line := rest[:i]
			rest = rest[i+1:]
			var w wire
			if json.Unmarshal(line, &w) != nil {
				continue
			}
			switch {
			case w.Hang:
				pc.confirm()
			case w.Begin:
				begun[w.Idx] = true
			case w.Skipped != "":
				oc.skipped[w.Idx] = w.Skipped
			default:
				res := fromWire(w)
				oc.done[w.Idx] = res
				if w.Idx >= 0 && w.Idx < len(jobs) {
					for _, k := range hangKeys(jobs[w.Idx].Desc, res.fails) {
						pc.confirm()
						pc.env.Kinds[k]++
					}
				}
			}
		}
	}
	var runErr error
	tick := time.NewTicker(50 * time.Millisecond)
	defer tick.Stop()
	running := true
	for running {
		select {
		case runErr = <-exited:
			running = false
		case <-tick.C:
			poll()
			// the budget is used up: the child starts nothing new by itself; what is still running gets 20 s
			if (progress != nil && progress(&oc)) || (pc.env.Confirmed && time.Now().UnixMilli() > pc.env.StopAtMs+20000) {
				cmd.Process.Kill()
				runErr = <-exited
				oc.stopped = true
				running = false
			}
		}
	}
	poll()
	os.Remove(chunkFile)
	os.Remove(resFile)
	// forward what the child said that is not a crash dump
	for _, l := range strings.Split(errBuf.String(), "\n") {
		if strings.HasPrefix(l, "slow case") {
			fmt.Fprintln(os.Stderr, l)
		}
	}
	for i := range jobs {
		if begun[i] && oc.done[i] == nil {
			oc.open = append(oc.open, i)
		}
	}
	if runErr != nil && !oc.stopped {
		oc.stderr = errBuf.String() + "\n" + runErr.Error()
	}

	return oc
}

// runJobs executes all jobs in child processes, in chunks, and calls deliver for each job in order (skipped for a case
// that was not executed because of the hang budget, see hang.go).  It stops early when deliver says so.
func runJobs(dir string, jobs []job, chunk int, scale int, deliver func(j job, res *result) bool, skipped func(j job, why string)) {
	pc := &parentCtl{env: hangEnv{Kinds: map[string]int{}, Scale: scale}, grace: time.Duration(48+12*scale) * time.Second}
	pc.env.GraceMs = pc.grace.Milliseconds()
	seq := 0
	for pos := 0; pos < len(jobs); {
		if pc.exhausted() {
			for _, j := range jobs[pos:] {
				skipped(j, "hang-budget")
			}

			return
		}
		end := min(pos+chunk, len(jobs))
		part := jobs[pos:end]
		results := make([]*result, len(part))
		skip := make([]string, len(part))
		todo := make([]int, len(part))
		for i := range todo {
			todo[i] = i
		}
		next, aborted := 0, false
		// deliverPrefix hands over, in order, what is complete; false = the consumer has enough
		deliverPrefix := func() bool {
			for next < len(part) && !aborted {
				switch {
				case results[next] != nil:
					if !deliver(part[next], results[next]) {
						aborted = true
					}
				case skip[next] != "":
					skipped(part[next], skip[next])
				default:
					return true
				}
				next++
			}

			return !aborted
		}
		for len(todo) > 0 && !aborted {
			sub := make([]job, len(todo))
			for k, i := range todo {
				sub[k] = part[i]
			}
			cur := todo
			seq++
			oc := runChild(dir, seq, sub, pc, func(o *childOutcome) bool {
				for k, res := range o.done {
					results[cur[k]] = res
				}
				for k, why := range o.skipped {
					skip[cur[k]] = why
				}

				return !deliverPrefix()
			})
			for k, res := range oc.done {
				results[todo[k]] = res
			}
			for k, why := range oc.skipped {
				skip[todo[k]] = why
			}
			if aborted {
				break
			}
			if oc.stopped {
				for _, i := range todo {
					if results[i] == nil && skip[i] == "" {
						skip[i] = "hang-budget"
					}
				}

				break
			}
			if oc.stderr == "" {
				break
			}
			// the child died: find the culprit among the cases that were running by running each alone
			culprit := false
			for _, k := range oc.open {
				seq++
				o1 := runChild(dir, seq, []job{sub[k]}, pc, nil)
				if o1.stderr != "" {
					results[todo[k]] = crashed(sub[k], o1.stderr, true)
					culprit = true
				} else if o1.done[0] != nil {
					results[todo[k]] = o1.done[0]
				} else if o1.skipped[0] != "" || o1.stopped {
					skip[todo[k]] = "hang-budget"
				}
			}
			if !culprit {
				if len(oc.open) > 0 {
					results[todo[oc.open[0]]] = crashed(sub[oc.open[0]], oc.stderr, false)
				} else if len(todo) > 0 {
					results[todo[0]] = crashed(sub[0], oc.stderr, false)
				}
			}
			var rest []int
			for _, i := range todo {
				if results[i] == nil && skip[i] == "" {
					rest = append(rest, i)
				}
			}
			todo = rest
		}
		if aborted {
			return
		}
		for i := range results {
			if results[i] == nil && skip[i] == "" {
				results[i] = crashed(part[i], "no result delivered", false)
			}
		}
		if !deliverPrefix() {
			return
		}
		pos = end
	}
}
