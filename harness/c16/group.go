package main

import (
	"fmt"
	"strconv"
	"strings"
	"sync"
	"sync/atomic"
	"time"

	"verifharness/hx"

	"github.com/iotaledger/hive.go/runtime/options"
	"github.com/iotaledger/hive.go/runtime/syncutils"
	"github.com/iotaledger/hive.go/runtime/workerpool"
)

// gnode is a node of a real Group tree: a group or a pool with the gates of its unfinished tasks (FIFO).
type gnode struct {
	parent int
	group  *workerpool.Group
	pool   *workerpool.WorkerPool
	gates  []chan struct{}
}

func (n *gnode) value() int {
	if n.pool != nil {
		return n.pool.PendingTasksCounter.Get()
	}

	return n.group.PendingChildrenCounter.Get()
}

// gsub is a user subscriber of a node's exported counter: an observer of its (old,new) change stream.
type gsub struct {
	node   int
	v0     int // the counter's value when it subscribed
	active bool
	unsub  func()
	mu     sync.Mutex
	stream [][2]int
}

func (s *gsub) callback(oldValue, newValue int) {
	s.mu.Lock()
	s.stream = append(s.stream, [2]int{oldValue, newValue})
	s.mu.Unlock()
}

func (s *gsub) String() string {
	s.mu.Lock()
	defer s.mu.Unlock()
	parts := make([]string, len(s.stream))
	for i, p := range s.stream {
		parts[i] = fmt.Sprintf("%d>%d", p[0], p[1])
	}

	return "[" + strings.Join(parts, " ") + "]"
}

// ok is the subscriber monitor (Lean: Hive.WPG.streamOk, plus unit steps): the pairs chain up from the value at
// subscription time, every step is +-1, and the stream ends at cur (checked while the subscriber is active).
func (s *gsub) ok(cur int) (bool, string) {
	s.mu.Lock()
	defer s.mu.Unlock()
	v := s.v0
	for i, p := range s.stream {
		if p[0] != v || (p[1] != p[0]+1 && p[1] != p[0]-1) {
			return false, fmt.Sprintf("pair %d is %d>%d after value %d", i, p[0], p[1], v)
		}
		v = p[1]
	}
	if s.active && v != cur {
		return false, fmt.Sprintf("stream ends at %d but the counter is %d", v, cur)
	}

	return true, ""
}

func (n *gnode) counter() *syncutils.Counter {
	if n.pool != nil {
		return n.pool.PendingTasksCounter
	}

	return n.group.PendingChildrenCounter
}

type gtree struct {
	nodes []*gnode
	subs  []*gsub
}

// checkSubs: every user subscriber has seen exactly the changes of its counter since it subscribed.
func (t *gtree) checkSubs(r *result, after string) {
	for k, s := range t.subs {
		if ok, why := s.ok(t.nodes[s.node].value()); !ok {
			r.fail("subscriber-stream", fmt.Sprintf("after '%s': subscriber %d of node %d (subscribed at value %d) saw %s: %s", after, k, s.node, s.v0, s, why),
				map[string]string{"api": "syncutils.Counter.Subscribe", "effect": "subscriber-stream-wrong"})
		}
	}
}

func (t *gtree) values() string {
	var b strings.Builder
	b.WriteString("[")
	for i, n := range t.nodes {
		if i > 0 {
			b.WriteString(" ")
		}
		b.WriteString(strconv.Itoa(n.value()))
	}
	b.WriteString("]")

	return b.String()
}

func (t *gtree) isGroup(i int) bool { return i >= 0 && i < len(t.nodes) && t.nodes[i].group != nil }
func (t *gtree) isPool(i int) bool  { return i >= 0 && i < len(t.nodes) && t.nodes[i].pool != nil }

// below: node q lies below group g.
func (t *gtree) below(g, q int) bool {
	for p := t.nodes[q].parent; p >= 0; p = t.nodes[p].parent {
		if p == g {
			return true
		}
	}

	return false
}

// oracle: every group's counter is the number of its children with a non-zero counter.
func (t *gtree) check(r *result, after string) {
	for g, n := range t.nodes {
		if n.group == nil {
			continue
		}
		nz := 0
		for _, c := range t.nodes {
			if c.parent == g && c.value() != 0 {
				nz++
			}
		}
		if v := n.value(); v != nz {
			r.fail("group-counter", fmt.Sprintf("after '%s': group %d has PendingChildrenCounter=%d but %d children with pending work; values=%s", after, g, v, nz, t.values()),
				map[string]string{"api": "workerpool.Group", "effect": "children-counter-wrong"})
		}
	}
}

func (t *gtree) exec(r *result, op string) string {
	f := strings.Fields(op)
	if len(f) != 3 || f[0] != "g" {
		return "bad-op"
	}
	a, err := strconv.Atoi(f[2])
	if err != nil {
		a = -1
	}
	name := fmt.Sprintf("n%d", len(t.nodes))
	switch f[1] {
	case "newgroup":
		if f[2] == "-" {
			t.nodes = append(t.nodes, &gnode{parent: -1, group: workerpool.NewGroup(name)})
		} else if t.isGroup(a) {
			t.nodes = append(t.nodes, &gnode{parent: a, group: t.nodes[a].group.CreateGroup(name)})
		} else {
			return "skip"
		}
	case "newpool":
		if !t.isGroup(a) {
			return "skip"
		}
		// explicit options vary with the node index: worker count 1..3, cancel option absent / true / false
		opts := []options.Option[workerpool.WorkerPool]{workerpool.WithWorkerCount(1 + len(t.nodes)%3)}
		switch len(t.nodes) % 3 {
		case 1:
			opts = append(opts, workerpool.WithCancelPendingTasksOnShutdown(true))
		case 2:
			opts = append(opts, workerpool.WithCancelPendingTasksOnShutdown(false))
		}
		t.nodes = append(t.nodes, &gnode{parent: a, pool: t.nodes[a].group.CreatePool(name, opts...)})
	case "newpoolsub":
		// a pool created with a user subscriber attached through an option, i.e. BEFORE the group's own subscription
		if !t.isGroup(a) {
			return "skip"
		}
		sb := &gsub{node: len(t.nodes), active: true}
		withSub := func(w *workerpool.WorkerPool) { sb.unsub = w.PendingTasksCounter.Subscribe(sb.callback) }
		t.nodes = append(t.nodes, &gnode{parent: a, pool: t.nodes[a].group.CreatePool(name, workerpool.WithWorkerCount(2), withSub)})
		t.subs = append(t.subs, sb)
	case "sub":
		if a < 0 || a >= len(t.nodes) {
			return "skip"
		}
		sb := &gsub{node: a, active: true, v0: t.nodes[a].value()}
		sb.unsub = t.nodes[a].counter().Subscribe(sb.callback)
		t.subs = append(t.subs, sb)

		return fmt.Sprintf("ok %d", len(t.subs)-1)
	case "unsub":
		if a < 0 || a >= len(t.subs) || !t.subs[a].active {
			return "skip"
		}
		t.subs[a].unsub()
		t.subs[a].active = false

		return "ok"
	case "stream":
		if a < 0 || a >= len(t.subs) {
			return "skip"
		}

		return t.subs[a].String()
	case "inc":
		if !t.isPool(a) {
			return "skip"
		}
		gate := make(chan struct{})
		t.nodes[a].pool.Submit(func() { <-gate })
		t.nodes[a].gates = append(t.nodes[a].gates, gate)
	case "dec":
		if !t.isPool(a) || len(t.nodes[a].gates) == 0 {
			return "skip"
		}
		n := t.nodes[a]
		want := n.pool.PendingTasksCounter.Get() - 1
		close(n.gates[0])
		n.gates = n.gates[1:]
		if !waitFor(bound, func() bool { return n.pool.PendingTasksCounter.Get() == want }) {
			r.fail("termination", "released task did not finish", map[string]string{"api": "workerpool.Group", "effect": "task-not-finished"})
		}
	case "wait":
		if !t.isGroup(a) {
			return "bad-op"
		}
		ret := within(40*time.Millisecond, t.nodes[a].group.WaitChildren)
		if ret {
			for q, n := range t.nodes {
				if t.below(a, q) && n.value() != 0 {
					r.fail("group-wait", fmt.Sprintf("WaitChildren of group %d returned while node %d below it has counter %d", a, q, n.value()),
						map[string]string{"api": "workerpool.Group.WaitChildren", "effect": "returned-with-pending-below"})
				}
			}

			return "returns"
		}

		return "blocks"
	default:
		return "bad-op"
	}
	t.check(r, op)
	t.checkSubs(r, op)

	return "ok " + t.values()
}

func (t *gtree) finish(r *result) {
	for _, n := range t.nodes {
		for _, g := range n.gates {
			close(g)
		}
		n.gates = nil
	}
	for i, n := range t.nodes {
		if n.group != nil && n.parent < 0 {
			if !within(bound, n.group.Shutdown) {
				r.fail("termination", fmt.Sprintf("Group.Shutdown of root %d did not return", i), map[string]string{"api": "workerpool.Group.Shutdown", "effect": "hang"})
			}
		}
	}
	for i, n := range t.nodes {
		if n.pool != nil {
			t0 := time.Now()
			if !withinPool(n.pool, func() time.Duration { return time.Since(t0) }, bound, n.pool.ShutdownComplete.Wait) {
				sig := classifyPool(n.pool, "complete")
				sig["via"] = "Group.Shutdown"
				r.fail("termination", fmt.Sprintf("pool %d: ShutdownComplete.Wait did not return after Group.Shutdown; %v", i, sig), sig)
			}
		}
	}
}

func genGroupOps(rng *hx.Rng, n int) []string {
	ops := []string{"g newgroup -"}
	kinds := []bool{true} // true = group
	pend := []int{0}
	nsubs := 0
	for len(ops) < n {
		groups, pools := []int{}, []int{}
		for i, k := range kinds {
			if k {
				groups = append(groups, i)
			} else {
				pools = append(pools, i)
			}
		}
		switch x := rng.Intn(100); {
		case x < 8 && len(kinds) < 12:
			ops = append(ops, fmt.Sprintf("g newgroup %d", hx.Pick(rng, groups)))
			kinds, pend = append(kinds, true), append(pend, 0)
		case x < 20 && len(kinds) < 12 || len(pools) == 0:
			if rng.Chance(1, 3) {
				ops = append(ops, fmt.Sprintf("g newpoolsub %d", hx.Pick(rng, groups)))
				nsubs++
			} else {
				ops = append(ops, fmt.Sprintf("g newpool %d", hx.Pick(rng, groups)))
			}
			kinds, pend = append(kinds, false), append(pend, 0)
		case x < 27:
			// a user subscriber on a pool's PendingTasksCounter or a group's PendingChildrenCounter
			ops = append(ops, fmt.Sprintf("g sub %d", rng.Intn(len(kinds))))
			nsubs++
		case x < 33 && nsubs > 0:
			ops = append(ops, fmt.Sprintf("g unsub %d", rng.Intn(nsubs))) // may hit an inactive one: both sides skip
		case x < 36 && nsubs > 0:
			ops = append(ops, fmt.Sprintf("g stream %d", rng.Intn(nsubs)))
		case x < 60:
			q := hx.Pick(rng, pools)
			ops = append(ops, fmt.Sprintf("g inc %d", q))
			pend[q]++
		case x < 85:
			q := hx.Pick(rng, pools)
			if pend[q] > 0 {
				pend[q]--
			}
			ops = append(ops, fmt.Sprintf("g dec %d", q)) // also emitted at zero: both sides must skip
		default:
			ops = append(ops, fmt.Sprintf("g wait %d", hx.Pick(rng, groups)))
		}
	}
	for k := 0; k < nsubs; k++ {
		ops = append(ops, fmt.Sprintf("g stream %d", k))
	}

	return ops
}

// groupStress: a tree of pools whose tasks submit tasks to other pools; after all external submissions returned,
// WaitChildren on the root must only return when every pool is idle and every accepted task has run.
func groupStress(r *result, seed uint64) {
	rng := hx.NewRng(seed)
	root := workerpool.NewGroup("root")
	var pools []*workerpool.WorkerPool
	var usubs []*gsub
	for g := 0; g < 2; g++ {
		sub := root.CreateGroup(fmt.Sprintf("g%d", g))
		if rng.Bool() {
			sub = sub.CreateGroup("deep")
		}
		for p := 0; p < 2; p++ {
			opts := []options.Option[workerpool.WorkerPool]{workerpool.WithWorkerCount(rng.Range(1, 3))}
			if rng.Bool() {
				// a user subscriber attached through an option, before the group's own subscription
				sb := &gsub{node: len(pools), active: true}
				opts = append(opts, func(w *workerpool.WorkerPool) { sb.unsub = w.PendingTasksCounter.Subscribe(sb.callback) })
				usubs = append(usubs, sb)
			}
			pools = append(pools, sub.CreatePool(fmt.Sprintf("p%d", p), opts...))
		}
	}
	// subscription churn on the pools' counters while the tasks run: unsubscribe an old observer, attach a new one
	churnDone := make(chan struct{})
	stopChurn := make(chan struct{})
	crng, _ := rng.Fork()
	var umu sync.Mutex
	go func() {
		defer close(churnDone)
		for i := 0; ; i++ {
			select {
			case <-stopChurn:
				return
			default:
			}
			umu.Lock()
			if len(usubs) > 0 && crng.Bool() {
				old := usubs[crng.Intn(len(usubs))]
				if old.active {
					old.unsub()
					old.active = false
				}
			}
			q := crng.Intn(len(pools))
			// the value at subscription time is not known exactly under concurrency: taken from the first report
			sb := &gsub{node: q, active: true, v0: -1}
			sb.unsub = pools[q].PendingTasksCounter.Subscribe(sb.callback)
			usubs = append(usubs, sb)
			umu.Unlock()
			time.Sleep(200 * time.Microsecond)
			if i > 200 {
				return
			}
		}
	}()
	var submitted, ran atomic.Int64
	var submit func(depth int, rs *hx.Rng)
	var mu sync.Mutex
	submit = func(depth int, rs *hx.Rng) {
		mu.Lock()
		pool := hx.Pick(rs, pools)
		kids := 0
		if depth > 0 {
			kids = rs.Intn(3)
		}
		sub, _ := rs.Fork()
		mu.Unlock()
		submitted.Add(1)
		pool.Submit(func() {
			for i := 0; i < kids; i++ {
				submit(depth-1, sub)
			}
			ran.Add(1)
		})
	}
	var wg sync.WaitGroup
	for s := 0; s < 3; s++ {
		rs, _ := rng.Fork()
		n := rng.Range(1, 20)
		wg.Add(1)
		go func() {
			defer wg.Done()
			for i := 0; i < n; i++ {
				submit(3, rs)
			}
		}()
	}
	wg.Wait()
	if !within(bound, root.WaitChildren) {
		r.fail("termination", "root.WaitChildren did not return", map[string]string{"api": "workerpool.Group.WaitChildren", "effect": "hang"})

		return
	}
	for i, p := range pools {
		if v := p.PendingTasksCounter.Get(); v != 0 {
			r.fail("group-wait", fmt.Sprintf("root.WaitChildren returned while pool %d has %d pending tasks", i, v),
				map[string]string{"api": "workerpool.Group.WaitChildren", "effect": "returned-with-pending-below"})
		}
	}
	if s, d := submitted.Load(), ran.Load(); s != d {
		r.fail("group-wait", fmt.Sprintf("root.WaitChildren returned after %d of %d submitted tasks ran", d, s),
			map[string]string{"api": "workerpool.Group.WaitChildren", "effect": "returned-with-unfinished-tasks"})
	}
	close(stopChurn)
	<-churnDone
	// every observer that is still attached has seen a gap-free stream ending at zero
	for k, sb := range usubs {
		sb.mu.Lock()
		if sb.v0 < 0 && len(sb.stream) > 0 {
			sb.v0 = sb.stream[0][0]
		} else if sb.v0 < 0 {
			sb.v0 = 0
		}
		sb.mu.Unlock()
		if ok, why := sb.ok(pools[sb.node].PendingTasksCounter.Get()); !ok {
			r.fail("subscriber-stream", fmt.Sprintf("subscriber %d of pool %d saw %s: %s", k, sb.node, sb, why),
				map[string]string{"api": "syncutils.Counter.Subscribe", "effect": "subscriber-stream-wrong"})
		}
	}
	r.counts["group-stress-subscribers"] += len(usubs)
	r.counts["group-stress-tasks"] += int(submitted.Load())
	if !within(bound, root.Shutdown) {
		r.fail("termination", "root.Shutdown did not return", map[string]string{"api": "workerpool.Group.Shutdown", "effect": "hang"})
	}
	for i, p := range pools {
		t0 := time.Now()
		if !withinPool(p, func() time.Duration { return time.Since(t0) }, bound, p.ShutdownComplete.Wait) {
			sig := classifyPool(p, "complete")
			sig["via"] = "Group.Shutdown"
			r.fail("termination", fmt.Sprintf("pool %d not complete after Group.Shutdown; %v", i, sig), sig)
		}
	}
}

// runGroup executes "group seq SEED N" (sequential differential script) or "group stress SEED".
func runGroup(line string) *result {
	r := newResult()
	f := strings.Fields(line)
	r.lines = append(r.lines, [2]string{line, "ok"})
	if len(f) < 3 {
		return r
	}
	seed, _ := strconv.ParseUint(f[2], 10, 64)
	switch f[1] {
	case "seq":
		n := 30
		if len(f) > 3 {
			n, _ = strconv.Atoi(f[3])
		}
		t := &gtree{}
		ops := genGroupOps(hx.NewRng(seed), n)
		for _, op := range ops {
			r.lines = append(r.lines, [2]string{op, t.exec(r, op)})
			r.count("g:" + strings.Fields(op)[1])
			if len(r.fails) > 0 {
				break // the tree is off; every further wait would run into its bound
			}
		}
		t.finish(r)
		r.nontriv = line
	case "stress":
		groupStress(r, seed)
		r.count("g:stress")
		r.nontriv = line
	}

	return r
}

func groupCorpus() []string {
	return []string{"group seq 1 40", "group seq 2 60", "group stress 1", "group stress 2"}
}

func genGroup(rng *hx.Rng) string {
	if rng.Bool() {
		return fmt.Sprintf("group stress %d", rng.U64()%1000000)
	}

	return fmt.Sprintf("group seq %d %d", rng.U64()%1000000, rng.Range(20, 80))
}
