package main

import (
	"fmt"
	"strconv"
	"strings"
	"sync"
	"sync/atomic"
	"time"

	"verifharness/hx"

	"github.com/iotaledger/hive.go/runtime/options"
	"github.com/iotaledger/hive.go/runtime/syncutils"
	"github.com/iotaledger/hive.go/runtime/workerpool"
)

// gnode is a node of a real Group tree: a group or a pool with the gates of its unfinished tasks (FIFO).
type gnode struct {
	parent int
	group  *workerpool.Group
	pool   *workerpool.WorkerPool
	gates  []chan struct{}
	// busy: a Counter.Increase of this pool is parked inside a subscriber (the counter's value mutex is held: unreadable)
	busy bool
	park *gpark
	// orphan: created in a group that was shut down already (or below such a node): Group.shutdown returns at a set flag
	// without visiting the children, so no Group.Shutdown will ever stop this pool — the harness stops it itself.
	orphan bool
}

// gpark parks the first increase of a pool's counter inside a user subscriber that was attached through an option
// (so it runs BEFORE the group's subscription): the submitting goroutine then holds the pool's read lock and the
// counter's value mutex — Group.shutdown, which has set its flag already, blocks in this pool's Shutdown().
type gpark struct {
	armed   atomic.Bool
	parked  chan struct{}
	release chan struct{}
	gate    chan struct{} // gate of the task whose Submit is parked
	sdDone  chan struct{} // closed when the Group.Shutdown call has returned
}

func (n *gnode) value() int {
	if n.pool != nil {
		return n.pool.PendingTasksCounter.Get()
	}

	return n.group.PendingChildrenCounter.Get()
}

// gsub is a user subscriber of a node's exported counter: an observer of its (old,new) change stream.
type gsub struct {
	node   int
	v0     int // the counter's value when it subscribed
	active bool
	unsub  func()
	mu     sync.Mutex
	stream [][2]int
}

func (s *gsub) callback(oldValue, newValue int) {
	s.mu.Lock()
	s.stream = append(s.stream, [2]int{oldValue, newValue})
	s.mu.Unlock()
}

func (s *gsub) String() string {
	s.mu.Lock()
	defer s.mu.Unlock()
	parts := make([]string, len(s.stream))
	for i, p := range s.stream {
		parts[i] = fmt.Sprintf("%d>%d", p[0], p[1])
	}

	return "[" + strings.Join(parts, " ") + "]"
}

// ok is the subscriber monitor (Lean: Hive.WPG.streamOk, plus unit steps): the pairs chain up from the value at
// subscription time, every step is +-1, and the stream ends at cur (checked while the subscriber is active).
func (s *gsub) ok(cur int) (bool, string) {
	s.mu.Lock()
	defer s.mu.Unlock()
	v := s.v0
	for i, p := range s.stream {
		if p[0] != v || (p[1] != p[0]+1 && p[1] != p[0]-1) {
			return false, fmt.Sprintf("pair %d is %d>%d after value %d", i, p[0], p[1], v)
		}
		v = p[1]
	}
	if s.active && v != cur {
		return false, fmt.Sprintf("stream ends at %d but the counter is %d", v, cur)
	}

	return true, ""
}

func (n *gnode) counter() *syncutils.Counter {
	if n.pool != nil {
		return n.pool.PendingTasksCounter
	}

	return n.group.PendingChildrenCounter
}

type gtree struct {
	nodes []*gnode
	subs  []*gsub
}

func (t *gtree) anyBusy() bool {
	for _, n := range t.nodes {
		if n.busy {
			return true
		}
	}

	return false
}

// chain: the counters on the parent chain of node i, bottom-up.
func (t *gtree) chain(i int) string {
	var parts []string
	for ; i >= 0; i = t.nodes[i].parent {
		parts = append(parts, strconv.Itoa(t.nodes[i].value()))
	}

	return "[" + strings.Join(parts, " ") + "]"
}

// checkSubs: every user subscriber has seen exactly the changes of its counter since it subscribed.
func (t *gtree) checkSubs(r *result, after string) {
	if t.anyBusy() {
		return
	}
	for k, s := range t.subs {
		if ok, why := s.ok(t.nodes[s.node].value()); !ok {
			r.fail("subscriber-stream", fmt.Sprintf("after '%s': subscriber %d of node %d (subscribed at value %d) saw %s: %s", after, k, s.node, s.v0, s, why),
				map[string]string{"api": "syncutils.Counter.Subscribe", "effect": "subscriber-stream-wrong"})
		}
	}
}

// streamTotal: the number of counter changes that all user subscribers of the tree have seen so far.
func (t *gtree) streamTotal() int {
	n := 0
	for _, s := range t.subs {
		s.mu.Lock()
		n += len(s.stream)
		s.mu.Unlock()
	}

	return n
}

func (t *gtree) values() string {
	var b strings.Builder
	b.WriteString("[")
	for i, n := range t.nodes {
		if i > 0 {
			b.WriteString(" ")
		}
		b.WriteString(strconv.Itoa(n.value()))
	}
	b.WriteString("]")

	return b.String()
}

func (t *gtree) isGroup(i int) bool { return i >= 0 && i < len(t.nodes) && t.nodes[i].group != nil }
func (t *gtree) isPool(i int) bool  { return i >= 0 && i < len(t.nodes) && t.nodes[i].pool != nil }

// below: node q lies below group g.
func (t *gtree) below(g, q int) bool {
	for p := t.nodes[q].parent; p >= 0; p = t.nodes[p].parent {
		if p == g {
			return true
		}
	}

	return false
}

// oracle: every group's counter is the number of its children with a non-zero counter.
func (t *gtree) check(r *result, after string) {
	if t.anyBusy() {
		return
	}
	for g, n := range t.nodes {
		if n.group == nil {
			continue
		}
		nz := 0
		for _, c := range t.nodes {
			if c.parent == g && c.value() != 0 {
				nz++
			}
		}
		if v := n.value(); v != nz {
			r.fail("group-counter", fmt.Sprintf("after '%s': group %d has PendingChildrenCounter=%d but %d children with pending work; values=%s", after, g, v, nz, t.values()),
				map[string]string{"api": "workerpool.Group", "effect": "children-counter-wrong"})
		}
	}
}

func (t *gtree) exec(r *result, op string) string {
	f := strings.Fields(op)
	if len(f) != 3 || f[0] != "g" {
		return "bad-op"
	}
	a, err := strconv.Atoi(f[2])
	if err != nil {
		a = -1
	}
	name := fmt.Sprintf("n%d", len(t.nodes))
	switch f[1] {
	case "newgroup":
		if f[2] == "-" {
			t.nodes = append(t.nodes, &gnode{parent: -1, group: workerpool.NewGroup(name)})
		} else if t.isGroup(a) {
			t.nodes = append(t.nodes, &gnode{parent: a, group: t.nodes[a].group.CreateGroup(name)})
		} else {
			return "skip"
		}
	case "newpool":
		if !t.isGroup(a) {
			return "skip"
		}
		// explicit options vary with the node index: worker count 1..3, cancel option absent / true / false
		opts := []options.Option[workerpool.WorkerPool]{workerpool.WithWorkerCount(1 + len(t.nodes)%3)}
		switch len(t.nodes) % 3 {
		case 1:
			opts = append(opts, workerpool.WithCancelPendingTasksOnShutdown(true))
		case 2:
			opts = append(opts, workerpool.WithCancelPendingTasksOnShutdown(false))
		}
		t.nodes = append(t.nodes, &gnode{parent: a, pool: t.nodes[a].group.CreatePool(name, opts...)})
	case "newpoolsub":
		// a pool created with a user subscriber attached through an option, i.e. BEFORE the group's own subscription
		if !t.isGroup(a) {
			return "skip"
		}
		sb := &gsub{node: len(t.nodes), active: true}
		withSub := func(w *workerpool.WorkerPool) { sb.unsub = w.PendingTasksCounter.Subscribe(sb.callback) }
		t.nodes = append(t.nodes, &gnode{parent: a, pool: t.nodes[a].group.CreatePool(name, workerpool.WithWorkerCount(2), withSub)})
		t.subs = append(t.subs, sb)
	case "sub":
		if a < 0 || a >= len(t.nodes) {
			return "skip"
		}
		sb := &gsub{node: a, active: true, v0: t.nodes[a].value()}
		sb.unsub = t.nodes[a].counter().Subscribe(sb.callback)
		t.subs = append(t.subs, sb)

		return fmt.Sprintf("ok %d", len(t.subs)-1)
	case "unsub":
		if a < 0 || a >= len(t.subs) || !t.subs[a].active {
			return "skip"
		}
		t.subs[a].unsub()
		t.subs[a].active = false

		return "ok"
	case "stream":
		if a < 0 || a >= len(t.subs) {
			return "skip"
		}

		return t.subs[a].String()
	case "inc":
		if !t.isPool(a) {
			return "skip"
		}
		gate := make(chan struct{})
		before := t.nodes[a].pool.PendingTasksCounter.Get()
		seen := t.streamTotal()
		t.nodes[a].pool.Submit(func() { <-gate })
		if t.nodes[a].pool.PendingTasksCounter.Get() == before+1 {
			t.nodes[a].gates = append(t.nodes[a].gates, gate) // accepted (the script is sequential: nothing else moves the counter)
		} else {
			r.count("g:inc-rejected")
			// a rejected Submit must not move any counter of the tree, not even for a moment: no subscriber of the pool's
			// counter or of a group above it may have been called
			if now := t.streamTotal(); now != seen {
				r.fail("rejected-submit-counted", fmt.Sprintf("a Submit rejected by the stopped pool %d produced %d counter change(s) seen by subscribers (the counters went up and down again)", a, now-seen),
					map[string]string{"api": "workerpool.WorkerPool.Submit", "effect": "rejected-submit-moved-a-counter"})
			}
		}
	case "newpoolpark":
		if !t.isGroup(a) {
			return "skip"
		}
		pk := &gpark{parked: make(chan struct{}), release: make(chan struct{}), sdDone: make(chan struct{})}
		withPark := func(w *workerpool.WorkerPool) {
			w.PendingTasksCounter.Subscribe(func(oldValue, newValue int) {
				if newValue > oldValue && pk.armed.CompareAndSwap(true, false) {
					close(pk.parked)
					<-pk.release
				}
			})
		}
		t.nodes = append(t.nodes, &gnode{parent: a, park: pk,
			pool: t.nodes[a].group.CreatePool(name, workerpool.WithWorkerCount(1), workerpool.WithCancelPendingTasksOnShutdown(false), withPark)})
	case "sdbegin":
		// Group.Shutdown of group a is called while the first pool below it with a park is in the middle of a Submit
		if !t.isGroup(a) {
			return "bad-op"
		}
		var pn *gnode
		for q, n := range t.nodes {
			if n.park != nil && !n.busy && t.below(a, q) {
				pn = n

				break
			}
		}
		if pn == nil {
			return "skip"
		}
		pn.park.gate = make(chan struct{})
		pn.park.armed.Store(true)
		pn.busy = true
		gate := pn.park.gate
		go pn.pool.Submit(func() { <-gate })
		if !waitChan(pn.park.parked, bound) {
			r.fail("harness", "park subscriber not reached", map[string]string{"api": "harness", "effect": "hook-not-reached"})

			return "not-parked"
		}
		go func() { t.nodes[a].group.Shutdown(); close(pn.park.sdDone) }()

		return "ok"
	case "sdflag":
		if !t.isGroup(a) {
			return "skip"
		}
		if !waitFor(bound, t.nodes[a].group.IsShutdown) {
			r.fail("termination", fmt.Sprintf("group %d is not flagged as shut down", a), map[string]string{"api": "workerpool.Group.Shutdown", "effect": "flag-not-set"})

			return "not-set"
		}

		return "ok"
	case "isshut":
		if !t.isGroup(a) {
			return "false"
		}

		return strconv.FormatBool(t.nodes[a].group.IsShutdown())
	case "incw":
		// a Submit in the window of Group.shutdown: the flag is set, this pool has not been stopped yet.  The task is
		// waited for until it runs (so that no cancel-on-shutdown can take it away), then only the parent chain is read.
		if !t.isPool(a) || t.nodes[a].busy {
			return "skip"
		}
		gate, started := make(chan struct{}), make(chan struct{})
		before := t.nodes[a].pool.PendingTasksCounter.Get()
		t.nodes[a].pool.Submit(func() { close(started); <-gate })
		if t.nodes[a].pool.PendingTasksCounter.Get() != before+1 {
			return "skip" // the pool was stopped before the Submit
		}
		t.nodes[a].gates = append(t.nodes[a].gates, gate)
		if !waitChan(started, bound) {
			r.fail("termination", "accepted task did not start", map[string]string{"api": "workerpool.Group", "effect": "task-not-started"})
		}

		return "ok " + t.chain(a)
	case "incdone":
		// the parked Submit goes on: the pool's counter and the chain above it move now; Group.Shutdown can finish
		if !t.isPool(a) || !t.nodes[a].busy {
			return "skip"
		}
		n := t.nodes[a]
		close(n.park.release)
		if !waitChan(n.park.sdDone, bound) {
			r.fail("termination", "Group.Shutdown did not return", map[string]string{"api": "workerpool.Group.Shutdown", "effect": "hang"})
		}
		n.busy = false
		n.gates = append(n.gates, n.park.gate)
		if !waitFor(bound, func() bool { return n.pool.PendingTasksCounter.Get() == 1 }) {
			r.fail("conservation", "the Submit that was parked inside the counter's subscriber is not counted", map[string]string{"api": "workerpool.Submit", "effect": "parked-submit-lost"})
		}
	case "sdstop":
		if !t.isPool(a) || !t.nodes[t.nodes[a].parent].group.IsShutdown() {
			return "skip"
		}
		if !waitFor(bound, func() bool { return !t.nodes[a].pool.IsRunning() }) {
			r.fail("termination", fmt.Sprintf("pool %d is still running after Group.Shutdown returned", a), map[string]string{"api": "workerpool.Group.Shutdown", "effect": "pool-not-stopped"})

			return "still-running"
		}
	case "shutdown":
		// a whole Group.Shutdown call; with pending children it would block in its WaitIsZero: skipped on both sides
		if !t.isGroup(a) || t.anyBusy() {
			return "skip"
		}
		if t.nodes[a].value() != 0 {
			return "skip"
		}
		if !within(bound, t.nodes[a].group.Shutdown) {
			r.fail("termination", fmt.Sprintf("Group.Shutdown of group %d did not return", a), map[string]string{"api": "workerpool.Group.Shutdown", "effect": "hang"})

			return "hang"
		}
	case "restart":
		// pool.Start() by the user on a pool that a group shutdown has stopped: it accepts tasks again; its group's flag
		// stays set, so no later Group.Shutdown stops it — the harness does (like an orphan)
		if !t.isPool(a) || t.anyBusy() || t.nodes[a].pool.IsRunning() {
			return "skip"
		}
		n := t.nodes[a]
		if !within(bound, func() { n.pool.Start() }) {
			r.fail("termination", fmt.Sprintf("Start of the stopped pool %d did not return", a), classifyPool(n.pool, "start"))

			return "hang"
		}
		if !n.pool.IsRunning() {
			r.fail("group-restart", fmt.Sprintf("pool %d does not run after Start", a), map[string]string{"api": "workerpool.WorkerPool.Start", "effect": "restarted-pool-not-running", "via": "group"})
		}
		n.orphan = true
		r.count("g:restart")
	case "dec":
		if !t.isPool(a) || len(t.nodes[a].gates) == 0 {
			return "skip"
		}
		n := t.nodes[a]
		want := n.pool.PendingTasksCounter.Get() - 1
		close(n.gates[0])
		n.gates = n.gates[1:]
		if !waitFor(bound, func() bool { return n.pool.PendingTasksCounter.Get() == want }) {
			r.fail("termination", "released task did not finish", map[string]string{"api": "workerpool.Group", "effect": "task-not-finished"})
		}
	case "waitp":
		// Group.WaitParents = Root().WaitChildren()
		if !t.isGroup(a) || t.anyBusy() {
			return "skip"
		}
		root := a
		for t.nodes[root].parent >= 0 {
			root = t.nodes[root].parent
		}
		if returnsOrBlocks(t.nodes[a].group.WaitParents, func() bool { return t.nodes[root].value() == 0 }) == "returns" {
			for q, n := range t.nodes {
				if t.below(root, q) && n.value() != 0 {
					r.fail("group-wait", fmt.Sprintf("WaitParents of group %d returned while node %d of its tree has counter %d", a, q, n.value()),
						map[string]string{"api": "workerpool.Group.WaitParents", "effect": "returned-with-pending-below"})
				}
			}

			return "returns"
		}

		return "blocks"
	case "root":
		if !t.isGroup(a) {
			return "skip"
		}
		for q, n := range t.nodes {
			if n.group != nil && n.group == t.nodes[a].group.Root() {
				return strconv.Itoa(q)
			}
		}

		return "unknown-root"
	case "pools":
		if !t.isGroup(a) {
			return "skip"
		}

		return strconv.Itoa(len(t.nodes[a].group.Pools()))
	case "wait":
		if !t.isGroup(a) {
			return "bad-op"
		}
		ret := within(40*time.Millisecond, t.nodes[a].group.WaitChildren)
		if !ret && t.nodes[a].value() == 0 {
			ret = within(bound, t.nodes[a].group.WaitChildren) // a loaded machine: the goroutine was merely not scheduled yet
		}
		if ret {
			for q, n := range t.nodes {
				if n.busy {
					continue
				}
				if t.below(a, q) && n.value() != 0 {
					r.fail("group-wait", fmt.Sprintf("WaitChildren of group %d returned while node %d below it has counter %d", a, q, n.value()),
						map[string]string{"api": "workerpool.Group.WaitChildren", "effect": "returned-with-pending-below"})
				}
			}

			return "returns"
		}

		return "blocks"
	default:
		return "bad-op"
	}
	if strings.HasPrefix(f[1], "new") {
		if n := t.nodes[len(t.nodes)-1]; n.parent >= 0 && t.nodes[n.parent].group.IsShutdown() {
			n.orphan = true
		}
	}
	t.check(r, op)
	t.checkSubs(r, op)

	return "ok " + t.values()
}

func (t *gtree) finish(r *result) {
	for _, n := range t.nodes {
		for _, g := range n.gates {
			close(g)
		}
		n.gates = nil
		if p := n.parent; p >= 0 && t.nodes[p].orphan {
			n.orphan = true
		}
		if n.pool != nil && n.orphan {
			guarded(r, n.pool, "shutdown", func() { n.pool.Shutdown() })
			r.count("g:orphan-pool")
		}
	}
	for i, n := range t.nodes {
		if n.group != nil && n.parent < 0 {
			if !within(bound, n.group.Shutdown) {
				r.fail("termination", fmt.Sprintf("Group.Shutdown of root %d did not return", i), map[string]string{"api": "workerpool.Group.Shutdown", "effect": "hang"})
			}
		}
	}
	patience := bound
	for i, n := range t.nodes {
		if n.pool != nil {
			t0 := time.Now()
			if !withinPool(n.pool, func() time.Duration { return time.Since(t0) }, patience, n.pool.ShutdownComplete.Wait) {
				sig := classifyPool(n.pool, "complete")
				sig["via"] = "Group.Shutdown"
				r.fail("termination", fmt.Sprintf("pool %d: ShutdownComplete.Wait did not return after Group.Shutdown; %v", i, sig), sig)
				patience = 2 * time.Second // the finding is made: the remaining pools get the time the first one had, not 30 s each
			}
		}
	}
}

func genGroupOps(rng *hx.Rng, n int) []string {
	ops := []string{"g newgroup -"}
	kinds := []bool{true} // true = group
	pend := []int{0}
	nsubs := 0
	for len(ops) < n {
		groups, pools := []int{}, []int{}
		for i, k := range kinds {
			if k {
				groups = append(groups, i)
			} else {
				pools = append(pools, i)
			}
		}
		switch x := rng.Intn(100); {
		case x < 8 && len(kinds) < 12:
			ops = append(ops, fmt.Sprintf("g newgroup %d", hx.Pick(rng, groups)))
			kinds, pend = append(kinds, true), append(pend, 0)
		case x < 20 && len(kinds) < 12 || len(pools) == 0:
			if rng.Chance(1, 3) {
				ops = append(ops, fmt.Sprintf("g newpoolsub %d", hx.Pick(rng, groups)))
				nsubs++
			} else {
				ops = append(ops, fmt.Sprintf("g newpool %d", hx.Pick(rng, groups)))
			}
			kinds, pend = append(kinds, false), append(pend, 0)
		case x < 27:
			// a user subscriber on a pool's PendingTasksCounter or a group's PendingChildrenCounter
			ops = append(ops, fmt.Sprintf("g sub %d", rng.Intn(len(kinds))))
			nsubs++
		case x < 33 && nsubs > 0:
			ops = append(ops, fmt.Sprintf("g unsub %d", rng.Intn(nsubs))) // may hit an inactive one: both sides skip
		case x < 36 && nsubs > 0:
			ops = append(ops, fmt.Sprintf("g stream %d", rng.Intn(nsubs)))
		case x < 38 && len(ops) > n/2:
			// a whole Group.Shutdown (skipped on both sides while the group has pending children); pools below it reject from now on
			ops = append(ops, fmt.Sprintf("g shutdown %d", hx.Pick(rng, groups)))
		case x < 40:
			if len(ops) > n/2 && rng.Bool() {
				ops = append(ops, fmt.Sprintf("g restart %d", hx.Pick(rng, pools))) // skipped on both sides unless the pool is stopped
			} else {
				ops = append(ops, fmt.Sprintf("g isshut %d", hx.Pick(rng, groups)))
			}
		case x < 60:
			q := hx.Pick(rng, pools)
			ops = append(ops, fmt.Sprintf("g inc %d", q))
			pend[q]++
		case x < 85:
			q := hx.Pick(rng, pools)
			if pend[q] > 0 {
				pend[q]--
			}
			ops = append(ops, fmt.Sprintf("g dec %d", q)) // also emitted at zero: both sides must skip
		case x < 93:
			ops = append(ops, fmt.Sprintf("g wait %d", hx.Pick(rng, groups)))
		case x < 96:
			ops = append(ops, fmt.Sprintf("g waitp %d", hx.Pick(rng, groups)))
		case x < 98:
			ops = append(ops, fmt.Sprintf("g root %d", hx.Pick(rng, groups)))
		default:
			ops = append(ops, fmt.Sprintf("g pools %d", hx.Pick(rng, groups)))
		}
	}
	for k := 0; k < nsubs; k++ {
		ops = append(ops, fmt.Sprintf("g stream %d", k))
	}

	return ops
}

// groupStress: a tree of pools whose tasks submit tasks to other pools; after all external submissions returned,
// WaitChildren on the root must only return when every pool is idle and every accepted task has run.
func groupStress(r *result, seed uint64) {
	rng := hx.NewRng(seed)
	root := workerpool.NewGroup("root")
	var pools []*workerpool.WorkerPool
	var usubs []*gsub
	for g := 0; g < 2; g++ {
		sub := root.CreateGroup(fmt.Sprintf("g%d", g))
		if rng.Bool() {
			sub = sub.CreateGroup("deep")
		}
		for p := 0; p < 2; p++ {
			opts := []options.Option[workerpool.WorkerPool]{workerpool.WithWorkerCount(rng.Range(1, 3))}
			if rng.Bool() {
				// a user subscriber attached through an option, before the group's own subscription
				sb := &gsub{node: len(pools), active: true}
				opts = append(opts, func(w *workerpool.WorkerPool) { sb.unsub = w.PendingTasksCounter.Subscribe(sb.callback) })
				usubs = append(usubs, sb)
			}
			pools = append(pools, sub.CreatePool(fmt.Sprintf("p%d", p), opts...))
		}
	}
	// subscription churn on the pools' counters while the tasks run: unsubscribe an old observer, attach a new one
	churnDone := make(chan struct{})
	stopChurn := make(chan struct{})
	crng, _ := rng.Fork()
	var umu sync.Mutex
	go func() {
		defer close(churnDone)
		for i := 0; ; i++ {
			select {
			case <-stopChurn:
				return
			default:
			}
			umu.Lock()
			if len(usubs) > 0 && crng.Bool() {
				old := usubs[crng.Intn(len(usubs))]
				if old.active {
					old.unsub()
					old.active = false
				}
			}
			q := crng.Intn(len(pools))
			// the value at subscription time is not known exactly under concurrency: taken from the first report
			sb := &gsub{node: q, active: true, v0: -1}
			sb.unsub = pools[q].PendingTasksCounter.Subscribe(sb.callback)
			usubs = append(usubs, sb)
			umu.Unlock()
			time.Sleep(200 * time.Microsecond)
			if i > 200 {
				return
			}
		}
	}()
	var submitted, ran atomic.Int64
	var submit func(depth int, rs *hx.Rng)
	var mu sync.Mutex
	submit = func(depth int, rs *hx.Rng) {
		mu.Lock()
		pool := hx.Pick(rs, pools)
		kids := 0
		if depth > 0 {
			kids = rs.Intn(3)
		}
		sub, _ := rs.Fork()
		mu.Unlock()
		submitted.Add(1)
		pool.Submit(func() {
			for i := 0; i < kids; i++ {
				submit(depth-1, sub)
			}
			ran.Add(1)
		})
	}
	var wg sync.WaitGroup
	for s := 0; s < 3; s++ {
		rs, _ := rng.Fork()
		n := rng.Range(1, 20)
		wg.Add(1)
		go func() {
			defer wg.Done()
			for i := 0; i < n; i++ {
				submit(3, rs)
			}
		}()
	}
	if !guarded(r, nil, "group-submitters", wg.Wait) {
		return
	}
	if !within(bound, root.WaitChildren) {
		r.fail("termination", "root.WaitChildren did not return", map[string]string{"api": "workerpool.Group.WaitChildren", "effect": "hang"})

		return
	}
	for i, p := range pools {
		if v := p.PendingTasksCounter.Get(); v != 0 {
			r.fail("group-wait", fmt.Sprintf("root.WaitChildren returned while pool %d has %d pending tasks", i, v),
				map[string]string{"api": "workerpool.Group.WaitChildren", "effect": "returned-with-pending-below"})
		}
	}
	if s, d := submitted.Load(), ran.Load(); s != d {
		r.fail("group-wait", fmt.Sprintf("root.WaitChildren returned after %d of %d submitted tasks ran", d, s),
			map[string]string{"api": "workerpool.Group.WaitChildren", "effect": "returned-with-unfinished-tasks"})
	}
	close(stopChurn)
	<-churnDone
	// every observer that is still attached has seen a gap-free stream ending at zero
	for k, sb := range usubs {
		sb.mu.Lock()
		if sb.v0 < 0 && len(sb.stream) > 0 {
			sb.v0 = sb.stream[0][0]
		} else if sb.v0 < 0 {
			sb.v0 = 0
		}
		sb.mu.Unlock()
		if ok, why := sb.ok(pools[sb.node].PendingTasksCounter.Get()); !ok {
			r.fail("subscriber-stream", fmt.Sprintf("subscriber %d of pool %d saw %s: %s", k, sb.node, sb, why),
				map[string]string{"api": "syncutils.Counter.Subscribe", "effect": "subscriber-stream-wrong"})
		}
	}
	r.counts["group-stress-subscribers"] += len(usubs)
	r.counts["group-stress-tasks"] += int(submitted.Load())
	if !within(bound, root.Shutdown) {
		r.fail("termination", "root.Shutdown did not return", map[string]string{"api": "workerpool.Group.Shutdown", "effect": "hang"})
	}
	patience := bound
	for i, p := range pools {
		t0 := time.Now()
		if !withinPool(p, func() time.Duration { return time.Since(t0) }, patience, p.ShutdownComplete.Wait) {
			sig := classifyPool(p, "complete")
			sig["via"] = "Group.Shutdown"
			r.fail("termination", fmt.Sprintf("pool %d not complete after Group.Shutdown; %v", i, sig), sig)
			patience = 2 * time.Second
		}
	}
}

// runGroup executes "group seq SEED N" (sequential differential script) or "group stress SEED".
func runGroup(line string) *result {
	r := newResult()
	f := strings.Fields(line)
	r.lines = append(r.lines, [2]string{line, "ok"})
	if len(f) < 3 {
		return r
	}
	seed, _ := strconv.ParseUint(f[2], 10, 64)
	switch f[1] {
	case "seq":
		n := 30
		if len(f) > 3 {
			n, _ = strconv.Atoi(f[3])
		}
		t := &gtree{}
		ops := genGroupOps(hx.NewRng(seed), n)
		for _, op := range ops {
			r.lines = append(r.lines, [2]string{op, t.exec(r, op)})
			r.count("g:" + strings.Fields(op)[1])
			if len(r.fails) > 0 {
				break // the tree is off; every further wait would run into its bound
			}
		}
		t.finish(r)
		r.nontriv = line
	case "sdwin":
		// "group sdwin K VARIANT": Submit in the window of Group.shutdown (flag set, pool not yet stopped), see sdwinOps
		k, variant := int(seed), 0
		if len(f) > 3 {
			variant, _ = strconv.Atoi(f[3])
		}
		if k > 8 {
			k = 8
		}
		t := &gtree{}
		for _, op := range sdwinOps(k, variant) {
			r.lines = append(r.lines, [2]string{op, t.exec(r, op)})
			r.count("g:" + strings.Fields(op)[1])
			if len(r.fails) > 0 {
				break
			}
		}
		for _, n := range t.nodes {
			if n.busy {
				close(n.park.release)
				close(n.park.gate)
				n.busy = false
			}
		}
		t.finish(r)
		r.nontriv = line
	case "restart":
		// "group restart V": a pool stopped by Group.Shutdown is started again by the user (variant 1: inside a sub-group)
		t := &gtree{}
		for _, op := range restartOps(int(seed)) {
			r.lines = append(r.lines, [2]string{op, t.exec(r, op)})
			r.count("g:" + strings.Fields(op)[1])
			if len(r.fails) > 0 {
				break
			}
		}
		t.finish(r)
		r.nontriv = line
	case "stress":
		groupStress(r, seed)
		r.count("g:stress")
		r.nontriv = line
	}

	return r
}

// sdwinOps: group 0 (variant 1: with a sub-group 1 that holds the pools), pool A whose first Submit parks inside a user
// subscriber, k filler pools, pool B.  Group.Shutdown(0) is called while A's Submit is parked: the flags are set, A's
// Shutdown() blocks on A's pool lock, the pools after A still run.  A task submitted to B now is accepted and must count
// in every group above B — WaitChildren must block — although the group is "shut down".
func sdwinOps(k, variant int) []string {
	ops := []string{"g newgroup -"}
	g := 0
	if variant == 1 {
		ops = append(ops, "g newgroup 0")
		g = 1
	}
	op := func(format string, a ...any) { ops = append(ops, fmt.Sprintf(format, a...)) }
	a := g + 1
	op("g newpoolpark %d", g)
	for i := 0; i <= k; i++ {
		op("g newpool %d", g)
	}
	b := a + k + 1
	op("g sdbegin 0")
	op("g sdflag 0")
	op("g sdflag %d", g)
	op("g isshut %d", g)
	op("g incw %d", b)
	op("g wait 0")
	if k > 0 {
		op("g incw %d", a+1)
	}
	op("g wait %d", g)
	op("g incdone %d", a)
	for q := a; q <= b; q++ {
		op("g sdstop %d", q)
	}
	op("g inc %d", b)
	op("g wait 0")
	op("g dec %d", a)
	op("g dec %d", b)
	op("g wait %d", g)
	op("g dec %d", a+1)
	op("g dec %d", b)
	op("g wait 0")
	op("g shutdown 0")
	op("g newpool %d", g)
	op("g inc %d", b+1)
	op("g dec %d", b+1)

	return ops
}

func groupCorpus() []string {
	return []string{"group seq 1 40", "group seq 2 60", "group stress 1", "group stress 2",
		"group sdwin 0 0", "group sdwin 1 1", "group sdwin 3 0", "group sdwin 6 1", "group restart 0", "group restart 1"}
}

// restartOps: a group (variant 1: root 0 with sub-group 1) with two pools; a task runs and finishes; Group.Shutdown of the
// root stops the pools (a Submit is rejected); the user starts the first pool again: it accepts, the task counts up to the
// root and WaitChildren blocks; a restart of a running pool / of a group is skipped; a second Group.Shutdown is a no-op (the
// flag is set) and leaves the restarted pool running; the other pool stays stopped.
func restartOps(variant int) []string {
	ops := []string{"g newgroup -"}
	g := 0
	if variant == 1 {
		ops = append(ops, "g newgroup 0")
		g = 1
	}
	a, b := g+1, g+2
	ops = append(ops, fmt.Sprintf("g newpool %d", g), fmt.Sprintf("g newpool %d", g),
		"g sub 0", fmt.Sprintf("g sub %d", a), // observers of the root's and the pool's counter: a rejected inc must not reach them
		fmt.Sprintf("g inc %d", a), fmt.Sprintf("g restart %d", a), fmt.Sprintf("g dec %d", a),
		"g shutdown 0", "g isshut 0", fmt.Sprintf("g isshut %d", g),
		fmt.Sprintf("g inc %d", a), fmt.Sprintf("g restart %d", a), fmt.Sprintf("g restart %d", a), fmt.Sprintf("g restart %d", g),
		fmt.Sprintf("g inc %d", a), "g wait 0", fmt.Sprintf("g inc %d", b), fmt.Sprintf("g dec %d", a), "g wait 0",
		"g shutdown 0", fmt.Sprintf("g inc %d", a), fmt.Sprintf("g inc %d", b), "g wait 0", fmt.Sprintf("g dec %d", a), "g wait 0", "g waitp 0", "g stream 0", "g stream 1")

	return ops
}

func genGroup(rng *hx.Rng) string {
	if rng.Chance(1, 6) {
		return fmt.Sprintf("group sdwin %d %d", rng.Intn(7), rng.Intn(2))
	}
	if rng.Bool() {
		return fmt.Sprintf("group stress %d", rng.U64()%1000000)
	}

	return fmt.Sprintf("group seq %d %d", rng.U64()%1000000, rng.Range(20, 80))
}
