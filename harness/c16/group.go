package main

import "verifharness/hx"

func runGroup(line string) *result {
	r := newResult()
	r.lines = append(r.lines, [2]string{line, "ok"})
	return r
}
func groupCorpus() []string       { return nil }
func genGroup(rng *hx.Rng) string { return "group stub" }
