package main

import (
	"encoding/json"
	"os"
	"sort"
	"strings"
	"sync"
	"time"

	"verifharness/hx"
)

// Hang control.  Every blocking call into the code under test is guarded by a watchdog (`bound`, 30 s: generous, a
// slow machine must never look like a hang).  On a tree that really hangs, every further case of the same kind would
// wait out the same watchdogs again, so that a run takes a quarter of an hour and still executes only a fraction of
// its cases.  Therefore, and ONLY after a hang has been confirmed with the full bound (which is an oracle failure,
// i.e. the tree is already in violation — nothing here changes the limits that apply to a tree that does not hang):
//
//   - the long bound of all later waits shrinks to `afterHangBound`;
//   - a kind of case (`run racing`, `group seq`, `hammer`, ...) that has hung `skipAfter` times with one and the same
//     signature is skipped from then on;
//   - the parent gives the remaining cases `grace` of wall time, after which no new case is started (the evidence
//     counts them as `skipped:hang-budget`);
//   - a case that takes longer than `caseLimit` as a whole (a blocking call that no watchdog guards) is given up by the
//     child (`termination`, effect `case-exceeded-its-time-limit`) and its goroutine is leaked.
//
// The state travels from child to parent as `hang` records in the result stream and back to the next child through
// the environment (`C16_HANGCTL`).

const (
	afterHangBound = 2500 * time.Millisecond
	skipAfter      = 3
)

// hangEnv is the part of the state that is handed from the parent to a child.
type hangEnv struct {
	Confirmed bool           `json:"confirmed"`
	Kinds     map[string]int `json:"kinds,omitempty"` // "kind|signature" -> cases of that kind that hung with that signature
	StopAtMs  int64          `json:"stopAtMs,omitempty"` // no new case after that moment (0: not yet fixed)
	GraceMs   int64          `json:"graceMs,omitempty"`  // wall time the remaining cases get after the first confirmed hang
	Scale     int            `json:"scale,omitempty"`
}

type hangCtl struct {
	mu   sync.Mutex
	env  hangEnv
	emit func(wire)
}

var hangs = &hangCtl{env: hangEnv{Kinds: map[string]int{}, Scale: 1}}

func (h *hangCtl) load() {
	if s := os.Getenv("C16_HANGCTL"); s != "" {
		var e hangEnv
		if json.Unmarshal([]byte(s), &e) == nil {
			if e.Kinds == nil {
				e.Kinds = map[string]int{}
			}
			if e.Scale < 1 {
				e.Scale = 1
			}
			h.env = e
		}
	}
}

func (h *hangCtl) confirmed() bool {
	h.mu.Lock()
	defer h.mu.Unlock()

	return h.env.Confirmed
}

// eff is the bound that is in force for a wait that was written with bound d.
func eff(d time.Duration) time.Duration {
	if d >= bound && hangs.confirmed() {
		return afterHangBound
	}

	return d
}

// expired is called when a wait written with the long bound ran out (or a wedged pool was recognised).
func (h *hangCtl) expired(d time.Duration) {
	if d < bound {
		return
	}
	h.mu.Lock()
	first := !h.env.Confirmed
	h.env.Confirmed = true
	if h.env.StopAtMs == 0 && h.env.GraceMs > 0 {
		h.env.StopAtMs = time.Now().UnixMilli() + h.env.GraceMs
	}
	emit := h.emit
	h.mu.Unlock()
	if first && emit != nil {
		emit(wire{Idx: -1, Hang: true})
	}
}

// caseLimit: the time a whole case may take before the child gives it up.
func (h *hangCtl) caseLimit() time.Duration {
	h.mu.Lock()
	defer h.mu.Unlock()
	if h.env.Confirmed {
		return 60 * time.Second
	}
	if h.env.Scale > 1 {
		return 40 * time.Minute
	}

	return 4 * time.Minute
}

func descKind(desc string) string {
	f := strings.Fields(desc)
	switch {
	case len(f) >= 2 && (f[0] == "run" || f[0] == "group" || f[0] == "sync"):
		return f[0] + " " + f[1]
	case len(f) >= 1:
		return f[0]
	}

	return "?"
}

func sigKey(sig map[string]string) string {
	keys := make([]string, 0, len(sig))
	for k := range sig {
		keys = append(keys, k)
	}
	sort.Strings(keys)
	var b strings.Builder
	for _, k := range keys {
		b.WriteString(k + "=" + sig[k] + ";")
	}

	return b.String()
}

// hangKeys: the "kind|signature" keys of the termination findings of a case (each once).
func hangKeys(desc string, fails []hx.Finding) []string {
	seen := map[string]bool{}
	var out []string
	for _, f := range fails {
		if f.Oracle != "termination" {
			continue
		}
		k := descKind(desc) + "|" + sigKey(f.Signature)
		if !seen[k] {
			seen[k] = true
			out = append(out, k)
		}
	}

	return out
}

func (h *hangCtl) note(desc string, fails []hx.Finding) {
	keys := hangKeys(desc, fails)
	if len(keys) == 0 {
		return
	}
	h.mu.Lock()
	defer h.mu.Unlock()
	for _, k := range keys {
		h.env.Kinds[k]++
	}
}

// skip says why a case is not started any more ("" = it is started).
func (h *hangCtl) skip(desc string) string {
	h.mu.Lock()
	defer h.mu.Unlock()
	if !h.env.Confirmed {
		return ""
	}
	if h.env.StopAtMs > 0 && time.Now().UnixMilli() > h.env.StopAtMs {
		return "hang-budget"
	}
	prefix := descKind(desc) + "|"
	for k, n := range h.env.Kinds {
		if n >= skipAfter && strings.HasPrefix(k, prefix) {
			return "same-hang-" + strings.ReplaceAll(descKind(desc), " ", "-")
		}
	}

	return ""
}

func (h *hangCtl) snapshot() hangEnv {
	h.mu.Lock()
	defer h.mu.Unlock()
	e := h.env
	e.Kinds = map[string]int{}
	for k, v := range h.env.Kinds {
		e.Kinds[k] = v
	}

	return e
}
