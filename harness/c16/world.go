package main

import (
	"fmt"
	"strings"
	"sync"
	"sync/atomic"
	"time"

	"verifharness/hx"

	"github.com/iotaledger/hive.go/runtime/options"
	"github.com/iotaledger/hive.go/runtime/syncutils"
	"github.com/iotaledger/hive.go/runtime/workerpool"
)

// bound for waits that are expected to return; shortBound for waits that a forced schedule expects to hang.
var (
	bound      = 30 * time.Second
	shortBound = 1500 * time.Millisecond
)

// world is one pool under observation together with its event log.
type world struct {
	w      int
	cancel bool
	pool   *workerpool.WorkerPool

	mu        sync.Mutex
	events    []string
	calls     int
	lastEvent time.Time

	// independent oracle state (per task)
	runs     []*atomic.Int32
	accepted []bool
	rejected []bool

	silent bool // the pool was created without WithPanicOnSubmitAfterShutdown: the verdict of a Submit is resolved at the end

	completed atomic.Bool // a shutdown completed and no Start was called since (set by the controller)
	ranAfter  atomic.Int32
	hangs     []string
}

func newWorld(w int, cancel bool) *world { return newWorldOpt(w, cancel, true) }

// newWorldOpt: panicOnReject = WithPanicOnSubmitAfterShutdown (false: a rejected Submit returns silently; the harness
// then knows the verdict of a Submit only where the schedule determines it).
func newWorldOpt(w int, cancel, panicOnReject bool) *world {
	wd := newWorldOn(workerpool.New("c16", workerpool.WithWorkerCount(w), workerpool.WithCancelPendingTasksOnShutdown(cancel),
		workerpool.WithPanicOnSubmitAfterShutdown(panicOnReject)), w, cancel)
	wd.silent = !panicOnReject

	return wd
}

// resolveSilent: on a pool without the panic option a Submit returns the same way whether the task was accepted or not;
// the event `ret T` logged at its return is turned into `acc T` / `rej T` once the case is over: without
// cancel-on-shutdown a task was accepted if and only if it ran (silent mode is only used without cancel).
func (wd *world) resolveSilent() {
	wd.mu.Lock()
	defer wd.mu.Unlock()
	for i, e := range wd.events {
		var t int
		if n, _ := fmt.Sscanf(e, "ret %d", &t); n == 1 && t < len(wd.runs) {
			if wd.runs[t].Load() > 0 {
				wd.accepted[t] = true
				wd.events[i] = fmt.Sprintf("acc %d", t)
			} else {
				wd.rejected[t] = true
				wd.events[i] = fmt.Sprintf("rej %d", t)
			}
		}
	}
}

// submitSilentRejected: a Submit on a pool without the panic option at a moment where the schedule says it must be
// rejected (stopped and complete, nobody else acts): the call returns silently, the task must never run and the counter
// must not move; logged as call/rej.
func (wd *world) submitSilentRejected() {
	wd.mu.Lock()
	t := wd.calls
	wd.calls++
	wd.events = append(wd.events, fmt.Sprintf("call %d", t))
	run := new(atomic.Int32)
	wd.runs = append(wd.runs, run)
	wd.accepted = append(wd.accepted, false)
	wd.rejected = append(wd.rejected, true)
	wd.mu.Unlock()
	var p string
	if !wd.within(bound, func() {
		p = hx.Safely(func() {
			wd.pool.Submit(func() {
				run.Add(1)
				wd.log(fmt.Sprintf("rs %d", t))
				wd.log(fmt.Sprintf("re %d", t))
			})
		})
	}) {
		wd.hangs = append(wd.hangs, "submit")

		return
	}
	if p != "" {
		wd.log("panic " + p)
	}
	wd.log(fmt.Sprintf("rej %d", t))
}

// newGroupWorld creates the pool through Group.CreatePool: explicit is "true"/"false" (the caller passes
// WithCancelPendingTasksOnShutdown explicitly) or "none" (the group's default, cancel = true, applies).
func newGroupWorld(w int, explicit string) *world {
	g := workerpool.NewGroup("c16g")
	opts := []options.Option[workerpool.WorkerPool]{workerpool.WithWorkerCount(w), workerpool.WithPanicOnSubmitAfterShutdown(true)}
	cancel := true
	switch explicit {
	case "true":
		opts = append(opts, workerpool.WithCancelPendingTasksOnShutdown(true))
	case "false":
		opts = append(opts, workerpool.WithCancelPendingTasksOnShutdown(false))
		cancel = false
	}

	return newWorldOn(g.CreatePool("p", opts...), w, cancel)
}

func newWorldOn(pool *workerpool.WorkerPool, w int, cancel bool) *world {
	wd := &world{w: w, cancel: cancel}
	wd.pool = pool
	wd.pool.PendingTasksCounter.Subscribe(func(oldValue, newValue int) {
		if newValue > oldValue {
			wd.log(fmt.Sprintf("up %d", newValue))
		} else {
			wd.log(fmt.Sprintf("dn %d", newValue))
		}
	})

	return wd
}

func (wd *world) log(e string) {
	wd.mu.Lock()
	wd.events = append(wd.events, e)
	wd.lastEvent = time.Now()
	wd.mu.Unlock()
}

// withinPool waits for f like within, but gives up early when the pool is wedged in a state that one of the two
// recorded life-cycle windows leaves behind and nothing has happened for a while:
//   - not running, a task queued and counted (Submit window): a dispatcher still in its loop would pop it at once;
//   - not running, nothing queued, nothing pending (lost shutdown signal) — this is also the normal state in the last
//     microseconds of a shutdown, so the patience is longer.
func withinPool(pool *workerpool.WorkerPool, idle func() time.Duration, d time.Duration, f func()) bool {
	done := make(chan struct{})
	go func() {
		defer close(done)
		f()
	}()
	t0 := time.Now()
	for {
		if waitChan(done, 250*time.Millisecond) {
			return true
		}
		if time.Since(t0) > eff(d) {
			hangs.expired(d)

			return false
		}
		if i := idle(); i > 4*time.Second {
			st := poolStateOf(pool)
			if st.readable && st.running == "false" && st.queued > 0 && st.pending > 0 && idle() > 4*time.Second {
				hangs.expired(d)

				return false
			}
			if st.readable && st.running == "false" && st.queued == 0 && st.pending == 0 && idle() > 10*time.Second {
				hangs.expired(d)

				return false
			}
		}
	}
}

func (wd *world) within(d time.Duration, f func()) bool {
	if len(wd.hangs) > 0 && d > time.Second {
		d = time.Second // this pool has already hung in this case (the finding is made): it is not given another 30 s per call
	}

	return withinPool(wd.pool, func() time.Duration {
		wd.mu.Lock()
		defer wd.mu.Unlock()

		return time.Since(wd.lastEvent)
	}, d, f)
}

// body is a task's behaviour: the tasks it submits, and an optional gate it waits for before returning.
type body struct {
	kids []body
	gate chan struct{}
	// gateFirst: wait for the gate before (not after) submitting the kids, and ask IsRunning in between
	gateFirst bool
	spin      int
}

// submit calls the real Submit for a fresh task id and logs call/acc/rej.
func (wd *world) submit(b body) (accepted bool) {
	wd.mu.Lock()
	t := wd.calls
	wd.calls++
	wd.events = append(wd.events, fmt.Sprintf("call %d", t))
	run := new(atomic.Int32)
	wd.runs = append(wd.runs, run)
	wd.accepted = append(wd.accepted, false)
	wd.rejected = append(wd.rejected, false)
	wd.mu.Unlock()

	p := hx.Safely(func() {
		wd.pool.Submit(func() {
			run.Add(1)
			if wd.completed.Load() {
				wd.ranAfter.Add(1)
			}
			wd.log(fmt.Sprintf("rs %d", t))
			for i := 0; i < b.spin; i++ {
				spinSink.Add(1)
			}
			if b.gateFirst && b.gate != nil {
				<-b.gate
				wd.pool.IsRunning()
			}
			for _, k := range b.kids {
				wd.submit(k)
			}
			if b.gate != nil && !b.gateFirst {
				<-b.gate
			}
			wd.log(fmt.Sprintf("re %d", t))
		}, stackTraceArg(t)...)
	})
	wd.mu.Lock()
	defer wd.mu.Unlock()
	if p == "" && wd.silent {
		wd.events = append(wd.events, fmt.Sprintf("ret %d", t))

		return true
	}
	if p == "" {
		wd.accepted[t] = true
		wd.events = append(wd.events, fmt.Sprintf("acc %d", t))

		return true
	}
	if strings.Contains(p, "is not running") {
		wd.rejected[t] = true
		wd.events = append(wd.events, fmt.Sprintf("rej %d", t))

		return false
	}
	wd.events = append(wd.events, "panic "+p)

	return false
}

var spinSink atomic.Int64

// stackTraceArg: every third Submit passes the optional stack-trace argument (one or two strings: only the first counts).
func stackTraceArg(t int) []string {
	switch t % 3 {
	case 1:
		return []string{"c16 trace"}
	case 2:
		return []string{"c16 trace", "ignored"}
	}

	return nil
}

// within runs f in its own goroutine and reports whether it returned within d (a hung f is leaked).
func within(d time.Duration, f func()) bool {
	done := make(chan struct{})
	go func() {
		defer close(done)
		f()
	}()
	if waitDone(done, d) {
		return true
	}
	hangs.expired(d)

	return false
}

// waitDone waits for c up to the bound that is in force for a wait written with bound d — re-evaluated while waiting:
// a long wait that is in flight when a hang is confirmed elsewhere in the process is cut down to the shortened bound too.
func waitDone(c <-chan struct{}, d time.Duration) bool {
	if d < bound {
		t := time.NewTimer(d)
		defer t.Stop()
		select {
		case <-c:
			return true
		case <-t.C:
			return false
		}
	}
	start := time.Now()
	tick := time.NewTicker(200 * time.Millisecond)
	defer tick.Stop()
	for {
		select {
		case <-c:
			return true
		case <-tick.C:
			if time.Since(start) > eff(d) {
				return false
			}
		}
	}
}

// guarded runs a call into the code under test that is expected to return at once; a call that does not return within
// the bound is the finding `termination` (signature from the pool's state).
func guarded(r *result, pool *workerpool.WorkerPool, what string, f func()) bool {
	if within(bound, f) {
		return true
	}
	sig := map[string]string{"api": "workerpool", "effect": "hang", "wait": what}
	if pool != nil {
		sig = classifyPool(pool, what)
	}
	r.fail("termination", "call '"+what+"' did not return within its bound; "+fmt.Sprint(sig), sig)

	return false
}

// submitG: a Submit made by the case's own goroutine, guarded like every other call (a Submit blocks when the pool lock
// is write-held or a writer is queued).
func (wd *world) submitG(b body) bool {
	acc := false
	if !wd.within(bound, func() { acc = wd.submit(b) }) {
		wd.hangs = append(wd.hangs, "submit")

		return false
	}

	return acc
}

func (wd *world) start(d time.Duration) bool {
	wd.log("startcall")
	wd.completed.Store(false)
	if !wd.within(d, func() { wd.pool.Start() }) {
		wd.hangs = append(wd.hangs, "start")

		return false
	}
	wd.log("startret")

	return true
}

func (wd *world) shutdown(d time.Duration) bool {
	wd.log("sdcall")
	if !wd.within(d, func() { wd.pool.Shutdown() }) {
		wd.hangs = append(wd.hangs, "shutdown")

		return false
	}
	wd.log("sdret")

	return true
}

func (wd *world) waitComplete(d time.Duration) bool {
	if !wd.within(d, func() { wd.pool.ShutdownComplete.Wait() }) {
		wd.hangs = append(wd.hangs, "complete")

		return false
	}
	wd.completed.Store(true)
	wd.log("complete")

	return true
}

func (wd *world) waitZero(d time.Duration) bool {
	if !wd.within(d, func() { wd.pool.PendingTasksCounter.WaitIsZero() }) {
		wd.hangs = append(wd.hangs, "zero")

		return false
	}

	return true
}

// state inspects the pool without ever blocking the caller for long.
type poolState struct {
	running  string
	pending  int
	queued   int
	readable bool
}

func (wd *world) state() poolState { return poolStateOf(wd.pool) }

var unreadablePools sync.Map

func poolStateOf(pool *workerpool.WorkerPool) poolState {
	st := poolState{running: "unreadable", pending: -1, queued: -1}
	patience := 2 * time.Second
	if _, seen := unreadablePools.Load(pool); seen && hangs.confirmed() {
		patience = 100 * time.Millisecond // found unreadable before, on a tree that is known to hang
	}
	ok := within(patience, func() {
		r := pool.IsRunning()
		p := pool.PendingTasksCounter.Get()
		q := pool.Queue.Size()
		st = poolState{running: fmt.Sprint(r), pending: p, queued: q, readable: true}
	})
	if !ok {
		unreadablePools.Store(pool, true)

		return poolState{running: "unreadable", pending: -1, queued: -1}
	}

	return st
}

// outcome prints the canonical summary that the Lean model prints for the same named schedule.
func (wd *world) outcome(complete, zero bool) string {
	st := wd.state()
	wd.mu.Lock()
	defer wd.mu.Unlock()
	acc, rej, runs := 0, 0, 0
	for i := range wd.accepted {
		if wd.accepted[i] {
			acc++
		}
		if wd.rejected[i] {
			rej++
		}
		runs += int(wd.runs[i].Load())
	}
	yn := func(b bool) string {
		if b {
			return "yes"
		}

		return "hang"
	}

	return fmt.Sprintf("running=%s pending=%d queued=%d accepted=%d rejected=%d runs=%d complete=%s zero=%s",
		st.running, st.pending, st.queued, acc, rej, runs, yn(complete), yn(zero))
}

// classify turns a hang / stuck counter into a finding signature: the two life-cycle windows recorded as known
// findings are recognised by the state they leave behind, anything else is reported with its own signature.
func (wd *world) classify(what string) map[string]string { return classifyPool(wd.pool, what) }

func classifyPool(pool *workerpool.WorkerPool, what string) map[string]string {
	st := poolStateOf(pool)
	switch {
	case !st.readable && what == "start":
		return map[string]string{"api": "workerpool.Start", "effect": "pool-lock-held-while-waiting", "wait": what}
	case !st.readable:
		return map[string]string{"api": "workerpool", "effect": "pool-lock-held-for-ever", "wait": what}
	case st.running == "false" && st.queued > 0 && st.pending > 0:
		return map[string]string{"api": "workerpool.Submit", "window": "running-check..push", "effect": "pushed-after-dispatcher-left-its-loop"}
	case st.running == "false" && st.queued == 0 && st.pending == 0 && what == "complete":
		return map[string]string{"api": "syncutils.Stack.PopOrWait", "window": "condition..wait", "effect": "shutdown-signal-lost"}
	}

	return map[string]string{"api": "workerpool", "effect": "hang", "wait": what,
		"state": fmt.Sprintf("running=%s queued>0=%v pending>0=%v", st.running, st.queued > 0, st.pending > 0)}
}

// hooks: one global dispatcher per hook, parking only registered pools/queues.
type park struct {
	entered chan struct{}
	release chan struct{}
	armed   atomic.Bool
	observe bool         // never blocks, only counts the passages
	hits    atomic.Int32 // passages of the hooked program point
}

func newPark() *park {
	p := &park{entered: make(chan struct{}), release: make(chan struct{})}
	p.armed.Store(true)

	return p
}

func (p *park) hit() {
	p.hits.Add(1)
	if p.observe {
		return
	}
	if p.armed.CompareAndSwap(true, false) {
		close(p.entered)
		select {
		case <-p.release:
		case <-time.After(2 * bound):
		}
	}
}

var (
	hookMu      sync.Mutex
	startParks  = map[*workerpool.WorkerPool]*park{}
	workParks   = map[*workerpool.WorkerPool]*park{}
	submitParks = map[*workerpool.WorkerPool]*park{}
	popParks    = map[any]*park{}
)

func installHooks() {
	workerpool.VerifSubmitHook = func(w *workerpool.WorkerPool) {
		hookMu.Lock()
		p := submitParks[w]
		hookMu.Unlock()
		if p != nil {
			p.hit()
		}
	}
	workerpool.VerifHasWorkHook = func(w *workerpool.WorkerPool) {
		hookMu.Lock()
		p := workParks[w]
		hookMu.Unlock()
		if p != nil {
			p.hit()
		}
	}
	workerpool.VerifStartHook = func(w *workerpool.WorkerPool) {
		hookMu.Lock()
		p := startParks[w]
		hookMu.Unlock()
		if p != nil {
			p.hit()
		}
	}
	syncutils.VerifPopOrWaitHook = func(stack any) {
		hookMu.Lock()
		p := popParks[stack]
		hookMu.Unlock()
		if p != nil {
			p.hit()
		}
	}
}

func parkHasWork(w *workerpool.WorkerPool) *park {
	p := newPark()
	hookMu.Lock()
	workParks[w] = p
	hookMu.Unlock()

	return p
}

func parkStart(w *workerpool.WorkerPool) *park {
	p := newPark()
	hookMu.Lock()
	startParks[w] = p
	hookMu.Unlock()

	return p
}

func parkSubmit(w *workerpool.WorkerPool) *park {
	p := newPark()
	hookMu.Lock()
	submitParks[w] = p
	hookMu.Unlock()

	return p
}

// observePop counts the dispatcher's passages through the PopOrWait gap without delaying it.
func observePop(stack any) *park {
	p := newPark()
	p.observe = true
	hookMu.Lock()
	popParks[stack] = p
	hookMu.Unlock()

	return p
}

// settled waits until the dispatcher has passed the gap n times and gives it a moment to register on the condition:
// a forced schedule that is about one window must not stumble into the other one by chance.
func (p *park) settled(n int32) {
	waitFor(bound, func() bool { return p.hits.Load() >= n })
	time.Sleep(30 * time.Millisecond)
}

func parkPop(stack any) *park {
	p := newPark()
	hookMu.Lock()
	popParks[stack] = p
	hookMu.Unlock()

	return p
}

func unpark(w *workerpool.WorkerPool) {
	hookMu.Lock()
	delete(startParks, w)
	delete(workParks, w)
	delete(submitParks, w)
	delete(popParks, any(w.Queue))
	hookMu.Unlock()
}

func waitChan(c chan struct{}, d time.Duration) bool {
	if waitDone(c, d) {
		return true
	}
	hangs.expired(d)

	return false
}
