package main

import (
	"encoding/json"
	"fmt"
	"os"
	"os/exec"
	"strconv"
	"strings"
	"sync/atomic"
	"time"

	"github.com/iotaledger/hive.go/runtime/workerpool"
)

// taskpanic W CANCEL — a task whose workerFunc panics.  The pool does not recover (Task.run has no deferred function):
// the panic leaves the worker goroutine and ends the process, which is why the case runs in a process of its own (this
// binary with --taskpanic-inner).  Outcomes:
//
//	died      the process ended with the task's panic (what the skeletons say; the Lean driver answers the same)
//	survived  the pool swallowed the panic: then the property must hold all the same — the panicked task counts as
//	          finished, the counter returns to zero, Shutdown + ShutdownComplete.Wait terminate, the other tasks ran once
//
// Anything else (the process died of something else, hung, or survived with a stuck counter) is a finding.
const taskPanicValue = "c16-task-panic"

type taskPanicReport struct {
	Zero     bool  `json:"zero"`
	Complete bool  `json:"complete"`
	Pending  int   `json:"pending"`
	Runs     []int `json:"runs"`
}

func taskPanicInner(wArg, cancelArg string) {
	w, _ := strconv.Atoi(wArg)
	pool := workerpool.New("taskpanic", workerpool.WithWorkerCount(w), workerpool.WithCancelPendingTasksOnShutdown(cancelArg == "true"))
	pool.Start()
	var runs [3]atomic.Int32
	pool.Submit(func() { runs[0].Add(1) })
	pool.Submit(func() { runs[1].Add(1); panic(taskPanicValue) })
	pool.Submit(func() { runs[2].Add(1) })
	waitFor(10*time.Second, func() bool { return runs[1].Load() == 1 })
	time.Sleep(300 * time.Millisecond) // the panic unwinds the worker goroutine: a pool that does not recover is dead by now
	rep := taskPanicReport{}
	rep.Zero = within(10*time.Second, pool.PendingTasksCounter.WaitIsZero)
	done := within(10*time.Second, func() { pool.Shutdown() })
	rep.Complete = done && within(10*time.Second, pool.ShutdownComplete.Wait)
	rep.Pending = pool.PendingTasksCounter.Get()
	for i := range runs {
		rep.Runs = append(rep.Runs, int(runs[i].Load()))
	}
	b, _ := json.Marshal(rep)
	fmt.Println("TASKPANIC-REPORT " + string(b))
}

func runTaskPanic(line string) *result {
	r := newResult()
	f := strings.Fields(line)
	if len(f) != 3 {
		r.lines = append(r.lines, [2]string{line, "bad-descriptor"})

		return r
	}
	self, err := os.Executable()
	if err != nil {
		panic(err)
	}
	cmd := exec.Command(self, "--taskpanic-inner", f[1], f[2])
	var stdout, stderr strings.Builder
	cmd.Stdout, cmd.Stderr = &stdout, &stderr
	if err := cmd.Start(); err != nil {
		r.lines = append(r.lines, [2]string{line, "cannot-start"})

		return r
	}
	exited := make(chan error, 1)
	go func() { exited <- cmd.Wait() }()
	var runErr error
	select {
	case runErr = <-exited:
	case <-time.After(4 * bound):
		cmd.Process.Kill()
		<-exited
		r.lines = append(r.lines, [2]string{line, "hung"})
		r.fail("termination", "the process with a panicking task neither died nor finished its life cycle", map[string]string{"api": "workerpool.Task.run", "effect": "hang-after-task-panic"})

		return r
	}
	sig := map[string]string{"api": "workerpool.Task.run", "trigger": "workerFunc-panics"}
	switch {
	case runErr != nil && strings.Contains(stderr.String(), "panic: "+taskPanicValue):
		r.lines = append(r.lines, [2]string{line, "died"})
		r.count("taskpanic:died")
	case runErr != nil:
		msg, where := crashInfo(stderr.String())
		r.lines = append(r.lines, [2]string{line, "crashed"})
		sig["effect"], sig["where"] = "other-crash", where
		r.fail("crash", "the process with a panicking task died of something else: "+msg+" at "+where, sig)
	default:
		var rep taskPanicReport
		ok := false
		for _, l := range strings.Split(stdout.String(), "\n") {
			if rest, found := strings.CutPrefix(l, "TASKPANIC-REPORT "); found {
				ok = json.Unmarshal([]byte(rest), &rep) == nil
			}
		}
		r.lines = append(r.lines, [2]string{line, "survived"})
		r.count("taskpanic:survived")
		if !ok || !rep.Zero || !rep.Complete || rep.Pending != 0 {
			sig["effect"] = "panicked-task-never-finished"
			r.fail("termination", fmt.Sprintf("the pool swallowed a task's panic but did not account for the task: %+v", rep), sig)
		} else if f[2] != "true" && (rep.Runs[0] != 1 || rep.Runs[2] != 1) {
			sig["effect"] = "task-run-count"
			r.fail("run-once", fmt.Sprintf("after a swallowed task panic the other accepted tasks ran %v times", rep.Runs), sig)
		}
	}
	r.nontriv = line

	return r
}
