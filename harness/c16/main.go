// C16 harness: drives the real workerpool.WorkerPool / Group with real goroutines — forced schedules through the
// `verif` hooks (Submit window, PopOrWait gap), deterministic unhooked life cycles, and stress over worker counts,
// cancel-on-shutdown and nesting — records the observable event trace and prints it as request lines.  The answer
// column is the verdict of the Go-side oracle (monitor.go + per-task counts + bounded waits); the Lean driver
// drv_c16 must give the same verdict with the trace predicate the C16 theorems are about.
package main

import (
	"fmt"
	"os"
	"runtime"
	"strings"
	"time"

	"verifharness/hx"
)

func execDescriptor(line string) *result {
	t0 := time.Now()
	defer func() {
		if d := time.Since(t0); d > 3*time.Second {
			fmt.Fprintf(os.Stderr, "slow case %.1fs: %s\n", d.Seconds(), line)
		}
	}()
	f := strings.Fields(line)
	switch {
	case len(f) == 2 && f[0] == "sched":
		return runSched(f[1])
	case len(f) > 0 && f[0] == "run":
		if c, ok := parseRun(f); ok {
			return runCase(c)
		}
	case len(f) > 0 && f[0] == "group":
		return runGroup(line)
	case len(f) > 0 && f[0] == "hammer":
		return runHammer(line)
	case len(f) > 0 && f[0] == "lockrace":
		return runLockRace(line)
	case len(f) > 0 && f[0] == "sync":
		return runSync(line)
	case len(f) > 0 && f[0] == "debounce":
		return runDebounce(line)
	case len(f) > 0 && f[0] == "config":
		return runConfig(line)
	case len(f) > 0 && f[0] == "taskpanic":
		return runTaskPanic(line)
	}

	return nil
}

func flush(r *hx.Run, sub uint64, res *result) {
	r.Case(sub)
	for _, l := range res.lines {
		r.Line(l[0], l[1])
	}
	for _, f := range res.fails {
		r.Fail(f.Oracle, f.Detail, f.Signature)
	}
	for k, v := range res.counts {
		r.CountN(k, v)
	}
	if res.nontriv != "" {
		r.Nontrivial(res.nontriv)
	}
	if len(res.lines) > 3 {
		r.Sample(r.CaseLines())
	}
}

func main() {
	if len(os.Args) == 4 && os.Args[1] == "--taskpanic-inner" {
		taskPanicInner(os.Args[2], os.Args[3])

		return
	}
	if len(os.Args) == 4 && os.Args[1] == "--child" {
		childMain(os.Args[2], os.Args[3])

		return
	}
	r := hx.Start()
	r.Rule = "cases = forced schedules (hooks: Submit window, PopOrWait gap, Start window), deterministic life cycles and stress runs over W in 1..4 x cancel on/off x " +
		"modes drain|racing|pending|restart x nesting depth 0..2, plus group trees; non-trivial = at least one task accepted " +
		"(distinct by descriptor, accepted/rejected counts and trace length) or a forced schedule / group script executed; " +
		"cases run in child processes, a crash of the code under test is an oracle failure of the case that was running"
	var jobs []job
	if lines := r.ReplayLines(); lines != nil {
		for _, l := range lines {
			f := strings.Fields(l)
			if len(f) > 0 && (f[0] == "sched" || f[0] == "run" || f[0] == "group" || f[0] == "hammer" || f[0] == "lockrace" || f[0] == "sync" || f[0] == "debounce" || f[0] == "config" || f[0] == "taskpanic") {
				jobs = append(jobs, job{0, l})
			}
		}
	} else {
		// corpus first: forced schedules (Lean schedules replayed on the real code) and deterministic life cycles
		for _, s := range []string{"restart", "window", "window-busy", "gap", "start-race", "haswork", "foreign", "zero-workers", "reject-restart", "reject-restart-silent"} {
			jobs = append(jobs, job{0, "sched " + s})
		}
		for _, cancel := range []bool{false, true} {
			for w := 1; w <= 4; w++ {
				jobs = append(jobs,
					job{0, runCfg{"restart", w, cancel, 1, 3, 0, 3, 1}.String()},
					job{0, runCfg{"drain", w, cancel, 1, 4, 2, 1, 2}.String()},
					job{0, runCfg{"pending", w, cancel, 1, 6, 0, 2, 3}.String()})
			}
		}
		ncpu := runtime.NumCPU()
		for _, w := range []int{1, 2*ncpu + 1, 3 * ncpu} {
			for _, cancel := range []bool{false, true} {
				jobs = append(jobs, job{0, runCfg{"busy", w, cancel, 1, 1, 1, 2, 4}.String()})
			}
		}
		for w := 1; w <= 3; w++ {
			for _, cancel := range []bool{false, true} {
				jobs = append(jobs, job{0, runCfg{"foreign", w, cancel, 2, 5, 1, 3, uint64(10 + w)}.String()})
			}
		}
		for _, w := range []int{1, 3} {
			jobs = append(jobs,
				job{0, runCfg{"gpending-none", w, true, 1, 6, 0, 1, 5}.String()},
				job{0, runCfg{"gpending-true", w, true, 1, 6, 0, 1, 6}.String()},
				job{0, runCfg{"gpending-false", w, false, 1, 6, 0, 1, 7}.String()})
		}
		jobs = append(jobs, job{0, fmt.Sprintf("hammer %d 1", 1500*r.Scale)}, job{0, fmt.Sprintf("hammer %d 2", 1500*r.Scale)})
		jobs = append(jobs, job{0, fmt.Sprintf("lockrace %d 1", 150*r.Scale)})
		jobs = append(jobs, job{0, "taskpanic 1 false"}, job{0, "taskpanic 3 true"})
		for w := 1; w <= 3; w++ {
			jobs = append(jobs, job{0, runCfg{"silent-racing", w, false, 3, 12, 1, 3, uint64(30 + w)}.String()},
				job{0, runCfg{"silent-restart", w, false, 1, 4, 1, 3, uint64(40 + w)}.String()})
		}
		// hive.go's debug mode (deadlock detector per task, closure stack traces): the same oracles must hold
		jobs = append(jobs, job{0, runCfg{"debug-drain", 2, false, 2, 6, 1, 2, 21}.String()},
			job{0, runCfg{"debug-pending", 3, true, 1, 6, 0, 2, 22}.String()},
			job{0, runCfg{"debug-restart", 1, false, 1, 3, 0, 3, 23}.String()},
			job{0, runCfg{"debug-racing", 4, true, 3, 12, 2, 2, 24}.String()})
		jobs = append(jobs, job{0, "config 1"}, job{0, "sync seq 1 80"}, job{0, "sync seq 2 200"},
			job{0, "debounce 1 1 50 1"}, job{0, "debounce 2 3 200 2"}, job{0, "debounce 4 4 300 3"})
		for _, d := range groupCorpus() {
			jobs = append(jobs, job{0, d})
		}
		// generated: stress cases
		n := 320 * r.Scale
		modes := []string{"drain", "racing", "racing", "pending", "restart", "foreign"}
		for i := 0; i < n; i++ {
			rng, sub := r.Rng.Fork()
			if i%8 == 7 {
				jobs = append(jobs, job{sub, genGroup(rng)})

				continue
			}
			if i%16 == 11 {
				jobs = append(jobs, job{sub, fmt.Sprintf("debounce %d %d %d %d", rng.Range(1, 4), rng.Range(1, 4), rng.Range(1, 300), rng.U64()%1000000)})

				continue
			}
			if i%16 == 3 {
				jobs = append(jobs, job{sub, fmt.Sprintf("sync seq %d %d", rng.U64()%1000000, rng.Range(20, 160))})

				continue
			}
			c := runCfg{mode: hx.Pick(rng, modes), w: rng.Range(1, 4), cancel: rng.Bool(), subs: rng.Range(1, 4),
				tasks: rng.Range(1, 24), depth: rng.Intn(3), rounds: rng.Range(1, 3), seed: rng.U64() % 1000000}
			if !c.cancel && c.seed%3 == 0 {
				c.mode = "silent-" + c.mode // the option WithPanicOnSubmitAfterShutdown off: rejected submits return silently
			}
			jobs = append(jobs, job{sub, c.String()})
		}
	}
	delivered := 0
	runJobs(r.OutDir, jobs, 120, r.Scale, func(j job, res *result) bool {
		flush(r, j.Sub, res)
		// enough evidence: every further failing case costs its full wait bounds
		delivered++
		limit := 24
		if hangConfirmedInRun() && delivered <= 2*len(r.Findings) {
			limit = 12 // (nearly) every case hangs: each further one costs seconds, a dozen findings say what there is to say
		}
		if len(r.Findings) >= limit {
			r.Count("aborted-after-many-findings")

			return false
		}

		return true
	}, func(j job, why string) {
		// not executed: an earlier case has hung (a finding), see hang.go
		r.Count("skipped:" + why)
	})
	r.Finish()
}
