// C16 harness: drives the real workerpool.WorkerPool / Group with real goroutines — forced schedules through the
// `verif` hooks (Submit window, PopOrWait gap), deterministic unhooked life cycles, and stress over worker counts,
// cancel-on-shutdown and nesting — records the observable event trace and prints it as request lines.  The answer
// column is the verdict of the Go-side oracle (monitor.go + per-task counts + bounded waits); the Lean driver
// drv_c16 must give the same verdict with the trace predicate the C16 theorems are about.
package main

import (
	"fmt"
	"os"
	"strings"
	"sync"
	"time"

	"verifharness/hx"
)

func execDescriptor(line string) *result {
	t0 := time.Now()
	defer func() {
		if d := time.Since(t0); d > 3*time.Second {
			fmt.Fprintf(os.Stderr, "slow case %.1fs: %s\n", d.Seconds(), line)
		}
	}()
	f := strings.Fields(line)
	switch {
	case len(f) == 2 && f[0] == "sched":
		return runSched(f[1])
	case len(f) > 0 && f[0] == "run":
		if c, ok := parseRun(f); ok {
			return runCase(c)
		}
	case len(f) > 0 && f[0] == "group":
		return runGroup(line)
	}

	return nil
}

func flush(r *hx.Run, sub uint64, res *result) {
	r.Case(sub)
	for _, l := range res.lines {
		r.Line(l[0], l[1])
	}
	for _, f := range res.fails {
		r.Fail(f.Oracle, f.Detail, f.Signature)
	}
	for k, v := range res.counts {
		r.CountN(k, v)
	}
	if res.nontriv != "" {
		r.Nontrivial(res.nontriv)
	}
	if len(res.lines) > 3 {
		r.Sample(r.CaseLines())
	}
}

func main() {
	r := hx.Start()
	installHooks()
	r.Rule = "cases = forced schedules (hooks: Submit window, PopOrWait gap, Start window), deterministic life cycles and stress runs over W in 1..4 x cancel on/off x " +
		"modes drain|racing|pending|restart x nesting depth 0..2, plus group trees; non-trivial = at least one task accepted " +
		"(distinct by descriptor, accepted/rejected counts and trace length) or a forced schedule / group script executed"
	if lines := r.ReplayLines(); lines != nil {
		for _, l := range lines {
			if res := execDescriptor(l); res != nil {
				flush(r, 0, res)
			}
		}
		r.Finish()

		return
	}
	// corpus first: forced schedules (Lean witnesses replayed on the real code) and deterministic life cycles
	var descs []string
	for _, s := range []string{"restart", "window", "window-busy", "gap", "start-race"} {
		descs = append(descs, "sched "+s)
	}
	for _, cancel := range []bool{false, true} {
		for w := 1; w <= 4; w++ {
			descs = append(descs,
				runCfg{"restart", w, cancel, 1, 3, 0, 3, 1}.String(),
				runCfg{"drain", w, cancel, 1, 4, 2, 1, 2}.String(),
				runCfg{"pending", w, cancel, 1, 6, 0, 2, 3}.String())
		}
	}
	descs = append(descs, groupCorpus()...)
	for _, d := range descs {
		flush(r, 0, execDescriptor(d))
	}
	// generated: stress cases, a few at a time in parallel (each has its own pool and log)
	n := 320 * r.Scale
	modes := []string{"drain", "racing", "racing", "pending", "restart"}
	type job struct {
		sub uint64
		d   string
	}
	var jobs []job
	for i := 0; i < n; i++ {
		rng, sub := r.Rng.Fork()
		if i%8 == 7 {
			jobs = append(jobs, job{sub, genGroup(rng)})

			continue
		}
		c := runCfg{mode: hx.Pick(rng, modes), w: rng.Range(1, 4), cancel: rng.Bool(), subs: rng.Range(1, 4),
			tasks: rng.Range(1, 24), depth: rng.Intn(3), rounds: rng.Range(1, 3), seed: rng.U64() % 1000000}
		jobs = append(jobs, job{sub, c.String()})
	}
	const par = 4
	for i := 0; i < len(jobs); i += par {
		batch := jobs[i:min(i+par, len(jobs))]
		out := make([]*result, len(batch))
		var wg sync.WaitGroup
		for k, j := range batch {
			wg.Add(1)
			go func() {
				defer wg.Done()
				out[k] = execDescriptor(j.d)
			}()
		}
		wg.Wait()
		for k, j := range batch {
			if out[k] == nil {
				panic(fmt.Sprint("bad descriptor ", j.d))
			}
			flush(r, j.sub, out[k])
		}
		// enough evidence: every further failing case costs its full wait bounds
		unrecorded := len(r.Findings)
		if unrecorded >= 24 {
			r.Count("aborted-after-many-findings")

			break
		}
	}
	r.Finish()
}
