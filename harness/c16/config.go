package main

import (
	"fmt"
	"runtime"
	"strings"
	"sync/atomic"
	"time"

	"verifharness/hx"

	"github.com/iotaledger/hive.go/runtime/syncutils"
	"github.com/iotaledger/hive.go/runtime/workerpool"
)

// "config": the constructor's constants and option plumbing the model's parameters stand for — default worker count
// 2*NumCPU, WithWorkerCount(n) reported by WorkerCount(), a fresh pool is not running and has nothing pending, a group's
// name, group pools start running; and the capacity that matters: with W workers, W tasks can be handed over without any
// worker taking one (dispatch channel capacity = W) — checked through behaviour: Shutdown on a pool whose W workers are all
// busy returns without waiting for them (signal channel capacity = W; `busy` mode covers the large counts).
func runConfig(line string) *result {
	r := newResult()
	r.lines = append(r.lines, [2]string{line, "ok"})
	bad := func(what string, got, want any) {
		if fmt.Sprint(got) != fmt.Sprint(want) {
			r.fail("config", fmt.Sprintf("%s: got %v, want %v", what, got, want), map[string]string{"api": "workerpool.New", "effect": "configuration", "what": what})
		}
	}
	p := workerpool.New("dflt")
	bad("default WorkerCount", p.WorkerCount(), 2*runtime.NumCPU())
	bad("fresh pool IsRunning", p.IsRunning(), false)
	bad("fresh pool pending", p.PendingTasksCounter.Get(), 0)
	bad("Name", p.Name, "dflt")
	for _, n := range []int{1, 2, 7, 3 * runtime.NumCPU()} {
		q := workerpool.New("n", workerpool.WithWorkerCount(n))
		bad("WithWorkerCount", q.WorkerCount(), n)
		if !guarded(r, q, "start", func() { q.Start() }) {
			return r
		}
		bad("started pool IsRunning", q.IsRunning(), true)
		if !guarded(r, q, "shutdown", func() { q.Shutdown() }) {
			return r
		}
		if !within(bound, q.ShutdownComplete.Wait) {
			r.fail("termination", "ShutdownComplete.Wait did not return on an idle pool", classifyPool(q, "complete"))
		}
		bad("stopped pool IsRunning", q.IsRunning(), false)
	}
	g := workerpool.NewGroup("grp")
	bad("Group.Name", g.Name(), "grp")
	gp := g.CreatePool("gp", workerpool.WithWorkerCount(2))
	bad("group pool runs", gp.IsRunning(), true)
	got, ok := g.Pool("gp")
	bad("Group.Pool finds the pool", ok && got == gp, true)
	sub := g.CreateGroup("sub")
	gg, ok := g.Group("sub")
	bad("Group.Group finds the sub-group", ok && gg == sub, true)
	bad("sub-group Root", sub.Root() == g, true)
	bad("IsShutdown before", g.IsShutdown(), false)
	if !within(bound, g.Shutdown) {
		r.fail("termination", "Group.Shutdown did not return", map[string]string{"api": "workerpool.Group.Shutdown", "effect": "hang"})
	}
	bad("IsShutdown after", g.IsShutdown() && sub.IsShutdown(), true)
	if !within(bound, gp.ShutdownComplete.Wait) {
		r.fail("termination", "group pool not complete after Group.Shutdown", classifyPool(gp, "complete"))
	}
	dupNames(r, bad)
	popOrWaitHoldsMutex(r, bad)
	r.count("config")
	r.nontriv = line

	return r
}

// dupNames: CreatePool / CreateGroup with a name that exists already.  While the previous pool runs (the previous group
// is not shut down) the call panics — and the previous pool keeps working and counting in its group; once the previous
// one is stopped the call replaces the map entry and BOTH pools go on counting in the group (the subscription of the
// replaced pool stays): WaitChildren returns only when neither has pending tasks.
func dupNames(r *result, bad func(what string, got, want any)) {
	g := workerpool.NewGroup("dup")
	old := g.CreatePool("p", workerpool.WithWorkerCount(1), workerpool.WithCancelPendingTasksOnShutdown(false))
	p := hx.Safely(func() { g.CreatePool("p", workerpool.WithWorkerCount(1)) })
	bad("CreatePool with the name of a running pool panics", strings.Contains(p, "already exists"), true)
	gate := make(chan struct{})
	var ran atomic.Int32
	old.Submit(func() { <-gate; ran.Add(1) })
	bad("the previous pool still counts in its group after the refused CreatePool", g.PendingChildrenCounter.Get(), 1)
	bad("WaitChildren blocks while the previous pool has a pending task", within(40*time.Millisecond, g.WaitChildren), false)
	// stop the previous pool (its task is still pending: no cancel) and replace it
	if !guarded(r, old, "shutdown", func() { old.Shutdown() }) {
		close(gate)

		return
	}
	if cur, ok := g.Pool("p"); ok && cur != old {
		// the refused CreatePool has left its never-started pool in the map (Set comes before the check): stop-and-replace works on it
		bad("the pool left behind by the refused CreatePool is not running", cur.IsRunning(), false)
	}
	var fresh *workerpool.WorkerPool
	p = hx.Safely(func() { fresh = g.CreatePool("p", workerpool.WithWorkerCount(1)) })
	bad("CreatePool with the name of a stopped pool succeeds", p, "")
	if fresh != nil {
		bad("the replacing pool runs", fresh.IsRunning(), true)
		gate2 := make(chan struct{})
		fresh.Submit(func() { <-gate2; ran.Add(1) })
		bad("replaced and replacing pool both count in the group", g.PendingChildrenCounter.Get(), 2)
		close(gate2)
		if !waitFor(bound, func() bool { return fresh.PendingTasksCounter.Get() == 0 }) {
			r.fail("termination", "task of the replacing pool did not finish", classifyPool(fresh, "zero"))
		}
		bad("WaitChildren still blocks: the REPLACED pool has a pending task", within(40*time.Millisecond, g.WaitChildren), false)
	}
	close(gate)
	if !within(bound, g.WaitChildren) {
		r.fail("termination", "WaitChildren did not return after the tasks of both pools finished", map[string]string{"api": "workerpool.Group.WaitChildren", "effect": "hang"})
	}
	bad("both tasks ran", ran.Load(), map[bool]int{true: 2, false: 1}[fresh != nil])
	if !within(bound, old.ShutdownComplete.Wait) {
		r.fail("termination", "the replaced pool did not complete its shutdown", classifyPool(old, "complete"))
	}
	// groups
	sub := g.CreateGroup("s")
	p = hx.Safely(func() { g.CreateGroup("s") })
	bad("CreateGroup with the name of a live group panics", strings.Contains(p, "already exists"), true)
	if cur, ok := g.Group("s"); ok && cur != sub {
		cur.Shutdown()
	}
	sub.Shutdown()
	p = hx.Safely(func() { g.CreateGroup("s") })
	bad("CreateGroup with the name of a shut-down group succeeds", p, "")
	if !within(bound, g.Shutdown) {
		r.fail("termination", "Group.Shutdown did not return", map[string]string{"api": "workerpool.Group.Shutdown", "effect": "hang"})
	}
	if fresh != nil && !within(bound, fresh.ShutdownComplete.Wait) {
		r.fail("termination", "the replacing pool did not complete after Group.Shutdown", classifyPool(fresh, "complete"))
	}
	r.count("config-dup-names")
}

// popOrWaitHoldsMutex: the lock scripts (Hive/Model/WorkerPoolLock.lean) take for granted that Stack.PopOrWait evaluates
// its argument while holding the stack's mutex (the dispatcher's hasWork therefore takes the pool lock UNDER the stack
// mutex: the edge w.Queue.mutex -> w.mutex).  Observed here: a Size() issued from another goroutine while the condition
// callback runs does not return before the callback does.
func popOrWaitHoldsMutex(r *result, bad func(what string, got, want any)) {
	st := syncutils.NewStack[int]()
	sizeBlocked := false
	done := make(chan struct{})
	go func() {
		defer close(done)
		st.PopOrWait(func() bool {
			sizeBlocked = !within(60*time.Millisecond, func() { st.Size() })

			return false // give up waiting: PopOrWait returns
		})
	}()
	if !waitChan(done, bound) {
		r.fail("termination", "Stack.PopOrWait did not return after its condition said false", map[string]string{"api": "syncutils.Stack.PopOrWait", "effect": "hang"})

		return
	}
	bad("Stack.PopOrWait evaluates its condition while holding the stack mutex", sizeBlocked, true)
	bad("the stack is usable afterwards", within(bound, func() { st.Size() }), true)
}
