package main

import (
	"fmt"
	"runtime"

	"github.com/iotaledger/hive.go/runtime/workerpool"
)

// "config": the constructor's constants and option plumbing the model's parameters stand for — default worker count
// 2*NumCPU, WithWorkerCount(n) reported by WorkerCount(), a fresh pool is not running and has nothing pending, a group's
// name, group pools start running; and the capacity that matters: with W workers, W tasks can be handed over without any
// worker taking one (dispatch channel capacity = W) — checked through behaviour: Shutdown on a pool whose W workers are all
// busy returns without waiting for them (signal channel capacity = W; `busy` mode covers the large counts).
func runConfig(line string) *result {
	r := newResult()
	r.lines = append(r.lines, [2]string{line, "ok"})
	bad := func(what string, got, want any) {
		if fmt.Sprint(got) != fmt.Sprint(want) {
			r.fail("config", fmt.Sprintf("%s: got %v, want %v", what, got, want), map[string]string{"api": "workerpool.New", "effect": "configuration", "what": what})
		}
	}
	p := workerpool.New("dflt")
	bad("default WorkerCount", p.WorkerCount(), 2*runtime.NumCPU())
	bad("fresh pool IsRunning", p.IsRunning(), false)
	bad("fresh pool pending", p.PendingTasksCounter.Get(), 0)
	bad("Name", p.Name, "dflt")
	for _, n := range []int{1, 2, 7, 3 * runtime.NumCPU()} {
		q := workerpool.New("n", workerpool.WithWorkerCount(n))
		bad("WithWorkerCount", q.WorkerCount(), n)
		if !guarded(r, q, "start", func() { q.Start() }) {
			return r
		}
		bad("started pool IsRunning", q.IsRunning(), true)
		if !guarded(r, q, "shutdown", func() { q.Shutdown() }) {
			return r
		}
		if !within(bound, q.ShutdownComplete.Wait) {
			r.fail("termination", "ShutdownComplete.Wait did not return on an idle pool", classifyPool(q, "complete"))
		}
		bad("stopped pool IsRunning", q.IsRunning(), false)
	}
	g := workerpool.NewGroup("grp")
	bad("Group.Name", g.Name(), "grp")
	gp := g.CreatePool("gp", workerpool.WithWorkerCount(2))
	bad("group pool runs", gp.IsRunning(), true)
	got, ok := g.Pool("gp")
	bad("Group.Pool finds the pool", ok && got == gp, true)
	sub := g.CreateGroup("sub")
	gg, ok := g.Group("sub")
	bad("Group.Group finds the sub-group", ok && gg == sub, true)
	bad("sub-group Root", sub.Root() == g, true)
	bad("IsShutdown before", g.IsShutdown(), false)
	if !within(bound, g.Shutdown) {
		r.fail("termination", "Group.Shutdown did not return", map[string]string{"api": "workerpool.Group.Shutdown", "effect": "hang"})
	}
	bad("IsShutdown after", g.IsShutdown() && sub.IsShutdown(), true)
	if !within(bound, gp.ShutdownComplete.Wait) {
		r.fail("termination", "group pool not complete after Group.Shutdown", classifyPool(gp, "complete"))
	}
	r.count("config")
	r.nontriv = line

	return r
}
