package main

import (
	"fmt"
	"runtime"
	"strconv"
	"strings"
	"sync"
	"sync/atomic"
	"time"

	"verifharness/hx"

	"github.com/iotaledger/hive.go/runtime/workerpool"
)

// runLockRace: "lockrace ROUNDS SEED" — Submit / IsRunning callers in tight loops and a second goroutine calling Shutdown
// over and over, against a controller that cycles Shutdown(); Start() ROUNDS times as fast as it can (worker counts 1..4,
// cancel on/off).  Every Shutdown and every
// Start asks for the pool's write lock while read-side critical sections (Submit's counted check, IsRunning, the
// dispatcher's hasWork) are in flight: a read lock that is taken twice on one call path deadlocks as soon as a writer
// queues between the two, a write lock held across a blocking wait stops everything.  Watchdog: the controller has to
// keep completing cycles; judged at the end by conservation (counter increases = task runs without cancel, >= with
// cancel; counter back at zero) and termination.
func runLockRace(line string) *result {
	r := newResult()
	r.lines = append(r.lines, [2]string{line, "ok"})
	f := strings.Fields(line)
	rounds := 200
	if len(f) > 1 {
		rounds, _ = strconv.Atoi(f[1])
	}
	for cfg := 0; cfg < 4; cfg++ {
		w, cancel := 1+cfg, cfg%2 == 1
		// configurations 2 and 3: rejected submits panic (WithPanicOnSubmitAfterShutdown) and the callers recover
		panicOpt := cfg >= 2
		pool := workerpool.New("lockrace", workerpool.WithWorkerCount(w), workerpool.WithCancelPendingTasksOnShutdown(cancel),
			workerpool.WithPanicOnSubmitAfterShutdown(panicOpt))
		var ups, dns, ran, cycles, submits atomic.Int64
		pool.PendingTasksCounter.Subscribe(func(oldValue, newValue int) {
			if newValue > oldValue {
				ups.Add(1)
			} else {
				dns.Add(1)
			}
		})
		bad := func(oracle, detail string, sig map[string]string) *result {
			sig["mode"] = "lockrace"
			r.fail(oracle, fmt.Sprintf("workers=%d cancel=%v after %d cycles, %d submits: %s", w, cancel, cycles.Load(), submits.Load(), detail), sig)

			return r
		}
		if !guarded(r, pool, "start", func() { pool.Start() }) {
			return r
		}
		var stop atomic.Bool
		var subs sync.WaitGroup
		for s := 0; s < 3; s++ {
			subs.Add(1)
			go func() {
				defer subs.Done()
				for i := 0; !stop.Load(); i++ {
					if s == 2 && i%2 == 0 {
						pool.IsRunning()
					} else if panicOpt {
						hx.Safely(func() { pool.Submit(func() { ran.Add(1) }) })
					} else {
						pool.Submit(func() { ran.Add(1) })
					}
					submits.Add(1)
					if i%64 == 63 {
						runtime.Gosched()
						// a pool that accepts without dispatching (or a stuck controller) must not eat the memory
						for pool.Queue.Size() > 20000 && !stop.Load() {
							time.Sleep(time.Millisecond)
						}
					}
				}
			}()
		}
		// a second caller of Shutdown, concurrently with the controller's Shutdown(); Start()
		subs.Add(1)
		go func() {
			defer subs.Done()
			for i := 0; !stop.Load(); i++ {
				pool.Shutdown()
				for k := 0; k < 1+i%7; k++ {
					runtime.Gosched()
				}
			}
		}()
		ctlDone := make(chan struct{})
		go func() {
			defer close(ctlDone)
			for i := 0; i < rounds && !stop.Load(); i++ {
				pool.Shutdown()
				pool.Start()
				cycles.Add(1)
				for k := 0; k < i%4; k++ {
					runtime.Gosched() // let some Submits be accepted before the next Shutdown
				}
			}
		}()
		// watchdog: no completed cycle for a long time = stuck (confirmed by an unreadable pool, or by a second period)
		last, lastAt := int64(-1), time.Now()
		stuck := false
		for !waitChan(ctlDone, 50*time.Millisecond) {
			if c := cycles.Load(); c != last {
				last, lastAt = c, time.Now()

				continue
			}
			if idle := time.Since(lastAt); idle > eff(bound) || (idle > min(10*time.Second, eff(bound)) && !poolStateOf(pool).readable) {
				hangs.expired(bound)
				stuck = true

				break
			}
		}
		stop.Store(true)
		if stuck {
			sig := classifyPool(pool, "shutdown-start-cycle")

			return bad("termination", fmt.Sprintf("the Shutdown();Start() cycle made no progress for %s while Submit/IsRunning callers were active; %v", time.Since(lastAt).Round(time.Second), sig), sig)
		}
		if !within(bound, subs.Wait) {
			return bad("termination", "Submit/IsRunning callers did not return", classifyPool(pool, "submit"))
		}
		if !guarded(r, pool, "shutdown", func() { pool.Shutdown() }) {
			return r
		}
		t0 := time.Now()
		if !withinPool(pool, func() time.Duration { return time.Since(t0) }, bound, pool.ShutdownComplete.Wait) {
			return bad("termination", "ShutdownComplete.Wait did not return", classifyPool(pool, "complete"))
		}
		if !within(shortBound, pool.PendingTasksCounter.WaitIsZero) {
			return bad("quiescence", fmt.Sprintf("pending counter is %d after completion", pool.PendingTasksCounter.Get()),
				map[string]string{"api": "workerpool", "effect": "not-quiescent"})
		}
		u, d, n := ups.Load(), dns.Load(), ran.Load()
		if u != d || n > u || (!cancel && n != u) {
			return bad("conservation", fmt.Sprintf("%d tasks counted, %d marked done, %d run", u, d, n),
				map[string]string{"api": "workerpool", "effect": "task-run-count"})
		}
		r.counts["lockrace-cycles"] += int(cycles.Load())
		r.counts["lockrace-submits"] += int(submits.Load())
		r.counts["lockrace-accepted"] += int(u)
	}
	r.nontriv = line

	return r
}
