package main

import (
	"fmt"
	"strconv"
	"strings"
	"sync"
	"time"

	"verifharness/hx"

	"github.com/iotaledger/hive.go/runtime/syncutils"
)

// "sync seq SEED N": the exported API of syncutils.Counter and syncutils.Stack, sequentially, line by line against
// the Lean models (Hive/Model/WorkerPoolSync.lean): Set / Update(any delta) / Get / Subscribe (with and without
// callbacks) / unsubscribe / WaitIsBelow / WaitIsAbove, the order and content of the subscriber callbacks; Push / Pop /
// PopOrWait(false) / Size / WaitSizeIsBelow / WaitSizeIsAbove / WaitIsEmpty.
type syncWorld struct {
	c     *syncutils.Counter
	q     *syncutils.Stack[int]
	mu    sync.Mutex
	log   []string
	unsub map[int]func()
	next  int
	// independent Go oracle: the value, the active subscribers in subscription order, the callbacks that must have run, the queue
	val    int
	active []int
	want   []string
	fifo   []int
	bad    []string
}

// expect: the counter goes to v — one callback per active subscriber, in subscription order, unless nothing changes.
func (w *syncWorld) expect(v int) {
	if v != w.val {
		for _, id := range w.active {
			w.want = append(w.want, fmt.Sprintf("%d:%d>%d", id, w.val, v))
		}
		w.val = v
	}
}

func (w *syncWorld) check(what string, got, want any) {
	if fmt.Sprint(got) != fmt.Sprint(want) {
		w.bad = append(w.bad, fmt.Sprintf("%s: got %v, want %v", what, got, want))
	}
}

// returnsOrBlocks: a wait that is expected to return does so at once; under load it is given the long bound when the
// observable condition says it must return.
func returnsOrBlocks(wait func(), mustReturn func() bool) string {
	if within(40*time.Millisecond, wait) {
		return "returns"
	}
	if mustReturn() && within(bound, wait) {
		return "returns"
	}

	return "blocks"
}

func (w *syncWorld) exec(op string) string {
	f := strings.Fields(op)
	if len(f) != 3 {
		return "bad-op"
	}
	n, err := strconv.Atoi(f[2])
	num := err == nil
	switch {
	case f[0] == "c" && f[1] == "set" && num:
		old := w.c.Set(n)
		w.check("Set returns the old value", old, w.val)
		w.expect(n)

		return strconv.Itoa(old)
	case f[0] == "c" && f[1] == "upd" && num:
		nv := w.c.Update(n)
		w.check("Update returns the new value", nv, w.val+n)
		w.expect(w.val + n)

		return strconv.Itoa(nv)
	case f[0] == "c" && (f[1] == "inc" || f[1] == "dec"):
		d, nv := 1, 0
		if f[1] == "inc" {
			nv = w.c.Increase()
		} else {
			d, nv = -1, w.c.Decrease()
		}
		w.check(f[1]+" returns the new value", nv, w.val+d)
		w.expect(w.val + d)

		return strconv.Itoa(nv)
	case f[0] == "q" && f[1] == "signal":
		w.q.SignalShutdown() // wakes waiters on elementAdded; nothing observable changes sequentially
		w.check("Size after SignalShutdown", w.q.Size(), len(w.fifo))

		return "ok"
	case f[0] == "c" && f[1] == "get":
		w.check("Get", w.c.Get(), w.val)

		return strconv.Itoa(w.c.Get())
	case f[0] == "c" && f[1] == "sub":
		w.next++
		id := w.next
		w.unsub[id] = w.c.Subscribe(func(oldValue, newValue int) {
			w.mu.Lock()
			w.log = append(w.log, fmt.Sprintf("%d:%d>%d", id, oldValue, newValue))
			w.mu.Unlock()
		})
		w.active = append(w.active, id)

		return strconv.Itoa(id)
	case f[0] == "c" && f[1] == "sub0":
		w.c.Subscribe()()

		return "ok"
	case f[0] == "c" && f[1] == "unsub" && num:
		u, ok := w.unsub[n]
		if !ok {
			return "skip"
		}
		u()
		delete(w.unsub, n)
		for k, id := range w.active {
			if id == n {
				w.active = append(w.active[:k:k], w.active[k+1:]...)

				break
			}
		}

		return "ok"
	case f[0] == "c" && f[1] == "log":
		w.mu.Lock()
		defer w.mu.Unlock()
		s := "[" + strings.Join(w.log, " ") + "]"
		w.check("subscriber callbacks (id:old>new, in order)", s, "["+strings.Join(w.want, " ")+"]")
		w.log, w.want = nil, nil

		return s
	case f[0] == "c" && f[1] == "below" && num:
		return returnsOrBlocks(func() { w.c.WaitIsBelow(n) }, func() bool { return w.c.Get() < n })
	case f[0] == "c" && f[1] == "above" && num:
		return returnsOrBlocks(func() { w.c.WaitIsAbove(n) }, func() bool { return w.c.Get() > n })
	case f[0] == "q" && f[1] == "push" && num:
		w.q.Push(n)
		w.fifo = append(w.fifo, n)
		w.check("Size after Push", w.q.Size(), len(w.fifo))

		return strconv.Itoa(w.q.Size())
	case f[0] == "q" && (f[1] == "pop" || f[1] == "popwait"):
		var x int
		var ok bool
		if f[1] == "pop" {
			x, ok = w.q.Pop()
		} else {
			x, ok = w.q.PopOrWait(func() bool { return false })
		}
		w.check(f[1]+" success", ok, len(w.fifo) > 0)
		if ok {
			if len(w.fifo) > 0 {
				w.check(f[1]+" hands out the oldest element", x, w.fifo[0])
				w.fifo = w.fifo[1:]
			}

			return strconv.Itoa(x)
		}

		return "none"
	case f[0] == "q" && f[1] == "size":
		return strconv.Itoa(w.q.Size())
	case f[0] == "q" && f[1] == "below" && num:
		if n == 1 {
			return returnsOrBlocks(w.q.WaitIsEmpty, func() bool { return w.q.Size() < 1 })
		}

		return returnsOrBlocks(func() { w.q.WaitSizeIsBelow(n) }, func() bool { return w.q.Size() < n })
	case f[0] == "q" && f[1] == "above" && num:
		return returnsOrBlocks(func() { w.q.WaitSizeIsAbove(n) }, func() bool { return w.q.Size() > n })
	}

	return "bad-op"
}

func genSyncOps(rng *hx.Rng, n int) []string {
	var ops []string
	subs := 0
	for len(ops) < n {
		switch x := rng.Intn(100); {
		case x < 12:
			ops = append(ops, fmt.Sprintf("c set %d", rng.Range(-3, 6)))
		case x < 34:
			ops = append(ops, fmt.Sprintf("c upd %d", hx.Pick(rng, []int{1, 1, 1, -1, -1, -1, 0, 2, -2, 5})))
		case x < 36:
			ops = append(ops, hx.Pick(rng, []string{"c inc -", "c dec -", "q signal -"}))
		case x < 38:
			ops = append(ops, "c get -")
		case x < 46:
			ops = append(ops, "c sub -")
			subs++
		case x < 48:
			ops = append(ops, "c sub0 -")
		case x < 53 && subs > 0:
			ops = append(ops, fmt.Sprintf("c unsub %d", rng.Range(1, subs))) // may name a removed one: both sides skip
		case x < 60:
			ops = append(ops, "c log -")
		case x < 64:
			ops = append(ops, fmt.Sprintf("c below %d", rng.Range(-2, 4)))
		case x < 68:
			ops = append(ops, fmt.Sprintf("c above %d", rng.Range(-2, 4)))
		case x < 80:
			ops = append(ops, fmt.Sprintf("q push %d", rng.Range(-50, 50)))
		case x < 87:
			ops = append(ops, "q pop -")
		case x < 92:
			ops = append(ops, "q popwait -")
		case x < 94:
			ops = append(ops, "q size -")
		case x < 97:
			ops = append(ops, fmt.Sprintf("q below %d", rng.Range(0, 4)))
		default:
			ops = append(ops, fmt.Sprintf("q above %d", rng.Range(-1, 3)))
		}
	}

	return append(ops, "c log -", "c get -", "q size -")
}

func runSync(line string) *result {
	r := newResult()
	r.lines = append(r.lines, [2]string{line, "ok"})
	f := strings.Fields(line)
	if len(f) < 4 || f[1] != "seq" {
		return r
	}
	seed, _ := strconv.ParseUint(f[2], 10, 64)
	n, _ := strconv.Atoi(f[3])
	if n > 2000 {
		n = 2000
	}
	w := &syncWorld{c: syncutils.NewCounter(), q: syncutils.NewStack[int](), unsub: map[int]func(){}}
	for _, op := range genSyncOps(hx.NewRng(seed), n) {
		a := "panic"
		if p := hx.Safely(func() { a = w.exec(op) }); p != "" {
			a = "panic"
			r.fail("counter-or-panic", "panic in "+op+": "+p, map[string]string{"api": "syncutils", "effect": "panic", "op": strings.Fields(op)[1]})
		}
		r.lines = append(r.lines, [2]string{op, a})
		for _, b := range w.bad {
			r.fail("sync-object", "after '"+op+"': "+b, map[string]string{"api": "syncutils." + map[string]string{"c": "Counter", "q": "Stack"}[strings.Fields(op)[0]], "effect": "sequential-spec", "op": strings.Fields(op)[1]})
		}
		w.bad = nil
		r.count("s:" + strings.Join(strings.Fields(op)[:2], "-"))
		r.count("s-answer:" + strings.Fields(a + " x")[0][:min(1, len(a))])
	}
	r.nontriv = line

	return r
}
