package main

import (
	"fmt"
	"runtime"
	"strconv"
	"strings"
	"sync"
	"sync/atomic"
	"time"

	"verifharness/hx"

	"github.com/iotaledger/hive.go/runtime/workerpool"
)

// "debounce W CALLERS CALLS SEED": CALLERS goroutines call the function returned by WorkerPool.DebounceFunc CALLS times
// each on a running pool with W workers.  The calls are numbered under a harness mutex (the invocation counter inside
// DebounceFunc is not visible), the tasks run concurrently on the workers.  Trace: `dcall` per call, `x K` when the
// workerFunc of call K is executed, `dend` after the pool is idle; the Lean driver judges it with the predicate of
// C16_debounce (strictly increasing executions of calls that were made; the latest call executed at the end).
// Independent Go oracle: the same, plus no two workerFuncs overlap.
func runDebounce(line string) *result {
	r := newResult()
	r.lines = append(r.lines, [2]string{line, "ok"})
	f := strings.Fields(line)
	if len(f) != 5 {
		return r
	}
	w, _ := strconv.Atoi(f[1])
	callers, _ := strconv.Atoi(f[2])
	calls, _ := strconv.Atoi(f[3])
	seed, _ := strconv.ParseUint(f[4], 10, 64)
	if w < 1 || w > 64 || callers < 1 || callers > 16 || calls < 0 || calls > 5000 {
		return r
	}
	pool := workerpool.New("debounce", workerpool.WithWorkerCount(w))
	if !guarded(r, pool, "start", func() { pool.Start() }) {
		return r
	}
	deb := pool.DebounceFunc()
	var cmu, lmu sync.Mutex
	var events []string
	var inside, overlaps atomic.Int32
	k := 0
	var wg sync.WaitGroup
	rng := hx.NewRng(seed)
	for c := 0; c < callers; c++ {
		crng, _ := rng.Fork()
		wg.Add(1)
		go func() {
			defer wg.Done()
			for i := 0; i < calls; i++ {
				cmu.Lock()
				k++
				id := k
				lmu.Lock()
				events = append(events, "dcall")
				lmu.Unlock()
				deb(func() {
					if inside.Add(1) != 1 {
						overlaps.Add(1)
					}
					lmu.Lock()
					events = append(events, fmt.Sprintf("x %d", id))
					lmu.Unlock()
					for s := id % 50; s > 0; s-- {
						spinSink.Add(1)
					}
					if id%16 == 0 {
						time.Sleep(150 * time.Microsecond) // a long workerFunc: later tasks queue up at execMutex behind it
					}
					inside.Add(-1)
				})
				cmu.Unlock()
				switch crng.Intn(4) {
				case 0:
					runtime.Gosched()
				case 1:
					for s := crng.Intn(300); s > 0; s-- {
						spinSink.Add(1)
					}
				}
			}
		}()
	}
	if !within(bound, wg.Wait) {
		r.fail("termination", "debounce callers did not return", classifyPool(pool, "submit"))

		return r
	}
	if !within(bound, pool.PendingTasksCounter.WaitIsZero) {
		r.fail("termination", "pool with debounced tasks did not become idle", classifyPool(pool, "zero"))

		return r
	}
	bad := len(r.fails) > 0 // phase 1 (serialised calls) is judged on its own, whatever the bursts find
	bursts := debounceBursts(r, pool, deb, w, min(2*callers, runtime.GOMAXPROCS(0)), 150)
	if !guarded(r, pool, "shutdown", func() { pool.Shutdown() }) {
		return r
	}
	if !within(bound, pool.ShutdownComplete.Wait) {
		r.fail("termination", "ShutdownComplete.Wait did not return", classifyPool(pool, "complete"))
	}
	// Go oracle + lines
	last, made, execd := 0, 0, 0
	for _, e := range events {
		a := "ok"
		if e == "dcall" {
			made++
		} else {
			id, _ := strconv.Atoi(strings.Fields(e)[1])
			if id <= last || id > made || bad {
				a = "reject x"
				if !bad {
					bad = true
					r.fail("debounce", fmt.Sprintf("workerFunc of call %d executed after call %d's (calls made so far: %d)", id, last, made),
						map[string]string{"api": "workerpool.DebounceFunc", "effect": "execution-order"})
				}
			} else {
				last = id
			}
			execd++
		}
		r.lines = append(r.lines, [2]string{e, a})
	}
	end := "accept"
	if last != made || bad {
		end = "reject dend"
		if last != made {
			r.fail("debounce", fmt.Sprintf("the latest call (%d) was never executed; last executed: %d", made, last),
				map[string]string{"api": "workerpool.DebounceFunc", "effect": "latest-call-dropped"})
		}
	}
	r.lines = append(r.lines, [2]string{"dend", end})
	for _, b := range bursts {
		a := "accept"
		if b[1] != 1 {
			a = "reject dburst"
		}
		r.lines = append(r.lines, [2]string{fmt.Sprintf("dburst %d %d", b[0], b[1]), a})
	}
	if n := overlaps.Load(); n > 0 {
		r.fail("debounce", fmt.Sprintf("%d workerFunc executions overlapped", n), map[string]string{"api": "workerpool.DebounceFunc", "effect": "overlap"})
	}
	r.counts["debounce-calls"] += made
	r.counts["debounce-executed"] += execd
	r.nontriv = fmt.Sprintf("%s|%d", line, execd)

	return r
}

// debounceBursts: CONCURRENT callers.  All workers are blocked by gate tasks; n goroutines then call the debounce function
// at the same moment (no harness mutex: their lastInvocation.Add(1) race) and return — none of their tasks has started —;
// then the gates open and the pool runs dry.  Every task makes its checks when all n calls have been made, so only the
// latest invocation passes them (Lean: C16_debounce_exec_is_latest — an execution is always the latest invocation made
// so far) and it is never dropped (C16_debounce): EXACTLY ONE workerFunc of the burst is executed.  Invocation numbers
// that are handed out twice or stored out of order show up as 0 or 2 executions.  Returns (n, executions) per burst.
func debounceBursts(r *result, pool *workerpool.WorkerPool, deb func(func(), ...string), w, n, rounds int) [][2]int {
	var out [][2]int
	if n < 2 {
		n = 2
	}
	for round := 0; round < rounds && len(r.fails) == 0; round++ {
		gate := make(chan struct{})
		var blocked atomic.Int32
		for i := 0; i < w; i++ {
			pool.Submit(func() { blocked.Add(1); <-gate })
		}
		if !waitFor(bound, func() bool { return int(blocked.Load()) == w }) {
			close(gate)
			r.fail("termination", "gate tasks of a debounce burst did not start", classifyPool(pool, "tasks-start"))

			return out
		}
		var execs, ready atomic.Int32
		start := make(chan struct{})
		var wg sync.WaitGroup
		for c := 0; c < n; c++ {
			wg.Add(1)
			go func() {
				defer wg.Done()
				<-start
				// spin barrier: the callers enter the debounce function within nanoseconds of each other
				ready.Add(1)
				for spins := 0; int(ready.Load()) < n; spins++ {
					if spins > 2000 {
						runtime.Gosched()
					}
				}
				deb(func() { execs.Add(1) })
			}()
		}
		close(start)
		ok := within(bound, wg.Wait)
		close(gate)
		if !ok || !within(bound, pool.PendingTasksCounter.WaitIsZero) {
			r.fail("termination", "debounce burst did not finish", classifyPool(pool, "zero"))

			return out
		}
		k := int(execs.Load())
		out = append(out, [2]int{n, k})
		if k != 1 {
			r.fail("debounce", fmt.Sprintf("burst of %d concurrent calls, all made before any of their tasks started: %d workerFuncs executed (exactly the latest must be)", n, k),
				map[string]string{"api": "workerpool.DebounceFunc", "effect": "burst-executions"})
		}
	}
	r.counts["debounce-bursts"] += len(out)

	return out
}
