package main

import (
	"strconv"
	"strings"
)

// gomon is the Go-side evaluation of the C16 trace predicate, written independently of the Lean monitor
// (Hive/Spec/WorkerPool.lean); its verdicts are the "implementation" column that the Lean driver must reproduce.
type gtask struct {
	decided int // 0 undecided, 1 accepted, 2 rejected
	started bool
	ended   bool
}

type gomon struct {
	cancel     bool
	dead       bool
	tasks      []gtask
	ctr        int
	ups, dns   int
	rejs       int
	rss, res   int
	sdcalls    int
	openStarts int
	completed  bool
}

func (m *gomon) step(line string) string {
	if m.dead {
		return "reject trace"
	}
	f := strings.Fields(line)
	n := -1
	if len(f) == 2 {
		if v, err := strconv.Atoi(f[1]); err == nil && v >= 0 {
			n = v
		}
	}
	if len(f) == 0 || (len(f) == 2 && n < 0) || len(f) > 2 {
		return "bad-op"
	}
	ok := false
	known := func() bool { return n >= 0 && n < len(m.tasks) }
	switch f[0] {
	case "call":
		if ok = n == len(m.tasks); ok {
			m.tasks = append(m.tasks, gtask{})
		}
	case "acc":
		if ok = known() && m.tasks[n].decided == 0; ok {
			m.tasks[n].decided = 1
		}
	case "rej":
		if ok = known() && m.tasks[n].decided == 0 && !m.tasks[n].started; ok {
			m.tasks[n].decided = 2
			m.rejs++
		}
	case "rs":
		if ok = known() && m.tasks[n].decided != 2 && !m.tasks[n].started && !m.completed; ok {
			m.tasks[n].started = true
			m.rss++
		}
	case "re":
		if ok = known() && m.tasks[n].started && !m.tasks[n].ended && !m.completed; ok {
			m.tasks[n].ended = true
			m.res++
		}
	case "up":
		if ok = n == m.ctr+1 && m.ups+m.rejs < len(m.tasks); ok {
			m.ctr = n
			m.ups++
		}
	case "dn":
		budget := 0
		if m.cancel && m.sdcalls > 0 && m.ups > m.rss {
			budget = m.ups - m.rss
		}
		if ok = n >= 0 && n+1 == m.ctr && !m.completed && m.dns < m.res+budget; ok {
			m.ctr = n
			m.dns++
		}
	case "sdcall":
		ok = true
		m.sdcalls++
	case "sdret":
		ok = true
	case "startcall":
		ok = true
		m.openStarts++
		m.completed = false
	case "startret":
		ok = true
		if m.openStarts > 0 {
			m.openStarts--
		}
	case "complete":
		ok = true
		if m.openStarts == 0 {
			m.completed = true
		}
	default:
		return "bad-op"
	}
	if !ok {
		m.dead = true

		return "reject " + f[0]
	}

	return "ok"
}

func (m *gomon) quiet() string {
	if m.dead {
		return "reject trace"
	}
	good := m.ctr == 0 && m.ups == m.dns
	acc := 0
	for _, t := range m.tasks {
		if t.decided == 0 || t.started != t.ended || (t.decided == 2 && t.started) {
			good = false
		}
		if t.decided == 1 {
			acc++
		}
	}
	if acc != m.ups || (!m.cancel && m.res != m.ups) {
		good = false
	}
	if good {
		return "accept"
	}

	return "reject quiet"
}

func (m *gomon) end() string {
	if m.dead {
		return "reject trace"
	}

	return "accept"
}
