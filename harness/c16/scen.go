package main

import (
	"fmt"
	"os"
	"runtime"
	"strconv"
	"strings"
	"sync"
	"sync/atomic"
	"time"

	"verifharness/hx"

	"github.com/iotaledger/hive.go/runtime/workerpool"
)

// result of one executed case: the request lines with the Go-side answers, oracle failures, statistics.
type result struct {
	lines   [][2]string
	fails   []hx.Finding
	counts  map[string]int
	nontriv string
	evCount int
}

func (r *result) fail(oracle, detail string, sig map[string]string) {
	r.fails = append(r.fails, hx.Finding{Oracle: oracle, Detail: detail, Signature: sig})
}

func (r *result) count(k string) { r.counts[k]++ }

func newResult() *result { return &result{counts: map[string]int{}} }

// emitTrace appends "cfg", the recorded events with the Go monitor's verdicts, and "quiet"/"end".
func (r *result) emitTrace(wd *world, quiet bool) {
	if wd.silent {
		wd.resolveSilent()
	}
	wd.mu.Lock()
	evs := append([]string(nil), wd.events...)
	wd.mu.Unlock()
	m := &gomon{cancel: wd.cancel}
	r.lines = append(r.lines, [2]string{fmt.Sprintf("cfg %d %v", wd.w, wd.cancel), "ok"})
	for _, e := range evs {
		a := m.step(e)
		r.lines = append(r.lines, [2]string{e, a})
		r.count("ev:" + strings.Fields(e)[0])
		if strings.HasPrefix(a, "reject") && !strings.HasPrefix(a, "reject trace") {
			r.fail("trace-predicate", "event '"+e+"' violates the C16 trace predicate: "+a,
				map[string]string{"api": "workerpool", "effect": "trace-" + strings.Fields(e)[0]})
		}
		if strings.HasPrefix(e, "dn -") || strings.HasPrefix(e, "panic") {
			r.fail("counter-or-panic", "unexpected event "+e, map[string]string{"api": "workerpool", "effect": strings.Fields(e)[0]})
		}
	}
	r.evCount += len(evs)
	if quiet {
		a := m.quiet()
		r.lines = append(r.lines, [2]string{"quiet", a})
		if a != "accept" {
			r.fail("quiescence", "at quiescence: "+a+"; "+wd.outcome(true, true), wd.classifyQuiet())
		}
	}
	r.lines = append(r.lines, [2]string{"end", m.end()})
}

// classifyQuiet: signature of a quiescence failure (counter stuck / task never finished).
func (wd *world) classifyQuiet() map[string]string {
	st := wd.state()
	if st.readable && st.running == "false" && st.queued > 0 && st.pending > 0 {
		return map[string]string{"api": "workerpool.Submit", "window": "running-check..push", "effect": "pushed-after-dispatcher-left-its-loop"}
	}

	return map[string]string{"api": "workerpool", "effect": "not-quiescent",
		"state": fmt.Sprintf("running=%s queued>0=%v pending>0=%v", st.running, st.queued > 0, st.pending > 0)}
}

// perTaskOracle: the independent per-task checks (run counts, nothing after completion).
func (r *result) perTaskOracle(wd *world, quiescent bool) {
	wd.mu.Lock()
	defer wd.mu.Unlock()
	for i := range wd.runs {
		n := int(wd.runs[i].Load())
		if n > 1 {
			r.fail("run-once", fmt.Sprintf("task %d ran %d times", i, n), map[string]string{"api": "workerpool", "effect": "task-ran-twice"})
		}
		if wd.rejected[i] && n > 0 {
			r.fail("rejected-ran", fmt.Sprintf("rejected task %d ran", i), map[string]string{"api": "workerpool", "effect": "rejected-task-ran"})
		}
		if quiescent && !wd.cancel && wd.accepted[i] && n != 1 {
			r.fail("run-once", fmt.Sprintf("accepted task %d ran %d times (no cancel-on-shutdown)", i, n),
				map[string]string{"api": "workerpool", "effect": "accepted-task-not-run"})
		}
	}
	if k := wd.ranAfter.Load(); k > 0 {
		r.fail("run-after-complete", fmt.Sprintf("%d task(s) started after ShutdownComplete.Wait returned", k),
			map[string]string{"api": "workerpool", "effect": "run-after-shutdown-complete"})
	}
}

func (r *result) hangFail(wd *world, what string, extra map[string]string) {
	sig := wd.classify(what)
	for k, v := range extra {
		sig[k] = v
	}
	r.fail("termination", "wait '"+what+"' did not return within its bound; "+fmt.Sprint(sig), sig)
}

// ---------------------------------------------------------------------------------------------------------------
// forced schedules (their outcome is compared with the Lean model's outcome of the same named schedule)

func runSched(name string) *result {
	r := newResult()
	var out string
	switch name {
	case "window":
		// a Submit is parked between its (counted) running check and its push while the pool is shut down: the dispatcher
		// must keep serving the queue, so the shutdown completes only after — and including — that task.
		wd := newWorld(1, false)
		defer unpark(wd.pool)
		obs := observePop(any(wd.pool.Queue))
		wd.start(bound)
		obs.settled(1)
		p := parkSubmit(wd.pool)
		subDone := make(chan struct{})
		go func() { wd.submit(body{}); close(subDone) }()
		if !waitChan(p.entered, bound) {
			r.fail("harness", "submit hook not reached", map[string]string{"api": "harness", "effect": "hook-not-reached"})
		}
		wd.shutdown(bound)
		if within(200*time.Millisecond, wd.pool.ShutdownComplete.Wait) {
			r.fail("early-complete", "ShutdownComplete returned while an accepted task was not yet pushed",
				map[string]string{"api": "workerpool.Submit", "effect": "shutdown-complete-before-accepted-task", "schedule": name})
		}
		close(p.release)
		waitChan(subDone, bound)
		complete := wd.waitComplete(bound)
		zero := wd.waitZero(shortBound)
		out = wd.outcome(complete, zero)
		if len(wd.hangs) > 0 {
			r.hangFail(wd, wd.hangs[0], map[string]string{"schedule": name})
		}
		r.perTaskOracle(wd, complete)
	case "window-busy":
		// the same while another task is still running (the old dispatcher sat in WaitIsZero at this point)
		wd := newWorld(1, false)
		defer unpark(wd.pool)
		obs := observePop(any(wd.pool.Queue))
		wd.start(bound)
		gate := make(chan struct{})
		wd.submitG(body{gate: gate})
		waitFor(bound, func() bool { return wd.runs[0].Load() == 1 })
		obs.settled(1)
		p := parkSubmit(wd.pool)
		subDone := make(chan struct{})
		go func() { wd.submit(body{}); close(subDone) }()
		waitChan(p.entered, bound)
		wd.shutdown(bound)
		time.Sleep(100 * time.Millisecond)
		close(p.release)
		waitChan(subDone, bound)
		close(gate)
		complete := wd.waitComplete(bound)
		zero := wd.waitZero(shortBound)
		out = wd.outcome(complete, zero)
		if len(wd.hangs) > 0 {
			r.hangFail(wd, wd.hangs[0], map[string]string{"schedule": name})
		}
		r.perTaskOracle(wd, complete)
	case "gap":
		// the dispatcher is parked between PopOrWait's wait condition and its Wait (holding the queue's mutex) while
		// Shutdown is called: the signal has to wait for the mutex and cannot be lost.
		wd := newWorld(1, false)
		defer unpark(wd.pool)
		p := parkPop(any(wd.pool.Queue))
		wd.start(bound)
		if !waitChan(p.entered, bound) {
			r.fail("harness", "PopOrWait hook not reached", map[string]string{"api": "harness", "effect": "hook-not-reached"})
		}
		sdDone := make(chan struct{})
		go func() { wd.shutdown(bound); close(sdDone) }()
		if waitChan(sdDone, 200*time.Millisecond) {
			r.count("gap-shutdown-returned-before-release") // allowed only if the signal still reaches the dispatcher
		}
		close(p.release)
		waitChan(sdDone, bound)
		complete := wd.waitComplete(bound)
		zero := wd.waitZero(shortBound)
		out = wd.outcome(complete, zero)
		if len(wd.hangs) > 0 {
			r.hangFail(wd, wd.hangs[0], map[string]string{"schedule": name})
		}
	case "restart":
		wd := newWorld(1, false)
		defer unpark(wd.pool)
		obs := observePop(any(wd.pool.Queue))
		ok := wd.start(bound)
		obs.settled(1)
		ok = ok && wd.shutdown(bound) && wd.start(bound) // Shutdown(); Start() back to back
		if ok {
			n := obs.hits.Load()
			wd.submitG(body{})
			ok = wd.waitZero(bound)
			obs.settled(n + 1)
			ok = ok && wd.shutdown(bound)
		}
		complete := ok && wd.waitComplete(bound)
		zero := ok && wd.waitZero(shortBound)
		out = wd.outcome(complete, zero)
		if len(wd.hangs) > 0 {
			r.hangFail(wd, wd.hangs[0], map[string]string{"schedule": name})
		}
		r.perTaskOracle(wd, complete)
	case "haswork":
		// the dispatcher is parked between the two reads of hasWork the first time it gets there.  With the reads in the
		// code's order (isRunning first) that is only after the Shutdown; with the reads swapped it is the very first look
		// (pending == 0), before the Submit and the Shutdown — and the accepted task would be lost.
		wd := newWorld(1, false)
		defer unpark(wd.pool)
		p := parkHasWork(wd.pool)
		wd.start(bound)
		waitChan(p.entered, 100*time.Millisecond)
		wd.submitG(body{})
		wd.shutdown(bound)
		close(p.release)
		complete := wd.waitComplete(bound)
		zero := complete && wd.waitZero(shortBound)
		out = wd.outcome(complete, zero)
		if len(wd.hangs) > 0 {
			r.hangFail(wd, wd.hangs[0], map[string]string{"schedule": name})
		}
		r.perTaskOracle(wd, complete && zero)
	case "foreign":
		// two foreign goroutines wait on the pool's exported queue (Queue.WaitSizeIsAbove) during the whole life cycle
		wd := newWorld(1, false)
		defer unpark(wd.pool)
		obs := observePop(any(wd.pool.Queue))
		wd.start(bound)
		obs.settled(1)
		foreignWaiters(wd, 2)
		n := obs.hits.Load()
		wd.submitG(body{})
		ok := wd.waitZero(bound)
		obs.settled(n + 1)
		time.Sleep(20 * time.Millisecond)
		ok = ok && wd.shutdown(bound)
		complete := ok && wd.waitComplete(bound)
		zero := ok && wd.waitZero(shortBound)
		out = wd.outcome(complete, zero)
		if len(wd.hangs) > 0 {
			r.hangFail(wd, wd.hangs[0], map[string]string{"schedule": name, "foreign-waiters": "2"})
		}
		r.perTaskOracle(wd, complete)
	case "reject-restart", "reject-restart-silent":
		// a Submit on the stopped, completed pool is rejected (it panics with WithPanicOnSubmitAfterShutdown(true) and the
		// caller recovers, or it returns silently); then the pool is restarted, runs a task and is shut down again: the
		// rejected call must leave nothing behind (no lock held, counter untouched).
		wd := newWorldOpt(1, false, name == "reject-restart")
		defer unpark(wd.pool)
		obs := observePop(any(wd.pool.Queue))
		ok := wd.start(bound)
		obs.settled(1)
		ok = ok && wd.shutdown(bound) && wd.waitComplete(bound)
		if ok {
			if name == "reject-restart" {
				wd.submitG(body{})
			} else {
				wd.submitSilentRejected()
			}
			ok = len(wd.hangs) == 0 && wd.start(bound)
		}
		if ok {
			n := obs.hits.Load()
			wd.submitG(body{})
			ok = len(wd.hangs) == 0 && wd.waitZero(bound)
			obs.settled(n + 1)
			ok = ok && wd.shutdown(bound)
		}
		complete := ok && wd.waitComplete(bound)
		zero := ok && wd.waitZero(shortBound)
		if wd.silent {
			wd.resolveSilent()
		}
		out = wd.outcome(complete, zero)
		if len(wd.hangs) > 0 {
			r.hangFail(wd, wd.hangs[0], map[string]string{"schedule": name})
		}
		r.perTaskOracle(wd, complete)
		r.emitTrace(wd, complete && zero)
	case "zero-workers":
		// WithWorkerCount(0), outside the theorems' hypothesis: the accepted task is popped by the dispatcher and never
		// received; the shutdown "completes" (no worker to wait for), the counter stays at 1.  Expected, not a finding: the
		// outcome must be the model's (C16_zero_workers_witness).
		wd := newWorld(0, false)
		ok := wd.start(bound)
		wd.submitG(body{})
		ok = ok && wd.shutdown(bound)
		complete := ok && wd.waitComplete(bound)
		waitFor(bound, func() bool { return wd.pool.Queue.Size() == 0 }) // the dispatcher has popped the task
		zero := ok && wd.waitZero(shortBound)
		out = wd.outcome(complete, zero)
		r.perTaskOracle(wd, false)
	case "start-race":
		// A Start call (A) is parked in its window while another caller restarts the pool and shuts it down again:
		// A must never wait for that shutdown while holding the pool lock.
		wd := newWorld(1, false)
		defer unpark(wd.pool)
		obs := observePop(any(wd.pool.Queue))
		gate1, gate2 := make(chan struct{}), make(chan struct{})
		ok := wd.start(bound)
		obs.settled(1)
		wd.submitG(body{gate: gate1})
		waitFor(bound, func() bool { return wd.runs[0].Load() == 1 })
		ok = ok && wd.shutdown(bound)
		p := parkStart(wd.pool)
		aDone := make(chan struct{})
		go func() { wd.pool.Start(); close(aDone) }() // A
		time.Sleep(50 * time.Millisecond)
		close(gate1)
		ok = ok && wd.waitComplete(bound)
		if !waitChan(p.entered, bound) {
			r.fail("harness", "Start hook not reached", map[string]string{"api": "harness", "effect": "hook-not-reached"})
		}
		n := obs.hits.Load()
		ok = ok && wd.start(bound) // B
		obs.settled(n + 1)
		wd.submitG(body{gate: gate2})
		waitFor(bound, func() bool { return wd.runs[1].Load() == 1 })
		ok = ok && wd.shutdown(bound) // B
		close(p.release)              // A goes on
		time.Sleep(100 * time.Millisecond)
		close(gate2)
		aOK := waitChan(aDone, shortBound)
		if !aOK {
			wd.hangs = append(wd.hangs, "start")
		}
		// A restarted the pool (or found it running): shut it down for good
		complete := ok && aOK && wd.shutdown(bound) && wd.waitComplete(bound)
		zero := ok && aOK && wd.waitZero(shortBound)
		out = wd.outcome(complete, zero)
		if len(wd.hangs) > 0 {
			r.hangFail(wd, wd.hangs[0], map[string]string{"schedule": name})
		}
		r.perTaskOracle(wd, complete)
	default:
		out = "unknown-schedule"
	}
	r.lines = append(r.lines, [2]string{"sched " + name, out})
	r.count("sched:" + name)
	r.nontriv = "sched:" + name

	return r
}

// runHammer: "hammer ROUNDS SEED" — thousands of fresh pools, each: Start; Shutdown; Start (right after the shutdown,
// before the goroutines of the first run may even have been scheduled); 20 Submits; Shutdown; ShutdownComplete.Wait.
// Judged by conservation (every Submit accepted; each task run exactly once, or — cancel-on-shutdown — at most once
// with the counter back at zero) and termination.  A broken restart typically panics inside the pool's own
// goroutines: the harness runs every case in a child process, a dead child is the finding `crash` of this line.
func runHammer(line string) *result {
	r := newResult()
	r.lines = append(r.lines, [2]string{line, "ok"})
	f := strings.Fields(line)
	rounds := 1000
	if len(f) > 1 {
		rounds, _ = strconv.Atoi(f[1])
	}
	const tasks = 20
	for i := 0; i < rounds; i++ {
		w, cancel := 1+i%4, (i/4)%2 == 1
		pool := workerpool.New("hammer", workerpool.WithWorkerCount(w), workerpool.WithCancelPendingTasksOnShutdown(cancel),
			workerpool.WithPanicOnSubmitAfterShutdown(true))
		bad := func(oracle, detail string, sig map[string]string) *result {
			sig["mode"] = "hammer"
			r.fail(oracle, fmt.Sprintf("round %d (workers=%d cancel=%v): %s", i, w, cancel, detail), sig)

			return r
		}
		if !guarded(r, pool, "start", func() { pool.Start() }) || !guarded(r, pool, "shutdown", func() { pool.Shutdown() }) {
			return r
		}
		if !within(bound, func() { pool.Start() }) {
			return bad("termination", "Start right after Shutdown did not return", classifyPool(pool, "start"))
		}
		var runs [tasks]atomic.Int32
		for j := 0; j < tasks; j++ {
			if p := hx.Safely(func() { pool.Submit(func() { runs[j].Add(1) }) }); p != "" {
				return bad("conservation", "Submit on the restarted pool was rejected: "+p,
					map[string]string{"api": "workerpool.Start", "effect": "restarted-pool-rejects"})
			}
		}
		if !guarded(r, pool, "shutdown", func() { pool.Shutdown() }) {
			return r
		}
		t0 := time.Now()
		if !withinPool(pool, func() time.Duration { return time.Since(t0) }, bound, pool.ShutdownComplete.Wait) {
			return bad("termination", "ShutdownComplete.Wait did not return", classifyPool(pool, "complete"))
		}
		for j := 0; j < tasks; j++ {
			if n := runs[j].Load(); n > 1 || (!cancel && n != 1) {
				return bad("run-once", fmt.Sprintf("accepted task %d ran %d times", j, n),
					map[string]string{"api": "workerpool", "effect": "task-run-count"})
			}
		}
		if v := pool.PendingTasksCounter.Get(); v != 0 {
			return bad("quiescence", fmt.Sprintf("pending counter is %d after completion", v),
				map[string]string{"api": "workerpool", "effect": "not-quiescent"})
		}
	}
	r.counts["hammer-rounds"] += rounds
	r.nontriv = line

	return r
}

// foreignWaiters parks k goroutines in Queue.WaitSizeIsAbove on the pool's exported queue (a legal use of the queue); they
// are woken by every broadcast on elementAdded and go back to sleep; they are never released (leaked with the case).
func foreignWaiters(wd *world, k int) {
	for i := 0; i < k; i++ {
		go wd.pool.Queue.WaitSizeIsAbove(1 << 30)
	}
	time.Sleep(20 * time.Millisecond)
}

// runBusy: all workers are inside a task when Shutdown is called; the tasks then read IsRunning and submit.
func runBusy(r *result, wd *world, c runCfg, hung func(string) *result) *result {
	for round := 0; round < c.rounds; round++ {
		gate := make(chan struct{})
		first := wd.calls
		for i := 0; i < c.w; i++ {
			wd.submitG(body{gate: gate, gateFirst: true, kids: []body{{}}})
		}
		if !waitFor(bound, func() bool {
			n := 0
			for i := first; i < first+c.w; i++ {
				n += int(wd.runs[i].Load())
			}

			return n == c.w
		}) {
			return hung("tasks-start")
		}
		sd := make(chan bool, 1)
		go func() { sd <- wd.shutdown(bound) }()
		time.Sleep(20 * time.Millisecond)
		close(gate)
		if !<-sd {
			return hung("shutdown")
		}
		if !wd.waitComplete(bound) {
			return hung("complete")
		}
		if round < c.rounds-1 && !wd.start(bound) {
			return hung("start")
		}
	}
	if !wd.waitZero(shortBound) {
		return hung("zero")
	}
	r.emitTrace(wd, true)
	r.perTaskOracle(wd, true)
	r.nontriv = c.String()

	return r
}

func waitFor(d time.Duration, cond func() bool) bool {
	t0 := time.Now()
	for !cond() {
		if time.Since(t0) > eff(d) {
			hangs.expired(d)

			return false
		}
		time.Sleep(200 * time.Microsecond)
	}

	return true
}

// ---------------------------------------------------------------------------------------------------------------
// stress and deterministic unhooked scenarios; descriptor: "run MODE W CANCEL SUBMITTERS TASKS DEPTH ROUNDS SEED"

type runCfg struct {
	mode          string
	w             int
	cancel        bool
	subs, tasks   int
	depth, rounds int
	seed          uint64
}

func (c runCfg) String() string {
	return fmt.Sprintf("run %s %d %v %d %d %d %d %d", c.mode, c.w, c.cancel, c.subs, c.tasks, c.depth, c.rounds, c.seed)
}

func parseRun(f []string) (c runCfg, ok bool) {
	if len(f) != 9 {
		return c, false
	}
	c.mode = f[1]
	c.w, _ = strconv.Atoi(f[2])
	c.cancel = f[3] == "true"
	c.subs, _ = strconv.Atoi(f[4])
	c.tasks, _ = strconv.Atoi(f[5])
	c.depth, _ = strconv.Atoi(f[6])
	c.rounds, _ = strconv.Atoi(f[7])
	c.seed, _ = strconv.ParseUint(f[8], 10, 64)

	return c, c.w >= 1 && c.w <= 4096 && c.subs <= 64 && c.tasks <= 4096 && c.depth <= 6 && c.rounds >= 1 && c.rounds <= 16
}

func genBody(rng *hx.Rng, depth int, gate chan struct{}) body {
	b := body{spin: rng.Intn(200), gate: gate}
	if depth > 0 {
		for i := rng.Intn(3); i > 0; i-- {
			b.kids = append(b.kids, genBody(rng, depth-1, nil))
		}
	}

	return b
}

// runCase: modes
//
//	drain    every round: submitters finish, WaitIsZero, Shutdown, wait for completion
//	racing   Shutdown is called while the submitters are still submitting (rejections happen)
//	pending  the tasks block on a gate; Shutdown is called with pending tasks, then the gate opens
//	restart  drain, but Shutdown(); Start() back to back between the rounds (no wait in between)
func runCase(c runCfg) *result {
	if inner, isDebug := strings.CutPrefix(c.mode, "debug-"); isDebug && os.Getenv("C16_DEBUG") != "1" {
		ci := c
		ci.mode = inner

		return runInDebugProcess(c.String(), ci.String())
	}
	r := newResult()
	r.lines = append(r.lines, [2]string{c.String(), "ok"})
	rng := hx.NewRng(c.seed)
	var wd *world
	if strings.HasPrefix(c.mode, "gpending-") {
		wd = newGroupWorld(c.w, strings.TrimPrefix(c.mode, "gpending-"))
		if wd.cancel != c.cancel {
			r.lines = append(r.lines, [2]string{"bad-cancel-flag", "bad-descriptor"})

			return r
		}
		c.mode = "pending"
	} else if inner, isSilent := strings.CutPrefix(c.mode, "silent-"); isSilent {
		// the pool rejects silently (no WithPanicOnSubmitAfterShutdown); only without cancel-on-shutdown, where "accepted" can
		// be told from "ran" at the end
		if c.cancel {
			r.lines = append(r.lines, [2]string{"silent-needs-no-cancel", "bad-descriptor"})

			return r
		}
		wd = newWorldOpt(c.w, false, false)
		c.mode = inner
		r.count("silent-reject-cases")
	} else {
		wd = newWorld(c.w, c.cancel)
	}
	r.count("mode:" + c.mode)
	r.count(fmt.Sprintf("workers:%d", c.w))
	r.count(fmt.Sprintf("cancel:%v", c.cancel))
	label := c.mode
	hung := func(what string) *result {
		r.hangFail(wd, what, map[string]string{"mode": label})
		r.emitTrace(wd, false)
		r.perTaskOracle(wd, false)

		return r
	}
	if !wd.start(bound) {
		return hung("start")
	}
	if c.mode == "busy" {
		return runBusy(r, wd, c, hung)
	}
	if c.mode == "foreign" {
		// like drain, with one or two foreign goroutines asleep on the queue's elementAdded condition
		foreignWaiters(wd, 1+int(c.seed%2))
		c.mode = "drain"
	}
	for round := 0; round < c.rounds; round++ {
		var gate chan struct{}
		if c.mode == "pending" {
			gate = make(chan struct{})
		}
		var wg sync.WaitGroup
		for s := 0; s < c.subs; s++ {
			bodies := make([]body, c.tasks)
			for i := range bodies {
				bodies[i] = genBody(rng, c.depth, gate)
			}
			wg.Add(1)
			go func() {
				defer wg.Done()
				for _, b := range bodies {
					wd.submit(b)
					if len(bodies) > 4 {
						runtime.Gosched()
					}
				}
			}()
		}
		subsDone := func() bool { return within(bound, wg.Wait) }
		switch c.mode {
		case "drain", "restart":
			if !subsDone() {
				return hung("submitters")
			}
			if !wd.waitZero(bound) {
				return hung("zero")
			}
		case "racing":
			for i := rng.Intn(400); i > 0; i-- {
				spinSink.Add(1)
			}
		case "pending":
			if !subsDone() {
				return hung("submitters")
			}
		}
		if !wd.shutdown(bound) {
			return hung("shutdown")
		}
		if gate != nil {
			close(gate)
		}
		last := round == c.rounds-1
		if c.mode == "restart" && !last {
			// Shutdown(); Start() back to back
			if !wd.start(bound) {
				return hung("start")
			}

			continue
		}
		if !subsDone() {
			return hung("submitters")
		}
		if !wd.waitComplete(bound) {
			return hung("complete")
		}
		if !last && !wd.start(bound) {
			return hung("start")
		}
	}
	if !wd.waitZero(shortBound) {
		r.hangFail(wd, "zero", map[string]string{"mode": c.mode})
		r.emitTrace(wd, false)
		r.perTaskOracle(wd, false)

		return r
	}
	r.emitTrace(wd, true)
	r.perTaskOracle(wd, true)
	wd.mu.Lock()
	nrej, nacc := 0, 0
	for i := range wd.accepted {
		if wd.accepted[i] {
			nacc++
		}
		if wd.rejected[i] {
			nrej++
		}
	}
	wd.mu.Unlock()
	r.counts["tasks-accepted"] += nacc
	r.counts["tasks-rejected"] += nrej
	if nacc > 0 {
		r.nontriv = fmt.Sprintf("%s|%d|%d|%d", c.String(), nacc, nrej, len(wd.events))
	}

	return r
}
