package main

import (
	"fmt"
	"math"
	"reflect"
	"strconv"
	"time"
	"unsafe"

	"verifharness/hx"

	"github.com/iotaledger/hive.go/ds/timeheap"
)

// TimeHeap has no clock injection (it calls time.Now / time.Since).  Two clocks are used:
//
//   - "shift": one abstract unit is 4096 s.  `tick d` moves every entry the heap currently holds d units
//     into the past (timestamps are rewritten in place through reflect/unsafe — all by the same amount,
//     which preserves the heap order); a window of h half-units is the duration h*2048 s.  The real time
//     that elapses in a case (milliseconds) is nothing against the half-unit margin.
//   - "real": the same requests against the real clock with a unit of 160 ms (`tick d` sleeps); every
//     decision "is the entry inside the window" is checked against measured call times and a case in which
//     a stall makes any decision ambiguous or different from the nominal schedule is discarded.
const (
	thUnitShift = 4096 * time.Second
	thUnitReal  = 160 * time.Millisecond
)

// layout of timeheap.timeHeapEntry, verified by thCheckLayout before it is relied upon.
type thEntryMirror struct {
	timestamp time.Time
	count     uint64
}

func thCheckLayout() {
	t := reflect.TypeOf(timeheap.TimeHeap{})
	f, ok := t.FieldByName("heap")
	if !ok || f.Type.Kind() != reflect.Slice || f.Type.Elem().Kind() != reflect.Ptr {
		panic("timeheap.TimeHeap.heap is not a slice of pointers any more: the shift clock of harness c12b needs adapting")
	}
	e := f.Type.Elem().Elem()
	m := reflect.TypeOf(thEntryMirror{})
	if e.Kind() != reflect.Struct || e.NumField() != 2 || e.Size() != m.Size() ||
		e.Field(0).Name != "timestamp" || e.Field(0).Type != reflect.TypeOf(time.Time{}) || e.Field(0).Offset != m.Field(0).Offset ||
		e.Field(1).Name != "count" || e.Field(1).Type.Kind() != reflect.Uint64 || e.Field(1).Offset != m.Field(1).Offset {
		panic("timeheap.timeHeapEntry changed its layout: the shift clock of harness c12b needs adapting")
	}
}

func thShift(h *timeheap.TimeHeap, d time.Duration) {
	v := reflect.ValueOf(h).Elem().FieldByName("heap")
	for i := 0; i < v.Len(); i++ {
		e := (*thEntryMirror)(unsafe.Pointer(v.Index(i).Pointer()))
		e.timestamp = e.timestamp.Add(-d)
	}
}

type thLive struct {
	t      int // abstract time of the Add
	count  uint64
	lo, hi time.Time // real time just before / after the Add call (real clock only)
}

type thWorld struct {
	base
	h    *timeheap.TimeHeap
	real bool
	now  int
	live []thLive // oracle: added, not cleared, not yet seen outside a queried window
	// statistics / trigger
	cleared   bool
	expired   int
	avgs      int
	stalled   bool
	addsSince int
}

func (w *thWorld) discard() bool { return w.stalled }

func (w *thWorld) sig(api, oracle string) map[string]string {
	return map[string]string{"container": "timeheap", "api": api, "oracle": oracle, "after-clear": strconv.FormatBool(w.cleared)}
}

func (w *thWorld) unit() time.Duration {
	if w.real {
		return thUnitReal
	}

	return thUnitShift
}

func (w *thWorld) exec(f []string) string {
	switch f[0] {
	case "tick":
		d, _ := strconv.Atoi(f[1])
		if w.real {
			time.Sleep(time.Duration(d) * thUnitReal)
		} else {
			thShift(w.h, time.Duration(d)*thUnitShift)
		}
		w.now += d

		return "ok"
	case "add":
		c, _ := strconv.ParseUint(f[1], 10, 64)
		lo := time.Now()
		w.h.Add(c)
		hi := time.Now()
		w.live = append(w.live, thLive{t: w.now, count: c, lo: lo, hi: hi})

		return "ok"
	case "clear":
		w.h.Clear()
		if len(w.live) > 0 {
			w.cleared = true
		}
		w.live = nil

		return "ok"
	case "avg":
		hh, _ := strconv.Atoi(f[1])
		win := time.Duration(hh) * (w.unit() / 2)
		lo := time.Now()
		got := w.h.AveragePerSecond(win)
		hi := time.Now()
		w.avgs++
		// oracle: the windowed sum of what was added and not cleared
		var want uint64
		keep := w.live[:0:0]
		for _, e := range w.live {
			in := 2*(w.now-e.t) < hh
			if w.real {
				// the implementation's decision lies between these two ages; it must be unambiguous and nominal
				ageLo, ageHi := lo.Sub(e.hi), hi.Sub(e.lo)
				if (ageHi < win) != in || (ageLo < win) != in {
					w.stalled = true
				}
			}
			if in {
				want += e.count
				keep = append(keep, e)
			} else {
				w.expired++
			}
		}
		w.live = keep
		secs := float32(win.Seconds())
		if hh == 0 {
			ans := "other"
			switch {
			case math.IsNaN(float64(got)):
				ans = "nan"
			case math.IsInf(float64(got), 1):
				ans = "inf"
			}
			if ans != "nan" {
				// nothing is inside an empty window: total must be 0 and 0/0 is NaN
				w.fail("windowed-sum", fmt.Sprintf("AveragePerSecond(0)=%v: the running total is not 0 although nothing is inside the window", got),
					w.sig("AveragePerSecond", "zero-window"))
			}

			return ans
		}
		if exp := float32(want) / secs; got != exp {
			w.fail("windowed-sum", fmt.Sprintf("AveragePerSecond(%v)=%v, want %v/%v=%v (live entries as time:count %s, now %d)", win, got, want, secs, exp, thShow(w.live), w.now),
				w.sig("AveragePerSecond", "sum"))
		}
		total := math.Round(float64(got) * float64(secs))
		if total < 0 || total > 1e15 {
			return "other"
		}

		return strconv.FormatUint(uint64(total), 10)
	}

	return "bad-op"
}

func thShow(l []thLive) string {
	out := "["
	for i, e := range l {
		if i > 0 {
			out += " "
		}
		out += fmt.Sprintf("%d:%d", e.t, e.count)
	}

	return out + "]"
}

func (w *thWorld) nontrivial() bool { return w.avgs >= 2 && w.expired >= 1 }

func genTimeHeap(rng *hx.Rng, n int, first string, maxTick int) []string {
	ops := []string{first}
	for i := 0; i < n; i++ {
		switch k := rng.Intn(100); {
		case k < 35:
			ops = append(ops, fmt.Sprintf("th add %d", rng.Intn(10)))
		case k < 60:
			ops = append(ops, fmt.Sprintf("th tick %d", rng.Range(1, maxTick)))
		case k < 67:
			ops = append(ops, "th clear")
		case k < 71:
			ops = append(ops, "th avg 0")
		default:
			ops = append(ops, fmt.Sprintf("th avg %d", 2*rng.Intn(5)+1))
		}
	}
	ops = append(ops, "th avg 99")

	return ops
}

func genTimeHeapReal(rng *hx.Rng) []string {
	return genTimeHeap(rng, 10, "th new real", 2)
}

var thContainer = container{
	name: "th",
	mk: func(a []string) world {
		thCheckLayout()

		return &thWorld{h: timeheap.NewTimeHeap(), real: len(a) > 0 && a[0] == "real"}
	},
	gen: func(rng *hx.Rng, n int) []string { return genTimeHeap(rng, n, "th new shift", 3) },
	corpus: [][]string{
		// DESIGN.md section 7: Clear keeps the running total
		{"th new shift", "th add 5", "th clear", "th avg 3", "th add 2", "th avg 3", "th avg 0"},
		{"th new shift", "th add 1", "th tick 1", "th add 2", "th tick 1", "th add 4", "th avg 5", "th avg 3", "th avg 1", "th avg 5", "th avg 0"},
		{"th new real", "th add 3", "th tick 1", "th add 4", "th avg 1", "th avg 5", "th clear", "th add 1", "th avg 3"},
	},
	rule: "at least two window queries and one entry that left the window",
}
