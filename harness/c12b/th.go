package main

import (
	"fmt"
	"math"
	"reflect"
	"sort"
	"strconv"
	"strings"
	"time"
	"unsafe"

	"verifharness/hx"

	"github.com/iotaledger/hive.go/ds/timeheap"
)

// TimeHeap has no clock injection (it calls time.Now / time.Since).  Two clocks are used:
//
//   - "shift": one abstract unit is 4096 s.  `tick d` moves every entry the heap currently holds d units
//     into the past (timestamps are rewritten in place through reflect/unsafe — all by the same amount,
//     which preserves the heap order); a window of h half-units is the duration h*2048 s.  The real time
//     that elapses in a case (milliseconds) is nothing against the half-unit margin.
//   - "real": the same requests against the real clock with a unit of 160 ms (`tick d` sleeps); every
//     decision "is the entry inside the window" is checked against measured call times and a case in which
//     a stall makes any decision ambiguous or different from the nominal schedule is discarded.
const (
	thUnitShift = 4096 * time.Second
	thUnitReal  = 160 * time.Millisecond
)

// layout of timeheap.timeHeapEntry, verified by thCheckLayout before it is relied upon.
type thEntryMirror struct {
	timestamp time.Time
	count     uint64
}

func thCheckLayout() {
	t := reflect.TypeOf(timeheap.TimeHeap{})
	f, ok := t.FieldByName("heap")
	if !ok || f.Type.Kind() != reflect.Slice || f.Type.Elem().Kind() != reflect.Ptr {
		panic("timeheap.TimeHeap.heap is not a slice of pointers any more: the shift clock of harness c12b needs adapting")
	}
	if tf, ok := t.FieldByName("total"); !ok || tf.Type.Kind() != reflect.Uint64 {
		panic("timeheap.TimeHeap.total is not a uint64 any more: harness c12b needs adapting")
	}
	e := f.Type.Elem().Elem()
	m := reflect.TypeOf(thEntryMirror{})
	if e.Kind() != reflect.Struct || e.NumField() != 2 || e.Size() != m.Size() ||
		e.Field(0).Name != "timestamp" || e.Field(0).Type != reflect.TypeOf(time.Time{}) || e.Field(0).Offset != m.Field(0).Offset ||
		e.Field(1).Name != "count" || e.Field(1).Type.Kind() != reflect.Uint64 || e.Field(1).Offset != m.Field(1).Offset {
		panic("timeheap.timeHeapEntry changed its layout: the shift clock of harness c12b needs adapting")
	}
}

func thShift(h *timeheap.TimeHeap, d time.Duration) {
	v := reflect.ValueOf(h).Elem().FieldByName("heap")
	for i := 0; i < v.Len(); i++ {
		e := (*thEntryMirror)(unsafe.Pointer(v.Index(i).Pointer()))
		e.timestamp = e.timestamp.Add(-d)
	}
}

// thHeap reads the heap array of the TimeHeap: (timestamp, count) per slot, in array order.
func thHeap(h *timeheap.TimeHeap) []thEntryMirror {
	v := reflect.ValueOf(h).Elem().FieldByName("heap")
	out := make([]thEntryMirror, 0, v.Len())
	for i := 0; i < v.Len(); i++ {
		out = append(out, *(*thEntryMirror)(unsafe.Pointer(v.Index(i).Pointer())))
	}

	return out
}

func thTotal(h *timeheap.TimeHeap) uint64 {
	return reflect.ValueOf(h).Elem().FieldByName("total").Uint()
}

type thLive struct {
	t      int // abstract time of the Add
	count  uint64
	lo, hi time.Time // real time just before / after the Add call (real clock only)
}

type thWorld struct {
	base
	h    *timeheap.TimeHeap
	real bool
	now  int
	live []thLive // oracle: added, not cleared, not yet seen outside a queried window
	// statistics / trigger
	cleared   bool
	expired   int
	avgs      int
	stalled   bool
	addsSince int
}

func (w *thWorld) discard() bool { return w.stalled }

func (w *thWorld) sig(api, oracle string) map[string]string {
	return map[string]string{"container": "timeheap", "api": api, "oracle": oracle, "after-clear": strconv.FormatBool(w.cleared)}
}

func (w *thWorld) unit() time.Duration {
	if w.real {
		return thUnitReal
	}

	return thUnitShift
}

func (w *thWorld) exec(f []string) string {
	switch f[0] {
	case "tick":
		d, _ := strconv.Atoi(f[1])
		if w.real {
			time.Sleep(time.Duration(d) * thUnitReal)
		} else {
			thShift(w.h, time.Duration(d)*thUnitShift)
		}
		w.now += d

		return "ok"
	case "add":
		c, _ := strconv.ParseUint(f[1], 10, 64)
		lo := time.Now()
		w.h.Add(c)
		hi := time.Now()
		w.live = append(w.live, thLive{t: w.now, count: c, lo: lo, hi: hi})

		return "ok"
	case "clear":
		w.h.Clear()
		if len(w.live) > 0 {
			w.cleared = true
		}
		w.live = nil

		return "ok"
	case "state":
		// the running total and the heap array (age in units : count, canonically sorted); the array must be a
		// min-heap on the timestamps and hold exactly the live entries of the oracle
		heap := thHeap(w.h)
		total := thTotal(w.h)
		now := time.Now()
		type ac struct {
			age   int
			count uint64
		}
		got := make([]ac, 0, len(heap))
		for i, e := range heap {
			if i > 0 && heap[(i-1)/2].timestamp.After(e.timestamp) {
				w.fail("windowed-sum", fmt.Sprintf("heap slot %d is older than its parent slot %d: the array is not a min-heap on the timestamps", i, (i-1)/2),
					w.sig("state", "heap-order"))
			}
			got = append(got, ac{int((now.Sub(e.timestamp) + w.unit()/2) / w.unit()), e.count})
		}
		sort.Slice(got, func(a, b int) bool {
			if got[a].age != got[b].age {
				return got[a].age < got[b].age
			}

			return got[a].count < got[b].count
		})
		want := make([]ac, 0, len(w.live))
		var sum uint64
		for _, e := range w.live {
			want = append(want, ac{w.now - e.t, e.count})
			sum += e.count // wraps like the implementation's uint64
		}
		sort.Slice(want, func(a, b int) bool {
			if want[a].age != want[b].age {
				return want[a].age < want[b].age
			}

			return want[a].count < want[b].count
		})
		if total != sum {
			w.fail("windowed-sum", fmt.Sprintf("running total %d, the live entries %s sum to %d", total, thShow(w.live), sum), w.sig("state", "total-vs-heap"))
		}
		same := len(got) == len(want)
		for i := 0; same && i < len(got); i++ {
			same = got[i] == want[i] || (w.real && got[i].count == want[i].count)
		}
		parts := make([]string, 0, len(got))
		for _, e := range got {
			parts = append(parts, fmt.Sprintf("%d:%d", e.age, e.count))
		}
		ans := fmt.Sprintf("total=%d heap=[%s]", total, strings.Join(parts, " "))
		if !same {
			w.fail("windowed-sum", fmt.Sprintf("the heap holds (age:count) %s, the live entries are (time:count) %s at time %d", ans, thShow(w.live), w.now),
				w.sig("state", "heap-vs-live"))
		}

		return ans
	case "avg", "avgf":
		hh, _ := strconv.Atoi(f[1])
		win := time.Duration(hh) * (w.unit() / 2)
		lo := time.Now()
		got := w.h.AveragePerSecond(win)
		hi := time.Now()
		w.avgs++
		// oracle: the windowed sum of what was added and not cleared
		var want uint64
		keep := w.live[:0:0]
		for _, e := range w.live {
			in := 2*(w.now-e.t) < hh // a negative window holds nothing
			if w.real {
				// the implementation's decision lies between these two ages; it must be unambiguous and nominal
				ageLo, ageHi := lo.Sub(e.hi), hi.Sub(e.lo)
				if (ageHi < win) != in || (ageLo < win) != in {
					w.stalled = true
				}
			}
			if in {
				want += e.count
				keep = append(keep, e)
			} else {
				w.expired++
			}
		}
		w.live = keep
		secs := float32(win.Seconds())
		if hh == 0 {
			ans := "other"
			switch {
			case math.IsNaN(float64(got)):
				ans = "nan"
			case math.IsInf(float64(got), 1):
				ans = "inf"
			}
			if ans != "nan" {
				// nothing is inside an empty window: total must be 0 and 0/0 is NaN
				w.fail("windowed-sum", fmt.Sprintf("AveragePerSecond(0)=%v: the running total is not 0 although nothing is inside the window", got),
					w.sig("AveragePerSecond", "zero-window"))
			}

			return ans
		}
		if exp := float32(want) / secs; got != exp && !(hh < 0 && want == 0 && got == 0) {
			w.fail("windowed-sum", fmt.Sprintf("AveragePerSecond(%v)=%v, want %v/%v=%v (live entries as time:count %s, now %d)", win, got, want, secs, exp, thShow(w.live), w.now),
				w.sig("AveragePerSecond", "sum"))
		}
		if tot := thTotal(w.h); tot != want {
			w.fail("windowed-sum", fmt.Sprintf("after AveragePerSecond(%v) the running total is %d, the entries inside the window %s sum to %d", win, tot, thShow(w.live), want),
				w.sig("AveragePerSecond", "total-field"))
		}
		if f[0] == "avgf" {
			// the running total and the returned float32 itself (mantissa and exponent), compared with the model's two roundings
			return strconv.FormatUint(thTotal(w.h), 10) + " " + f32String(got)
		}
		if want >= 1<<22 || hh < 0 {
			// the total cannot be recovered from the float32 quotient with certainty (or the quotient is -0): the float is checked against the oracle
			// above, the answer compared with the model is the running total itself
			return strconv.FormatUint(thTotal(w.h), 10)
		}
		total := math.Round(float64(got) * float64(secs))
		if total < 0 || total > 1e15 {
			return "other"
		}

		return strconv.FormatUint(uint64(total), 10)
	}

	return "bad-op"
}

func thShow(l []thLive) string {
	out := "["
	for i, e := range l {
		if i > 0 {
			out += " "
		}
		out += fmt.Sprintf("%d:%d", e.t, e.count)
	}

	return out + "]"
}

// f32String prints a float32 as f<m>e<e> with value m*2^e and 2^23 <= m < 2^24 (f0e0 for +0).
func f32String(x float32) string {
	bits := math.Float32bits(x)
	exp, frac := int(bits>>23)&0xff, int(bits&0x7fffff)
	switch {
	case bits == 0:
		return "f0e0"
	case bits>>31 != 0:
		return "negative"
	case exp == 0:
		return "subnormal"
	case exp == 0xff:
		return "nan-or-inf"
	}

	return fmt.Sprintf("f%de%d", frac|1<<23, exp-127-23)
}

func (w *thWorld) nontrivial() bool { return w.avgs >= 2 && w.expired >= 1 }

func genTimeHeap(rng *hx.Rng, n int, first string, maxTick int) []string {
	ops := []string{first}
	real := first == "th new real"
	big := !real && rng.Chance(1, 4)
	far := !real && rng.Chance(1, 10)
	for i := 0; i < n; i++ {
		switch k := rng.Intn(100); {
		case k < 35:
			c := uint64(rng.Intn(10))
			if big && rng.Chance(1, 3) {
				// counts near the top of uint64: the running total wraps around
				c = hx.Pick(rng, []uint64{math.MaxUint64, math.MaxUint64 - 1, 1 << 63, 1<<63 + 1, 1 << 62, 1<<24 + 1, 1<<32 + 5, 1<<53 + 1})
			}
			ops = append(ops, fmt.Sprintf("th add %d", c))
		case k < 60:
			d := rng.Range(1, maxTick)
			if far && rng.Chance(1, 4) {
				d = hx.Pick(rng, []int{7, 50, 1000, 100000}) // up to ~13 years in one step
			}
			ops = append(ops, fmt.Sprintf("th tick %d", d))
		case k < 67:
			ops = append(ops, "th clear")
		case k < 71:
			ops = append(ops, "th avg 0")
		case k < 73 && !real:
			ops = append(ops, fmt.Sprintf("th avg -%d", 2*rng.Intn(3)+1))
		default:
			h := 2*rng.Intn(5) + 1
			if far && rng.Chance(1, 3) {
				h = hx.Pick(rng, []int{15, 101, 2001, 200001})
			}
			if !real && rng.Chance(1, 2) {
				ops = append(ops, fmt.Sprintf("th avgf %d", h))
			} else {
				ops = append(ops, fmt.Sprintf("th avg %d", h))
			}
		}
		if !real && rng.Chance(1, 3) {
			ops = append(ops, "th state")
		}
	}
	if !real {
		ops = append(ops, "th state")
	}
	ops = append(ops, "th avg 99")

	return ops
}

func genTimeHeapReal(rng *hx.Rng) []string {
	return genTimeHeap(rng, 10, "th new real", 2)
}

var thContainer = container{
	name: "th",
	mk: func(a []string) world {
		thCheckLayout()

		return &thWorld{h: timeheap.NewTimeHeap(), real: len(a) > 0 && a[0] == "real"}
	},
	gen: func(rng *hx.Rng, n int) []string { return genTimeHeap(rng, n, "th new shift", 3) },
	corpus: [][]string{
		// DESIGN.md section 7: Clear keeps the running total
		{"th new shift", "th add 5", "th clear", "th avg 3", "th add 2", "th avg 3", "th avg 0"},
		{"th new shift", "th add 1", "th tick 1", "th add 2", "th tick 1", "th add 4", "th avg 5", "th avg 3", "th avg 1", "th avg 5", "th avg 0"},
		// the running total wraps around uint64 and comes back when the big entry leaves the window
		{"th new shift", "th add 18446744073709551615", "th tick 1", "th add 7", "th state", "th avg 5", "th avg 1", "th state", "th avg -3", "th state", "th avg 3"},
		{"th new shift", "th add 9223372036854775808", "th add 9223372036854775808", "th add 3", "th state", "th avg 3", "th tick 100000", "th add 1", "th avg 200001", "th avg 3", "th state"},
		// the returned float32 itself: exact quotients, rounded quotients, totals beyond 2^24 (rounded before the division)
		{"th new shift", "th add 5", "th avgf 1", "th avgf 3", "th add 2", "th avgf 5", "th add 16777217", "th avgf 7", "th add 18446744073692774391", "th avgf 9", "th avgf 200001"},
		{"th new real", "th add 3", "th tick 1", "th add 4", "th avg 1", "th avg 5", "th clear", "th add 1", "th avg 3"},
	},
	rule: "at least two window queries and one entry that left the window",
}
