package main

import (
	"fmt"
	"strconv"

	"verifharness/hx"

	"github.com/iotaledger/hive.go/ds/bytesfilter"
	"github.com/iotaledger/hive.go/ds/shrinkingmap"
	"github.com/iotaledger/hive.go/ds/types"
)

type bfID [32]byte

func bfMk(x int) bfID {
	var id bfID
	id[0] = byte(x)
	id[31] = byte(x >> 8)

	return id
}

func bfFromBytes(b []byte) bfID {
	var id bfID
	copy(id[:], b)

	return id
}

type bfWorld struct {
	base
	f    *bytesfilter.BytesFilter[bfID]
	size int
	// oracle: the last `size` distinct identifiers that were accepted, oldest first
	recent []int
	adds   int
	evicts int
	// the identifiers the oracle asks about after every Add: 0..universe-1 (grows with the requests seen)
	universe int
	// byte slices that were passed to Add / Contains: scribbled over afterwards (the filter must not keep them)
	passed [][]byte
}

const bfUniverse = 6

func (w *bfWorld) sig(api, oracle string) map[string]string {
	return map[string]string{"container": "bytesfilter", "api": api, "oracle": oracle}
}

func (w *bfWorld) inRecent(x int) bool {
	for _, y := range w.recent {
		if y == x {
			return true
		}
	}

	return false
}

func (w *bfWorld) checkAll(api string) {
	for x := 0; x < w.universe; x++ {
		if got, want := w.f.ContainsIdentifier(bfMk(x)), w.inRecent(x); got != want {
			w.fail("last-n-distinct", fmt.Sprintf("after %s: Contains(%d)=%v, the last %d accepted identifiers are %v", api, x, got, w.size, w.recent),
				w.sig(api, "contains-vs-last-n"))

			return
		}
	}
}

func (w *bfWorld) exec(f []string) string {
	switch f[0] {
	case "add", "addb":
		x, _ := strconv.Atoi(f[1])
		if x >= w.universe && x < 1<<16 {
			w.universe = x + 1
		}
		var added bool
		if f[0] == "add" {
			added = w.f.AddIdentifier(bfMk(x))
		} else {
			var id bfID
			raw := bfMk(x)
			buf := append(make([]byte, 0, 64), raw[:]...)
			id, added = w.f.Add(buf)
			if id != bfMk(x) {
				w.fail("last-n-distinct", "Add returned a different identifier", w.sig("Add", "identifier"))
			}
			// the caller's buffer stays the caller's: overwrite it (and its spare capacity) now
			for i := range buf[:cap(buf)] {
				buf[:cap(buf)][i] = 0xEE
			}
		}
		want := !w.inRecent(x)
		if want {
			w.recent = append(w.recent, x)
			w.adds++
			if len(w.recent) > w.size {
				w.recent = w.recent[len(w.recent)-w.size:]
				w.evicts++
			}
		}
		if added != want {
			w.fail("last-n-distinct", fmt.Sprintf("Add(%d)=%v want %v", x, added, want), w.sig("Add", "added-flag"))
		}
		w.checkAll("Add")

		return strconv.FormatBool(added)
	case "has", "hasb":
		x, _ := strconv.Atoi(f[1])
		var got bool
		if f[0] == "has" {
			got = w.f.ContainsIdentifier(bfMk(x))
		} else {
			raw := bfMk(x)
			buf := append(make([]byte, 0, 64), raw[:]...)
			got = w.f.Contains(buf)
			for i := range buf[:cap(buf)] {
				buf[:cap(buf)][i] = 0xEE
			}
		}
		if got != w.inRecent(x) {
			w.fail("last-n-distinct", fmt.Sprintf("Contains(%d)=%v, recent=%v", x, got, w.recent), w.sig("Contains", "contains-vs-last-n"))
		}

		return strconv.FormatBool(got)
	case "state":
		return stateOf(func() string {
			raw := fieldAs[[]bfID](w.f, "identifiers")
			ids := make([]int, 0, len(raw))
			for _, id := range raw {
				ids = append(ids, int(id[0])|int(id[31])<<8)
			}
			known := []int{}
			for _, id := range fieldAs[*shrinkingmap.ShrinkingMap[bfID, types.Empty]](w.f, "knownIdentifiers").Keys() {
				known = append(known, int(id[0])|int(id[31])<<8)
			}
			known = sortedInts(known)
			size := fieldAs[int](w.f, "size")
			// the slice is exactly the last `size` accepted identifiers, oldest first; the set holds the same elements
			if !eqInts(ids, w.recent) || size != w.size {
				w.fail("last-n-distinct", fmt.Sprintf("the identifier slice is %v (size %d), the last %d accepted identifiers are %v", ids, size, w.size, w.recent),
					w.sig("state", "slice-vs-last-n"))
			}
			if !eqInts(known, sortedInts(w.recent)) {
				w.fail("last-n-distinct", fmt.Sprintf("the identifier set is %v, the last %d accepted identifiers are %v", known, w.size, w.recent),
					w.sig("state", "set-vs-last-n"))
			}

			return fmt.Sprintf("size=%d ids=%s known=%s", size, showInts(ids), showInts(known))
		})
	case "all":
		u, _ := strconv.Atoi(f[1])
		out := []string{}
		for x := 0; x < u; x++ {
			if w.f.ContainsIdentifier(bfMk(x)) {
				out = append(out, strconv.Itoa(x))
			}
		}

		return "[" + join(out) + "]"
	}

	return "bad-op"
}

func (w *bfWorld) nontrivial() bool { return w.evicts >= 2 }

func join(s []string) string {
	out := ""
	for i, x := range s {
		if i > 0 {
			out += " "
		}
		out += x
	}

	return out
}

// bfFillCase: a filter of the given size filled in order and pushed over the edge a few times.
func bfFillCase(size int) []string {
	ops := []string{fmt.Sprintf("bf new %d", size)}
	for x := 0; x < size+3; x++ {
		ops = append(ops, fmt.Sprintf("bf add %d", x))
	}

	return append(ops, "bf has 0", "bf has 2", "bf has 3", fmt.Sprintf("bf has %d", size+2), "bf add 1", fmt.Sprintf("bf all %d", size+4), "bf state")
}

var bfContainer = container{
	name: "bf",
	mk: func(a []string) world {
		n, _ := strconv.Atoi(a[0])

		return &bfWorld{f: bytesfilter.New(bfFromBytes, n), size: n, universe: bfUniverse}
	},
	gen: func(rng *hx.Rng, n int) []string {
		size := rng.Range(1, 4)
		universe := bfUniverse
		var ops []string
		switch k := rng.Intn(120); {
		case k < 3:
			size = 0
		case k < 23: // beyond the sizes of the package's test: the universe follows the size
			size = rng.Range(5, 9)
			universe = size + 3
		case k < 27: // large filters: filled in order first, then a random history around the eviction point
			size = hx.Pick(rng, []int{16, 33, 64, 100})
			universe = size + 4
		case k < 28: // beyond one byte
			size = hx.Pick(rng, []int{255, 256, 300})
			universe = size + 4
		}
		ops = append(ops, fmt.Sprintf("bf new %d", size))
		if size >= 16 {
			for x := 0; x < size-2; x++ {
				ops = append(ops, fmt.Sprintf("bf add %d", x))
			}
		}
		for i := 0; i < n; i++ {
			x := rng.Intn(universe)
			if size >= 16 && rng.Chance(1, 2) { // mostly around the newest / the oldest identifiers
				x = (size - 4 + rng.Intn(8) + i/4) % universe
			}
			switch k := rng.Intn(100); {
			case k < 35:
				ops = append(ops, fmt.Sprintf("bf add %d", x))
			case k < 55:
				ops = append(ops, fmt.Sprintf("bf addb %d", x))
			case k < 70:
				ops = append(ops, fmt.Sprintf("bf has %d", x))
			case k < 85:
				ops = append(ops, fmt.Sprintf("bf hasb %d", x))
			default:
				ops = append(ops, fmt.Sprintf("bf all %d", universe))
			}
			if rng.Chance(1, 3) {
				ops = append(ops, "bf state")
			}
		}
		ops = append(ops, "bf state")

		return ops
	},
	corpus: [][]string{
		{"bf new 2", "bf add 1", "bf add 2", "bf add 1", "bf add 3", "bf has 1", "bf add 1", "bf all 6", "bf state"},
		{"bf new 1", "bf addb 4", "bf hasb 4", "bf add 5", "bf has 4", "bf all 6"},
		{"bf new 0", "bf has 1", "bf add 1", "bf all 6"},
		// sizes beyond 2 (the append after the first eviction re-allocates with a capacity chosen by the runtime)
		{"bf new 3", "bf add 0", "bf add 1", "bf add 2", "bf add 3", "bf add 4", "bf has 1", "bf all 6", "bf state", "bf add 5", "bf add 0", "bf all 6", "bf state"},
		bfFillCase(17), bfFillCase(256),
		{"bf new 5", "bf addb 0", "bf addb 1", "bf addb 2", "bf addb 3", "bf addb 4", "bf addb 5", "bf addb 6", "bf hasb 0", "bf hasb 1", "bf hasb 2", "bf addb 7", "bf addb 8", "bf addb 9", "bf all 10", "bf state",
			"bf addb 10", "bf addb 11", "bf addb 12", "bf all 13", "bf state"},
	},
	rule: "at least two evictions of the oldest identifier",
}
