package main

import (
	"errors"
	"fmt"
	"sort"
	"strconv"
	"strings"

	"verifharness/hx"

	"github.com/iotaledger/hive.go/ds/onchangemap"
	"github.com/iotaledger/hive.go/ds/shrinkingmap"
	"github.com/iotaledger/hive.go/runtime/options"
)

type ocID int

func (i ocID) Key() int       { return int(i) }
func (i ocID) String() string { return fmt.Sprintf("item-%d", int(i)) }

type ocItem struct {
	id    ocID
	value int
}

func (i *ocItem) ID() ocID { return i.id }
func (i *ocItem) Clone() onchangemap.Item[int, ocID] {
	return &ocItem{id: i.id, value: i.value}
}

type ocMap = onchangemap.OnChangeMap[int, ocID, *ocItem]

type ocWorld struct {
	base
	m                      *ocMap
	hasC, hasA, hasM, hasD bool
	log                    []string
	failC, failI           bool
	// oracle 1: plain keyed store
	store   map[int]int
	enabled bool
	// oracle 2: replica fed by the item callbacks only; valid while every change had to be reported
	replica      map[int]int
	replicaValid bool
	changes      int
	cbErrors     int
}

const ocUniverse = 5

var errInjected = errors.New("injected callback failure")

func (w *ocWorld) sig(api, oracle string) map[string]string {
	return map[string]string{"container": "onchangemap", "api": api, "oracle": oracle}
}

func kvs(m map[int]int) string {
	keys := make([]int, 0, len(m))
	for k := range m {
		keys = append(keys, k)
	}
	sort.Ints(keys)
	parts := make([]string, 0, len(keys))
	for _, k := range keys {
		parts = append(parts, fmt.Sprintf("%d=%d", k, m[k]))
	}

	return "[" + strings.Join(parts, " ") + "]"
}

func itemsToMap(items []*ocItem) map[int]int {
	m := map[int]int{}
	for _, it := range items {
		m[int(it.id)] = it.value
	}

	return m
}

func newOcWorld(a []string) *ocWorld {
	w := &ocWorld{store: map[int]int{}, replica: map[int]int{}, replicaValid: true}
	b := func(i int) bool { return len(a) > i && (a[i] == "1" || a[i] == "true") }
	w.hasC, w.hasA, w.hasM, w.hasD = b(0), b(1), b(2), b(3)
	var opts []options.Option[ocMap]
	if w.hasC {
		opts = append(opts, onchangemap.WithChangedCallback[int, ocID](func(items []*ocItem) error {
			w.log = append(w.log, "C"+kvs(itemsToMap(items)))
			if len(itemsToMap(items)) != len(items) {
				w.fail("callbacks-mirror", "changed callback received duplicate ids", w.sig("changedCallback", "snapshot-dup"))
			}
			if w.failC {
				return errInjected
			}

			return nil
		}))
	}
	item := func(tag string, apply func(it *ocItem)) func(*ocItem) error {
		return func(it *ocItem) error {
			w.log = append(w.log, fmt.Sprintf("%s(%d=%d)", tag, int(it.id), it.value))
			apply(it)
			if w.failI {
				return errInjected
			}

			return nil
		}
	}
	if w.hasA {
		opts = append(opts, onchangemap.WithItemAddedCallback[int, ocID](item("A", func(it *ocItem) { w.replica[int(it.id)] = it.value })))
	}
	if w.hasM {
		opts = append(opts, onchangemap.WithItemModifiedCallback[int, ocID](item("M", func(it *ocItem) { w.replica[int(it.id)] = it.value })))
	}
	if w.hasD {
		opts = append(opts, onchangemap.WithItemDeletedCallback[int, ocID](item("D", func(it *ocItem) { delete(w.replica, int(it.id)) })))
	}
	w.m = onchangemap.NewOnChangeMap[int, ocID, *ocItem](opts...)

	return w
}

func classify(err error) string {
	switch {
	case err == nil:
		return "ok"
	case (strings.Contains(err.Error(), "failed to execute callback in OnChangeMap") || strings.Contains(err.Error(), "failed to execute item callback in OnChangeMap")) &&
		!errors.Is(err, errInjected):
		// the callback's own error must stay reachable through errors.Is
		return "err-unwrapped"
	case strings.Contains(err.Error(), "already exists"):
		return "err-exists"
	case strings.Contains(err.Error(), "does not exist"):
		return "err-missing"
	case strings.Contains(err.Error(), "failed to execute callback in OnChangeMap"):
		return "err-changed"
	case strings.Contains(err.Error(), "failed to execute item callback in OnChangeMap"):
		return "err-item"
	}

	return "err-other"
}

func (w *ocWorld) all() map[int]int {
	m := map[int]int{}
	for k, it := range w.m.All() {
		if k != int(it.id) {
			w.fail("keyed-store", "All() key differs from the item's id", w.sig("All", "key-id"))
		}
		m[k] = it.value
		it.value = -1 // All hands out copies: this must not reach the map
	}

	return m
}

// after checks both oracles once a request has been executed.
func (w *ocWorld) after(api string, snapshotExpected bool) {
	got := w.all()
	if kvs(got) != kvs(w.store) {
		w.fail("keyed-store", fmt.Sprintf("after %s: All()=%s want %s", api, kvs(got), kvs(w.store)), w.sig(api, "contents"))
	}
	for _, l := range w.log {
		if strings.HasPrefix(l, "C") && l != "C"+kvs(w.store) {
			w.fail("callbacks-mirror", fmt.Sprintf("%s: changed callback saw %s, the map holds %s", api, l, kvs(w.store)), w.sig(api, "snapshot"))
		}
	}
	if snapshotExpected {
		n := 0
		for _, l := range w.log {
			if strings.HasPrefix(l, "C") {
				n++
			}
		}
		if n != 1 {
			w.fail("callbacks-mirror", fmt.Sprintf("%s: %d changed callbacks for one change (log %v)", api, n, w.log), w.sig(api, "snapshot-count"))
		}
	}
	if w.replicaValid && kvs(w.replica) != kvs(w.store) {
		w.fail("callbacks-mirror", fmt.Sprintf("after %s: replica built from the item callbacks %s, map %s", api, kvs(w.replica), kvs(w.store)), w.sig(api, "replica"))
		w.replicaValid = false
	}
}

// reported says whether a change of the given kind has to reach the item callback.
func (w *ocWorld) reported(installed bool) bool {
	return w.enabled && installed && !(w.hasC && w.failC)
}

func (w *ocWorld) answer(parts ...string) string {
	out := strings.Join(parts, " ")
	if len(w.log) > 0 {
		out += " | " + strings.Join(w.log, " ")
	}

	return out
}

func flag(s string) bool { return s == "1" || s == "true" }

func (w *ocWorld) exec(f []string) string {
	w.log = w.log[:0]
	w.failC, w.failI = false, false
	defer func() { w.failC, w.failI = false, false }()
	switch f[0] {
	case "enable":
		w.enabled = flag(f[1])
		w.m.CallbacksEnabled(w.enabled)

		return "ok"
	case "add":
		k, _ := strconv.Atoi(f[1])
		v, _ := strconv.Atoi(f[2])
		w.failC, w.failI = flag(f[3]), flag(f[4])
		res := classify(w.m.Add(&ocItem{id: ocID(k), value: v}))
		_, exists := w.store[k]
		if exists != (res == "err-exists") {
			w.fail("keyed-store", fmt.Sprintf("Add(%d) answered %s, exists=%v", k, res, exists), w.sig("Add", "exists"))
		}
		if !exists {
			w.store[k] = v
			w.changes++
			if !w.reported(w.hasA) {
				w.replicaValid = false
			}
		}
		w.checkErr("Add", res, !exists, w.hasA)
		w.after("Add", !exists && w.enabled && w.hasC)

		return w.answer(res)
	case "mod":
		k, _ := strconv.Atoi(f[1])
		v, _ := strconv.Atoi(f[2])
		mutate, report := flag(f[3]), flag(f[4])
		w.failC, w.failI = flag(f[5]), flag(f[6])
		called := false
		it, err := w.m.Modify(ocID(k), func(it *ocItem) bool {
			called = true
			if mutate {
				it.value = v
			}

			return report
		})
		res := classify(err)
		old, exists := w.store[k]
		if exists != called || exists == (res == "err-missing") {
			w.fail("keyed-store", fmt.Sprintf("Modify(%d) answered %s, exists=%v called=%v", k, res, exists, called), w.sig("Modify", "exists"))
		}
		if !exists {
			w.after("Modify", false)

			return w.answer(res)
		}
		nv := old
		if mutate {
			nv = v
			w.store[k] = v
			w.changes++
			if !report || !w.reported(w.hasM) {
				w.replicaValid = false
			}
		}
		if it == nil || int(it.id) != k || it.value != nv {
			w.fail("keyed-store", fmt.Sprintf("Modify(%d) returned %+v want value %d", k, it, nv), w.sig("Modify", "returned-copy"))
		}
		if it != nil {
			it.value = -1 // a copy: must not reach the map
		}
		w.checkErr("Modify", res, report, w.hasM)
		w.after("Modify", report && w.enabled && w.hasC)
		if it == nil {
			return w.answer(res)
		}

		return w.answer(res, fmt.Sprintf("%d=%d", k, nv))
	case "del":
		k, _ := strconv.Atoi(f[1])
		w.failC, w.failI = flag(f[2]), flag(f[3])
		res := classify(w.m.Delete(ocID(k)))
		_, exists := w.store[k]
		if exists == (res == "err-missing") {
			w.fail("keyed-store", fmt.Sprintf("Delete(%d) answered %s, exists=%v", k, res, exists), w.sig("Delete", "exists"))
		}
		if exists {
			delete(w.store, k)
			w.changes++
			if !w.reported(w.hasD) {
				w.replicaValid = false
			}
		}
		w.checkErr("Delete", res, exists, w.hasD)
		w.after("Delete", exists && w.enabled && w.hasC)

		return w.answer(res)
	case "get":
		k, _ := strconv.Atoi(f[1])
		it, err := w.m.Get(ocID(k))
		res := classify(err)
		v, exists := w.store[k]
		if exists != (err == nil) || (err == nil && (it == nil || it.value != v)) {
			w.fail("keyed-store", fmt.Sprintf("Get(%d)=%+v,%s want %d,%v", k, it, res, v, exists), w.sig("Get", "contents"))
		}
		if err != nil || it == nil {
			return w.answer(res)
		}
		val := it.value
		it.value = -1

		return w.answer(res, fmt.Sprintf("%d=%d", k, val))
	case "all":
		return w.answer("ok", kvs(w.all()))
	case "state":
		return stateOf(func() string {
			en := fieldAs[bool](w.m, "callbacksEnabled")
			if en != w.enabled {
				w.fail("callbacks-mirror", fmt.Sprintf("callbacksEnabled=%v want %v", en, w.enabled), w.sig("state", "enabled"))
			}
			stored := map[int]int{}
			for k, it := range fieldAs[*shrinkingmap.ShrinkingMap[int, *ocItem]](w.m, "m").AsMap() {
				if it == nil || k != int(it.id) {
					w.fail("keyed-store", fmt.Sprintf("the map stores %+v under key %d", it, k), w.sig("state", "key-id"))

					continue
				}
				stored[k] = it.value
			}
			if kvs(stored) != kvs(w.store) {
				w.fail("keyed-store", fmt.Sprintf("the map stores %s want %s", kvs(stored), kvs(w.store)), w.sig("state", "contents"))
			}

			return fmt.Sprintf("enabled=%s %s", b01(en), kvs(stored))
		})
	case "exec":
		w.failC = flag(f[1])
		res := classify(w.m.ExecuteChangedCallback())
		w.after("ExecuteChangedCallback", w.enabled && w.hasC)

		return w.answer(res)
	}

	return "bad-op"
}

// checkErr: a callback failure must surface as the request's error, nothing else may.
func (w *ocWorld) checkErr(api, res string, changed, installed bool) {
	want := "ok"
	if changed && w.enabled {
		switch {
		case w.hasC && w.failC:
			want = "err-changed"
		case installed && w.failI:
			want = "err-item"
		}
	}
	if res == "err-changed" || res == "err-item" {
		w.cbErrors++
	}
	if (res == "err-changed" || res == "err-item" || res == "ok" || res == "err-unwrapped") && res != want {
		w.fail("callbacks-mirror", fmt.Sprintf("%s answered %s want %s", api, res, want), w.sig(api, "callback-error"))
	}
}

func (w *ocWorld) nontrivial() bool { return w.changes >= 5 }

func b01(b bool) string {
	if b {
		return "1"
	}

	return "0"
}

var ocContainer = container{
	name: "oc",
	mk:   func(a []string) world { return newOcWorld(a) },
	gen: func(rng *hx.Rng, n int) []string {
		all := rng.Chance(1, 2)
		fl := func() string { return b01(all || rng.Chance(2, 3)) }
		ops := []string{fmt.Sprintf("oc new %s %s %s %s", fl(), fl(), fl(), fl())}
		if rng.Chance(4, 5) {
			ops = append(ops, "oc enable 1")
		}
		failures := rng.Chance(1, 2)
		ff := func() string { return b01(failures && rng.Chance(1, 6)) }
		for i := 0; i < n; i++ {
			k := rng.Intn(ocUniverse)
			switch x := rng.Intn(100); {
			case x < 28:
				ops = append(ops, fmt.Sprintf("oc add %d %d %s %s", k, rng.Intn(9), ff(), ff()))
			case x < 50:
				mu, rp := "1", "1"
				if rng.Chance(1, 4) {
					mu, rp = b01(rng.Bool()), b01(rng.Bool())
				}
				ops = append(ops, fmt.Sprintf("oc mod %d %d %s %s %s %s", k, rng.Intn(9), mu, rp, ff(), ff()))
			case x < 68:
				ops = append(ops, fmt.Sprintf("oc del %d %s %s", k, ff(), ff()))
			case x < 78:
				ops = append(ops, fmt.Sprintf("oc get %d", k))
			case x < 86:
				ops = append(ops, "oc all")
			case x < 92:
				ops = append(ops, fmt.Sprintf("oc exec %s", ff()))
			default:
				ops = append(ops, fmt.Sprintf("oc enable %s", b01(rng.Chance(3, 4))))
			}
			if rng.Chance(1, 4) {
				ops = append(ops, "oc state")
			}
		}
		ops = append(ops, "oc all", "oc state")

		return ops
	},
	corpus: [][]string{
		{"oc new 1 1 1 1", "oc add 1 5 0 0", "oc enable 1", "oc add 1 6 0 0", "oc add 2 6 0 0", "oc mod 2 7 1 1 0 0", "oc mod 2 8 1 0 0 0", "oc mod 3 1 1 1 0 0",
			"oc del 1 0 1", "oc del 1 0 0", "oc add 3 3 1 0", "oc exec 0", "oc exec 1", "oc get 2", "oc get 4", "oc all", "oc enable 0", "oc del 2 0 0", "oc all"},
		{"oc new 0 1 0 1", "oc enable 1", "oc add 1 1 1 1", "oc mod 1 2 1 1 0 1", "oc del 1 1 0", "oc exec 1", "oc all"},
	},
	rule: "at least five state changes",
}
