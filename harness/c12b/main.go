// C12 (part B) correspondence harness: BytesFilter, Walker, TimeHeap, IndexedStorage, OnChangeMap and
// SubscriptionManager.  Every case targets one container (the first token of each request line names
// it) and is an interpreter of op lines over the real code; the Lean driver drv_c12b must print the same
// answers line by line.  Each container also has a small independent abstract model written here in
// Go (the property oracle): "exactly the last N distinct identifiers", "every pushed element once in
// queue order", "windowed sum of what was added and not cleared", "keyed store + callbacks mirror every
// change", "topics[t] = sum over clients and the events mirror every state change".
package main

import (
	"crypto/sha256"
	"fmt"
	"os"
	"sort"
	"strings"
	"sync"
	"time"

	"verifharness/hx"
)

// failure of a property oracle, buffered until the case is emitted.
type failure struct {
	oracle, detail string
	sig            map[string]string
}

// world is one container instance together with its oracle.
type world interface {
	// exec runs one request (tokens without the container prefix) on the real code.
	exec(f []string) string
	// drain returns (and forgets) the oracle failures recorded since the last call.
	drain() []failure
	// nontrivial reports whether the executed case is non-trivial by the container's rule.
	nontrivial() bool
	// discard reports that the case must not be compared (real-clock case disturbed by a stall).
	discard() bool
}

type base struct {
	fails  []failure
	failed bool
}

func (b *base) fail(oracle, detail string, sig map[string]string) {
	if !b.failed { // the first failure of a case is the root cause; later ones are echoes
		b.failed = true
		b.fails = append(b.fails, failure{oracle, detail, sig})
	}
}
func (b *base) drain() []failure {
	f := b.fails
	b.fails = nil

	return f
}
func (b *base) discard() bool { return false }

type container struct {
	name string
	mk   func(first []string) world
	gen  func(rng *hx.Rng, n int) []string
	// corpus of hand-written / minimised histories, run first
	corpus [][]string
	rule   string
}

var containers = []container{bfContainer, wkContainer, thContainer, ixContainer, ocContainer, smContainer}

func find(name string) *container {
	for i := range containers {
		if containers[i].name == name {
			return &containers[i]
		}
	}

	return nil
}

type caseResult struct {
	ops, answers []string
	fails        []failure
	nontrivial   bool
	discarded    bool
	hung         bool
}

// stepper interprets the op lines of one case one at a time.
type stepper struct {
	c *container
	w world
}

// step executes one op line on the real code and returns the canonical answer plus the oracle failures the
// request produced (drained from the world, so that they can be reported before the next request runs).
func (st *stepper) step(op string) (string, []failure) {
	f := strings.Fields(op)
	if st.c == nil {
		if len(f) > 0 {
			st.c = find(f[0])
		}
		if st.c == nil {
			return "bad-op", nil
		}
	}
	if len(f) < 2 || f[0] != st.c.name {
		return "bad-op", nil
	}
	if f[1] == "new" {
		if p := hx.Safely(func() { st.w = st.c.mk(f[2:]) }); p != "" {
			st.w = nil

			return "panic", nil
		}

		return "ok", nil
	}
	if st.w == nil {
		return "bad-op", nil
	}
	var ans string
	if p := hx.Safely(func() { ans = st.w.exec(f[1:]) }); p != "" {
		ans = "panic"
	}

	return ans, st.w.drain()
}

// caseTimeout bounds one case (normally a few milliseconds).  A case that exceeds it is a hang of the code
// under test: it becomes an oracle failure whose replay is the prefix up to and including the hanging request.
const caseTimeout = 20 * time.Second

// execCase interprets the op lines of one case (buffered: nothing is written to the run).  With stopAtFail the
// case ends at the first request on which a property oracle fails (the prefix is the failing input).
func execCase(ops []string, stopAtFail bool) caseResult {
	res := caseResult{}
	var mu sync.Mutex
	cur := ""
	done := make(chan struct{})
	abandoned := false
	go func() {
		defer close(done)
		st := &stepper{}
		for _, op := range ops {
			mu.Lock()
			if abandoned {
				mu.Unlock()

				return
			}
			cur = op
			mu.Unlock()
			ans, fl := st.step(op)
			mu.Lock()
			if abandoned {
				mu.Unlock()

				return
			}
			res.ops = append(res.ops, op)
			res.answers = append(res.answers, ans)
			res.fails = append(res.fails, fl...)
			mu.Unlock()
			if stopAtFail && len(fl) > 0 {
				break
			}
		}
		if st.w != nil {
			mu.Lock()
			res.nontrivial = st.w.nontrivial()
			res.discarded = st.w.discard()
			mu.Unlock()
		}
	}()
	select {
	case <-done:
		return res
	case <-time.After(caseTimeout):
	}
	mu.Lock()
	defer mu.Unlock()
	abandoned = true
	out := caseResult{ops: append(append([]string{}, res.ops...), cur), answers: append(append([]string{}, res.answers...), "hang"),
		fails: append([]failure{}, res.fails...), hung: true}
	f := strings.Fields(cur)
	api := "?"
	if len(f) >= 2 {
		api = f[0] + "." + f[1]
	}
	out.fails = append(out.fails, failure{"termination", fmt.Sprintf("request %q did not return within %v", cur, caseTimeout),
		map[string]string{"container": f[0], "api": api, "oracle": "hang"}})

	return out
}

func sigKey(sig map[string]string) string {
	keys := make([]string, 0, len(sig))
	for k := range sig {
		keys = append(keys, k)
	}
	sort.Strings(keys)
	out := ""
	for _, k := range keys {
		out += k + "=" + sig[k] + ";"
	}

	return out
}

// shrink removes requests greedily while a failure with the same signature remains.
func shrink(ops []string, key string) []string {
	fails := func(cand []string) bool {
		res := execCase(cand, true)
		if res.hung {
			hangs++
		}
		for _, fl := range res.fails {
			if sigKey(fl.sig) == key {
				return true
			}
		}

		return false
	}
	cur := append([]string{}, ops...)
	for pass := 0; pass < 3 && hangs < 2; pass++ {
		changed := false
		for i := len(cur) - 1; i >= 1; i-- { // never the constructor line
			cand := append(append([]string{}, cur[:i]...), cur[i+1:]...)
			if fails(cand) {
				cur = cand
				changed = true
			}
			if hangs >= 2 {
				break
			}
		}
		if !changed {
			break
		}
	}

	return cur
}

var (
	seenSig = map[string]bool{}
	hangs   int
)

func emit(r *hx.Run, sub uint64, res caseResult) {
	if len(res.ops) == 0 {
		return
	}
	name := strings.Fields(res.ops[0])[0]
	if res.discarded {
		r.Count(name + ":discarded-stall")

		return
	}
	r.Case(sub)
	r.Count("cases:" + name)
	for i, op := range res.ops {
		r.Line(op, res.answers[i])
		f := strings.Fields(op)
		if len(f) >= 2 {
			r.Count("op:" + f[0] + "." + f[1])
		}
		if len(f) >= 3 && f[1] == "new" && (f[0] == "bf") {
			r.Count("cfg:" + f[0] + ".size=" + f[2])
		}
		a := strings.Fields(res.answers[i])
		if len(a) > 0 && (a[0] == "panic" || strings.HasPrefix(a[0], "err") || a[0] == "bad-op" || a[0] == "nan" || a[0] == "inf" || a[0] == "hang") {
			r.Count("ans:" + name + "." + a[0])
		}
		if strings.Contains(res.answers[i], "DROP(") {
			r.Count("ans:sm.forced-drop")
		}
	}
	for _, fl := range res.fails {
		r.Fail(fl.oracle, fl.detail+"; ops="+strings.Join(res.ops, " / "), fl.sig)
	}
	if res.nontrivial {
		h := sha256.Sum256([]byte(strings.Join(res.ops, "\n")))
		r.Nontrivial(string(h[:10]))
	}
	if len(r.Samples) < r.MaxSamples {
		r.Sample(r.CaseLines())
	}
}

// runCase executes one generated case.  The case ends at the first oracle failure (so the recorded input is the
// failing prefix); the first failure of every signature is minimised and the minimised case is emitted first, so
// that it becomes the replay of that signature.
func runCase(r *hx.Run, sub uint64, ops []string, replay bool) {
	res := execCase(ops, !replay)
	if res.hung {
		hangs++
	}
	if !replay && !res.hung {
		for _, fl := range res.fails {
			key := sigKey(fl.sig)
			if seenSig[key] || len(seenSig) >= 8 {
				continue
			}
			seenSig[key] = true
			if small := shrink(res.ops, key); len(small) < len(res.ops) {
				sr := execCase(small, true)
				if len(sr.fails) > 0 && !sr.hung {
					r.Count("shrunk:" + strings.Fields(res.ops[0])[0])
					emit(r, 0, sr)
				}
			}
		}
	}
	emit(r, sub, res)
	if hangs >= 2 {
		// goroutines stuck in the code under test cannot be stopped; report what was found and leave
		r.Count("aborted-after-hangs")
		r.Finish()
		os.Exit(0)
	}
}

func main() {
	r := hx.Start()
	r.MaxSamples = 6
	rules := []string{}
	for _, c := range containers {
		rules = append(rules, c.name+": "+c.rule)
	}
	r.Rule = "per container random histories of ~40 ops over universes of 4-6 keys/clients/topics and every option setting; " +
		"distinct by sha256 of the op lines; non-trivial = " + strings.Join(rules, "; ")
	if lines := r.ReplayLines(); lines != nil {
		runCase(r, 0, lines, true)
		r.Finish()

		return
	}
	for _, c := range containers {
		for _, ops := range c.corpus {
			runCase(r, 0, ops, false)
		}
	}
	n := 2000 * r.Scale
	for ci := range containers {
		c := &containers[ci]
		for i := 0; i < n; i++ {
			rng, sub := r.Rng.Fork()
			runCase(r, sub, c.gen(rng, 40), false)
		}
	}
	// TimeHeap against the real clock: a few short histories with real sleeps, run concurrently
	// (they mostly sleep); a history disturbed by a scheduling stall is discarded, never compared.
	nr := 32
	if r.Scale > 1 {
		nr = 160
	}
	type job struct {
		sub uint64
		ops []string
		res caseResult
	}
	jobs := make([]*job, nr)
	for i := range jobs {
		rng, sub := r.Rng.Fork()
		jobs[i] = &job{sub: sub, ops: genTimeHeapReal(rng)}
	}
	var wg sync.WaitGroup
	sem := make(chan struct{}, 16)
	for _, j := range jobs {
		wg.Add(1)
		go func(j *job) {
			defer wg.Done()
			sem <- struct{}{}
			defer func() { <-sem }()
			j.res = execCase(j.ops, false)
		}(j)
	}
	wg.Wait()
	for _, j := range jobs {
		emit(r, j.sub, j.res)
	}
	r.Extra["containers"] = fmt.Sprint(len(containers))
	r.Finish()
}
