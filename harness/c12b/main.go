// C12 (part B) correspondence harness: BytesFilter, Walker, TimeHeap, IndexedStorage, OnChangeMap and
// SubscriptionManager.  Every case targets one container (the first token of each request line names
// it) and is an interpreter of op lines over the real code; the Lean driver drv_c12b must print the same
// answers line by line.  Each container also has a small independent abstract model written here in
// Go (the property oracle): "exactly the last N distinct identifiers", "every pushed element once in
// queue order", "windowed sum of what was added and not cleared", "keyed store + callbacks mirror every
// change", "topics[t] = sum over clients and the events mirror every state change".
package main

import (
	"crypto/sha256"
	"fmt"
	"strings"
	"sync"

	"verifharness/hx"
)

// failure of a property oracle, buffered until the case is emitted.
type failure struct {
	oracle, detail string
	sig            map[string]string
}

// world is one container instance together with its oracle.
type world interface {
	// exec runs one request (tokens without the container prefix) on the real code.
	exec(f []string) string
	failures() []failure
	// nontrivial reports whether the executed case is non-trivial by the container's rule.
	nontrivial() bool
	// discard reports that the case must not be compared (real-clock case disturbed by a stall).
	discard() bool
}

type base struct {
	fails []failure
}

func (b *base) fail(oracle, detail string, sig map[string]string) {
	if len(b.fails) < 1 { // the first failure of a case is the root cause; later ones are echoes
		b.fails = append(b.fails, failure{oracle, detail, sig})
	}
}
func (b *base) failures() []failure { return b.fails }
func (b *base) discard() bool       { return false }

type container struct {
	name string
	mk   func(first []string) world
	gen  func(rng *hx.Rng, n int) []string
	// corpus of hand-written / minimised histories, run first
	corpus [][]string
	rule   string
}

var containers = []container{bfContainer, wkContainer, thContainer, ixContainer, ocContainer, smContainer}

func find(name string) *container {
	for i := range containers {
		if containers[i].name == name {
			return &containers[i]
		}
	}

	return nil
}

type caseResult struct {
	ops, answers []string
	fails        []failure
	nontrivial   bool
	discarded    bool
}

// execCase interprets the op lines of one case.
func execCase(ops []string) caseResult {
	res := caseResult{ops: ops}
	if len(ops) == 0 {
		return res
	}
	first := strings.Fields(ops[0])
	c := find(first[0])
	if c == nil {
		for range ops {
			res.answers = append(res.answers, "bad-op")
		}

		return res
	}
	var w world
	for _, op := range ops {
		f := strings.Fields(op)
		if len(f) < 2 || f[0] != c.name {
			res.answers = append(res.answers, "bad-op")

			continue
		}
		if f[1] == "new" {
			if w != nil {
				res.fails = append(res.fails, w.failures()...)
			}
			if p := hx.Safely(func() { w = c.mk(f[2:]) }); p != "" {
				w = nil
				res.answers = append(res.answers, "panic")
			} else {
				res.answers = append(res.answers, "ok")
			}

			continue
		}
		if w == nil {
			res.answers = append(res.answers, "bad-op")

			continue
		}
		var ans string
		if p := hx.Safely(func() { ans = w.exec(f[1:]) }); p != "" {
			ans = "panic"
		}
		res.answers = append(res.answers, ans)
	}
	if w != nil {
		res.fails = append(res.fails, w.failures()...)
		res.nontrivial = w.nontrivial()
		res.discarded = w.discard()
	}

	return res
}

func emit(r *hx.Run, sub uint64, res caseResult) {
	if len(res.ops) == 0 {
		return
	}
	name := strings.Fields(res.ops[0])[0]
	if res.discarded {
		r.Count(name + ":discarded-stall")

		return
	}
	r.Case(sub)
	r.Count("cases:" + name)
	for i, op := range res.ops {
		r.Line(op, res.answers[i])
		f := strings.Fields(op)
		if len(f) >= 2 {
			r.Count("op:" + f[0] + "." + f[1])
		}
		a := strings.Fields(res.answers[i])
		if len(a) > 0 && (a[0] == "panic" || strings.HasPrefix(a[0], "err") || a[0] == "bad-op" || a[0] == "nan" || a[0] == "inf") {
			r.Count("ans:" + name + "." + a[0])
		}
		if strings.Contains(res.answers[i], "DROP(") {
			r.Count("ans:sm.forced-drop")
		}
	}
	for _, fl := range res.fails {
		r.Fail(fl.oracle, fl.detail+"; ops="+strings.Join(res.ops, " / "), fl.sig)
	}
	if res.nontrivial {
		h := sha256.Sum256([]byte(strings.Join(res.ops, "\n")))
		r.Nontrivial(string(h[:10]))
	}
	if len(r.Samples) < r.MaxSamples {
		r.Sample(r.CaseLines())
	}
}

func main() {
	r := hx.Start()
	r.MaxSamples = 6
	rules := []string{}
	for _, c := range containers {
		rules = append(rules, c.name+": "+c.rule)
	}
	r.Rule = "per container random histories of ~40 ops over universes of 4-6 keys/clients/topics and every option setting; " +
		"distinct by sha256 of the op lines; non-trivial = " + strings.Join(rules, "; ")
	if lines := r.ReplayLines(); lines != nil {
		emit(r, 0, execCase(lines))
		r.Finish()

		return
	}
	for _, c := range containers {
		for _, ops := range c.corpus {
			emit(r, 0, execCase(ops))
		}
	}
	n := 2000 * r.Scale
	for ci := range containers {
		c := &containers[ci]
		for i := 0; i < n; i++ {
			rng, sub := r.Rng.Fork()
			emit(r, sub, execCase(c.gen(rng, 40)))
		}
	}
	// TimeHeap against the real clock: a few short histories with real sleeps, run concurrently
	// (they mostly sleep); a history disturbed by a scheduling stall is discarded, never compared.
	nr := 32
	if r.Scale > 1 {
		nr = 160
	}
	type job struct {
		sub uint64
		ops []string
		res caseResult
	}
	jobs := make([]*job, nr)
	for i := range jobs {
		rng, sub := r.Rng.Fork()
		jobs[i] = &job{sub: sub, ops: genTimeHeapReal(rng)}
	}
	var wg sync.WaitGroup
	sem := make(chan struct{}, 16)
	for _, j := range jobs {
		wg.Add(1)
		go func(j *job) {
			defer wg.Done()
			sem <- struct{}{}
			defer func() { <-sem }()
			j.res = execCase(j.ops)
		}(j)
	}
	wg.Wait()
	for _, j := range jobs {
		emit(r, j.sub, j.res)
	}
	r.Extra["containers"] = fmt.Sprint(len(containers))
	r.Finish()
}
