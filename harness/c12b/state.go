package main

import (
	"container/list"
	"fmt"
	"reflect"
	"sort"
	"strconv"
	"strings"
	"unsafe"

	"github.com/iotaledger/hive.go/ds/orderedmap"
	"github.com/iotaledger/hive.go/ds/shrinkingmap"
	"github.com/iotaledger/hive.go/ds/types"
)

// State observation.  The `state` request of a container prints its *unexported* fields (read through
// reflect/unsafe, nothing is written) in a canonical form, so that the tie compares the whole state of the
// Lean model with the whole state of the Go object after a request, not only what the exported API happens to
// show later.  A field that is missing or has changed its type answers `state-unavailable <why>` (the model
// never prints that: the correspondence breaks and names the field).

// privateField returns an addressable, readable reflect.Value of the unexported field `name` of *ptr.
func privateField(ptr any, name string) reflect.Value {
	v := reflect.ValueOf(ptr).Elem().FieldByName(name)
	if !v.IsValid() {
		panic("no field " + name)
	}

	return reflect.NewAt(v.Type(), unsafe.Pointer(v.UnsafeAddr())).Elem()
}

// fieldAs reads the unexported field `name` of *ptr as a T (panics when the declared type is not T).
func fieldAs[T any](ptr any, name string) T {
	v := privateField(ptr, name).Interface()
	t, ok := v.(T)
	if !ok {
		panic(fmt.Sprintf("field %s has type %T", name, v))
	}

	return t
}

func stateOf(f func() string) (out string) {
	defer func() {
		if e := recover(); e != nil {
			out = "state-unavailable " + strings.Join(strings.Fields(fmt.Sprint(e)), "_")
		}
	}()

	return f()
}

func showInts(l []int) string {
	parts := make([]string, 0, len(l))
	for _, x := range l {
		parts = append(parts, strconv.Itoa(x))
	}

	return "[" + strings.Join(parts, " ") + "]"
}

func sortedInts(l []int) []int {
	out := append([]int{}, l...)
	sort.Ints(out)

	return out
}

func listInts(l *list.List) []int {
	out := []int{}
	for e := l.Front(); e != nil; e = e.Next() {
		out = append(out, e.Value.(int))
	}

	return out
}

func orderedKeys(o *orderedmap.OrderedMap[int, types.Empty]) []int {
	out := []int{}
	o.ForEach(func(k int, _ types.Empty) bool {
		out = append(out, k)

		return true
	})

	return out
}

func mapKVs(m *shrinkingmap.ShrinkingMap[int, int]) string { return kvs(m.AsMap()) }

func eqInts(a, b []int) bool {
	if len(a) != len(b) {
		return false
	}
	for i := range a {
		if a[i] != b[i] {
			return false
		}
	}

	return true
}
