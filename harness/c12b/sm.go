package main

import (
	"fmt"
	"math"
	"sort"
	"strconv"
	"strings"

	"verifharness/hx"

	"github.com/iotaledger/hive.go/ds/shrinkingmap"
	"github.com/iotaledger/hive.go/runtime/options"
	sm "github.com/iotaledger/hive.go/web/subscriptionmanager"
)

const (
	smClients = 4
	smTopics  = 5
)

type smEvent struct {
	kind  int // 0 +c, 1 -c, 2 S, 3 U, 4 TA, 5 TR, 6 DROP
	c, t  int
	label string
}

type smWorld struct {
	base
	m     *sm.SubscriptionManager[int, int]
	limit int
	log   []smEvent
	// oracle 1 (driven by the requests): client -> topic -> count
	subs map[int]map[int]int
	// oracle 2 (driven by the events only): what a listener reconstructs
	rConn  map[int]bool
	rSub   map[[2]int]int
	rTopic map[int]bool
	drops  int
	multi  int
}

func (w *smWorld) sig(api, oracle string, dropped bool) map[string]string {
	return map[string]string{"container": "subscriptionmanager", "api": api, "oracle": oracle, "forced-drop": strconv.FormatBool(dropped)}
}

func newSmWorld(a []string) *smWorld {
	w := &smWorld{subs: map[int]map[int]int{}, rConn: map[int]bool{}, rSub: map[[2]int]int{}, rTopic: map[int]bool{}}
	w.limit, _ = strconv.Atoi(a[0])
	opts := []options.Option[sm.SubscriptionManager[int, int]]{}
	if len(a) < 2 || a[1] != "default" {
		opts = append(opts, sm.WithMaxTopicSubscriptionsPerClient[int, int](w.limit))
	}
	if len(a) >= 4 {
		cnt, _ := strconv.Atoi(a[2])
		ratio, _ := strconv.ParseFloat(a[3], 32)
		opts = append(opts, sm.WithCleanupThresholdCount[int, int](cnt), sm.WithCleanupThresholdRatio[int, int](float32(ratio)))
	}
	w.m = sm.New[int, int](opts...)
	ev := w.m.Events()
	ev.ClientConnected.Hook(func(e *sm.ClientEvent[int]) {
		w.log = append(w.log, smEvent{0, e.ClientID, 0, fmt.Sprintf("+c%d", e.ClientID)})
	})
	ev.ClientDisconnected.Hook(func(e *sm.ClientEvent[int]) {
		w.log = append(w.log, smEvent{1, e.ClientID, 0, fmt.Sprintf("-c%d", e.ClientID)})
	})
	ev.TopicSubscribed.Hook(func(e *sm.ClientTopicEvent[int, int]) {
		w.log = append(w.log, smEvent{2, e.ClientID, e.Topic, fmt.Sprintf("S(%d,%d)", e.ClientID, e.Topic)})
	})
	ev.TopicUnsubscribed.Hook(func(e *sm.ClientTopicEvent[int, int]) {
		w.log = append(w.log, smEvent{3, e.ClientID, e.Topic, fmt.Sprintf("U(%d,%d)", e.ClientID, e.Topic)})
	})
	ev.TopicAdded.Hook(func(e *sm.TopicEvent[int]) {
		w.log = append(w.log, smEvent{4, 0, e.Topic, fmt.Sprintf("TA(%d)", e.Topic)})
	})
	ev.TopicRemoved.Hook(func(e *sm.TopicEvent[int]) {
		w.log = append(w.log, smEvent{5, 0, e.Topic, fmt.Sprintf("TR(%d)", e.Topic)})
	})
	ev.DropClient.Hook(func(e *sm.DropClientEvent[int]) {
		if e.Reason != sm.ErrMaxTopicSubscriptionsPerClientReached {
			w.fail("events-mirror", "DropClient with an unexpected reason", w.sig("Subscribe", "drop-reason", true))
		}
		w.log = append(w.log, smEvent{6, e.ClientID, 0, fmt.Sprintf("DROP(%d)", e.ClientID)})
	})

	return w
}

// canon sorts every maximal run of same-kind events by topic (Go map iteration order is undefined).
func canon(log []smEvent) []string {
	out := []string{}
	for i := 0; i < len(log); {
		j := i
		for j < len(log) && log[j].kind == log[i].kind {
			j++
		}
		run := append([]smEvent{}, log[i:j]...)
		sort.SliceStable(run, func(a, b int) bool { return run[a].t < run[b].t })
		for _, e := range run {
			out = append(out, e.label)
		}
		i = j
	}

	return out
}

// applyEvents feeds the listener's replica and checks that no event contradicts it.
func (w *smWorld) applyEvents(api string, dropped bool) {
	for _, e := range w.log {
		switch e.kind {
		case 0:
			if w.rConn[e.c] {
				w.fail("events-mirror", fmt.Sprintf("%s: ClientConnected(%d) for a client the events say is connected", api, e.c), w.sig(api, "connect-twice", dropped))
			}
			w.rConn[e.c] = true
		case 1:
			if !w.rConn[e.c] {
				w.fail("events-mirror", fmt.Sprintf("%s: ClientDisconnected(%d) for a client the events say is not connected", api, e.c), w.sig(api, "disconnect-unknown", dropped))
			}
			delete(w.rConn, e.c)
		case 2:
			w.rSub[[2]int{e.c, e.t}]++
		case 3:
			if w.rSub[[2]int{e.c, e.t}] == 0 {
				w.fail("events-mirror", fmt.Sprintf("%s: TopicUnsubscribed(%d,%d) without a matching TopicSubscribed", api, e.c, e.t), w.sig(api, "unsubscribed-unmatched", dropped))
			} else {
				w.rSub[[2]int{e.c, e.t}]--
			}
		case 4:
			if w.rTopic[e.t] {
				w.fail("events-mirror", fmt.Sprintf("%s: TopicAdded(%d) twice", api, e.t), w.sig(api, "topic-added-twice", dropped))
			}
			w.rTopic[e.t] = true
		case 5:
			if !w.rTopic[e.t] {
				w.fail("events-mirror", fmt.Sprintf("%s: TopicRemoved(%d) for a topic the events say has no subscribers", api, e.t), w.sig(api, "topic-removed-unknown", dropped))
			}
			delete(w.rTopic, e.t)
		}
	}
}

// check compares the implementation's observable state with both oracles.
func (w *smWorld) check(api string, dropped bool) {
	topicsFromClients := 0
	all := 0
	for t := 0; t < smTopics; t++ {
		sum, rsum := 0, 0
		for c := 0; c < smClients; c++ {
			n := w.subs[c][t]
			sum += n
			rsum += w.rSub[[2]int{c, t}]
			if got := w.m.ClientSubscribedToTopic(c, t); got != (n > 0) {
				w.fail("keyed-store", fmt.Sprintf("after %s: ClientSubscribedToTopic(%d,%d)=%v, abstract count %d", api, c, t, got, n), w.sig(api, "client-topic", dropped))
			}
			if n > 0 {
				all++
			}
			if n != w.rSub[[2]int{c, t}] {
				w.fail("events-mirror", fmt.Sprintf("after %s: events say client %d holds %d subscriptions of topic %d, abstract state %d", api, c, w.rSub[[2]int{c, t}], t, n),
					w.sig(api, "replica-subscriptions", dropped))
			}
		}
		if sum > 0 {
			topicsFromClients++
		}
		// topics[t] = Σ_c subs[c][t]: a topic has subscribers exactly when some client holds it
		if got := w.m.TopicHasSubscribers(t); got != (sum > 0) {
			w.fail("topic-count-sum", fmt.Sprintf("after %s: TopicHasSubscribers(%d)=%v but the clients hold %d subscriptions of it", api, t, got, sum),
				w.sig(api, "topic-vs-clients", dropped))
		}
		if w.rTopic[t] != (sum > 0) {
			w.fail("events-mirror", fmt.Sprintf("after %s: TopicAdded/TopicRemoved events say topic %d present=%v, clients hold %d", api, t, w.rTopic[t], sum),
				w.sig(api, "replica-topic", dropped))
		}
	}
	if got := w.m.TopicsSize(); got != topicsFromClients {
		w.fail("topic-count-sum", fmt.Sprintf("after %s: TopicsSize=%d, topics held by clients %d", api, got, topicsFromClients), w.sig(api, "topics-size", dropped))
	}
	if got := w.m.SubscribersSize(); got != len(w.subs) || got != len(w.rConn) {
		w.fail("events-mirror", fmt.Sprintf("after %s: SubscribersSize=%d, abstract %d, events %d", api, got, len(w.subs), len(w.rConn)), w.sig(api, "subscribers-size", dropped))
	}
	if got := w.m.TopicsSizeAll(); got != all {
		w.fail("keyed-store", fmt.Sprintf("after %s: TopicsSizeAll=%d want %d", api, got, all), w.sig(api, "topics-size-all", dropped))
	}
}

func (w *smWorld) answer(ret string) string {
	ev := canon(w.log)
	parts := []string{}
	if ret != "" {
		parts = append(parts, ret)
	}
	if len(ev) > 0 {
		parts = append(parts, "|")
		parts = append(parts, ev...)
	}
	if len(parts) == 0 {
		return "ok"
	}

	return strings.Join(parts, " ")
}

func (w *smWorld) dropped() bool {
	for _, e := range w.log {
		if e.kind == 6 {
			return true
		}
	}

	return false
}

func (w *smWorld) exec(f []string) string {
	w.log = w.log[:0]
	switch f[0] {
	case "connect":
		c, _ := strconv.Atoi(f[1])
		w.m.Connect(c)
		w.subs[c] = map[int]int{}
		w.applyEvents("Connect", false)
		w.check("Connect", false)

		return w.answer("")
	case "disconnect":
		c, _ := strconv.Atoi(f[1])
		got := w.m.Disconnect(c)
		_, was := w.subs[c]
		delete(w.subs, c)
		if got != was {
			w.fail("keyed-store", fmt.Sprintf("Disconnect(%d)=%v want %v", c, got, was), w.sig("Disconnect", "return", false))
		}
		w.applyEvents("Disconnect", false)
		w.check("Disconnect", false)

		return w.answer(strconv.FormatBool(got))
	case "sub":
		c, _ := strconv.Atoi(f[1])
		t, _ := strconv.Atoi(f[2])
		got := w.m.Subscribe(c, t)
		want := false
		if m, ok := w.subs[c]; ok {
			switch {
			case m[t] > 0:
				m[t]++
				w.multi++
				want = true
			case w.limit != 0 && len(m)+1 >= w.limit: // also for a negative limit
				// forced drop: the client and everything it held goes away
				delete(w.subs, c)
				w.drops++
			default:
				m[t] = 1
				want = true
			}
		}
		d := w.dropped()
		if got != want {
			w.fail("keyed-store", fmt.Sprintf("Subscribe(%d,%d)=%v want %v", c, t, got, want), w.sig("Subscribe", "return", d))
		}
		w.applyEvents("Subscribe", d)
		w.check("Subscribe", d)

		return w.answer(strconv.FormatBool(got))
	case "unsub":
		c, _ := strconv.Atoi(f[1])
		t, _ := strconv.Atoi(f[2])
		got := w.m.Unsubscribe(c, t)
		want := false
		if m, ok := w.subs[c]; ok && m[t] > 0 {
			want = true
			m[t]--
			if m[t] == 0 {
				delete(m, t)
			}
		}
		if got != want {
			w.fail("keyed-store", fmt.Sprintf("Unsubscribe(%d,%d)=%v want %v", c, t, got, want), w.sig("Unsubscribe", "return", false))
		}
		w.applyEvents("Unsubscribe", false)
		w.check("Unsubscribe", false)

		return w.answer(strconv.FormatBool(got))
	case "state":
		// the two maps with their counts (the exported API only shows presence): subscribers must equal the abstract
		// per-client counts and topics[t] must be the sum over the clients
		return stateOf(func() string {
			type inner = shrinkingmap.ShrinkingMap[int, int]
			subs := fieldAs[*shrinkingmap.ShrinkingMap[int, *inner]](w.m, "subscribers").AsMap()
			topics := fieldAs[*shrinkingmap.ShrinkingMap[int, int]](w.m, "topics").AsMap()
			limit := fieldAs[int](w.m, "maxTopicSubscriptionsPerClient")
			cs := make([]int, 0, len(subs))
			for c := range subs {
				cs = append(cs, c)
			}
			sort.Ints(cs)
			parts := make([]string, 0, len(cs))
			sums := map[int]int{}
			okSubs := len(subs) == len(w.subs)
			for _, c := range cs {
				m := subs[c].AsMap()
				parts = append(parts, fmt.Sprintf("%d:%s", c, kvs(m)))
				want, has := w.subs[c]
				if !has || kvs(m) != kvs(want) {
					okSubs = false
				}
				if limit != 0 && len(m)+1 > limit && len(m) > 0 {
					w.fail("keyed-store", fmt.Sprintf("client %d holds %d topics with a limit of %d", c, len(m), limit), w.sig("state", "over-limit", false))
				}
			}
			for _, m := range w.subs {
				for t, n := range m {
					sums[t] += n
				}
			}
			ans := fmt.Sprintf("limit=%d subs=[%s] topics=%s", limit, strings.Join(parts, " "), kvs(topics))
			if !okSubs {
				w.fail("keyed-store", fmt.Sprintf("subscribers map %s, abstract per-client counts %v", ans, w.subs), w.sig("state", "subscribers", false))
			}
			if kvs(topics) != kvs(sums) {
				w.fail("topic-count-sum", fmt.Sprintf("topics map %s, sums over the clients %s", kvs(topics), kvs(sums)), w.sig("state", "topic-count", false))
			}

			return ans
		})
	case "has":
		t, _ := strconv.Atoi(f[1])

		return strconv.FormatBool(w.m.TopicHasSubscribers(t))
	case "csub":
		c, _ := strconv.Atoi(f[1])
		t, _ := strconv.Atoi(f[2])

		return strconv.FormatBool(w.m.ClientSubscribedToTopic(c, t))
	case "sizes":
		return fmt.Sprintf("%d %d %d", w.m.SubscribersSize(), w.m.TopicsSize(), w.m.TopicsSizeAll())
	}

	return "bad-op"
}

func (w *smWorld) nontrivial() bool { return w.drops >= 1 || w.multi >= 2 }

var smContainer = container{
	name: "sm",
	mk:   func(a []string) world { return newSmWorld(a) },
	gen: func(rng *hx.Rng, n int) []string {
		limit := rng.Intn(4)
		if rng.Chance(1, 8) {
			limit = rng.Range(4, 6)
		} else if rng.Chance(1, 30) {
			limit = -rng.Range(1, 3) // a negative limit is "reached" by every new topic
		} else if rng.Chance(1, 40) { // the ends of the int range: never reached / always reached
			limit = hx.Pick(rng, []int{math.MaxInt64, math.MaxInt64 - 1, math.MinInt64})
		}
		first := fmt.Sprintf("sm new %d opt %d %s", limit, rng.Intn(4), hx.Pick(rng, []string{"0", "0.5", "1"}))
		if limit == 0 && rng.Chance(1, 3) {
			first = "sm new 0 default"
		}
		ops := []string{first}
		for c := 0; c < smClients; c++ {
			if rng.Chance(2, 3) {
				ops = append(ops, fmt.Sprintf("sm connect %d", c))
			}
		}
		for i := 0; i < n; i++ {
			c, t := rng.Intn(smClients), rng.Intn(smTopics)
			switch x := rng.Intn(100); {
			case x < 14:
				ops = append(ops, fmt.Sprintf("sm connect %d", c))
			case x < 22:
				ops = append(ops, fmt.Sprintf("sm disconnect %d", c))
			case x < 60:
				ops = append(ops, fmt.Sprintf("sm sub %d %d", c, t))
			case x < 80:
				ops = append(ops, fmt.Sprintf("sm unsub %d %d", c, t))
			case x < 86:
				ops = append(ops, fmt.Sprintf("sm has %d", t))
			case x < 92:
				ops = append(ops, fmt.Sprintf("sm csub %d %d", c, t))
			default:
				ops = append(ops, "sm sizes")
			}
			if rng.Chance(1, 3) {
				ops = append(ops, "sm state")
			}
		}
		ops = append(ops, "sm state")
		for c := 0; c < smClients; c++ {
			ops = append(ops, fmt.Sprintf("sm disconnect %d", c))
		}
		ops = append(ops, "sm sizes", "sm state")

		return ops
	},
	corpus: [][]string{
		// DESIGN.md section 7: the limit path takes away another client's topic count
		{"sm new 2 opt 0 0", "sm connect 1", "sm sub 1 3", "sm connect 2", "sm sub 2 3", "sm sub 2 4", "sm has 3", "sm csub 1 3", "sm sizes", "sm state", "sm unsub 1 3", "sm sizes", "sm state"},
		{"sm new 1 opt 0 0", "sm connect 1", "sm connect 2", "sm sub 1 3", "sm sub 1 3", "sm has 3", "sm sub 2 3", "sm has 3", "sm sizes"},
		{"sm new 3 opt 2 0.5", "sm connect 0", "sm sub 0 1", "sm sub 0 1", "sm sub 0 2", "sm connect 1", "sm sub 1 1", "sm connect 0", "sm sizes",
			"sm sub 0 1", "sm sub 0 2", "sm sub 0 3", "sm sizes", "sm has 1", "sm unsub 1 1", "sm unsub 1 1", "sm disconnect 1", "sm disconnect 1", "sm sizes"},
		{"sm new 0 default", "sm sub 0 1", "sm unsub 0 1", "sm connect 0", "sm sub 0 1", "sm sub 0 2", "sm sub 0 3", "sm sub 0 4", "sm sub 0 1", "sm unsub 0 1", "sm unsub 0 1", "sm unsub 0 1", "sm disconnect 0", "sm sizes"},
	},
	rule: "a forced drop at the subscription limit or at least two repeated subscriptions of one topic",
}
