package main

import (
	"fmt"
	"sort"
	"strconv"
	"strings"

	"verifharness/hx"

	"github.com/iotaledger/hive.go/core/memstorage"
	"github.com/iotaledger/hive.go/ds/shrinkingmap"
)

type ixStore = shrinkingmap.ShrinkingMap[int, int]

type ixWorld struct {
	base
	s *memstorage.IndexedStorage[uint32, int, int]
	// storages are handed out by pointer: number them in order of first sight
	ids     map[*ixStore]int
	handles []*ixStore
	// oracle: index -> handle, handle -> contents
	at             map[uint32]int
	contents       map[int]map[int]int
	evictions      int
	detachedWrites int
	// the slices of earlier Clear answers, as returned, next to private copies (an answer must not change later)
	clearedKeys   [][]uint32
	clearedKeysC  [][]uint32
	clearedStores [][]*ixStore
	clearedStoreC [][]*ixStore
}

// retainedClears compares every earlier Clear answer with its copy: an answer that reads differently after a
// later request shares storage with the container or with another answer.
func (w *ixWorld) retainedClears(after string) {
	for i := range w.clearedKeys {
		same := len(w.clearedKeys[i]) == len(w.clearedKeysC[i]) && len(w.clearedStores[i]) == len(w.clearedStoreC[i])
		for j := 0; same && j < len(w.clearedKeys[i]); j++ {
			same = w.clearedKeys[i][j] == w.clearedKeysC[i][j]
		}
		for j := 0; same && j < len(w.clearedStores[i]); j++ {
			same = w.clearedStores[i][j] == w.clearedStoreC[i][j]
		}
		if !same {
			w.fail("callbacks-mirror", fmt.Sprintf("the answer of Clear #%d was %v and reads %v after %s", i, w.clearedKeysC[i], w.clearedKeys[i], after),
				w.sig("Clear", "retained-answer-changed"))
		}
	}
}

const ixUniverse = 5

func (w *ixWorld) sig(api, oracle string) map[string]string {
	return map[string]string{"container": "indexedstorage", "api": api, "oracle": oracle}
}

func (w *ixWorld) name(p *ixStore) string {
	if p == nil {
		return "nil"
	}
	id, ok := w.ids[p]
	if !ok {
		id = len(w.handles)
		w.ids[p] = id
		w.handles = append(w.handles, p)
	}

	return "s" + strconv.Itoa(id)
}

func showStore(p *ixStore) string {
	m := p.AsMap()
	keys := make([]int, 0, len(m))
	for k := range m {
		keys = append(keys, k)
	}
	sort.Ints(keys)
	parts := make([]string, 0, len(keys))
	for _, k := range keys {
		parts = append(parts, fmt.Sprintf("%d=%d", k, m[k]))
	}

	return "[" + strings.Join(parts, " ") + "]"
}

func showModel(m map[int]int) string {
	keys := make([]int, 0, len(m))
	for k := range m {
		keys = append(keys, k)
	}
	sort.Ints(keys)
	parts := make([]string, 0, len(keys))
	for _, k := range keys {
		parts = append(parts, fmt.Sprintf("%d=%d", k, m[k]))
	}

	return "[" + strings.Join(parts, " ") + "]"
}

// expectListing is what the oracle says ForEach / Clear must enumerate.
func (w *ixWorld) expectListing() string {
	idx := make([]int, 0, len(w.at))
	for i := range w.at {
		idx = append(idx, int(i))
	}
	sort.Ints(idx)
	parts := make([]string, 0, len(idx))
	for _, i := range idx {
		h := w.at[uint32(i)]
		parts = append(parts, fmt.Sprintf("%d:s%d%s", i, h, showModel(w.contents[h])))
	}

	return "[" + strings.Join(parts, " ") + "]"
}

type ixPair struct {
	i uint32
	p *ixStore
}

func (w *ixWorld) listing(ps []ixPair) string {
	sort.Slice(ps, func(a, b int) bool { return ps[a].i < ps[b].i })
	parts := make([]string, 0, len(ps))
	for _, x := range ps {
		parts = append(parts, fmt.Sprintf("%d:%s%s", x.i, w.name(x.p), showStore(x.p)))
	}

	return "[" + strings.Join(parts, " ") + "]"
}

func (w *ixWorld) exec(f []string) string {
	switch f[0] {
	case "get", "getf", "getc", "gettf", "getft":
		i64, _ := strconv.Atoi(f[1])
		i := uint32(i64)
		var p *ixStore
		switch f[0] {
		case "get":
			p = w.s.Get(i)
		case "getf":
			p = w.s.Get(i, false)
		case "gettf": // only the first optional argument counts
			p = w.s.Get(i, true, false)
		case "getft":
			p = w.s.Get(i, false, true)
		default:
			p = w.s.Get(i, true)
		}
		known := len(w.handles)
		ans := w.name(p)
		h, has := w.at[i]
		switch {
		case has:
			if ans != "s"+strconv.Itoa(h) {
				w.fail("keyed-store", fmt.Sprintf("Get(%d) returned %s, want s%d", i, ans, h), w.sig("Get", "same-storage"))
			}
		case f[0] == "getc" || f[0] == "gettf":
			if p == nil || w.ids[p] != known || p.Size() != 0 {
				w.fail("keyed-store", fmt.Sprintf("Get(%d,true) did not create a fresh empty storage (%s)", i, ans), w.sig("Get", "fresh-storage"))
			}
			if p != nil {
				w.at[i] = w.ids[p]
				w.contents[w.ids[p]] = map[int]int{}
			}
		default:
			if p != nil {
				w.fail("keyed-store", fmt.Sprintf("Get(%d) of a missing index returned %s", i, ans), w.sig("Get", "missing"))
			}
		}

		return ans
	case "evict":
		i64, _ := strconv.Atoi(f[1])
		i := uint32(i64)
		p := w.s.Evict(i)
		ans := w.name(p)
		if h, has := w.at[i]; has {
			if ans != "s"+strconv.Itoa(h) {
				w.fail("keyed-store", fmt.Sprintf("Evict(%d) returned %s, want s%d", i, ans, h), w.sig("Evict", "returned-storage"))
			}
			delete(w.at, i)
			w.evictions++
		} else if p != nil {
			w.fail("keyed-store", fmt.Sprintf("Evict(%d) of a missing index returned %s", i, ans), w.sig("Evict", "missing"))
		}
		if w.s.Get(i) != nil {
			w.fail("keyed-store", fmt.Sprintf("index %d still present after Evict", i), w.sig("Evict", "still-present"))
		}

		return ans
	case "foreach":
		var ps []ixPair
		w.s.ForEach(func(i uint32, p *ixStore) { ps = append(ps, ixPair{i, p}) })
		ans := w.listing(ps)
		if exp := w.expectListing(); ans != exp {
			w.fail("callbacks-mirror", fmt.Sprintf("ForEach enumerated %s, want %s", ans, exp), w.sig("ForEach", "listing"))
		}
		w.retainedClears("ForEach")

		return ans
	case "clear":
		keys, stores := w.s.Clear()
		if len(keys) != len(stores) {
			w.fail("callbacks-mirror", "Clear returned slices of different lengths", w.sig("Clear", "parallel"))

			return "other"
		}
		ps := make([]ixPair, 0, len(keys))
		for k := range keys {
			ps = append(ps, ixPair{keys[k], stores[k]})
		}
		ans := w.listing(ps)
		if exp := w.expectListing(); ans != exp {
			w.fail("callbacks-mirror", fmt.Sprintf("Clear returned %s, want %s", ans, exp), w.sig("Clear", "listing"))
		}
		w.retainedClears("Clear")
		w.clearedKeys, w.clearedKeysC = append(w.clearedKeys, keys), append(w.clearedKeysC, append([]uint32(nil), keys...))
		w.clearedStores, w.clearedStoreC = append(w.clearedStores, stores), append(w.clearedStoreC, append([]*ixStore(nil), stores...))
		w.evictions += len(w.at)
		w.at = map[uint32]int{}
		n := 0
		w.s.ForEach(func(uint32, *ixStore) { n++ })
		if n != 0 {
			w.fail("keyed-store", "storage not empty after Clear", w.sig("Clear", "emptied"))
		}

		return ans
	case "sset", "sget", "sdel":
		h, _ := strconv.Atoi(f[1])
		k, _ := strconv.Atoi(f[2])
		if h >= len(w.handles) {
			return "nohandle"
		}
		p := w.handles[h]
		attached := false
		for _, hh := range w.at {
			if hh == h {
				attached = true
			}
		}
		switch f[0] {
		case "sset":
			v, _ := strconv.Atoi(f[3])
			p.Set(k, v)
			w.contents[h][k] = v
			if !attached {
				w.detachedWrites++
			}

			return "ok"
		case "sget":
			v, ok := p.Get(k)
			mv, mok := w.contents[h][k]
			if ok != mok || v != mv {
				w.fail("keyed-store", fmt.Sprintf("storage s%d Get(%d)=%v,%v want %v,%v", h, k, v, ok, mv, mok), w.sig("storage.Get", "contents"))
			}
			if !ok {
				return "none"
			}

			return strconv.Itoa(v)
		default:
			ok := p.Delete(k)
			_, mok := w.contents[h][k]
			delete(w.contents[h], k)
			if ok != mok {
				w.fail("keyed-store", fmt.Sprintf("storage s%d Delete(%d)=%v want %v", h, k, ok, mok), w.sig("storage.Delete", "contents"))
			}

			return strconv.FormatBool(ok)
		}
	}

	return "bad-op"
}

func (w *ixWorld) nontrivial() bool { return w.evictions >= 2 && len(w.handles) >= 3 }

var ixContainer = container{
	name: "ix",
	mk: func([]string) world {
		return &ixWorld{s: memstorage.NewIndexedStorage[uint32, int, int](), ids: map[*ixStore]int{}, at: map[uint32]int{}, contents: map[int]map[int]int{}}
	},
	gen: func(rng *hx.Rng, n int) []string {
		ops := []string{"ix new"}
		created := 0
		for i := 0; i < n; i++ {
			x := rng.Intn(ixUniverse)
			h := 0
			if created > 0 {
				h = rng.Intn(created + 1) // sometimes one past the last handle
			}
			switch k := rng.Intn(100); {
			case k < 3:
				ops = append(ops, fmt.Sprintf("ix gettf %d", x))
				created++
			case k < 5:
				ops = append(ops, fmt.Sprintf("ix getft %d", x))
			case k < 22:
				ops = append(ops, fmt.Sprintf("ix getc %d", x))
				created++ // upper bound: not every getc creates
			case k < 30:
				ops = append(ops, fmt.Sprintf("ix get %d", x))
			case k < 35:
				ops = append(ops, fmt.Sprintf("ix getf %d", x))
			case k < 47:
				ops = append(ops, fmt.Sprintf("ix evict %d", x))
			case k < 57:
				ops = append(ops, "ix foreach")
			case k < 62:
				ops = append(ops, "ix clear")
			case k < 82:
				ops = append(ops, fmt.Sprintf("ix sset %d %d %d", h, rng.Intn(4), rng.Intn(9)))
			case k < 92:
				ops = append(ops, fmt.Sprintf("ix sget %d %d", h, rng.Intn(4)))
			default:
				ops = append(ops, fmt.Sprintf("ix sdel %d %d", h, rng.Intn(4)))
			}
		}
		ops = append(ops, "ix foreach", "ix clear", "ix foreach")

		return ops
	},
	corpus: [][]string{
		{"ix new", "ix get 1", "ix getc 1", "ix getc 1", "ix sset 0 2 7", "ix getc 2", "ix foreach", "ix evict 1", "ix sset 0 3 1", "ix sget 0 2",
			"ix getc 1", "ix foreach", "ix clear", "ix foreach", "ix sget 1 0", "ix sdel 0 2", "ix evict 4", "ix getf 1", "ix getft 3", "ix gettf 3", "ix gettf 3", "ix foreach"},
	},
	rule: "at least three storages created and two evicted/cleared",
}
