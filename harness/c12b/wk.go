package main

import (
	"container/list"
	"fmt"
	"strconv"
	"strings"

	"verifharness/hx"

	"github.com/iotaledger/hive.go/ds/orderedmap"
	"github.com/iotaledger/hive.go/ds/types"
	"github.com/iotaledger/hive.go/ds/walker"
)

const wkUniverse = 6

type wkWorld struct {
	base
	w       *walker.Walker[int]
	revisit bool
	// oracle: abstract deque + seen set + what must still come out
	pending []int
	seen    map[int]bool
	order   []int // first offers since the last reset, in order (the insertion order of pushedElements)
	stopped bool
	// every element once: counts since the last reset
	offered map[int]int
	yielded map[int]int
	nexts   int
	repeats int
	fronts  int
}

func (w *wkWorld) sig(api, oracle string) map[string]string {
	return map[string]string{"container": "walker", "api": api, "oracle": oracle}
}

func (w *wkWorld) offer(x int, front bool) {
	w.offered[x]++
	if w.seen[x] {
		w.repeats++
		if !w.revisit {
			return
		}
	}
	if !w.seen[x] {
		w.order = append(w.order, x)
	}
	w.seen[x] = true
	if front {
		w.pending = append([]int{x}, w.pending...)
	} else {
		w.pending = append(w.pending, x)
	}
}

// probe compares everything observable without consuming the queue.
func (w *wkWorld) probe(api string) {
	for x := 0; x < wkUniverse; x++ {
		if got := w.w.Pushed(x); got != w.seen[x] {
			w.fail("every-pushed-element-once", fmt.Sprintf("after %s: Pushed(%d)=%v want %v", api, x, got, w.seen[x]), w.sig(api, "pushed-set"))

			return
		}
	}
	if got, want := w.w.HasNext(), len(w.pending) > 0 && !w.stopped; got != want {
		w.fail("every-pushed-element-once", fmt.Sprintf("after %s: HasNext=%v want %v (pending %v)", api, got, want, w.pending), w.sig(api, "hasnext"))
	}
}

func (w *wkWorld) took(api string, x int) {
	w.nexts++
	w.yielded[x]++
	if len(w.pending) == 0 || w.pending[0] != x {
		w.fail("queue-order", fmt.Sprintf("%s returned %d, abstract queue is %v", api, x, w.pending), w.sig(api, "next-order"))
		// resynchronise: drop x from the abstract queue if present
		for i, y := range w.pending {
			if y == x {
				w.pending = append(append([]int{}, w.pending[:i]...), w.pending[i+1:]...)

				break
			}
		}
	} else {
		w.pending = w.pending[1:]
	}
	if !w.revisit && w.yielded[x] > 1 {
		w.fail("every-pushed-element-once", fmt.Sprintf("%d yielded %d times without revisiting", x, w.yielded[x]), w.sig(api, "yielded-twice"))
	}
}

// exhausted: when the queue is empty every offered element has come out exactly once (or, when
// revisiting, as often as it was offered).
func (w *wkWorld) exhausted(api string) {
	for x, n := range w.offered {
		want := 1
		if w.revisit {
			want = n
		}
		if w.yielded[x] != want {
			w.fail("every-pushed-element-once", fmt.Sprintf("queue exhausted: %d offered %d times, yielded %d times (revisit=%v)", x, n, w.yielded[x], w.revisit),
				w.sig(api, "exhausted-count"))

			return
		}
	}
}

func ints(f []string) []int {
	out := make([]int, 0, len(f))
	for _, s := range f {
		x, _ := strconv.Atoi(s)
		out = append(out, x)
	}

	return out
}

func (w *wkWorld) exec(f []string) string {
	switch f[0] {
	case "push":
		x, _ := strconv.Atoi(f[1])
		w.w.Push(x)
		w.offer(x, false)
		w.probe("Push")

		return "ok"
	case "pushall":
		xs := ints(f[1:])
		arg := append(make([]int, 0, len(xs)+4), xs...)
		w.w.PushAll(arg...)
		for i := range arg[:cap(arg)] { // the argument slice stays the caller's: overwrite it
			arg[:cap(arg)][i] = -999
		}
		for _, x := range xs {
			w.offer(x, false)
		}
		w.probe("PushAll")

		return "ok"
	case "pushfront":
		xs := ints(f[1:])
		arg := append(make([]int, 0, len(xs)+4), xs...)
		w.w.PushFront(arg...)
		for i := range arg[:cap(arg)] {
			arg[:cap(arg)][i] = -999
		}
		for _, x := range xs {
			w.offer(x, true)
		}
		w.fronts++
		w.probe("PushFront")

		return "ok"
	case "next":
		var x int
		if p := hx.Safely(func() { x = w.w.Next() }); p != "" {
			if len(w.pending) != 0 {
				w.fail("queue-order", "Next panicked on a non-empty abstract queue", w.sig("Next", "panic"))
			}

			return "panic"
		}
		w.took("Next", x)
		w.probe("Next")

		return strconv.Itoa(x)
	case "drain":
		out := []string{}
		for i := 0; w.w.HasNext() && i < 10000; i++ {
			x := w.w.Next()
			w.took("Next", x)
			out = append(out, strconv.Itoa(x))
		}
		if !w.stopped {
			if len(w.pending) != 0 {
				w.fail("every-pushed-element-once", fmt.Sprintf("drained, abstract queue still holds %v", w.pending), w.sig("Next", "drain-left"))
			}
			w.exhausted("Next")
		}
		w.probe("Next")

		return "[" + strings.Join(out, " ") + "]"
	case "state":
		return stateOf(func() string {
			q := listInts(fieldAs[*list.List](w.w, "stack"))
			pushed := orderedKeys(fieldAs[*orderedmap.OrderedMap[int, types.Empty]](w.w, "pushedElements"))
			stopped, revisit := fieldAs[bool](w.w, "walkStopped"), fieldAs[bool](w.w, "revisitElements")
			if !eqInts(q, w.pending) {
				w.fail("queue-order", fmt.Sprintf("the queue holds %v, abstract queue %v", q, w.pending), w.sig("state", "queue"))
			}
			if !eqInts(pushed, w.order) {
				w.fail("every-pushed-element-once", fmt.Sprintf("pushedElements holds %v, first offers in order %v", pushed, w.order), w.sig("state", "pushed-order"))
			}
			if stopped != w.stopped || revisit != w.revisit {
				w.fail("queue-order", fmt.Sprintf("flags stopped=%v revisit=%v want %v %v", stopped, revisit, w.stopped, w.revisit), w.sig("state", "flags"))
			}

			return fmt.Sprintf("q=%s pushed=%s stopped=%s revisit=%s", showInts(q), showInts(pushed), b01(stopped), b01(revisit))
		})
	case "hasnext":
		return strconv.FormatBool(w.w.HasNext())
	case "pushed":
		x, _ := strconv.Atoi(f[1])

		return strconv.FormatBool(w.w.Pushed(x))
	case "stop":
		w.w.StopWalk()
		w.stopped = true
		w.probe("StopWalk")

		return "ok"
	case "stopped":
		got := w.w.WalkStopped()
		if got != w.stopped {
			w.fail("queue-order", "WalkStopped disagrees", w.sig("WalkStopped", "stopped"))
		}

		return strconv.FormatBool(got)
	case "reset":
		w.w.Reset()
		w.pending, w.seen, w.stopped, w.order = nil, map[int]bool{}, false, nil
		w.offered, w.yielded = map[int]int{}, map[int]int{}
		w.probe("Reset")

		return "ok"
	}

	return "bad-op"
}

func (w *wkWorld) nontrivial() bool { return w.nexts >= 3 && w.repeats >= 1 && w.fronts >= 1 }

func wkList(rng *hx.Rng) string {
	n := rng.Range(0, 4)
	s := ""
	for i := 0; i < n; i++ {
		s += fmt.Sprintf(" %d", rng.Intn(wkUniverse))
	}

	return s
}

var wkContainer = container{
	name: "wk",
	mk: func(a []string) world {
		rv := a[0] == "1" || a[0] == "true"
		var wk *walker.Walker[int]
		if rv {
			wk = walker.New[int](true)
		} else if len(a) > 1 && a[1] == "explicit" {
			wk = walker.New[int](false)
		} else {
			wk = walker.New[int]()
		}

		return &wkWorld{w: wk, revisit: rv, seen: map[int]bool{}, offered: map[int]int{}, yielded: map[int]int{}}
	},
	gen: func(rng *hx.Rng, n int) []string {
		first := "wk new 0"
		if rng.Chance(1, 3) {
			first = "wk new 1"
		} else if rng.Chance(1, 4) {
			first = "wk new 0 explicit"
		}
		ops := []string{first}
		for i := 0; i < n; i++ {
			x := rng.Intn(wkUniverse)
			switch k := rng.Intn(100); {
			case k < 22:
				ops = append(ops, fmt.Sprintf("wk push %d", x))
			case k < 34:
				ops = append(ops, "wk pushall"+wkList(rng))
			case k < 52:
				ops = append(ops, "wk pushfront"+wkList(rng))
			case k < 72:
				ops = append(ops, "wk next")
			case k < 77:
				ops = append(ops, "wk hasnext")
			case k < 82:
				ops = append(ops, fmt.Sprintf("wk pushed %d", x))
			case k < 88:
				ops = append(ops, "wk drain")
			case k < 91:
				ops = append(ops, "wk stop")
			case k < 94:
				ops = append(ops, "wk stopped")
			default:
				ops = append(ops, "wk reset")
			}
			if rng.Chance(1, 3) {
				ops = append(ops, "wk state")
			}
		}
		ops = append(ops, "wk state", "wk drain", "wk state")

		return ops
	},
	corpus: [][]string{
		// DESIGN.md section 7: PushFront after a repeat
		{"wk new 0", "wk push 1", "wk pushfront 1 2 3", "wk state", "wk pushed 2", "wk pushed 3", "wk drain", "wk state"},
		{"wk new 1", "wk push 1", "wk pushfront 1 2 3", "wk push 1", "wk drain"},
		{"wk new 0", "wk next", "wk pushall 1 2 2 3", "wk stop", "wk hasnext", "wk next", "wk drain", "wk reset", "wk pushed 1", "wk push 1", "wk drain"},
	},
	rule: "at least three elements yielded, one repeated offer and one PushFront",
}
