package serixgen

import (
	"fmt"
	"math/big"
	"reflect"
	"time"

	"github.com/iotaledger/hive.go/serializer/v2"
	"github.com/iotaledger/hive.go/serializer/v2/serix"
)

var (
	bytesType  = reflect.TypeOf([]byte(nil))
	bigIntType = reflect.TypeOf((*big.Int)(nil))
	timeType   = reflect.TypeOf(time.Time{})
)

// eff is what serix's (private) TypeSettings.merge works on, read through the public accessors.
type eff struct {
	lp    *serix.LengthPrefixType
	obj   any
	lex   *bool
	rules *serix.ArrayRules
}

func effOf(ts serix.TypeSettings) eff {
	var e eff
	if lp, ok := ts.LengthPrefixType(); ok {
		e.lp = &lp
	}
	e.obj = ts.ObjectType()
	if v, ok := ts.LexicalOrdering(); ok {
		e.lex = &v
	}
	e.rules = ts.ArrayRules()

	return e
}

// merge: the receiver wins, like TypeSettings.merge.
func (e eff) merge(o eff) eff {
	if e.lp == nil {
		e.lp = o.lp
	}
	if e.obj == nil {
		e.obj = o.obj
	}
	if e.lex == nil {
		e.lex = o.lex
	}
	if e.rules == nil {
		e.rules = o.rules
	}

	return e
}

// Deriver reads the registries of an API once and derives schemas from Go types.
type Deriver struct {
	settings map[reflect.Type]eff
	ifaces   map[reflect.Type]*serix.InterfaceObjects
}

func NewDeriver(api *serix.API) *Deriver {
	d := &Deriver{settings: map[reflect.Type]eff{}, ifaces: map[reflect.Type]*serix.InterfaceObjects{}}
	api.ForEachRegisteredTypeSetting(func(t reflect.Type, ts serix.TypeSettings) bool {
		d.settings[t] = effOf(ts)

		return true
	})
	api.ForEachRegisteredInterfaceObjects(func(t reflect.Type, io *serix.InterfaceObjects) bool {
		d.ifaces[t] = io

		return true
	})

	return d
}

// getByType mirrors TypeSettingsRegistry.GetByType.
func (d *Deriver) getByType(t reflect.Type) eff {
	if e, ok := d.settings[t]; ok {
		return e
	}
	if t.Kind() == reflect.Ptr {
		return d.settings[t.Elem()]
	}

	return eff{}
}

// getByValueStatic mirrors TypeSettingsRegistry.GetByValue for a value of static type t (pointers are
// followed; an interface value is followed to its concrete type, whose settings are merged in again
// when the alternative is derived, so the empty settings are equivalent here).
func (d *Deriver) getByValueStatic(t reflect.Type) eff {
	for {
		if e, ok := d.settings[t]; ok {
			return e
		}
		if t.Kind() == reflect.Ptr {
			t = t.Elem()

			continue
		}

		return eff{}
	}
}

func lpName(e eff) string {
	if e.lp == nil {
		return "none"
	}
	switch *e.lp {
	case serix.LengthPrefixTypeAsByte:
		return "u8"
	case serix.LengthPrefixTypeAsUint16:
		return "u16"
	case serix.LengthPrefixTypeAsUint32:
		return "u32"
	default:
		return "u64" // anything the serializer can't write; serix rejects it
	}
}

func codeOf(e eff) (*Code, error) {
	switch c := e.obj.(type) {
	case nil:
		return nil, nil
	case uint8:
		return &Code{Den: "u8", N: uint32(c)}, nil
	case uint32:
		return &Code{Den: "u32", N: c}, nil
	default:
		return nil, fmt.Errorf("object type %T not representable in the schema", e.obj)
	}
}

func rulesOf(e eff) Rules {
	var r Rules
	if e.lex != nil && *e.lex {
		r.AutoSort = true
	}
	if e.rules == nil {
		return r
	}
	ar := serializer.ArrayRules(*e.rules)
	r.Min, r.Max = ar.Min, ar.Max
	r.NoDups = ar.ValidationMode.HasMode(serializer.ArrayValidationModeNoDuplicates)
	r.Lex = ar.ValidationMode.HasMode(serializer.ArrayValidationModeLexicalOrdering)
	r.One8 = ar.ValidationMode.HasMode(serializer.ArrayValidationModeAtMostOneOfEachTypeByte)
	r.One32 = ar.ValidationMode.HasMode(serializer.ArrayValidationModeAtMostOneOfEachTypeUint32)
	for c := range ar.MustOccur {
		r.Must = append(r.Must, c)
	}
	sortU32(r.Must)

	return r
}

func sortU32(a []uint32) {
	for i := 1; i < len(a); i++ {
		for j := i; j > 0 && a[j-1] > a[j]; j-- {
			a[j-1], a[j] = a[j], a[j-1]
		}
	}
}

// Derive returns the schema of a value of type t at a position with the given settings (the option
// passed to Encode/Decode for the top level).
func (d *Deriver) Derive(t reflect.Type, pos serix.TypeSettings) (*Schema, error) {
	return d.derive(t, effOf(pos), true, 0)
}

// derive mirrors encodeBasedOnType/decodeBasedOnType: merge the registered settings of the type into
// the position's settings (unless the caller dispatched directly, as the pointer case does) and
// switch on the kind.
func (d *Deriver) derive(t reflect.Type, ts eff, mergeGlobal bool, depth int) (*Schema, error) {
	if depth > 12 {
		return nil, fmt.Errorf("type too deep (recursive?)")
	}
	if mergeGlobal {
		ts = ts.merge(d.getByType(t))
	}
	s := &Schema{GoType: t}
	if isCustomType(t) {
		// API.encode / API.decode delegate to the type's own Encode / Decode before looking at its kind
		ct := t
		if t.Kind() == reflect.Ptr {
			ct = t.Elem()
		}
		info, ok := reflect.New(ct).Elem().Interface().(customInfo)
		if !ok {
			return nil, fmt.Errorf("custom Serializable %s is not one of the harness's types", t)
		}
		code, err := codeOf(ts)
		if err != nil {
			return nil, err
		}
		cs := &Schema{K: KCustom, Code: code, Fixed: info.CustomFixed(), GoType: ct}
		if t.Kind() == reflect.Ptr {
			return &Schema{K: KPtr, Elem: cs, GoType: t}, nil
		}

		return cs, nil
	}
	switch t.Kind() {
	case reflect.Ptr:
		if t == bigIntType {
			s.K = KU256

			return s, nil
		}
		s.K = KPtr
		elem := t.Elem()
		var err error
		switch elem.Kind() {
		case reflect.Struct, reflect.Slice, reflect.Interface, reflect.Map, reflect.Array:
			s.Elem, err = d.derive(elem, ts, false, depth+1)
		default:
			s.Elem, err = d.derive(elem, ts, true, depth+1)
		}

		return s, err
	case reflect.Struct:
		if t == timeType {
			s.K = KTime

			return s, nil
		}
		s.K = KStruct
		var err error
		if s.Code, err = codeOf(ts); err != nil {
			return nil, err
		}
		s.Fields, err = d.deriveFields(t, depth)

		return s, err
	case reflect.Slice:
		if t.AssignableTo(bytesType) {
			s.K = KBytes
			s.LP = lpName(ts)
			r := rulesOf(ts)
			s.Min, s.Max = r.Min, r.Max

			return s, nil
		}
		s.K = KSlice
		s.LP = lpName(ts)
		s.Rules = rulesOf(ts)
		var err error
		s.Elem, err = d.derive(t.Elem(), eff{}, true, depth+1)

		return s, err
	case reflect.Array:
		if reflect.SliceOf(t.Elem()).AssignableTo(bytesType) {
			s.K = KByteArr
			s.N = t.Len()
			r := rulesOf(ts)
			s.Min, s.Max = r.Min, r.Max
			var err error
			s.Code, err = codeOf(ts)

			return s, err
		}
		s.K = KArray
		s.N = t.Len()
		s.LP = lpName(ts)
		s.Rules = rulesOf(ts)
		var err error
		s.Elem, err = d.derive(t.Elem(), eff{}, true, depth+1)

		return s, err
	case reflect.Map:
		s.K = KMap
		s.LP = lpName(ts)
		s.Rules = rulesOf(ts)
		var err error
		if s.Key, err = d.derive(t.Key(), d.getByValueStatic(t.Key()), true, depth+1); err != nil {
			return nil, err
		}
		s.Elem, err = d.derive(t.Elem(), d.getByValueStatic(t.Elem()), true, depth+1)

		return s, err
	case reflect.Interface:
		s.K = KIface
		s.Den = "u8"
		io := d.ifaces[t]
		if io == nil {
			return s, nil // not registered: Encode and Decode fail
		}
		if io.TypeDenotation() == serializer.TypeDenotationUint32 {
			s.Den = "u32"
		}
		var err error
		io.ForEachObjectType(func(objType reflect.Type, code uint32) bool {
			var at *Schema
			at, err = d.derive(objType, ts, true, depth+1)
			if err != nil {
				return false
			}
			s.Alts = append(s.Alts, Alt{Code: code, T: at, GoType: objType})

			return true
		})

		return s, err
	case reflect.String:
		s.K = KStr
		s.LP = lpName(ts)
		r := rulesOf(ts)
		s.Min, s.Max = r.Min, r.Max

		return s, nil
	case reflect.Bool:
		s.K = KBool

		return s, nil
	case reflect.Uint8, reflect.Uint16, reflect.Uint32, reflect.Uint64:
		s.K = KUint
		s.W = int(t.Size())

		return s, nil
	case reflect.Int8, reflect.Int16, reflect.Int32, reflect.Int64:
		s.K = KInt
		s.W = int(t.Size())

		return s, nil
	case reflect.Float32, reflect.Float64:
		s.K = KFloat
		s.W = int(t.Size())

		return s, nil
	}

	return nil, fmt.Errorf("type %s is not supported by serix", t)
}

// deriveFields mirrors parseStructFields + the field loop of encodeStructFields/decodeStructFields.
func (d *Deriver) deriveFields(t reflect.Type, depth int) ([]Field, error) {
	var out []Field
	pos := 0
	for i := 0; i < t.NumField(); i++ {
		f := t.Field(i)
		unexported := f.PkgPath != ""
		ft := f.Type
		under := ft
		if under.Kind() == reflect.Ptr {
			under = under.Elem()
		}
		embStruct := f.Anonymous && under.Kind() == reflect.Struct
		embIface := f.Anonymous && under.Kind() == reflect.Interface
		if unexported && !embStruct && !embIface {
			continue
		}
		tag, ok := f.Tag.Lookup("serix")
		if !ok {
			continue
		}
		tset, err := serix.ParseSerixSettings(tag, pos)
		if err != nil {
			return nil, err
		}
		pos++
		if tset.IsOptional() {
			if ft.Kind() != reflect.Ptr && ft.Kind() != reflect.Interface {
				return nil, fmt.Errorf("optional on %s", ft.Kind())
			}
			if embStruct || embIface {
				return nil, fmt.Errorf("optional on embedded field")
			}
		}
		if tset.Inlined() && unexported {
			return nil, fmt.Errorf("inlined unexported")
		}
		if !tset.Inlined() && embIface {
			return nil, fmt.Errorf("embedded interface must be inlined")
		}
		if (embStruct || embIface) && !tset.Inlined() {
			// flattened: only the fields of the embedded struct are (de)serialized
			if unexported && ft.Kind() == reflect.Ptr {
				return nil, fmt.Errorf("unexported embedded pointer can't be decoded")
			}
			sub, err := d.deriveFields(under, depth+1)
			if err != nil {
				return nil, err
			}
			st := &Schema{K: KStruct, Fields: sub, GoType: under}
			if ft.Kind() == reflect.Ptr {
				st = &Schema{K: KPtr, Elem: st, GoType: ft}
			}
			out = append(out, Field{Kind: 'e', T: st, Index: i, Name: f.Name})

			continue
		}
		fs, err := d.derive(ft, effOf(tset.TypeSettings()), true, depth+1)
		if err != nil {
			return nil, err
		}
		k := byte('p')
		if tset.IsOptional() {
			k = 'o'
		}
		out = append(out, Field{Kind: k, T: fs, Index: i, Name: f.Name})
	}

	return out, nil
}
