package serixgen

import (
	"encoding/hex"
	"fmt"
	"math"
	"math/big"
	"reflect"
	"sort"
	"strings"
	"time"
	"unsafe"
)

func hexs(b []byte) string {
	if len(b) == 0 {
		return "-"
	}

	return hex.EncodeToString(b)
}

func addressable(v reflect.Value) reflect.Value {
	if v.CanAddr() {
		return v
	}
	nv := reflect.New(v.Type()).Elem()
	nv.Set(v)

	return nv
}

// floatBits reads the raw IEEE bits without going through a float64 conversion (keeps NaN payloads).
func floatBits(v reflect.Value) uint64 {
	a := addressable(v)
	p := unsafe.Pointer(a.UnsafeAddr())
	if v.Kind() == reflect.Float32 {
		return uint64(*(*uint32)(p))
	}

	return *(*uint64)(p)
}

func setFloatBits(v reflect.Value, bits uint64) {
	p := unsafe.Pointer(v.UnsafeAddr())
	if v.Kind() == reflect.Float32 {
		*(*uint32)(p) = uint32(bits)
	} else {
		*(*uint64)(p) = bits
	}
}

var billion = big.NewInt(1_000_000_000)

// TimeNanos is the exact number of nanoseconds since the Unix epoch (any time.Time).
func TimeNanos(t time.Time) *big.Int {
	n := new(big.Int).Mul(big.NewInt(t.Unix()), billion)

	return n.Add(n, big.NewInt(int64(t.Nanosecond())))
}

func TimeFromNanos(n *big.Int) time.Time {
	sec, nsec := new(big.Int).DivMod(n, billion, new(big.Int))

	return time.Unix(sec.Int64(), nsec.Int64()).UTC()
}

// TextOpts controls how a Go value is printed.
type TextOpts struct {
	// Perm, if set, decides the order in which map entries are printed (request lines: Go's map
	// iteration order must not leak into the op stream); nil: entries sorted by their text.  It gets
	// the sorted entries so that the permutation can be a function of the content only (nested maps
	// are visited in Go's random iteration order, a shared random stream would leak that order).
	Perm func(sortedItems []string) []int
	// Norm prints the canonical normal form used by the property oracle: entries of collections the
	// settings tell the encoder to sort are sorted by their text and timestamps are saturated into
	// [0, MaxInt64] nanoseconds.
	Norm bool
}

// ValText prints a Go value of the schema's type in the syntax of `Hive.Serix.parseVal`.
func ValText(s *Schema, v reflect.Value, o TextOpts) string {
	switch s.K {
	case KBool:
		if v.Bool() {
			return "(n 1)"
		}

		return "(n 0)"
	case KUint:
		return fmt.Sprintf("(n %d)", v.Uint())
	case KInt:
		return fmt.Sprintf("(i %d)", v.Int())
	case KFloat:
		return fmt.Sprintf("(n %d)", floatBits(v))
	case KStr:
		return "(x " + hexs([]byte(v.String())) + ")"
	case KBytes:
		return "(x " + hexs(v.Bytes()) + ")"
	case KByteArr:
		b := make([]byte, v.Len())
		reflect.Copy(reflect.ValueOf(b), v)

		return "(x " + hexs(b) + ")"
	case KU256:
		if v.IsNil() {
			return "nil"
		}

		return fmt.Sprintf("(i %s)", v.Interface().(*big.Int).String())
	case KTime:
		n := TimeNanos(v.Interface().(time.Time))
		if o.Norm {
			n = SaturateNanos(n)
		}

		return fmt.Sprintf("(i %s)", n.String())
	case KSlice, KArray:
		items := make([]string, v.Len())
		for i := range items {
			items[i] = ValText(s.Elem, v.Index(i), o)
		}
		if o.Norm && s.Rules.AutoSort && s.Rules.Lex {
			sort.Strings(items)
		}

		return "(l" + joinSp(items) + ")"
	case KMap:
		items := make([]string, 0, v.Len())
		iter := v.MapRange()
		for iter.Next() {
			items = append(items, "(kv "+ValText(s.Key, iter.Key(), o)+" "+ValText(s.Elem, iter.Value(), o)+")")
		}
		sort.Strings(items)
		if o.Perm != nil && !o.Norm {
			p := o.Perm(items)
			out := make([]string, len(items))
			for i, j := range p {
				out[i] = items[j]
			}
			items = out
		}

		return "(l" + joinSp(items) + ")"
	case KStruct:
		items := make([]string, len(s.Fields))
		for i, f := range s.Fields {
			items[i] = ValText(f.T, v.Field(f.Index), o)
		}

		return "(l" + joinSp(items) + ")"
	case KPtr:
		if v.IsNil() {
			return "nil"
		}

		return "(some " + ValText(s.Elem, v.Elem(), o) + ")"
	case KCustom:
		b, err := customEncode(v)
		if err != nil {
			return "(custom-error)"
		}

		return "(x " + hexs(b) + ")"
	case KIface:
		if v.IsNil() {
			return "nil"
		}
		cv := v.Elem()
		for _, a := range s.Alts {
			if a.GoType == cv.Type() {
				return fmt.Sprintf("(alt %d %s)", a.Code, ValText(a.T, cv, o))
			}
		}

		return "(alt-unregistered)"
	}
	panic("unknown kind")
}

func joinSp(items []string) string {
	if len(items) == 0 {
		return ""
	}

	return " " + strings.Join(items, " ")
}

var (
	maxInt64Big = big.NewInt(math.MaxInt64)
	satLimit    = new(big.Int).Mul(big.NewInt(math.MaxInt64/1_000_000_000+1), billion)
)

// SaturateNanos is the documented behaviour for stamps outside the int64-nanosecond range: below the
// epoch -> 0, above MaxInt64 -> MaxInt64.
func SaturateNanos(n *big.Int) *big.Int {
	if n.Sign() < 0 {
		return big.NewInt(0)
	}
	if n.Cmp(maxInt64Big) > 0 {
		return new(big.Int).Set(maxInt64Big)
	}

	return n
}

// InTimeRange reports whether every timestamp inside v lies in [0, MaxInt64) nanoseconds, strictly
// below the saturation value (a decoded MaxInt64 may stem from a saturated input).
func InTimeRange(s *Schema, v reflect.Value) bool {
	ok := true
	var walk func(s *Schema, v reflect.Value)
	walk = func(s *Schema, v reflect.Value) {
		switch s.K {
		case KTime:
			n := TimeNanos(v.Interface().(time.Time))
			if n.Sign() < 0 || n.Cmp(maxInt64Big) >= 0 {
				ok = false
			}
		case KSlice, KArray:
			for i := 0; i < v.Len(); i++ {
				walk(s.Elem, v.Index(i))
			}
		case KMap:
			iter := v.MapRange()
			for iter.Next() {
				walk(s.Key, iter.Key())
				walk(s.Elem, iter.Value())
			}
		case KStruct:
			for _, f := range s.Fields {
				walk(f.T, v.Field(f.Index))
			}
		case KPtr:
			if !v.IsNil() {
				walk(s.Elem, v.Elem())
			}
		case KIface:
			if !v.IsNil() {
				cv := v.Elem()
				for _, a := range s.Alts {
					if a.GoType == cv.Type() {
						walk(a.T, cv)
					}
				}
			}
		}
	}
	walk(s, v)

	return ok
}

// ---- parsing value text back into a Go value (replay, corpus) ----

type sexp struct {
	atom string
	list []*sexp
	isL  bool
}

func parseSexp(text string) (*sexp, error) {
	text = strings.ReplaceAll(strings.ReplaceAll(text, "(", " ( "), ")", " ) ")
	toks := strings.Fields(text)
	pos := 0
	var rec func() (*sexp, error)
	rec = func() (*sexp, error) {
		if pos >= len(toks) {
			return nil, fmt.Errorf("unexpected end")
		}
		t := toks[pos]
		pos++
		if t == ")" {
			return nil, fmt.Errorf("unexpected )")
		}
		if t != "(" {
			return &sexp{atom: t}, nil
		}
		n := &sexp{isL: true}
		for {
			if pos >= len(toks) {
				return nil, fmt.Errorf("missing )")
			}
			if toks[pos] == ")" {
				pos++

				return n, nil
			}
			c, err := rec()
			if err != nil {
				return nil, err
			}
			n.list = append(n.list, c)
		}
	}
	e, err := rec()
	if err != nil {
		return nil, err
	}
	if pos != len(toks) {
		return nil, fmt.Errorf("trailing tokens")
	}

	return e, nil
}

func unhx(s string) ([]byte, error) {
	if s == "-" {
		return []byte{}, nil
	}

	return hex.DecodeString(s)
}

// ParseVal builds a Go value of type s.GoType from value text.
func ParseVal(s *Schema, text string) (reflect.Value, error) {
	e, err := parseSexp(text)
	if err != nil {
		return reflect.Value{}, err
	}
	v := reflect.New(s.GoType).Elem()
	if err := fillVal(s, e, v); err != nil {
		return reflect.Value{}, err
	}

	return v, nil
}

func (e *sexp) tagged(tag string, n int) bool {
	return e.isL && len(e.list) == n+1 && e.list[0].atom == tag
}

func fillVal(s *Schema, e *sexp, v reflect.Value) error {
	bad := func() error { return fmt.Errorf("value does not fit %s", s.K) }
	switch s.K {
	case KBool, KUint, KFloat:
		if !e.tagged("n", 1) {
			return bad()
		}
		n, ok := new(big.Int).SetString(e.list[1].atom, 10)
		if !ok || !n.IsUint64() {
			return bad()
		}
		switch s.K {
		case KBool:
			v.SetBool(n.Uint64() != 0)
		case KUint:
			v.SetUint(n.Uint64())
		default:
			setFloatBits(v, n.Uint64())
		}
	case KInt:
		if !e.tagged("i", 1) {
			return bad()
		}
		n, ok := new(big.Int).SetString(e.list[1].atom, 10)
		if !ok || !n.IsInt64() {
			return bad()
		}
		v.SetInt(n.Int64())
	case KStr, KBytes, KByteArr:
		if !e.tagged("x", 1) {
			return bad()
		}
		b, err := unhx(e.list[1].atom)
		if err != nil {
			return err
		}
		switch s.K {
		case KStr:
			v.SetString(string(b))
		case KBytes:
			v.SetBytes(b)
		default:
			if len(b) != v.Len() {
				return bad()
			}
			reflect.Copy(v, reflect.ValueOf(b))
		}
	case KU256:
		if e.atom == "nil" {
			return nil
		}
		if !e.tagged("i", 1) {
			return bad()
		}
		n, ok := new(big.Int).SetString(e.list[1].atom, 10)
		if !ok {
			return bad()
		}
		v.Set(reflect.ValueOf(n))
	case KTime:
		if !e.tagged("i", 1) {
			return bad()
		}
		n, ok := new(big.Int).SetString(e.list[1].atom, 10)
		if !ok {
			return bad()
		}
		v.Set(reflect.ValueOf(TimeFromNanos(n)))
	case KSlice, KArray:
		if !e.isL || len(e.list) == 0 || e.list[0].atom != "l" {
			return bad()
		}
		items := e.list[1:]
		if s.K == KSlice {
			v.Set(reflect.MakeSlice(v.Type(), len(items), len(items)))
		} else if len(items) != v.Len() {
			return bad()
		}
		for i, it := range items {
			if err := fillVal(s.Elem, it, v.Index(i)); err != nil {
				return err
			}
		}
	case KMap:
		if !e.isL || len(e.list) == 0 || e.list[0].atom != "l" {
			return bad()
		}
		v.Set(reflect.MakeMap(v.Type()))
		for _, it := range e.list[1:] {
			if !it.tagged("kv", 2) {
				return bad()
			}
			k := reflect.New(v.Type().Key()).Elem()
			val := reflect.New(v.Type().Elem()).Elem()
			if err := fillVal(s.Key, it.list[1], k); err != nil {
				return err
			}
			if err := fillVal(s.Elem, it.list[2], val); err != nil {
				return err
			}
			v.SetMapIndex(k, val)
		}
	case KStruct:
		if !e.isL || len(e.list) != len(s.Fields)+1 || e.list[0].atom != "l" {
			return bad()
		}
		for i, f := range s.Fields {
			if err := fillVal(f.T, e.list[i+1], v.Field(f.Index)); err != nil {
				return err
			}
		}
	case KPtr:
		if e.atom == "nil" {
			return nil
		}
		if !e.tagged("some", 1) {
			return bad()
		}
		p := reflect.New(v.Type().Elem())
		if err := fillVal(s.Elem, e.list[1], p.Elem()); err != nil {
			return err
		}
		v.Set(p)
	case KCustom:
		if !e.tagged("x", 1) {
			return bad()
		}
		b, err := unhx(e.list[1].atom)
		if err != nil {
			return err
		}
		n, err := v.Addr().Interface().(interface{ Decode([]byte) (int, error) }).Decode(b)
		if err != nil || n != len(b) {
			return bad()
		}
	case KIface:
		if e.atom == "nil" {
			return nil
		}
		if !e.tagged("alt", 2) {
			return bad()
		}
		for _, a := range s.Alts {
			if fmt.Sprint(a.Code) == e.list[1].atom {
				cv := reflect.New(a.GoType).Elem()
				if err := fillVal(a.T, e.list[2], cv); err != nil {
					return err
				}
				v.Set(cv)

				return nil
			}
		}

		return bad()
	}

	return nil
}
