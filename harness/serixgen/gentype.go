package serixgen

import (
	"fmt"
	"math/big"
	"reflect"
	"strings"
	"time"

	"verifharness/hx"

	"github.com/iotaledger/hive.go/serializer/v2"
	"github.com/iotaledger/hive.go/serializer/v2/serix"
)

// Env is one registered universe: a fresh API, the top-level type and the settings handed to
// Encode/Decode through serix.WithTypeSettings.
type Env struct {
	API    *serix.API
	Top    reflect.Type
	TopTS  *serix.TypeSettings
	Name   string
	Schema *Schema
	Err    error // derivation failed: the type is not usable (Encode/Decode are expected to fail)
	// SOM: the universe is a SerializableOrderedMap instantiation (som.go); KeyS/ValS: its key and value schemas
	SOM        somBox
	KeyS, ValS *Schema
}

func (e *Env) Opts(validation bool) []serix.Option {
	var o []serix.Option
	if validation {
		o = append(o, serix.WithValidation())
	}
	if e.TopTS != nil {
		o = append(o, serix.WithTypeSettings(*e.TopTS))
	}

	return o
}

// Finish derives the schema from what was registered.
func (e *Env) Finish() *Env {
	ts := serix.TypeSettings{}
	if e.TopTS != nil {
		ts = *e.TopTS
	}
	e.Schema, e.Err = NewDeriver(e.API).Derive(e.Top, ts)

	return e
}

// Four named empty interfaces receive dynamically built implementations.
type (
	Iface0 interface{}
	Iface1 interface{}
	Iface2 interface{}
	Iface3 interface{}
)

// Named one-byte (and other scalar) types: reflect cannot create named types, and serix tells byte
// sequences from sequences of elements by assignability to []byte, which a named uint8 element breaks.
type (
	NU8   uint8
	NI8   int8
	NBool bool
	NU16  uint16
	NF32  float32
)

var (
	tNamedScalars = []reflect.Type{reflect.TypeOf(NU8(0)), reflect.TypeOf(NI8(0)), reflect.TypeOf(NBool(false)),
		reflect.TypeOf(NU16(0)), reflect.TypeOf(NF32(0))}
	// element types of "narrow" sequences: one-byte elements that are or are not plain bytes
	tNarrow = []reflect.Type{reflect.TypeOf(NU8(0)), reflect.TypeOf(NU8(0)), reflect.TypeOf(NI8(0)), reflect.TypeOf(NBool(false)),
		reflect.TypeOf(uint8(0)), reflect.TypeOf(int8(0)), reflect.TypeOf(false)}
)

var ifaceTypes = []reflect.Type{
	reflect.TypeOf((*Iface0)(nil)).Elem(), reflect.TypeOf((*Iface1)(nil)).Elem(),
	reflect.TypeOf((*Iface2)(nil)).Elem(), reflect.TypeOf((*Iface3)(nil)).Elem(),
}

var ifacePtrs = []any{(*Iface0)(nil), (*Iface1)(nil), (*Iface2)(nil), (*Iface3)(nil)}

type tgen struct {
	rng        *hx.Rng
	api        *serix.API
	registered map[reflect.Type]bool
	ifaceDone  map[int]bool
	ifaceCodes map[reflect.Type][]uint32 // object codes of the registered alternatives of an interface type
	nField     int
	nextCode   uint32
	maxDepth   int
}

// posSettings are settings a position can carry itself (struct tag or top-level option).
type posSettings struct {
	lp       *serix.LengthPrefixType
	min, max uint
	hasMin   bool
	hasMax   bool
}

func (p posSettings) empty() bool { return p.lp == nil && !p.hasMin && !p.hasMax }

func (p posSettings) tag() string {
	var parts []string
	if p.lp != nil {
		parts = append(parts, "lenPrefix="+map[serix.LengthPrefixType]string{
			serix.LengthPrefixTypeAsByte: "uint8", serix.LengthPrefixTypeAsUint16: "uint16",
			serix.LengthPrefixTypeAsUint32: "uint32", serix.LengthPrefixTypeAsUint64: "uint64"}[*p.lp])
	}
	if p.hasMin {
		parts = append(parts, fmt.Sprintf("minLen=%d", p.min))
	}
	if p.hasMax {
		parts = append(parts, fmt.Sprintf("maxLen=%d", p.max))
	}

	return strings.Join(parts, ",")
}

func (p posSettings) ts() serix.TypeSettings {
	ts := serix.TypeSettings{}
	if p.lp != nil {
		ts = ts.WithLengthPrefixType(*p.lp)
	}
	if p.hasMin {
		ts = ts.WithMinLen(p.min)
	}
	if p.hasMax {
		ts = ts.WithMaxLen(p.max)
	}

	return ts
}

type ctx int

const (
	ctxTop ctx = iota
	ctxField
	ctxElem // slice/array element, map key/value: settings only through the registry
)

// GenEnv builds a random registered universe from the generator.
func GenEnv(rng *hx.Rng, maxDepth int) *Env {
	g := &tgen{rng: rng, api: serix.NewAPI(), registered: map[reflect.Type]bool{}, ifaceDone: map[int]bool{}, ifaceCodes: map[reflect.Type][]uint32{},
		nextCode: uint32(rng.Intn(200)), maxDepth: maxDepth}
	var t reflect.Type
	var ps posSettings
	if rng.Chance(3, 5) {
		t, ps = g.structType(0), posSettings{}
		if rng.Chance(1, 3) {
			t = reflect.PointerTo(t)
		}
	} else {
		t, ps = g.genType(0, ctxTop)
	}
	e := &Env{API: g.api, Top: t, Name: "gen"}
	if !ps.empty() {
		ts := ps.ts()
		e.TopTS = &ts
	}
	if rng.Chance(1, 3) {
		// settings priority: the per-call option over whatever is registered for the top type
		ts := g.optionOverride(t, ps.ts())
		e.TopTS = &ts
	}

	return e.Finish()
}

// optionOverride builds per-call settings (serix.WithTypeSettings) that compete with the settings
// registered for the top-level type: explicit values — including the "off" ones: lexicalOrdering
// false, zero bounds, empty array rules — must win over registered ones, unset ones fall through.
// The type is first registered with rich settings if it has none yet.
func (g *tgen) optionOverride(t reflect.Type, ts serix.TypeSettings) serix.TypeSettings {
	under := t
	if under.Kind() == reflect.Ptr {
		under = under.Elem()
	}
	isSeq := under.Kind() == reflect.Slice || under.Kind() == reflect.Array || under.Kind() == reflect.Map || under.Kind() == reflect.String
	if isSeq && !g.registered[under] {
		reg := serix.TypeSettings{}.WithLengthPrefixType(g.pickLP()).WithLexicalOrdering(g.rng.Chance(3, 4))
		mode := serializer.ArrayValidationModeNone
		if g.rng.Chance(3, 4) {
			mode |= serializer.ArrayValidationModeLexicalOrdering
		}
		if g.rng.Chance(1, 3) {
			mode |= serializer.ArrayValidationModeNoDuplicates
		}
		reg = reg.WithArrayRules(&serix.ArrayRules{Min: uint(g.rng.Intn(2)), Max: uint(g.rng.Intn(7)), ValidationMode: mode})
		g.register(under, reg)
	}
	if g.rng.Chance(2, 3) {
		ts = ts.WithLexicalOrdering(g.rng.Chance(1, 3)) // mostly an explicit false
	}
	if g.rng.Chance(1, 3) {
		ts = ts.WithLengthPrefixType(g.pickLP())
	}
	switch g.rng.Intn(6) {
	case 0:
		ts = ts.WithArrayRules(&serix.ArrayRules{}) // explicit empty rules switch the registered ones off
	case 1:
		ts = ts.WithMinLen(0) // creates rules {Min:0}: replaces the registered rules as a whole
	case 2:
		ts = ts.WithMaxLen(uint(g.rng.Intn(4)))
	case 3:
		mode := serializer.ArrayValidationModeLexicalOrdering
		if g.rng.Bool() {
			mode |= serializer.ArrayValidationModeNoDuplicates
		}
		ts = ts.WithArrayRules(&serix.ArrayRules{ValidationMode: mode})
	}
	if under.Kind() == reflect.Struct && under != tTime && g.rng.Chance(1, 2) {
		if g.rng.Bool() {
			ts = ts.WithObjectType(uint8(g.freshCode() % 256))
		} else {
			ts = ts.WithObjectType(g.freshCode())
		}
	}

	return ts
}

func (g *tgen) pickLP() serix.LengthPrefixType {
	switch x := g.rng.Intn(100); {
	case x < 45:
		return serix.LengthPrefixTypeAsByte
	case x < 70:
		return serix.LengthPrefixTypeAsUint16
	case x < 97:
		return serix.LengthPrefixTypeAsUint32
	default:
		return serix.LengthPrefixTypeAsUint64
	}
}

func (g *tgen) register(t reflect.Type, ts serix.TypeSettings) {
	if g.registered[t] {
		return
	}
	g.registered[t] = true
	if err := g.api.RegisterTypeSettings(reflect.New(t).Elem().Interface(), ts); err != nil {
		panic(err)
	}
}

// collectionSettings decides where the settings of a string / byte slice / slice / array / map come from:
// the registry (full rules) or the position (length prefix and bounds only), rarely nowhere.
func (g *tgen) collectionSettings(t reflect.Type, c ctx, elemCoded bool, bytesLike bool) posSettings {
	lp := g.pickLP()
	var ps posSettings
	var min, max uint
	hasMin, hasMax := false, false
	if g.rng.Chance(1, 4) {
		min, hasMin = uint(g.rng.Intn(3)), true
	}
	if g.rng.Chance(1, 3) {
		max, hasMax = uint(g.rng.Range(1, 6)), true
		if bytesLike && g.rng.Chance(1, 3) {
			max = uint(hx.Pick(g.rng, []int{255, 256, 300, 65535, 65536}))
		}
	}
	if g.rng.Chance(1, 40) {
		return ps // no settings at all: "no LengthPrefixType was provided"
	}
	useRegistry := c == ctxElem || g.rng.Chance(2, 5)
	if useRegistry && !g.registered[t] {
		ts := serix.TypeSettings{}.WithLengthPrefixType(lp)
		rules := &serix.ArrayRules{}
		hasRules := false
		if hasMin {
			rules.Min, hasRules = min, true
		}
		if hasMax {
			rules.Max, hasRules = max, true
		}
		if !bytesLike {
			var mode serializer.ArrayValidationMode
			if g.rng.Chance(1, 2) {
				mode |= serializer.ArrayValidationModeLexicalOrdering
			}
			if g.rng.Chance(2, 5) {
				mode |= serializer.ArrayValidationModeNoDuplicates
			}
			if elemCoded && g.rng.Chance(1, 2) {
				if g.rng.Bool() {
					mode |= serializer.ArrayValidationModeAtMostOneOfEachTypeByte
				} else {
					mode |= serializer.ArrayValidationModeAtMostOneOfEachTypeUint32
				}
			}
			if mode != 0 {
				rules.ValidationMode, hasRules = mode, true
			}
			// must-occur rules over the codes of the element interface's alternatives (a subset; now and then a
			// code nobody has), combined with whatever else was drawn above
			if t.Kind() == reflect.Slice || t.Kind() == reflect.Array {
				if codes := g.ifaceCodes[t.Elem()]; len(codes) > 0 && g.rng.Chance(2, 3) {
					rules.MustOccur = serializer.TypePrefixes{}
					for _, c := range codes {
						if g.rng.Chance(2, 3) {
							rules.MustOccur[c] = struct{}{}
						}
					}
					if len(rules.MustOccur) == 0 {
						rules.MustOccur[codes[0]] = struct{}{}
					}
					if g.rng.Chance(1, 10) {
						rules.MustOccur[codes[0]+1000] = struct{}{}
					}
					hasRules = true
				}
			}
			if g.rng.Chance(1, 2) {
				ts = ts.WithLexicalOrdering(g.rng.Chance(4, 5))
			}
		}
		if hasRules {
			ts = ts.WithArrayRules(rules)
		}
		g.register(t, ts)
		if c != ctxElem && g.rng.Chance(1, 3) {
			// additionally override at the position: a tag's prefix wins over the registered one, and a
			// tag's bounds — also the zero ones, minLen=0 / maxLen=0 — replace the registered rules as a whole
			if g.rng.Chance(2, 3) {
				lp2 := g.pickLP()
				ps.lp = &lp2
			}
			switch g.rng.Intn(4) {
			case 0:
				ps.max, ps.hasMax = uint(g.rng.Range(1, 6)), true
			case 1:
				ps.min, ps.hasMin = 0, true
			case 2:
				ps.max, ps.hasMax = 0, true
			}
		}

		return ps
	}
	if c == ctxElem {
		return ps // already registered: use what is there
	}
	ps.lp = &lp
	ps.min, ps.hasMin, ps.max, ps.hasMax = min, hasMin, max, hasMax

	return ps
}

var (
	tBool    = reflect.TypeOf(false)
	tString  = reflect.TypeOf("")
	tUints   = []reflect.Type{reflect.TypeOf(uint8(0)), reflect.TypeOf(uint16(0)), reflect.TypeOf(uint32(0)), reflect.TypeOf(uint64(0))}
	tInts    = []reflect.Type{reflect.TypeOf(int8(0)), reflect.TypeOf(int16(0)), reflect.TypeOf(int32(0)), reflect.TypeOf(int64(0))}
	tFloats  = []reflect.Type{reflect.TypeOf(float32(0)), reflect.TypeOf(float64(0))}
	tBigInt  = reflect.TypeOf((*big.Int)(nil))
	tTime    = reflect.TypeOf(time.Time{})
	tByteArr = []int{0, 1, 2, 4, 20, 32}
)

// customType: one of the custom Serializable types; the coded twins get an object code on first use.
func (g *tgen) customType(comparable bool) reflect.Type {
	n := 3
	if comparable {
		n = 2 // CuSelf holds a slice
	}
	i := g.rng.Intn(n)
	if g.rng.Bool() {
		return customPlain[i]
	}
	t := customCoded[i]
	if !g.registered[t] {
		if g.rng.Bool() {
			g.register(t, serix.TypeSettings{}.WithObjectType(uint8(g.freshCode()%256)))
		} else {
			g.register(t, serix.TypeSettings{}.WithObjectType(g.freshCode()))
		}
	}

	return t
}

func (g *tgen) leaf() reflect.Type {
	if g.rng.Chance(1, 8) {
		return hx.Pick(g.rng, tNamedScalars)
	}
	if g.rng.Chance(1, 10) {
		return g.customType(false)
	}
	switch x := g.rng.Intn(100); {
	case x < 10:
		return tBool
	case x < 35:
		return hx.Pick(g.rng, tUints)
	case x < 55:
		return hx.Pick(g.rng, tInts)
	case x < 63:
		return hx.Pick(g.rng, tFloats)
	case x < 72:
		return tTime
	case x < 80:
		return tBigInt
	default:
		return reflect.ArrayOf(hx.Pick(g.rng, tByteArr), tUints[0])
	}
}

// genType returns a type and the settings its position should carry.
func (g *tgen) genType(depth int, c ctx) (reflect.Type, posSettings) {
	x := g.rng.Intn(100)
	if depth >= g.maxDepth {
		x = g.rng.Intn(40)
	}
	if g.rng.Chance(1, 9) {
		return g.narrowSeq(c)
	}
	switch {
	case x < 22:
		return g.leaf(), posSettings{}
	case x < 31:
		return tString, g.collectionSettings(tString, c, false, true)
	case x < 40:
		return bytesType, g.collectionSettings(bytesType, c, false, true)
	case x < 55:
		return g.structType(depth + 1), posSettings{}
	case x < 70:
		et, coded := g.elemType(depth + 1)
		t := reflect.SliceOf(et)

		return t, g.collectionSettings(t, c, coded, false)
	case x < 77:
		et, coded := g.elemType(depth + 1)
		t := reflect.ArrayOf(g.rng.Intn(4), et)
		if reflect.SliceOf(et).AssignableTo(bytesType) {
			return t, posSettings{}
		}

		return t, g.collectionSettings(t, c, coded, false)
	case x < 86:
		kt := g.keyType(depth + 1)
		vt, _ := g.elemType(depth + 1)
		t := reflect.MapOf(kt, vt)

		return t, g.collectionSettings(t, c, false, false)
	case x < 93:
		return g.ptrType(depth + 1), posSettings{}
	default:
		return g.ifaceType(depth + 1), posSettings{}
	}
}

// narrowSeq: a slice or array of one-byte elements — plain bytes (a byte slice / byte array on the
// wire) or a named uint8 / int8 / bool type (a length-prefixed sequence of elements) — with every
// prefix width and, sometimes, an object code registered for the sequence type.
func (g *tgen) narrowSeq(c ctx) (reflect.Type, posSettings) {
	et := hx.Pick(g.rng, tNarrow)
	var t reflect.Type
	if g.rng.Bool() {
		t = reflect.SliceOf(et)
	} else {
		t = reflect.ArrayOf(hx.Pick(g.rng, []int{0, 1, 2, 3, 4, 8}), et)
	}
	isBytes := t.Kind() == reflect.Slice && t.AssignableTo(bytesType)
	isByteArr := t.Kind() == reflect.Array && reflect.SliceOf(et).AssignableTo(bytesType)
	if !g.registered[t] && g.rng.Chance(1, 3) {
		// registered with an object code (written for byte arrays, ignored for sequences of elements)
		ts := serix.TypeSettings{}.WithLengthPrefixType(g.pickLP())
		if g.rng.Bool() {
			ts = ts.WithObjectType(uint8(g.freshCode() % 256))
		} else {
			ts = ts.WithObjectType(g.freshCode())
		}
		g.register(t, ts)
		if c == ctxElem || g.rng.Bool() {
			return t, posSettings{}
		}
	}
	if isByteArr {
		return t, posSettings{}
	}

	return t, g.collectionSettings(t, c, false, isBytes)
}

// elemType: a type for a position that cannot carry settings; says whether its encoding starts with a code.
func (g *tgen) elemType(depth int) (reflect.Type, bool) {
	if g.rng.Chance(1, 4) {
		st, coded := g.codedStruct(depth)
		if g.rng.Chance(1, 3) {
			return reflect.PointerTo(st), coded
		}

		return st, coded
	}
	if g.rng.Chance(1, 6) && depth < g.maxDepth {
		return g.ifaceType(depth), true
	}
	t, _ := g.genType(depth, ctxElem)

	return t, false
}

func (g *tgen) keyType(depth int) reflect.Type {
	if g.rng.Chance(1, 7) {
		return g.customType(true)
	}
	switch x := g.rng.Intn(100); {
	case x < 8:
		return tBool
	case x < 35:
		return hx.Pick(g.rng, tUints)
	case x < 50:
		return hx.Pick(g.rng, tInts)
	case x < 70:
		g.collectionSettings(tString, ctxElem, false, true)

		return tString
	case x < 82:
		return reflect.ArrayOf(hx.Pick(g.rng, []int{1, 2, 4}), tUints[0])
	case x < 90 && depth < g.maxDepth:
		t := reflect.ArrayOf(g.rng.Range(1, 2), hx.Pick(g.rng, tUints))
		g.collectionSettings(t, ctxElem, false, false)

		return t
	case x < 97 && depth < g.maxDepth:
		n := g.rng.Range(1, 2)
		fs := make([]reflect.StructField, n)
		for i := range fs {
			g.nField++
			fs[i] = reflect.StructField{Name: fmt.Sprintf("K%d", i), Type: hx.Pick(g.rng, append(append([]reflect.Type{tBool}, tUints...), tInts...)),
				Tag: reflect.StructTag(fmt.Sprintf(`serix:"k%d"`, g.nField))}
		}

		return reflect.StructOf(fs)
	default:
		return hx.Pick(g.rng, tUints)
	}
}

func (g *tgen) ptrType(depth int) reflect.Type {
	switch x := g.rng.Intn(100); {
	case x < 60:
		return reflect.PointerTo(g.structType(depth))
	case x < 70:
		return reflect.PointerTo(tTime)
	case x < 80:
		return reflect.PointerTo(reflect.ArrayOf(hx.Pick(g.rng, tByteArr), tUints[0]))
	case x < 88:
		t := reflect.ArrayOf(g.rng.Intn(3), hx.Pick(g.rng, tUints[1:]))
		g.collectionSettings(t, ctxElem, false, false)

		return reflect.PointerTo(t)
	case x < 94:
		return reflect.PointerTo(hx.Pick(g.rng, tUints)) // Decode accepts it, Encode does not
	default:
		return reflect.PointerTo(reflect.PointerTo(g.structType(depth)))
	}
}

func (g *tgen) freshCode() uint32 {
	g.nextCode++

	return g.nextCode
}

// codedStruct: a struct type registered with an object code (mostly).
func (g *tgen) codedStruct(depth int) (reflect.Type, bool) {
	st := g.rawStruct(depth)
	if g.registered[st] {
		return st, false
	}
	if g.rng.Chance(1, 8) {
		return st, false
	}
	if g.rng.Bool() {
		g.register(st, serix.TypeSettings{}.WithObjectType(uint8(g.freshCode()%256)))
	} else {
		g.register(st, serix.TypeSettings{}.WithObjectType(g.freshCode()))
	}

	return st, true
}

func (g *tgen) structType(depth int) reflect.Type {
	if g.rng.Chance(1, 2) {
		st, _ := g.codedStruct(depth)

		return st
	}
	st := g.rawStruct(depth)
	if g.rng.Chance(1, 2) {
		g.register(st, serix.TypeSettings{})
	}

	return st
}

func (g *tgen) rawStruct(depth int) reflect.Type {
	n := g.rng.Intn(5)
	if depth >= g.maxDepth {
		n = g.rng.Intn(3)
	}
	var fs []reflect.StructField
	for i := 0; i < n; i++ {
		g.nField++
		key := fmt.Sprintf("f%d", g.nField)
		name := fmt.Sprintf("F%d", i)
		switch x := g.rng.Intn(100); {
		case x < 4:
			// not a serix field
			fs = append(fs, reflect.StructField{Name: name, Type: tUints[1]})
		case x < 14 && depth < g.maxDepth:
			// embedded struct or pointer to struct, flattened (or `inlined`: a normal nested field)
			var et reflect.Type
			if g.rng.Bool() {
				et = g.rawStruct(depth + 1)
			} else {
				et, _ = g.codedStruct(depth + 1)
			}
			if g.rng.Chance(1, 3) {
				et = reflect.PointerTo(et)
			}
			tag := key
			if g.rng.Chance(1, 5) {
				tag += ",inlined"
			}
			fs = append(fs, reflect.StructField{Name: fmt.Sprintf("E%d", i), Type: et, Anonymous: true,
				Tag: reflect.StructTag(fmt.Sprintf(`serix:"%s"`, tag))})
		case x < 30 && depth < g.maxDepth:
			// optional pointer / interface / big.Int
			var ot reflect.Type
			var ps posSettings
			switch y := g.rng.Intn(10); {
			case y < 5:
				st, _ := g.codedStruct(depth + 1)
				ot = reflect.PointerTo(st)
			case y < 6:
				ot = reflect.PointerTo(g.rawStruct(depth + 1)) // may have an empty encoding
			case y < 8:
				ot = g.ifaceType(depth + 1)
			case y < 9:
				ot = tBigInt
			default:
				ot = g.ptrType(depth + 1)
			}
			tag := key + ",optional"
			if !ps.empty() {
				tag += "," + ps.tag()
			}
			fs = append(fs, reflect.StructField{Name: name, Type: ot, Tag: reflect.StructTag(fmt.Sprintf(`serix:"%s"`, tag))})
		default:
			ft, ps := g.genType(depth+1, ctxField)
			tag := key
			if !ps.empty() {
				tag += "," + ps.tag()
			}
			fs = append(fs, reflect.StructField{Name: name, Type: ft, Tag: reflect.StructTag(fmt.Sprintf(`serix:"%s"`, tag))})
		}
	}

	return reflect.StructOf(fs)
}

// ifaceType configures one of the four named interfaces (once per universe) with 1..3 alternatives.
func (g *tgen) ifaceType(depth int) reflect.Type {
	k := g.rng.Intn(len(ifaceTypes))
	if g.ifaceDone[k] {
		return ifaceTypes[k]
	}
	g.ifaceDone[k] = true
	n := g.rng.Range(1, 3)
	u8 := g.rng.Bool()
	for i := 0; i < n; i++ {
		var at reflect.Type
		if g.rng.Chance(1, 6) {
			// a byte array with an object code
			g.nField++
			at = reflect.ArrayOf(g.rng.Range(0, 4), tUints[0])
			if g.registered[at] {
				continue
			}
		} else {
			d := depth
			if d < g.maxDepth {
				d++
			}
			at = g.rawStruct(d)
			if g.registered[at] {
				continue
			}
		}
		var code uint32
		if u8 {
			code = g.freshCode() % 256
			g.register(at, serix.TypeSettings{}.WithObjectType(uint8(code)))
		} else {
			code = g.freshCode()
			g.register(at, serix.TypeSettings{}.WithObjectType(code))
		}
		var obj any
		if at.Kind() == reflect.Struct && g.rng.Bool() {
			obj = reflect.New(at).Interface() // registered as *T
		} else {
			obj = reflect.New(at).Elem().Interface()
		}
		if err := g.api.RegisterInterfaceObjects(ifacePtrs[k], obj); err != nil {
			// e.g. a type already registered with another denotation: leave this alternative out
			continue
		}
		g.ifaceCodes[ifaceTypes[k]] = append(g.ifaceCodes[ifaceTypes[k]], code)
	}

	return ifaceTypes[k]
}
