package serixgen

import (
	"bytes"
	"context"
	"errors"
	"fmt"
	"hash/fnv"
	"math/big"
	"os"
	"reflect"
	"sort"
	"strconv"
	"strings"
	"time"

	"verifharness/hx"

	"github.com/iotaledger/hive.go/serializer/v2/serix"
)

// Syntactic validators (API.RegisterValidator / callSyntacticValidator) are exercised on a *twin* API: the
// universe of a case is built a second time (same catalogue entry / same generator seed, hence the very same
// Go types and registrations) and validators are registered on the twin for some of the types that occur in it.
// The op lines and the answers sent to Lean stay those of the plain API.  A validator of the harness counts its
// calls, records the value it saw and — only while the twin is in its rejecting mode — refuses the values a
// deterministic rule picks (a hash of the canonical text of the value, so the rule is invariant under what
// Decode canonicalises: order of collections, saturated timestamps, nil vs empty).
//
// The harness predicts the calls with its own traversal of the value (positions = what API.encode / API.decode
// are called on: the top value, struct fields that are not flattened, collection elements, map keys and values,
// the concrete value of an interface; not: flattened embedded structs, the target of a pointer), with the
// documented lookup (the validator registered for the type; for a pointer without a usable validator of its own
// the validator of the element type, called on the dereferenced value).
//
// Oracles: validator-off, validator-accepting, validator-called, validator-rejecting (see twinEnc / twinDecode),
// validator-register (fixed corpus of RegisterValidator error paths).

type vreg struct {
	t       reflect.Type
	valid   bool // false: registered with a nil function (an entry without a usable validator)
	mod     uint64
	salt    uint64
	variant string
}

type vcall struct {
	t        reflect.Type
	exact    string // text of the value as seen (element order kept)
	canon    string // canonical text (collections as multisets, stamps saturated)
	top      bool   // expected calls only: the call for the top-level position
	where    string // expected calls only: kind of position and lookup (histogram)
	rejected bool
}

type twin struct {
	env       *Env
	regs      map[reflect.Type]*vreg
	order     []*vreg
	rejecting bool
	calls     []vcall
	badCtx    int
	desc      string
}

type twinCtxKey struct{}

// twinEnabled: the validator twin and the settings-accessor oracle run (C01 only; VERIF_SERIX_TWIN=0 switches them off).
var (
	twinMode    = os.Getenv("VERIF_SERIX_TWIN") // "settings" / "validators": only that half (timing experiments)
	twinEnabled = twinMode != "0"
)

var (
	ctxType     = reflect.TypeOf((*context.Context)(nil)).Elem()
	errorType   = reflect.TypeOf((*error)(nil)).Elem()
	errRejected = errors.New("harness validator: value rejected")
	twinCtx     = context.WithValue(context.Background(), twinCtxKey{}, "twin")
	bigIntValT  = bigIntType.Elem()
)

func fnv64(s string) uint64 {
	h := fnv.New64a()
	h.Write([]byte(s))

	return h.Sum64()
}

// ---- value text that needs no schema (a validator only knows the type it was registered for) ----

func vtext(v reflect.Value, canon bool) string {
	var b tbuf
	vtextTo(&b, v, canon)

	return b.String()
}

// tbuf: a text under construction; sens is set when the exact text meets something the canonical text prints
// differently (an out-of-range timestamp, a collection of two or more elements).
type tbuf struct {
	strings.Builder
	sens bool
}

// vtexts: the exact and the canonical text of a value (one pass when nothing inside is order- or range-sensitive).
func vtexts(v reflect.Value) (exact, canon string) {
	var b tbuf
	vtextTo(&b, v, false)
	exact = b.String()
	if !b.sens {
		return exact, exact
	}

	return exact, vtext(v, true)
}

func vtextTo(b *tbuf, v reflect.Value, canon bool) {
	if !v.IsValid() {
		b.WriteString("invalid")

		return
	}
	t := v.Type()
	switch t {
	case timeType:
		n := TimeNanos(v.Interface().(time.Time))
		if n.Sign() < 0 || n.Cmp(maxInt64Big) > 0 {
			b.sens = true
		}
		if canon {
			n = SaturateNanos(n)
		}
		b.WriteString("(t " + n.String() + ")")

		return
	case bigIntType:
		if v.IsNil() {
			b.WriteString("nil")
		} else {
			b.WriteString("(i " + v.Interface().(*big.Int).String() + ")")
		}

		return
	case bigIntValT:
		b.WriteString("(I " + addressable(v).Addr().Interface().(*big.Int).String() + ")")

		return
	}
	switch v.Kind() {
	case reflect.Ptr:
		if v.IsNil() {
			b.WriteString("nil")

			return
		}
		b.WriteString("(some ")
		vtextTo(b, v.Elem(), canon)
		b.WriteString(")")

		return
	case reflect.Interface:
		if v.IsNil() {
			b.WriteString("nil")

			return
		}
		fmt.Fprintf(b, "(dyn %x ", fnv64(v.Elem().Type().String())&0xffffff)
		vtextTo(b, v.Elem(), canon)
		b.WriteString(")")

		return
	}
	if _, ok := customOf(v); ok {
		enc, err := customEncode(v)
		if err != nil {
			b.WriteString("(custom-error)")
		} else {
			b.WriteString("(c " + hexs(enc) + ")")
		}

		return
	}
	switch v.Kind() {
	case reflect.Bool:
		if v.Bool() {
			b.WriteString("(n 1)")
		} else {
			b.WriteString("(n 0)")
		}
	case reflect.Uint8, reflect.Uint16, reflect.Uint32, reflect.Uint64:
		b.WriteString("(n " + strconv.FormatUint(v.Uint(), 10) + ")")
	case reflect.Int8, reflect.Int16, reflect.Int32, reflect.Int64:
		b.WriteString("(i " + strconv.FormatInt(v.Int(), 10) + ")")
	case reflect.Float32, reflect.Float64:
		b.WriteString("(f " + strconv.FormatUint(floatBits(v), 10) + ")")
	case reflect.String:
		b.WriteString("(x " + hexs([]byte(v.String())) + ")")
	case reflect.Slice, reflect.Array:
		if reflect.SliceOf(t.Elem()).AssignableTo(bytesType) {
			// a byte payload, not a collection of elements
			raw := make([]byte, v.Len())
			reflect.Copy(reflect.ValueOf(raw), v)
			b.WriteString("(x " + hexs(raw) + ")")

			return
		}
		items := make([]string, v.Len())
		for i := range items {
			var ib tbuf
			vtextTo(&ib, v.Index(i), canon)
			items[i] = ib.String()
			b.sens = b.sens || ib.sens
		}
		if len(items) >= 2 {
			b.sens = true
		}
		if canon {
			sort.Strings(items)
		}
		b.WriteString("(l" + joinSp(items) + ")")
	case reflect.Map:
		items := make([]string, 0, v.Len())
		iter := v.MapRange()
		for iter.Next() {
			var ib tbuf
			ib.WriteString("(kv ")
			vtextTo(&ib, iter.Key(), canon)
			ib.WriteString(" ")
			vtextTo(&ib, iter.Value(), canon)
			ib.WriteString(")")
			items = append(items, ib.String())
			b.sens = b.sens || ib.sens
		}
		sort.Strings(items)
		b.WriteString("(m" + joinSp(items) + ")")
	case reflect.Struct:
		b.WriteString("(s")
		for i := 0; i < v.NumField(); i++ {
			b.WriteString(" ")
			vtextTo(b, v.Field(i), canon)
		}
		b.WriteString(")")
	default:
		b.WriteString("(unsupported " + v.Kind().String() + ")")
	}
}

// customOf: v is a value of one of the harness's custom Serializable types.
func customOf(v reflect.Value) (customInfo, bool) {
	if v.Type().NumMethod() == 0 || !v.CanInterface() {
		return nil, false
	}
	ci, ok := v.Interface().(customInfo)

	return ci, ok
}

// rejects is the rule of the rejecting variant: a pure function of the registration and the canonical text.
func (r *vreg) rejects(canon string) bool {
	return (fnv64(canon)^r.salt)%r.mod == 0
}

// ---- building the twin ----

// positionTypes lists, in order of first occurrence, the static types of the positions of a schema.
func positionTypes(s *Schema) []reflect.Type {
	var out []reflect.Type
	seen := map[reflect.Type]bool{}
	add := func(t reflect.Type) {
		if t != nil && !seen[t] && t.Kind() != reflect.Interface {
			seen[t] = true
			out = append(out, t)
		}
	}
	var pos, desc func(n *Schema)
	pos = func(n *Schema) {
		add(n.GoType)
		desc(n)
	}
	desc = func(n *Schema) {
		switch n.K {
		case KPtr:
			desc(n.Elem)
		case KStruct:
			for _, f := range n.Fields {
				if f.Kind == 'e' {
					desc(f.T)
				} else {
					pos(f.T)
				}
			}
		case KSlice, KArray:
			pos(n.Elem)
		case KMap:
			pos(n.Key)
			pos(n.Elem)
		case KIface:
			for _, a := range n.Alts {
				pos(a.T)
			}
		}
	}
	pos(s)

	return out
}

var typeClassCache = map[reflect.Type]string{}

func typeClass(t reflect.Type) string {
	if c, ok := typeClassCache[t]; ok {
		return c
	}
	c := typeClass1(t)
	typeClassCache[t] = c

	return c
}

func typeClass1(t reflect.Type) string {
	base := t
	if t.Kind() == reflect.Ptr {
		base = t.Elem()
	}
	if t == bigIntType {
		return "bigint"
	}
	if base.Kind() != reflect.Ptr && base.Kind() != reflect.Interface {
		if _, ok := reflect.New(base).Elem().Interface().(customInfo); ok {
			return "custom"
		}
	}
	switch {
	case base.Kind() == reflect.Struct:
		return "struct"
	case base.Name() != "" && base.PkgPath() != "":
		return "named"
	}

	return "other"
}

// buildTwin builds the twins of the current universe (C01 only; every catalogue universe gets four with different
// validators, a third of the random ones get one).  Everything is a function of the `type` line, and an op line
// picks its twin by its own text (pickTwin), so a replay of the case — or of the failing op alone — runs the same
// validators.
func (x *Runner) buildTwin() {
	x.tw, x.tws = nil, nil
	x.twLastDec = ""
	if x.Prop != "C01" || x.Env == nil || x.Env.Err != nil || x.Env.SOM != nil {
		return
	}
	f := strings.Fields(x.typeLine)
	if len(f) < 3 {
		return
	}
	h := fnv64(x.typeLine)
	n := 1
	switch f[1] {
	case "cat":
		n = 4
	case "gen":
		if h%3 != 0 || len(f) != 4 {
			return
		}
	default:
		return
	}
	for k := 0; k < n; k++ {
		if tw := x.buildOneTwin(f, h, k); tw != nil {
			x.tws = append(x.tws, tw)
		}
	}
	if len(x.tws) > 0 {
		x.R.Count("validators:universes")
		x.R.Count("validators:universes:" + f[1])
	}
}

// pickTwin selects the twin an op line runs on.
func (x *Runner) pickTwin(op string) *twin {
	x.tw = nil
	if len(x.tws) > 0 {
		x.tw = x.tws[fnv64(op)%uint64(len(x.tws))]
	}

	return x.tw
}

func (x *Runner) buildOneTwin(f []string, h uint64, k int) *twin {
	var e2 *Env
	switch f[1] {
	case "cat":
		e2 = CatalogueEnv(f[2])
	case "gen":
		seed, err1 := strconv.ParseUint(f[2], 10, 64)
		depth, err2 := strconv.Atoi(f[3])
		if err1 != nil || err2 != nil {
			return nil
		}
		e2 = GenEnv(hx.NewRng(seed), depth)
	}
	if e2 == nil || e2.Err != nil || e2.Top != x.Env.Top || e2.Schema.SExp() != x.Env.Schema.SExp() {
		x.R.Count("validators:twin-not-identical")

		return nil
	}
	tw := &twin{env: e2, regs: map[reflect.Type]*vreg{}}
	rng := hx.NewRng(h ^ 0x76616c6964617465 ^ (uint64(k) * 0x9e3779b97f4a7c15))
	cands := positionTypes(e2.Schema)
	if rng.Bool() {
		// inner positions first (the list starts with the top type)
		for i := len(cands) - 1; i > 0; i-- {
			j := rng.Intn(i + 1)
			cands[i], cands[j] = cands[j], cands[i]
		}
	}
	maxRegs := 6
	if f[1] == "cat" {
		maxRegs = 9
	}
	chosen := 0
	pick := func(t reflect.Type, force bool) {
		var num int
		switch typeClass(t) {
		case "custom":
			num = 16
		case "struct", "named":
			num = 12
		case "bigint":
			num = 8
		default:
			num = 3
		}
		if !force && rng.Intn(24) >= num {
			return
		}
		chosen++
		r := rng.Intn(10)
		if t.Kind() == reflect.Ptr {
			switch {
			case r < 5:
				tw.register(x, rng, t.Elem(), true, "ptr-pos:elem")
			case r < 8:
				tw.register(x, rng, t, true, "ptr-pos:ptr")
			case r == 8:
				tw.register(x, rng, t, true, "ptr-pos:both")
				tw.register(x, rng, t.Elem(), true, "ptr-pos:both")
			default:
				tw.register(x, rng, t, false, "ptr-pos:nil-fn")
				tw.register(x, rng, t.Elem(), true, "ptr-pos:elem-behind-nil-fn")
			}

			return
		}
		switch {
		case r < 8:
			tw.register(x, rng, t, true, "val-pos:val")
		case r == 8:
			tw.register(x, rng, reflect.PointerTo(t), true, "val-pos:ptr-only")
		default:
			tw.register(x, rng, t, true, "val-pos:both")
			tw.register(x, rng, reflect.PointerTo(t), true, "val-pos:both")
		}
	}
	for _, t := range cands {
		if len(tw.order) >= maxRegs {
			break
		}
		pick(t, false)
	}
	if chosen == 0 && len(cands) > 0 {
		pick(cands[rng.Intn(len(cands))], true)
	}
	if len(tw.order) == 0 {
		return nil
	}
	var d []string
	for _, r := range tw.order {
		d = append(d, fmt.Sprintf("%s[%s mod=%d]", clip(r.t.String(), 80), r.variant, r.mod))
	}
	tw.desc = strings.Join(d, ", ")
	x.R.Count("validators:twins")

	return tw
}

func (tw *twin) register(x *Runner, rng *hx.Rng, t reflect.Type, valid bool, variant string) {
	if _, dup := tw.regs[t]; dup || t.Kind() == reflect.Interface {
		return
	}
	r := &vreg{t: t, valid: valid, mod: uint64(hx.Pick(rng, []int{2, 3, 5, 8, 13})), salt: rng.U64(), variant: variant}
	obj := reflect.New(t).Elem().Interface()
	var fn any
	if valid {
		ft := reflect.FuncOf([]reflect.Type{ctxType, t}, []reflect.Type{errorType}, false)
		fn = reflect.MakeFunc(ft, func(args []reflect.Value) []reflect.Value {
			if c, ok := args[0].Interface().(context.Context); !ok || c.Value(twinCtxKey{}) != "twin" {
				tw.badCtx++
			}
			c := vcall{t: t}
			c.exact, c.canon = vtexts(args[1])
			if tw.rejecting && r.rejects(c.canon) {
				c.rejected = true
			}
			tw.calls = append(tw.calls, c)
			if c.rejected {
				return []reflect.Value{reflect.ValueOf(&errRejected).Elem()}
			}

			return []reflect.Value{reflect.Zero(errorType)}
		}).Interface()
	}
	if err := tw.env.API.RegisterValidator(obj, fn); err != nil {
		x.fail("validator-register", fmt.Sprintf("RegisterValidator refused a well-formed validator for %s: %v; %s", t, err, x.where())+x.replay("def -"),
			x.sig("validator-register", "refused", true))

		return
	}
	tw.regs[t] = r
	tw.order = append(tw.order, r)
	x.R.Count("validators:registered:" + variant)
	x.R.Count("validators:registered-class:" + typeClass(t))
}

// ---- the harness's own prediction of the calls ----

type expect struct {
	calls    []vcall
	nilDeref bool // a nil pointer whose element type's validator would be called on the dereferenced value
	rejected int
	nodes    int
	tooBig   bool
}

const twinMaxNodes = 6000

// expectCall: the documented lookup.
func (tw *twin) expectCall(t reflect.Type, v reflect.Value, where string, ex *expect) {
	r, ok := tw.regs[t]
	lookup := "direct"
	if (!ok || !r.valid) && t.Kind() == reflect.Ptr {
		lookup = "deref"
		if ok {
			lookup = "deref-behind-nil-fn"
		}
		t = t.Elem()
		if v.IsNil() {
			v = reflect.Value{}
		} else {
			v = v.Elem()
		}
		r, ok = tw.regs[t]
	}
	if !ok || !r.valid {
		return
	}
	if !v.IsValid() {
		ex.nilDeref = true

		return
	}
	if t.Kind() == reflect.Ptr {
		lookup = "pointer-validator"
	}
	c := vcall{t: t, top: where == "top", where: where + ":" + lookup + ":" + typeClass(t)}
	c.exact, c.canon = vtexts(v)
	if r.rejects(c.canon) {
		c.rejected = true
		ex.rejected++
	}
	ex.calls = append(ex.calls, c)
}

func (tw *twin) position(s *Schema, v reflect.Value, where string, ex *expect) {
	ex.nodes++
	if ex.nodes > twinMaxNodes {
		ex.tooBig = true

		return
	}
	tw.expectCall(v.Type(), v, where, ex)
	tw.descend(s, v, ex)
}

func (tw *twin) descend(s *Schema, v reflect.Value, ex *expect) {
	if ex.tooBig {
		return
	}
	switch s.K {
	case KPtr:
		if !v.IsNil() {
			tw.descend(s.Elem, v.Elem(), ex)
		}
	case KStruct:
		for _, f := range s.Fields {
			fv := v.Field(f.Index)
			switch f.Kind {
			case 'e':
				tw.descend(f.T, fv, ex)
			case 'o':
				if !fv.IsNil() {
					tw.position(f.T, fv, "optional-field", ex)
				}
			default:
				if v.Type().Field(f.Index).Anonymous {
					tw.position(f.T, fv, "inlined-embedded", ex)
				} else {
					tw.position(f.T, fv, "field", ex)
				}
			}
		}
	case KSlice, KArray:
		for i := 0; i < v.Len(); i++ {
			tw.position(s.Elem, v.Index(i), "element", ex)
		}
	case KMap:
		iter := v.MapRange()
		for iter.Next() {
			tw.position(s.Key, iter.Key(), "map-key", ex)
			tw.position(s.Elem, iter.Value(), "map-value", ex)
		}
	case KIface:
		if v.IsNil() {
			return
		}
		cv := v.Elem()
		for _, a := range s.Alts {
			if a.GoType == cv.Type() {
				tw.position(a.T, cv, "interface-alternative", ex)

				return
			}
		}
	}
}

// expectEnc: API.Encode(v.Interface()) starts at the dynamic type of the value.
func (tw *twin) expectEnc(s *Schema, v reflect.Value) *expect {
	ex := &expect{}
	if s.K == KIface {
		tw.descend(s, v, ex) // the interface value is unwrapped by the call itself
		for i := range ex.calls {
			ex.calls[i].top = false
		}

		return ex
	}
	tw.position(s, v, "top", ex)

	return ex
}

// expectDec: API.Decode(ptr) starts at the pointer to the destination.
func (tw *twin) expectDec(s *Schema, v reflect.Value) *expect {
	ex := &expect{}
	if s.K == KPtr && s.Elem.K == KCustom {
		// a pointer to a pointer to a Deserializable: Decode continues with the inner pointer
		tw.position(s, v, "top", ex)

		return ex
	}
	pv := reflect.New(v.Type())
	pv.Elem().Set(v)
	tw.expectCall(pv.Type(), pv, "top", ex)
	tw.descend(s, v, ex)

	return ex
}

func callBag(cs []vcall, canon bool, skipTop bool) map[string]int {
	m := map[string]int{}
	for _, c := range cs {
		if skipTop && c.top {
			continue
		}
		k := c.t.String() + " " + c.exact
		if canon {
			k = c.t.String() + " " + c.canon
		}
		m[k]++
	}

	return m
}

// bagDiff describes the first difference of two multisets ("" if equal; with sub: got ⊆ want suffices).
func bagDiff(got, want map[string]int, sub bool) string {
	keys := make([]string, 0, len(got)+len(want))
	for k := range got {
		keys = append(keys, k)
	}
	for k := range want {
		if _, ok := got[k]; !ok {
			keys = append(keys, k)
		}
	}
	sort.Strings(keys)
	for _, k := range keys {
		g, w := got[k], want[k]
		if g == w || (sub && g < w) {
			continue
		}

		return fmt.Sprintf("validator of %s called %d times, the traversal of the value expects %d", clip(k, 300), g, w)
	}

	return ""
}

// ---- running the twin ----

func (tw *twin) encode(v reflect.Value, validation, rejecting bool) (b []byte, outcome string) {
	tw.calls, tw.rejecting = nil, rejecting
	var err error
	opts := tw.env.Opts(validation)
	p := hx.Safely(func() { b, err = tw.env.API.Encode(twinCtx, v.Interface(), opts...) })
	tw.rejecting = false
	switch {
	case p != "":
		return nil, "panic"
	case err != nil:
		return nil, "err"
	}

	return b, "ok"
}

func (tw *twin) decode(b []byte, validation, rejecting bool) (v reflect.Value, n int, outcome string) {
	tw.calls, tw.rejecting = nil, rejecting
	dst := reflect.New(tw.env.Top)
	var err error
	opts := tw.env.Opts(validation)
	in := append([]byte(nil), b...)
	p := hx.Safely(func() { n, err = tw.env.API.Decode(twinCtx, in, dst.Interface(), opts...) })
	tw.rejecting = false
	switch {
	case p != "":
		return reflect.Value{}, 0, "panic"
	case err != nil:
		return reflect.Value{}, 0, "err"
	}

	return dst.Elem(), n, "ok"
}

func (x *Runner) twinFail(oracle, trigger string, validation bool, op string, format string, args ...any) {
	x.fail(oracle, fmt.Sprintf(format, args...)+"; validators: "+clip(x.tw.desc, 900)+"; "+x.where()+x.replay(op), x.sig(oracle, trigger, validation))
}

// earlyStop: a rejecting validator ends the traversal — the rejected call is the last one.
func earlyStop(calls []vcall) bool {
	for i, c := range calls {
		if c.rejected && i != len(calls)-1 {
			return false
		}
	}

	return true
}

func anyRejected(calls []vcall) bool {
	for _, c := range calls {
		if c.rejected {
			return true
		}
	}

	return false
}

// twinEnc runs after the plain API encoded v (bytes b, outcome out) with the given validation mode.
func (x *Runner) twinEnc(v reflect.Value, validation bool, b []byte, out string) {
	if len(x.tws) == 0 {
		return
	}
	s := x.Env.Schema
	op := "enc " + flagName(validation) + " " + ValText(s, v, TextOpts{})
	tw := x.pickTwin(op)
	ex := tw.expectEnc(s, v)
	if ex.tooBig {
		x.R.Count("validators:skipped-large")

		return
	}
	x.R.Count("validators:enc-lines")
	x.twN++
	if !validation {
		tb, tout := tw.encode(v, false, false)
		x.R.Count("validators:off-checks")
		if len(tw.calls) > 0 {
			x.twinFail("validator-off", "encode-called", false, op, "Encode without WithValidation called %d validators (first: %s)", len(tw.calls), clip(tw.calls[0].t.String(), 100))
		}
		if tout != out || !bytes.Equal(tb, b) {
			x.twinFail("validator-off", "encode-result", false, op, "Encode without validation differs on an API with validators: %s %s vs %s %s", tout, clip(hexs(tb), 200), out, clip(hexs(b), 200))
		}
	} else {
		// accepting validators
		tb, tout := tw.encode(v, true, false)
		calls := tw.calls
		x.R.CountN("validators:calls", len(calls))
		x.R.CountN("validators:calls-encode", len(calls))
		if ex.nilDeref {
			x.R.Count("validators:nil-deref")
			if tout == "panic" && out != "panic" {
				// (defect of the unchanged tree until the fix in callSyntacticValidator: value.Elem() of a nil pointer is
				// the zero Value, handing it to the validator panicked with "reflect: Call using zero Value argument")
				x.R.Count("validators:nil-deref-panic")
				x.twinFail("validator-accepting", "encode-panic-nil-pointer", true, op, "validated Encode of a value holding a nil pointer whose element type has a registered validator panics (the API without validators answers %s)", out)
			}
		}
		// a nil pointer whose element type has a validator makes the lookup panic where the plain API reports an
		// error (and a map holding two failing entries fails with whichever comes first): both count as a failure
		same := tout == out || (out != "ok" && tout != "ok" && (ex.nilDeref || out == "panic"))
		if !same || (out == "ok" && !bytes.Equal(tb, b)) {
			x.twinFail("validator-accepting", "encode-result", true, op, "validated Encode with accepting validators differs from the API without validators: %s %s vs %s %s", tout, clip(hexs(tb), 200), out, clip(hexs(b), 200))
		}
		if tw.badCtx > 0 {
			tw.badCtx = 0
			x.twinFail("validator-called", "context", true, op, "a validator was not given the context of the Encode call")
		}
		if out == "ok" && tout == "ok" {
			x.R.Count("validators:enc-exact")
			for _, c := range ex.calls {
				x.R.Count("validators:enc-pos:" + c.where)
			}
			if d := bagDiff(callBag(calls, false, false), callBag(ex.calls, false, false), false); d != "" {
				x.twinFail("validator-called", "encode-count", true, op, "validated Encode: %s", d)
			}
		} else if d := bagDiff(callBag(calls, false, false), callBag(ex.calls, false, false), true); d != "" {
			x.twinFail("validator-called", "encode-extra", true, op, "failing validated Encode: %s", d)
		}
		// rejecting validators
		if ex.rejected > 0 || x.twN%4 == 0 || x.R.Replay != "" {
			rb, rout := tw.encode(v, true, true)
			wantFail := out != "ok" || ex.rejected > 0
			switch {
			case wantFail && rout == "ok":
				x.twinFail("validator-rejecting", "encode-not-rejected", true, op, "validated Encode succeeded although a validator refuses %d of the values it is called on (%d calls made)", ex.rejected, len(tw.calls))
			case !wantFail && rout != "ok":
				x.twinFail("validator-rejecting", "encode-spurious-reject", true, op, "validated Encode = %s although no validator refuses any value inside (plain API: ok)", rout)
			case !wantFail && !bytes.Equal(rb, b):
				x.twinFail("validator-rejecting", "encode-result", true, op, "validated Encode differs: %s vs %s", clip(hexs(rb), 200), clip(hexs(b), 200))
			}
			if !earlyStop(tw.calls) {
				x.twinFail("validator-rejecting", "encode-continued", true, op, "validated Encode went on calling validators after one of them returned an error (%d calls)", len(tw.calls))
			}
			if out == "ok" && ex.rejected > 0 {
				x.R.Count("validators:rejected-encode")
				if !anyRejected(tw.calls) && rout != "ok" {
					x.twinFail("validator-rejecting", "encode-reject-unseen", true, op, "validated Encode failed but no validator call returned the error")
				}
			}
			// the unvalidated call is unaffected by rejecting validators
			if x.twN%8 == 0 || x.R.Replay != "" {
				ub, uout := tw.encode(v, false, true)
				pb, pout := []byte(nil), ""
				var perr error
				if p := hx.Safely(func() { pb, perr = x.Env.API.Encode(ctxBg, v.Interface(), x.Env.Opts(false)...) }); p != "" {
					pout = "panic"
				} else if perr != nil {
					pout = "err"
				} else {
					pout = "ok"
				}
				if len(tw.calls) > 0 || uout != pout || !bytes.Equal(ub, pb) {
					x.twinFail("validator-off", "encode-rejecting", false, "enc n "+ValText(s, v, TextOpts{}), "Encode without validation is affected by rejecting validators: %s vs %s, %d calls", uout, pout, len(tw.calls))
				}
			}
			tw.rejecting = false
		}
	}
	if out != "ok" {
		return
	}
	// bytes produced by the plain API (either mode), decoded with validation
	dop := "dec v " + hexs(b)
	x.pickTwin(dop) // the twin a `dec v` line of these bytes runs on, so that the op alone replays the finding
	x.twinDecode(b, dop, s, v, true)
	x.twLastDec = string(b)
}

// twinDecLine runs after the plain API executed a `dec` line.
func (x *Runner) twinDecLine(b []byte, validation bool, d reflect.Value, n int, out string) {
	if len(x.tws) == 0 || len(b) > 1<<16 {
		return
	}
	op := "dec " + flagName(validation) + " " + hexs(b)
	tw := x.pickTwin(op)
	if !validation {
		x.R.Count("validators:off-checks")
		td, tn, tout := tw.decode(b, false, false)
		if len(tw.calls) > 0 {
			x.twinFail("validator-off", "decode-called", false, op, "Decode without WithValidation called %d validators (first: %s)", len(tw.calls), clip(tw.calls[0].t.String(), 100))
		}
		if tout != out || (out == "ok" && (tn != n || vtext(td, false) != vtext(d, false))) {
			x.twinFail("validator-off", "decode-result", false, op, "Decode without validation differs on an API with validators: %s n=%d vs %s n=%d", tout, tn, out, n)
		}

		return
	}
	if string(b) == x.twLastDec {
		return // analysed together with the `enc` line that produced these bytes
	}
	x.twinDecode(b, op, x.Env.Schema, reflect.Value{}, false)
}

// twinDecode: validated Decode of b on the plain API and on the twin (accepting, then rejecting validators).
// input, when valid, is the value whose (plain) encoding b is.
func (x *Runner) twinDecode(b []byte, op string, s *Schema, input reflect.Value, fromEnc bool) {
	tw := x.tw
	x.R.Count("validators:dec-checks")
	// plain API
	dst := reflect.New(x.Env.Top)
	var pn int
	var perr error
	pin := append([]byte(nil), b...)
	pout := "ok"
	if p := hx.Safely(func() { pn, perr = x.Env.API.Decode(ctxBg, pin, dst.Interface(), x.Env.Opts(true)...) }); p != "" {
		pout = "panic"
	} else if perr != nil {
		pout = "err"
	}
	pd := dst.Elem()
	// twin, accepting validators
	td, tn, tout := tw.decode(b, true, false)
	calls := tw.calls
	x.R.CountN("validators:calls", len(calls))
	x.R.CountN("validators:calls-decode", len(calls))
	if tout != pout || (pout == "ok" && (tn != pn || vtext(td, false) != vtext(pd, false))) {
		x.twinFail("validator-accepting", "decode-result", true, op, "validated Decode with accepting validators differs from the API without validators: %s n=%d vs %s n=%d", tout, tn, pout, pn)
	}
	if tw.badCtx > 0 {
		tw.badCtx = 0
		x.twinFail("validator-called", "context", true, op, "a validator was not given the context of the Decode call")
	}
	var ex *expect
	if pout == "ok" {
		ex = tw.expectDec(s, pd)
		if ex.tooBig {
			x.R.Count("validators:skipped-large")

			return
		}
		if tout == "ok" {
			x.R.Count("validators:dec-exact")
			for _, c := range ex.calls {
				if c.top {
					x.R.Count("validators:dec-pos:" + c.where)
				}
			}
			if d := bagDiff(callBag(calls, false, false), callBag(ex.calls, false, false), false); d != "" {
				x.twinFail("validator-called", "decode-count", true, op, "validated Decode: %s", d)
			}
			if input.IsValid() && vtext(input, true) == vtext(pd, true) {
				// Decode of the produced bytes sees what a traversal of the encoded value sees, up to canonicalisation
				exIn := tw.expectDec(s, input)
				x.R.Count("validators:enc-dec-compared")
				if d := bagDiff(callBag(calls, true, false), callBag(exIn.calls, true, false), false); d != "" {
					x.twinFail("validator-called", "decode-vs-encoded-value", true, op, "validated Decode of Encode's bytes: %s (canonical texts of the encoded value)", d)
				}
			} else if input.IsValid() {
				x.R.Count("validators:enc-dec-value-differs")
			}
		}
	}
	// rejecting validators
	rejected := ex != nil && ex.rejected > 0
	if !rejected && x.twN%4 != 1 && x.R.Replay == "" {
		return
	}
	_, _, rout := tw.decode(b, true, true)
	wantFail := pout != "ok" || rejected
	switch {
	case wantFail && rout == "ok":
		nrej := 0
		if ex != nil {
			nrej = ex.rejected
		}
		x.twinFail("validator-rejecting", "decode-not-rejected", true, op, "validated Decode succeeded although a validator refuses %d of the decoded values (%d calls made; plain API: %s)", nrej, len(tw.calls), pout)
	case !wantFail && rout != "ok":
		x.twinFail("validator-rejecting", "decode-spurious-reject", true, op, "validated Decode = %s although no validator refuses any decoded value (plain API: ok)", rout)
	}
	if !earlyStop(tw.calls) {
		x.twinFail("validator-rejecting", "decode-continued", true, op, "validated Decode went on calling validators after one of them returned an error (%d calls)", len(tw.calls))
	}
	if pout == "ok" && rejected {
		x.R.Count("validators:rejected-decode")
		if fromEnc {
			x.R.Count("validators:rejected-decode-of-encoding")
		}
	}
	if x.twN%8 == 1 || x.R.Replay != "" {
		// the unvalidated Decode is unaffected by rejecting validators
		ud, un, uout := tw.decode(b, false, true)
		dst2 := reflect.New(x.Env.Top)
		var n2 int
		var err2 error
		in2 := append([]byte(nil), b...)
		out2 := "ok"
		if p := hx.Safely(func() { n2, err2 = x.Env.API.Decode(ctxBg, in2, dst2.Interface(), x.Env.Opts(false)...) }); p != "" {
			out2 = "panic"
		} else if err2 != nil {
			out2 = "err"
		}
		if len(tw.calls) > 0 || uout != out2 || (out2 == "ok" && (un != n2 || vtext(ud, false) != vtext(dst2.Elem(), false))) {
			x.twinFail("validator-off", "decode-rejecting", false, "dec n "+hexs(b), "Decode without validation is affected by rejecting validators: %s n=%d vs %s n=%d, %d calls", uout, un, out2, n2, len(tw.calls))
		}
	}
}

// ---- RegisterValidator: fixed corpus of error paths ----

type regCase struct {
	name string
	obj  any
	fn   any
}

// ValidatorRegistrationCorpus: a wrong signature is refused and registers nothing; a nil function registers an
// entry without a validator; a second registration for a type is refused and leaves the first one in place.
func (x *Runner) ValidatorRegistrationCorpus() {
	if p := hx.Safely(x.validatorRegistrationCorpus); p != "" {
		x.R.Fail("validator-register", "the fixed RegisterValidator corpus panicked: "+clip(p, 400), map[string]string{"oracle": "validator-register", "trigger": "corpus-panic"})
	}
}

func (x *Runner) validatorRegistrationCorpus() {
	fail := func(trigger, format string, args ...any) {
		x.R.Fail("validator-register", fmt.Sprintf(format, args...), map[string]string{"oracle": "validator-register", "trigger": trigger})
	}
	bad := []regCase{
		{"nil-object", nil, func(context.Context, CInner) error { return nil }},
		{"not-a-function", CInner{}, 5},
		{"string", CInner{}, "validator"},
		{"one-argument", CInner{}, func(CInner) error { return nil }},
		{"three-arguments", CInner{}, func(context.Context, CInner, int) error { return nil }},
		{"no-arguments", CInner{}, func() error { return nil }},
		{"first-not-context", CInner{}, func(int, CInner) error { return nil }},
		{"arguments-swapped", CInner{}, func(CInner, context.Context) error { return nil }},
		{"no-result", CInner{}, func(context.Context, CInner) {}},
		{"two-results", CInner{}, func(context.Context, CInner) (bool, error) { return true, nil }},
		{"result-not-error", CInner{}, func(context.Context, CInner) bool { return true }},
		{"result-concrete-error", CInner{}, func(context.Context, CInner) *big.Int { return nil }},
		{"other-type", CInner{}, func(context.Context, CInnerCoded) error { return nil }},
		{"pointer-for-value", CInner{}, func(context.Context, *CInner) error { return nil }},
		{"value-for-pointer", &CInner{}, func(context.Context, CInner) error { return nil }},
		{"underlying-type", CFlag(0), func(context.Context, uint8) error { return nil }},
		{"any-argument", CInner{}, func(context.Context, any) error { return nil }},
	}
	val := CEmbVal{CInner: CInner{A: 1, B: 2}, Z: 3}
	top := COptional{Z: 1, NP: &CInnerCoded{X: 7}, Q: &CInner{A: 4, B: 5}}
	for _, c := range bad {
		x.R.Count("validators:register-corpus")
		api := baseAPI()
		var err error
		p := hx.Safely(func() { err = api.RegisterValidator(c.obj, c.fn) })
		if p != "" {
			fail("panic", "RegisterValidator panicked on a malformed validator (%s): %s", c.name, p)

			continue
		}
		if err == nil {
			fail("accepted-malformed", "RegisterValidator accepted a malformed validator (%s)", c.name)

			continue
		}
		if c.obj == nil {
			continue
		}
		// nothing was registered: a well-formed validator for the same type is accepted and called
		calls := 0
		var err2 error
		if reflect.TypeOf(c.obj) == reflect.TypeOf(CInner{}) {
			err2 = api.RegisterValidator(CInner{}, func(context.Context, CInner) error { calls++; return nil })
		} else if reflect.TypeOf(c.obj) == reflect.TypeOf(&CInner{}) {
			err2 = api.RegisterValidator(&CInner{}, func(context.Context, *CInner) error { calls++; return nil })
		} else {
			continue
		}
		if err2 != nil {
			fail("refused-left-entry", "a refused RegisterValidator (%s) left an entry behind: the well-formed registration failed: %v", c.name, err2)

			continue
		}
		if _, err := api.Encode(ctxBg, top, serix.WithValidation()); err != nil || calls != 1 {
			fail("refused-then-not-called", "after a refused RegisterValidator (%s) the well-formed validator was called %d times, want 1 (err=%v)", c.name, calls, err)
		}
	}
	// nil function values: accepted, the entry has no validator; the type counts as registered
	for _, c := range []regCase{{"untyped-nil", CInner{}, nil}, {"typed-nil-func", CInner{}, (func(context.Context, CInner) error)(nil)}} {
		x.R.Count("validators:register-corpus")
		api := baseAPI()
		if err := api.RegisterValidator(c.obj, c.fn); err != nil {
			fail("nil-fn-refused", "RegisterValidator refused a nil validator function (%s): %v", c.name, err)

			continue
		}
		if err := api.RegisterValidator(CInner{}, func(context.Context, CInner) error { return nil }); err == nil {
			fail("nil-fn-overwritten", "a second RegisterValidator for a type registered with a nil function (%s) was accepted", c.name)
		}
		b1, err1 := api.Encode(ctxBg, top, serix.WithValidation())
		b2, err2 := baseAPI().Encode(ctxBg, top, serix.WithValidation())
		if err1 != nil || err2 != nil || !bytes.Equal(b1, b2) {
			fail("nil-fn-encode", "validated Encode with a nil validator registered (%s): %x %v vs %x %v", c.name, b1, err1, b2, err2)
		}
	}
	// duplicates: refused, the first validator stays in place; pointer and value registrations are independent
	{
		x.R.Count("validators:register-corpus")
		api := baseAPI()
		var first, second, ptr int
		e1 := api.RegisterValidator(CInner{}, func(context.Context, CInner) error { first++; return nil })
		e2 := api.RegisterValidator(CInner{}, func(context.Context, CInner) error { second++; return errRejected })
		e3 := api.RegisterValidator(&CInner{}, func(context.Context, *CInner) error { ptr++; return nil })
		e4 := api.RegisterValidator((*CInner)(nil), func(context.Context, *CInner) error { return errRejected })
		if e1 != nil || e2 == nil || e3 != nil || e4 == nil {
			fail("duplicate", "duplicate registrations: first=%v second=%v pointer=%v second pointer=%v (want nil, error, nil, error)", e1, e2, e3, e4)
		} else {
			// COptional.Q is a *CInner (the pointer validator), CEmbVal flattens its CInner (no call), CPtrArrays … not needed
			_, err := api.Encode(ctxBg, top, serix.WithValidation())
			_, errV := api.Encode(ctxBg, struct {
				V CInner `serix:""`
			}{V: CInner{A: 1}}, serix.WithValidation())
			_, errE := api.Encode(ctxBg, val, serix.WithValidation())
			if err != nil || errV != nil || errE != nil || first != 1 || second != 0 || ptr != 1 {
				fail("duplicate-calls", "after a refused duplicate: calls first=%d second=%d pointer=%d (want 1 0 1), errors %v %v %v", first, second, ptr, err, errV, errE)
			}
		}
	}
	// a rejecting validator makes validated Encode and Decode fail and leaves the unvalidated ones alone
	{
		x.R.Count("validators:register-corpus")
		api := baseAPI()
		must(api.RegisterValidator(CInnerCoded{}, func(_ context.Context, c CInnerCoded) error {
			if c.X == 7 {
				return errRejected
			}

			return nil
		}))
		b, err := api.Encode(ctxBg, top)
		_, errV := api.Encode(ctxBg, top, serix.WithValidation())
		if err != nil || errV == nil || !errors.Is(errV, errRejected) {
			fail("reject-fixed-encode", "fixed rejecting validator: Encode without validation err=%v, with validation err=%v (want nil, an error wrapping the validator's)", err, errV)
		}
		var d1, d2 COptional
		_, errD := api.Decode(ctxBg, b, &d1)
		_, errDV := api.Decode(ctxBg, b, &d2, serix.WithValidation())
		if errD != nil || errDV == nil || !errors.Is(errDV, errRejected) {
			fail("reject-fixed-decode", "fixed rejecting validator: Decode without validation err=%v, with validation err=%v (want nil, an error wrapping the validator's)", errD, errDV)
		}
	}
}
