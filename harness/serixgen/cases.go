package serixgen

import (
	"fmt"
	"hash/fnv"
	"reflect"
	"strings"

	"verifharness/hx"
)

// Plan says what a generated case consists of.
type Plan struct {
	Values    int  // values per universe
	Mutations int  // mutated inputs per successful encoding
	RoundTrip bool // emit `dec` of every successful encoding and `canon` lines
	Big       bool // allow boundary-length byte payloads
	BothModes bool // encode every value with and without validation (else one mode at random)
	// ThoroughScale, when > 0, replaces the thorough tier's factor 20 for the number of random universes (the catalogue
	// rounds keep the full factor): C01 runs four harness/driver pairs inside one 20-minute budget
	ThoroughScale int
}

func (x *Runner) line(op string) string {
	if strings.HasPrefix(op, "def ") && x.Env != nil && x.Env.Err == nil {
		// the schema is always the one derived from the current universe (corpus lines say `def -`)
		op = "def " + x.Env.Schema.SExp()
	}
	ans := x.Exec(op)
	x.R.Line(op, ans)
	f := strings.SplitN(op, " ", 2)[0]
	a := strings.SplitN(ans, " ", 2)[0]
	x.R.Count("op:" + f)
	x.R.Count(f + ":" + a)

	return ans
}

func nontrivial(s *Schema, v reflect.Value) bool {
	nt := false
	var walk func(s *Schema, v reflect.Value, depth int)
	walk = func(s *Schema, v reflect.Value, depth int) {
		switch s.K {
		case KStr, KBytes:
			if v.Len() > 0 {
				nt = true
			}
		case KSlice, KArray, KMap:
			if v.Len() > 0 {
				nt = true
			}
		case KStruct:
			if depth > 0 {
				nt = true
			}
			for _, f := range s.Fields {
				walk(f.T, v.Field(f.Index), depth+1)
			}
		case KPtr:
			if !v.IsNil() {
				walk(s.Elem, v.Elem(), depth)
			}
		case KIface:
			if !v.IsNil() {
				nt = true
			}
		}
	}
	walk(s, v, 0)

	return nt
}

func (x *Runner) countSchema(s *Schema) {
	seen := map[string]bool{}
	once := func(k string) {
		if !seen[k] {
			seen[k] = true
			x.R.Count(k)
		}
	}
	depth := 0
	var walk func(n *Schema, d int)
	walk = func(n *Schema, d int) {
		if d > depth {
			depth = d
		}
		once("kind:" + n.K.String())
		switch n.K {
		case KStr, KBytes:
			once("lp:" + n.LP)
			if n.Min > 0 || n.Max > 0 {
				once("bounds:payload")
			}
		case KSlice, KArray, KMap:
			once("lp:" + n.LP)
			r := n.Rules
			if r.Min > 0 || r.Max > 0 {
				once("rule:bounds")
			}
			if r.NoDups {
				once("rule:nodups")
			}
			if r.Lex {
				once("rule:lex")
			}
			if r.One8 {
				once("rule:one-of-each-byte")
			}
			if r.One32 {
				once("rule:one-of-each-uint32")
			}
			if r.AutoSort {
				once("rule:autosort")
			}
			if len(r.Must) > 0 {
				once("rule:mustoccur")
			}
			if n.K == KMap {
				walk(n.Key, d+1)
			}
			walk(n.Elem, d+1)
		case KStruct:
			if n.Code != nil {
				once("code:" + n.Code.Den)
			}
			for _, f := range n.Fields {
				once("field:" + string(f.Kind))
				walk(f.T, d+1)
			}
		case KByteArr:
			if n.Code != nil {
				once("code:" + n.Code.Den)
			}
		case KPtr:
			walk(n.Elem, d+1)
		case KIface:
			once("iface-den:" + n.Den)
			for _, a := range n.Alts {
				walk(a.T, d+1)
			}
		}
	}
	walk(s, 0)
	x.R.Count(fmt.Sprintf("depth:%d", depth))
}

// GenCase runs one generated case: select the universe, define the schema, encode values, decode the
// encodings and mutated inputs.  typeLine is `type gen SEED DEPTH` or `type cat NAME`.
func (x *Runner) GenCase(rng *hx.Rng, sub uint64, typeLine string, p Plan) {
	x.R.Case(sub)
	if x.line(typeLine) != "ok" {
		return
	}
	env := x.Env
	if env.Err != nil {
		x.R.Count("schema:underivable")

		return
	}
	s := env.Schema
	defAns := x.line("def " + s.SExp())
	x.R.Count("schema:" + strings.TrimPrefix(defAns, "ok "))
	x.countSchema(s)
	vg := &VGen{Rng: rng, API: env.API, Big: p.Big}
	safeOnly := s.HostileLoop()
	var encs [][]byte
	seenEnc := map[string]bool{}
	for i := 0; i < p.Values; i++ {
		v := vg.Gen(s)
		salt := rng.U64()
		text := ValText(s, v, TextOpts{Perm: func(items []string) []int { return contentPerm(salt, items) }})
		modes := []bool{rng.Bool()}
		if p.BothModes {
			modes = []bool{false, true}
		}
		for _, val := range modes {
			ans := x.line("enc " + flagName(val) + " " + text)
			if !strings.HasPrefix(ans, "ok ") {
				continue
			}
			if nontrivial(s, v) {
				x.R.Nontrivial(CaseKey(s.SExp(), text, flagName(val)))
			}
			b, _ := unhx(ans[3:])
			x.R.Count(sizeBucket(len(b)))
			if p.RoundTrip {
				x.line("dec " + flagName(val) + " " + hexs(b))
				if s.WF() {
					// `canon` is what C01_decode_encode promises for well-formed schemas
					x.line("canon " + flagName(val) + " " + text)
				}
			}
			if !p.RoundTrip && val && len(b) <= 70000 {
				// the unmutated encoding itself: an input whose stamps are known to lie in the range when the value's do
				x.line("dec v " + hexs(b))
			}
			if !seenEnc[string(b)] {
				seenEnc[string(b)] = true
				encs = append(encs, b)
			}
		}
	}
	for i, b := range encs {
		if len(b) > 4096 {
			continue
		}
		other := encs[(i+1)%len(encs)]
		for _, m := range Mutate(rng, b, other, p.Mutations, safeOnly) {
			fl := "v"
			if rng.Chance(1, 5) {
				fl = "n"
			}
			x.line("dec " + fl + " " + hexs(m))
		}
	}
	x.R.Sample(x.R.CaseLines())
}

// contentPerm: a permutation that depends only on the salt and the (sorted) entries.
func contentPerm(salt uint64, items []string) []int {
	h := fnv.New64a()
	for _, it := range items {
		h.Write([]byte(it))
		h.Write([]byte{0})
	}
	rng := hx.NewRng(salt ^ h.Sum64())
	n := len(items)
	p := make([]int, n)
	for i := range p {
		p[i] = i
	}
	for i := n - 1; i > 0; i-- {
		j := rng.Intn(i + 1)
		p[i], p[j] = p[j], p[i]
	}

	return p
}

func sizeBucket(n int) string {
	switch {
	case n == 0:
		return "size:0"
	case n < 16:
		return "size:1-15"
	case n < 256:
		return "size:16-255"
	case n < 65536:
		return "size:256-65535"
	default:
		return "size:65536+"
	}
}

// Replay executes the given op lines as one case.
func (x *Runner) Replay(lines []string) {
	x.R.Case(0)
	for _, l := range lines {
		x.line(l)
	}
	x.R.Sample(x.R.CaseLines())
}

// Main is the body shared by the serix harness binaries.
func Main(prop string, rule string, plan Plan, casesQuick int, corpus [][]string) {
	r := hx.Start()
	r.Rule = rule
	r.MaxSamples = 2
	x := &Runner{R: r, Prop: prop}
	finish0 := func() {
		if prop == "C03" {
			x.LayoutOracle("../lean/.lake/build/bin/drv_c03")
		}
		r.Finish()
	}
	finish := func() {
		// the fixed RegisterValidator corpus runs last (its findings have no op lines; those of the cases come first)
		if prop == "C01" && twinEnabled && twinMode != "settings" {
			x.ValidatorRegistrationCorpus()
		}
		finish0()
	}
	if lines := r.ReplayLines(); lines != nil {
		x.Replay(lines)
		finish()

		return
	}
	for _, c := range corpus {
		x.Replay(c)
	}
	// the catalogue first, several value sets each
	for round := 0; round < 3*r.Scale; round++ {
		for _, name := range CatalogueNames() {
			rng, sub := r.Rng.Fork()
			p := plan
			p.Big = true
			x.GenCase(rng, sub, "type cat "+name, p)
		}
	}
	// SerializableOrderedMap instantiations built by Set/Delete/Clear histories
	for round := 0; round < 40*r.Scale; round++ {
		for _, name := range SomNames() {
			rng, sub := r.Rng.Fork()
			x.GenSomCase(rng, sub, name)
		}
	}
	scale := r.Scale
	if r.Scale > 1 && plan.ThoroughScale > 0 {
		scale = plan.ThoroughScale
	}
	n := casesQuick * scale
	for i := 0; i < n; i++ {
		rng, sub := r.Rng.Fork()
		tseed := rng.U64()
		depth := 1 + rng.Intn(4)
		p := plan
		p.Big = rng.Chance(1, 10)
		x.GenCase(rng, sub, fmt.Sprintf("type gen %d %d", tseed, depth), p)
	}
	finish()
}
