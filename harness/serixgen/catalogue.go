package serixgen

import (
	"math/big"
	"reflect"
	"time"

	"github.com/iotaledger/hive.go/serializer/v2"
	"github.com/iotaledger/hive.go/serializer/v2/serix"
)

// Hand written types covering every serix feature at least once (named types, embedded structs,
// registered rules that struct tags cannot express, the fixture shapes of the repository's tests).

type (
	CStr16  string
	CStr32  string
	CID     [4]byte
	CHash   [32]byte
	CBytes  []byte
	CU16s   []uint16
	CSorted []CStr16
	CMapKV  map[CStr16]CStr32

	CScalars struct {
		B   bool    `serix:""`
		U8  uint8   `serix:""`
		U16 uint16  `serix:""`
		U32 uint32  `serix:""`
		U64 uint64  `serix:""`
		I8  int8    `serix:""`
		I16 int16   `serix:""`
		I32 int32   `serix:""`
		I64 int64   `serix:""`
		F32 float32 `serix:""`
		F64 float64 `serix:""`
	}

	CStrings struct {
		S8   string `serix:",lenPrefix=uint8"`
		S16  string `serix:",lenPrefix=uint16,minLen=1"`
		S32  string `serix:",lenPrefix=uint32,maxLen=300"`
		B8   []byte `serix:",lenPrefix=uint8,minLen=2,maxLen=5"`
		B16  []byte `serix:",lenPrefix=uint16"`
		B32  CBytes `serix:",lenPrefix=uint32"`
		Name CStr16 `serix:""`
	}

	CSpecial struct {
		T  time.Time `serix:""`
		N  *big.Int  `serix:""`
		ID CID       `serix:""`
		H  CHash     `serix:""`
		On *big.Int  `serix:",optional"`
	}

	CInner struct {
		A uint8  `serix:""`
		B uint16 `serix:""`
	}
	CInnerCoded struct {
		X uint32 `serix:""`
	}
	CEmbVal struct {
		CInner `serix:""`
		Z      uint8 `serix:""`
	}
	CEmbPtr struct {
		*CInner `serix:""`
		Z       uint8 `serix:""`
	}
	CEmbInlined struct {
		CInnerCoded `serix:",inlined"`
		Z           uint8 `serix:""`
	}
	CEmbNested struct {
		CEmbVal `serix:""`
		Y       int16 `serix:""`
	}

	COptional struct {
		P  *CInnerCoded `serix:",optional"`
		Q  *CInner      `serix:",optional"`
		E  *struct{}    `serix:",optional"`
		I  CShape       `serix:",optional"`
		Z  uint8        `serix:""`
		NP *CInnerCoded `serix:""`
	}

	CShape  interface{}
	CSquare struct {
		Size uint8 `serix:""`
	}
	CRect     struct{ W, H uint8 }
	CTriangle struct {
		Size uint16 `serix:""`
		Tags []byte `serix:",lenPrefix=uint8"`
	}
	CShapes    []CShape
	CContainer struct {
		Shapes CShapes `serix:""`
	}
	CShapeOpt struct {
		Inner *CContainer `serix:",optional"`
	}

	// must-occur rule sets without an at-most-one-of-each-type mode (repeated and missing types)
	CShapesMust2 []CShape
	CShapesMust3 []CShape
	CWidesMust   []CWide

	CWide  interface{}
	CWideA struct {
		V uint64 `serix:""`
	}
	CWideB struct {
		V CShape `serix:""`
	}
	CWides struct {
		L []CWide `serix:",lenPrefix=uint16"`
	}

	CArrays struct {
		A3  [3]uint16   `serix:",lenPrefix=uint8"`
		A0  [0]uint32   `serix:",lenPrefix=uint16"`
		AS  [2]CInner   `serix:",lenPrefix=uint32"`
		AP  *[2]uint16  `serix:",lenPrefix=uint8"`
		AB  *CID        `serix:""`
		AA  [2][2]uint8 `serix:",lenPrefix=uint8"`
		ABm [2][3]byte  `serix:",lenPrefix=uint8"`
	}

	CMaps struct {
		M1 map[uint8]uint16        `serix:",lenPrefix=uint8"`
		M2 CMapKV                  `serix:",lenPrefix=uint8,minLen=1,maxLen=4"`
		M3 map[CID]*CInnerCoded    `serix:",lenPrefix=uint16"`
		M4 map[int16]CShape        `serix:",lenPrefix=uint32"`
		M5 map[CInner][]uint16     `serix:",lenPrefix=uint8"`
		M6 map[bool]map[uint8]bool `serix:",lenPrefix=uint8"`
	}

	CSlices struct {
		Sorted CSorted     `serix:""`
		U16s   CU16s       `serix:""`
		Nested [][]uint16  `serix:",lenPrefix=uint8"`
		Ptrs   []*CInner   `serix:",lenPrefix=uint8,maxLen=3"`
		Times  []time.Time `serix:",lenPrefix=uint8"`
	}

	CBad struct {
		S string `serix:",lenPrefix=uint64"`
	}
	CNoPrefix struct {
		S []uint16 `serix:""`
	}
	CPtrScalar struct {
		P *uint16 `serix:",optional"`
	}
	CPtrArrays struct {
		P [1]*CInner                `serix:",lenPrefix=uint8"`
		M map[uint8][1]*CInnerCoded `serix:",lenPrefix=uint8"`
		I [2]CShape                 `serix:",lenPrefix=uint16"`
	}
	CFlag   uint8
	CSmall  int8
	CFlags4 [4]CFlag
	CFlagsS []CFlag
	CNarrow struct {
		A8   [4]CFlag           `serix:",lenPrefix=uint8"`
		A16  [3]CFlag           `serix:",lenPrefix=uint16"`
		A32  [2]CSmall          `serix:",lenPrefix=uint32"`
		AB   [2]bool            `serix:",lenPrefix=uint8"`
		S8   []CFlag            `serix:",lenPrefix=uint8,maxLen=5"`
		S16  []CSmall           `serix:",lenPrefix=uint16"`
		S32  []NBool            `serix:",lenPrefix=uint32"`
		Raw  [4]byte            `serix:""`
		RawS []uint8            `serix:",lenPrefix=uint8"`
		Cod  CFlags4            `serix:""`
		CodS CFlagsS            `serix:""`
		Ptr  *[2]CFlag          `serix:",lenPrefix=uint8"`
		M    map[CFlag][2]CFlag `serix:",lenPrefix=uint8"`
	}
	CCustoms struct {
		F  CuFresh            `serix:""`
		S  CuSelf             `serix:""`
		T  CuTab              `serix:""`
		PS *CuSelf            `serix:""`
		OS *CuSelfC           `serix:",optional"`
		L  []CuSelf           `serix:",lenPrefix=uint8"`
		LT []CuTab            `serix:",lenPrefix=uint16"`
		A  [2]CuTabC          `serix:",lenPrefix=uint8"`
		M1 map[CuTab]CuSelf   `serix:",lenPrefix=uint8"`
		M2 map[CuTabC]uint16  `serix:",lenPrefix=uint8"`
		M3 map[CuFresh]CuTab  `serix:",lenPrefix=uint8"`
		M4 map[uint8]CuFreshC `serix:",lenPrefix=uint32"`
		M5 map[CuTab][]byte   `serix:",lenPrefix=uint8"`
	}
	// struct tags competing with registered settings (a tag's prefix wins, a tag's bounds replace the
	// registered array rules as a whole — CSorted then is neither sorted nor checked for order)
	CPrioTags struct {
		A CSorted `serix:",lenPrefix=uint16"`
		B CSorted `serix:",maxLen=2"`
		C CU16s   `serix:",minLen=0"`
		D CU16s   `serix:",lenPrefix=uint8,maxLen=0"`
		E CStr16  `serix:",lenPrefix=uint8"`
		F CStr16  `serix:",maxLen=0"`
	}
	CEmpty      struct{}
	CEmptyDups  []CEmpty
	CTimeKeyMap map[time.Time]uint8
)

func must(err error) {
	if err != nil {
		panic(err)
	}
}

func lpTS(lp serix.LengthPrefixType) serix.TypeSettings {
	return serix.TypeSettings{}.WithLengthPrefixType(lp)
}

func baseAPI() *serix.API {
	api := serix.NewAPI()
	must(api.RegisterTypeSettings(CStr16(""), lpTS(serix.LengthPrefixTypeAsUint16).WithMinLen(1).WithMaxLen(8)))
	must(api.RegisterTypeSettings(CStr32(""), lpTS(serix.LengthPrefixTypeAsUint32)))
	must(api.RegisterTypeSettings(CInnerCoded{}, serix.TypeSettings{}.WithObjectType(uint8(9))))
	must(api.RegisterTypeSettings(CInner{}, serix.TypeSettings{}))
	must(api.RegisterTypeSettings(CU16s{}, lpTS(serix.LengthPrefixTypeAsUint16).WithArrayRules(&serix.ArrayRules{
		Min: 1, Max: 5, ValidationMode: serializer.ArrayValidationModeNoDuplicates})))
	must(api.RegisterTypeSettings(CSorted{}, lpTS(serix.LengthPrefixTypeAsByte).WithLexicalOrdering(true).WithArrayRules(&serix.ArrayRules{
		ValidationMode: serializer.ArrayValidationModeLexicalOrdering | serializer.ArrayValidationModeNoDuplicates})))
	must(api.RegisterTypeSettings([]uint16{}, lpTS(serix.LengthPrefixTypeAsByte)))

	must(api.RegisterTypeSettings(CSquare{}, serix.TypeSettings{}.WithObjectType(uint8(100))))
	must(api.RegisterTypeSettings(CRect{}, serix.TypeSettings{}.WithObjectType(uint8(101))))
	must(api.RegisterTypeSettings(CTriangle{}, serix.TypeSettings{}.WithObjectType(uint8(102))))
	must(api.RegisterTypeSettings(CID{}, serix.TypeSettings{}.WithObjectType(uint8(103))))
	must(api.RegisterTypeSettings(CContainer{}, serix.TypeSettings{}.WithObjectType(uint8(5))))
	must(api.RegisterTypeSettings(CShapes{}, lpTS(serix.LengthPrefixTypeAsByte).WithArrayRules(&serix.ArrayRules{
		Max:       6,
		MustOccur: serializer.TypePrefixes{100: struct{}{}, 101: struct{}{}},
		ValidationMode: serializer.ArrayValidationModeNoDuplicates | serializer.ArrayValidationModeLexicalOrdering |
			serializer.ArrayValidationModeAtMostOneOfEachTypeByte,
	})))
	must(api.RegisterInterfaceObjects((*CShape)(nil), (*CSquare)(nil), (*CRect)(nil), CTriangle{}, CID{}))

	must(api.RegisterTypeSettings(CWideA{}, serix.TypeSettings{}.WithObjectType(uint32(70000))))
	must(api.RegisterTypeSettings(CWideB{}, serix.TypeSettings{}.WithObjectType(uint32(7))))
	must(api.RegisterInterfaceObjects((*CWide)(nil), (*CWideA)(nil), CWideB{}))

	return api
}

// mustPrep: slices of interface elements with two / three must-occur types and no type-uniqueness mode.
func mustPrep(api *serix.API) {
	must(api.RegisterTypeSettings(CShapesMust2{}, lpTS(serix.LengthPrefixTypeAsByte).WithArrayRules(&serix.ArrayRules{
		MustOccur: serializer.TypePrefixes{100: struct{}{}, 101: struct{}{}}})))
	must(api.RegisterTypeSettings(CShapesMust3{}, lpTS(serix.LengthPrefixTypeAsUint16).WithArrayRules(&serix.ArrayRules{
		Min: 2, Max: 6, MustOccur: serializer.TypePrefixes{100: struct{}{}, 102: struct{}{}, 103: struct{}{}},
		ValidationMode: serializer.ArrayValidationModeNoDuplicates})))
	must(api.RegisterTypeSettings(CWidesMust{}, lpTS(serix.LengthPrefixTypeAsByte).WithArrayRules(&serix.ArrayRules{
		MustOccur: serializer.TypePrefixes{70000: struct{}{}, 7: struct{}{}}})))
}

// narrowPrep: sequence types of named one-byte elements registered with object codes and prefixes.
func narrowPrep(api *serix.API) {
	must(api.RegisterTypeSettings(CFlags4{}, lpTS(serix.LengthPrefixTypeAsUint16).WithObjectType(uint8(44))))
	must(api.RegisterTypeSettings(CFlagsS{}, lpTS(serix.LengthPrefixTypeAsByte).WithObjectType(uint32(45))))
	must(api.RegisterTypeSettings([2]CFlag{}, lpTS(serix.LengthPrefixTypeAsByte)))
}

// CCuPRs: a custom type with pointer-receiver Encode / Decode held by value and through a pointer.
type CCuPRs struct {
	F CuPR           `serix:""`
	P *CuPR          `serix:""`
	O *CuPR          `serix:",optional"`
	L []CuPR         `serix:",lenPrefix=uint8"`
	A [2]CuPR        `serix:",lenPrefix=uint8"`
	M map[uint8]CuPR `serix:",lenPrefix=uint8"`
}

// CCuNode: an interface whose registered alternatives are custom Serializable types (with a one-byte object code) next
// to an ordinary struct: `API.encode` takes the Serializable branch already at the interface-kinded value.
type CCuNode interface{}

type CCuPlain struct {
	A uint16 `serix:""`
}

type CCuNodes struct {
	N CCuNode           `serix:""`
	L []CCuNode         `serix:",lenPrefix=uint8"`
	O CCuNode           `serix:",optional"`
	M map[uint8]CCuNode `serix:",lenPrefix=uint8"`
}

// customIfacePrep: customPrep plus the interface over the coded custom types.
func customIfacePrep(api *serix.API) {
	customPrep(api)
	must(api.RegisterTypeSettings(CCuPlain{}, serix.TypeSettings{}.WithObjectType(uint8(64))))
	must(api.RegisterInterfaceObjects((*CCuNode)(nil), CuSelfC{}, CuTabC(0), CCuPlain{}, (*CuSelfC)(nil)))
}

// customPrep registers the coded twins of the custom Serializable types.
func customPrep(api *serix.API) {
	must(api.RegisterTypeSettings(CuTabC(0), serix.TypeSettings{}.WithObjectType(uint8(61))))
	must(api.RegisterTypeSettings(CuFreshC{}, serix.TypeSettings{}.WithObjectType(uint32(62))))
	must(api.RegisterTypeSettings(CuSelfC{}, serix.TypeSettings{}.WithObjectType(uint8(63))))
	must(api.RegisterTypeSettings([]byte{}, lpTS(serix.LengthPrefixTypeAsByte)))
}

type catEntry struct {
	name string
	top  any
	ts   *serix.TypeSettings
	prep func(api *serix.API)
}

func tsp(ts serix.TypeSettings) *serix.TypeSettings { return &ts }

var catalogue = []catEntry{
	{name: "scalars", top: CScalars{}},
	{name: "scalars-ptr", top: &CScalars{}},
	{name: "strings", top: CStrings{}},
	{name: "special", top: CSpecial{}},
	{name: "emb-val", top: CEmbVal{}},
	{name: "emb-ptr", top: CEmbPtr{}},
	{name: "emb-inlined", top: CEmbInlined{}},
	{name: "emb-nested", top: &CEmbNested{}},
	{name: "optional", top: COptional{}},
	{name: "container", top: CContainer{}},
	{name: "shape-opt", top: CShapeOpt{}},
	{name: "wides", top: CWides{}},
	{name: "arrays", top: CArrays{}},
	{name: "maps", top: CMaps{}},
	// settings priority: per-call option / struct tag over registered settings, explicit "off" values included
	{name: "prio-lex-off", top: CSorted{}, ts: tsp(serix.TypeSettings{}.WithLexicalOrdering(false))},
	{name: "prio-lex-on", top: CU16s{}, ts: tsp(serix.TypeSettings{}.WithLexicalOrdering(true))},
	{name: "prio-lex-on-rules", top: []uint16{}, ts: tsp(serix.TypeSettings{}.WithLexicalOrdering(true).WithArrayRules(&serix.ArrayRules{
		ValidationMode: serializer.ArrayValidationModeLexicalOrdering}))},
	{name: "prio-lp", top: CSorted{}, ts: tsp(lpTS(serix.LengthPrefixTypeAsUint32))},
	{name: "prio-rules-off", top: CU16s{}, ts: tsp(serix.TypeSettings{}.WithArrayRules(&serix.ArrayRules{}))},
	{name: "prio-min0", top: CU16s{}, ts: tsp(serix.TypeSettings{}.WithMinLen(0))},
	{name: "prio-sorted-rules-off", top: CSorted{}, ts: tsp(serix.TypeSettings{}.WithMaxLen(0))},
	{name: "prio-code", top: CInnerCoded{}, ts: tsp(serix.TypeSettings{}.WithObjectType(uint32(77)))},
	{name: "prio-code-ptr", top: &CInnerCoded{}, ts: tsp(serix.TypeSettings{}.WithObjectType(uint8(78)))},
	{name: "prio-str", top: CStr16(""), ts: tsp(lpTS(serix.LengthPrefixTypeAsByte).WithMinLen(0))},
	{name: "prio-tags", top: CPrioTags{}},
	{name: "customs", top: CCustoms{}, prep: customPrep},
	{name: "customs-ptr", top: &CCustoms{}, prep: customPrep},
	{name: "top-custom-map", top: map[CuTab]uint32{}, ts: tsp(lpTS(serix.LengthPrefixTypeAsByte))},
	{name: "top-custom-map2", top: map[CuTab]CuTab{}, ts: tsp(lpTS(serix.LengthPrefixTypeAsUint16))},
	{name: "custom-ptr-recv", top: CCuPRs{}},
	{name: "top-custom-ptr-recv", top: CuPR{}},
	{name: "top-custom-ptr-recv-slice", top: []CuPR{}, ts: tsp(lpTS(serix.LengthPrefixTypeAsByte))},
	{name: "iface-custom", top: CCuNodes{}, prep: customIfacePrep},
	{name: "top-iface-custom", top: []CCuNode{}, ts: tsp(lpTS(serix.LengthPrefixTypeAsByte)), prep: customIfacePrep},
	{name: "top-custom-self", top: CuSelf{}},
	{name: "top-custom-coded", top: CuSelfC{}, prep: customPrep},
	{name: "top-custom-slice", top: []CuFreshC{}, ts: tsp(lpTS(serix.LengthPrefixTypeAsByte)), prep: customPrep},
	{name: "narrow", top: CNarrow{}, prep: narrowPrep},
	{name: "top-flags4", top: CFlags4{}, prep: narrowPrep},
	{name: "top-flags-slice", top: CFlagsS{}, prep: narrowPrep},
	// element counts at the capacity of every prefix width (the value generator picks 254..257 / 65535..65537 elements)
	{name: "cap-flags-u8", top: []CFlag{}, ts: tsp(lpTS(serix.LengthPrefixTypeAsByte))},
	{name: "cap-flags-u16", top: []CFlag{}, ts: tsp(lpTS(serix.LengthPrefixTypeAsUint16))},
	{name: "cap-flags-u32", top: []CFlag{}, ts: tsp(lpTS(serix.LengthPrefixTypeAsUint32))},
	{name: "cap-bools-u8", top: []bool{}, ts: tsp(lpTS(serix.LengthPrefixTypeAsByte))},
	{name: "cap-int8s-u16", top: []int8{}, ts: tsp(lpTS(serix.LengthPrefixTypeAsUint16))},
	{name: "cap-map-u8", top: map[uint16]bool{}, ts: tsp(lpTS(serix.LengthPrefixTypeAsByte))},
	{name: "cap-map-u16", top: map[uint32]CFlag{}, ts: tsp(lpTS(serix.LengthPrefixTypeAsUint16))},
	{name: "must2", top: CShapesMust2{}, prep: mustPrep},
	{name: "must3", top: CShapesMust3{}, prep: mustPrep},
	{name: "must-wide", top: CWidesMust{}, prep: mustPrep},
	{name: "top-flag-arr", top: [4]CFlag{}, ts: tsp(lpTS(serix.LengthPrefixTypeAsByte))},
	{name: "top-flag-arr16", top: [3]CFlag{}, ts: tsp(lpTS(serix.LengthPrefixTypeAsUint16))},
	{name: "top-flag-arr32", top: [2]CSmall{}, ts: tsp(lpTS(serix.LengthPrefixTypeAsUint32))},
	{name: "ptr-arrays", top: CPtrArrays{}, prep: func(api *serix.API) {
		must(api.RegisterTypeSettings([1]*CInnerCoded{}, lpTS(serix.LengthPrefixTypeAsByte)))
	}},
	{name: "slices", top: CSlices{}},
	{name: "bad-lp64", top: CBad{}},
	{name: "no-prefix", top: CNoPrefix{}},
	{name: "ptr-scalar", top: CPtrScalar{}},
	{name: "top-u16s", top: CU16s{}},
	{name: "top-sorted", top: CSorted{}},
	{name: "top-shapes", top: CShapes{}},
	{name: "top-string", top: "", ts: tsp(lpTS(serix.LengthPrefixTypeAsUint16).WithMaxLen(70000))},
	{name: "top-bytes", top: []byte{}, ts: tsp(lpTS(serix.LengthPrefixTypeAsByte))},
	{name: "top-bytes16", top: []byte{}, ts: tsp(lpTS(serix.LengthPrefixTypeAsUint16))},
	{name: "top-bytes32", top: []byte{}, ts: tsp(lpTS(serix.LengthPrefixTypeAsUint32).WithMinLen(1))},
	{name: "top-u64", top: uint64(0)},
	{name: "top-bool", top: false},
	{name: "top-time", top: time.Time{}},
	{name: "top-bigint", top: (*big.Int)(nil)},
	{name: "top-arr", top: [3]uint16{}, ts: tsp(lpTS(serix.LengthPrefixTypeAsByte))},
	{name: "top-arr-bounds", top: [3]int32{}, ts: tsp(lpTS(serix.LengthPrefixTypeAsUint16).WithMinLen(4))},
	{name: "top-id", top: CID{}},
	{name: "top-hash-bounds", top: CHash{}, ts: tsp(serix.TypeSettings{}.WithMaxLen(16))},
	{name: "top-map", top: map[uint16][]byte{}, ts: tsp(lpTS(serix.LengthPrefixTypeAsUint16).WithMaxLen(5)),
		prep: func(api *serix.API) { must(api.RegisterTypeSettings([]byte{}, lpTS(serix.LengthPrefixTypeAsByte))) }},
	{name: "top-map-rules", top: map[uint8]uint8{}, prep: func(api *serix.API) {
		must(api.RegisterTypeSettings(map[uint8]uint8{}, lpTS(serix.LengthPrefixTypeAsByte).WithArrayRules(&serix.ArrayRules{
			Min: 1, ValidationMode: serializer.ArrayValidationModeNoDuplicates | serializer.ArrayValidationModeAtMostOneOfEachTypeByte})))
	}},
	{name: "empty-dups", top: CEmptyDups{}, prep: func(api *serix.API) {
		must(api.RegisterTypeSettings(CEmptyDups{}, lpTS(serix.LengthPrefixTypeAsByte).WithArrayRules(&serix.ArrayRules{
			ValidationMode: serializer.ArrayValidationModeLexicalOrdering | serializer.ArrayValidationModeNoDuplicates})))
	}},
	{name: "time-keys", top: CTimeKeyMap{}, ts: tsp(lpTS(serix.LengthPrefixTypeAsByte))},
	{name: "top-shape-map", top: map[CStr16]CShape{}, ts: tsp(lpTS(serix.LengthPrefixTypeAsByte))},
}

// CatalogueNames lists the catalogue entries.
func CatalogueNames() []string {
	out := make([]string, len(catalogue))
	for i, c := range catalogue {
		out[i] = c.name
	}

	return out
}

// CatalogueEnv builds the universe of a catalogue entry (nil if unknown).
func CatalogueEnv(name string) *Env {
	for _, c := range catalogue {
		if c.name != name {
			continue
		}
		api := baseAPI()
		if c.prep != nil {
			c.prep(api)
		}
		var t reflect.Type
		if c.top == nil {
			panic("nil top")
		}
		t = reflect.TypeOf(c.top)
		e := &Env{API: api, Top: t, TopTS: c.ts, Name: "cat:" + name}

		return e.Finish()
	}

	return nil
}
