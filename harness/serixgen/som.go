package serixgen

import (
	"bytes"
	"fmt"
	"reflect"
	"strings"

	"verifharness/hx"

	"github.com/iotaledger/hive.go/ds/serializableorderedmap"
	"github.com/iotaledger/hive.go/serializer/v2/serix"
)

// SerializableOrderedMap.Encode/Decode (named by C01's observe_at): a uint32 count followed by the
// key and value encodings (top-level api.Encode of each) in iteration order — on the wire the schema
// `slice u32 {} (struct none (p K) (p V))`.  The map under test is built by a *history* of Set / Delete /
// Clear calls (delete the tail, the head, a middle entry, everything; delete and set again), the value
// handed to the Lean encoder is the harness's own reference list of that history (a re-Set keeps the
// position, delete + Set appends), so a map whose iteration and Size() disagree shows as a difference.

type somBox interface {
	Set(k, v reflect.Value)
	Delete(k reflect.Value) bool
	Clear()
	Size() int
	Encode(api *serix.API) ([]byte, error)
	Decode(api *serix.API, b []byte) (int, error)
	Entries() [][2]reflect.Value
	Fresh() somBox
	Types() (reflect.Type, reflect.Type)
}

type somOf[K comparable, V any] struct {
	m *serializableorderedmap.SerializableOrderedMap[K, V]
}

func newSom[K comparable, V any]() somBox {
	return &somOf[K, V]{m: serializableorderedmap.New[K, V]()}
}

func (s *somOf[K, V]) Set(k, v reflect.Value)      { s.m.Set(k.Interface().(K), v.Interface().(V)) }
func (s *somOf[K, V]) Delete(k reflect.Value) bool { return s.m.Delete(k.Interface().(K)) }
func (s *somOf[K, V]) Clear()                      { s.m.Clear() }
func (s *somOf[K, V]) Size() int                   { return s.m.Size() }
func (s *somOf[K, V]) Fresh() somBox               { return newSom[K, V]() }
func (s *somOf[K, V]) Encode(api *serix.API) ([]byte, error) {
	return s.m.Encode(api)
}
func (s *somOf[K, V]) Decode(api *serix.API, b []byte) (int, error) { return s.m.Decode(api, b) }
func (s *somOf[K, V]) Types() (reflect.Type, reflect.Type) {
	var k K
	var v V

	return reflect.TypeOf(&k).Elem(), reflect.TypeOf(&v).Elem()
}
func (s *somOf[K, V]) Entries() [][2]reflect.Value {
	var out [][2]reflect.Value
	s.m.ForEach(func(k K, v V) bool {
		kv, vv := reflect.New(reflect.TypeOf(&k).Elem()).Elem(), reflect.New(reflect.TypeOf(&v).Elem()).Elem()
		kv.Set(reflect.ValueOf(&k).Elem())
		vv.Set(reflect.ValueOf(&v).Elem())
		out = append(out, [2]reflect.Value{kv, vv})

		return true
	})

	return out
}

var somKinds = map[string]func() somBox{
	"u16-u8":   newSom[uint16, uint8],
	"str-u32":  newSom[string, uint32],
	"id-ptr":   newSom[CID, *CInnerCoded],
	"u8-bytes": newSom[uint8, []byte],
	"tab-self": newSom[CuTab, CuSelf],
}

// SomNames lists the ordered-map instantiations.
func SomNames() []string { return []string{"u16-u8", "str-u32", "id-ptr", "u8-bytes", "tab-self"} }

// SomEnv builds the universe of an ordered-map instantiation.
func SomEnv(name string) *Env {
	mk := somKinds[name]
	if mk == nil {
		return nil
	}
	api := baseAPI()
	must(api.RegisterTypeSettings("", lpTS(serix.LengthPrefixTypeAsByte)))
	must(api.RegisterTypeSettings([]byte{}, lpTS(serix.LengthPrefixTypeAsUint16)))
	box := mk()
	kt, vt := box.Types()
	d := NewDeriver(api)
	ks, err := d.Derive(kt, serix.TypeSettings{})
	if err != nil {
		panic(err)
	}
	vs, err := d.Derive(vt, serix.TypeSettings{})
	if err != nil {
		panic(err)
	}
	e := &Env{API: api, Name: "som:" + name, SOM: box, KeyS: ks, ValS: vs}
	e.Schema = &Schema{K: KSlice, LP: "u32", Elem: &Schema{K: KStruct, Fields: []Field{{Kind: 'p', T: ks}, {Kind: 'p', T: vs}}}}

	return e
}

func (x *Runner) somEntriesText(es [][2]reflect.Value) string {
	items := make([]string, len(es))
	for i, e := range es {
		items[i] = "(l " + ValText(x.Env.KeyS, e[0], TextOpts{}) + " " + ValText(x.Env.ValS, e[1], TextOpts{}) + ")"
	}

	return "(l" + joinSp(items) + ")"
}

func (x *Runner) somRefText() string {
	items := make([]string, len(x.somRef))
	for i, e := range x.somRef {
		items[i] = "(l " + e[0] + " " + e[1] + ")"
	}

	return "(l" + joinSp(items) + ")"
}

// execSom executes `som set (kv K V)`, `som del K`, `som clear` on the map and on the reference list.
func (x *Runner) execSom(op string) string {
	f := strings.SplitN(op, " ", 3)
	if x.Env == nil || x.Env.SOM == nil || len(f) < 2 {
		return "bad-op"
	}
	switch f[1] {
	case "clear":
		x.Env.SOM.Clear()
		x.somRef = nil

		return "ok"
	case "set", "del":
		if len(f) < 3 {
			return "bad-op"
		}
		e, err := parseSexp(f[2])
		if err != nil {
			return "bad-op"
		}
		kt, vt := x.Env.SOM.Types()
		k := reflect.New(kt).Elem()
		if f[1] == "del" {
			if fillVal(x.Env.KeyS, e, k) != nil {
				return "bad-op"
			}
			x.Env.SOM.Delete(k)
			kx := ValText(x.Env.KeyS, k, TextOpts{})
			for i, r := range x.somRef {
				if r[0] == kx {
					x.somRef = append(x.somRef[:i:i], x.somRef[i+1:]...)

					break
				}
			}

			return "ok"
		}
		if !e.tagged("kv", 2) {
			return "bad-op"
		}
		v := reflect.New(vt).Elem()
		if fillVal(x.Env.KeyS, e.list[1], k) != nil || fillVal(x.Env.ValS, e.list[2], v) != nil {
			return "bad-op"
		}
		x.Env.SOM.Set(k, v)
		kx, vx := ValText(x.Env.KeyS, k, TextOpts{}), ValText(x.Env.ValS, v, TextOpts{})
		for i, r := range x.somRef {
			if r[0] == kx {
				x.somRef[i][1] = vx // a re-Set keeps the position

				return "ok"
			}
		}
		x.somRef = append(x.somRef, [2]string{kx, vx})

		return "ok"
	}

	return "bad-op"
}

// somEnc: Encode of the map as built by the history, with the oracles of C01 on the real code:
// iteration = reference list, Size() = its length, Decode(Encode(m)) consumes exactly the bytes
// produced and yields the reference entries in order, and a second Encode gives the same bytes.
func (x *Runner) somEnc() string {
	var b []byte
	var err error
	if p := hx.Safely(func() { b, err = x.Env.SOM.Encode(x.Env.API) }); p != "" {
		return "panic"
	}
	if err != nil {
		return "err"
	}
	if x.Prop != "C01" {
		return "ok " + hexs(b)
	}
	want := x.somRefText()
	rp := " replay-ops=[" + x.typeLine + " ;; def - ;; " + strings.Join(x.somHist, " ;; ") + " ;; enc n " + clip(want, 4000) + "]"
	hist := ""
	if got := x.somEntriesText(x.Env.SOM.Entries()); got != want || x.Env.SOM.Size() != len(x.somRef) {
		x.fail("roundtrip", fmt.Sprintf("ordered map after the history iterates %s with Size()=%d, the reference list is %s; %s",
			clip(got, 300), x.Env.SOM.Size(), clip(want, 300), x.where())+hist+rp, x.sig("som-iteration", "history", false))
	}
	b2, err2 := x.Env.SOM.Encode(x.Env.API)
	if err2 != nil || !bytes.Equal(b, b2) {
		x.fail("determinism", fmt.Sprintf("two encodings of one ordered map differ: %x vs %x; %s", b, b2, x.where())+hist+rp,
			x.sig("determinism", "same-value", false))
	}
	fresh := x.Env.SOM.Fresh()
	var n int
	var derr error
	p := hx.Safely(func() { n, derr = fresh.Decode(x.Env.API, b) })
	switch {
	case p != "" || derr != nil:
		x.fail("roundtrip", fmt.Sprintf("SerializableOrderedMap.Decode(Encode(m)) fails (%s %v); bytes=%s %s", p, derr, clip(hexs(b), 200), x.where())+hist+rp,
			x.sig("roundtrip-err", "som-history", false))
	case n != len(b):
		x.fail("roundtrip", fmt.Sprintf("SerializableOrderedMap.Decode consumed %d of the %d bytes Encode produced; bytes=%s reference=%s %s",
			n, len(b), clip(hexs(b), 200), clip(want, 300), x.where())+hist+rp, x.sig("roundtrip-count", "som-history", false))
	default:
		if got := x.somEntriesText(fresh.Entries()); got != want {
			x.fail("roundtrip", fmt.Sprintf("Decode(Encode(m)) yields %s, the map held %s; %s", clip(got, 300), clip(want, 300), x.where())+hist+rp,
				x.sig("roundtrip-value", "som-history", false))
		}
	}

	return "ok " + hexs(b)
}

func (x *Runner) somDec(b []byte) string {
	fresh := x.Env.SOM.Fresh()
	var n int
	var err error
	if p := hx.Safely(func() { n, err = fresh.Decode(x.Env.API, b) }); p != "" {
		x.fail("decode-panic", fmt.Sprintf("SerializableOrderedMap.Decode panicked on %s; %s", clip(hexs(b), 200), x.where()),
			x.sig("decode-panic", "input", false))

		return "panic"
	}
	if err != nil {
		return "err"
	}

	return fmt.Sprintf("ok %s %d", x.somEntriesText(fresh.Entries()), n)
}

// GenSomCase: one history over a pool of six keys, encoded after every few steps and at the end.
func (x *Runner) GenSomCase(rng *hx.Rng, sub uint64, name string) {
	x.R.Case(sub)
	if x.line("type som "+name) != "ok" {
		return
	}
	env := x.Env
	x.line("def " + env.Schema.SExp())
	x.countSchema(env.Schema)
	vg := &VGen{Rng: rng, API: env.API}
	kt, vt := env.SOM.Types()
	ks := &Schema{}
	*ks = *env.KeyS
	ks.GoType = kt
	vs := &Schema{}
	*vs = *env.ValS
	vs.GoType = vt
	var pool []string
	seen := map[string]bool{}
	for len(pool) < 6 {
		k := ValText(env.KeyS, vg.Gen(ks), TextOpts{})
		if !seen[k] {
			seen[k] = true
			pool = append(pool, k)
		}
	}
	value := func() string {
		v := vg.Gen(vs)
		if vs.K == KPtr && v.IsNil() {
			v = reflect.New(vt).Elem()
			vg.fillNonNil(vs, v)
		}

		return ValText(env.ValS, v, TextOpts{})
	}
	deletes, encs := 0, 0
	encode := func() {
		ans := x.line("enc n " + x.somRefText())
		encs++
		if !strings.HasPrefix(ans, "ok ") {
			return
		}
		b, _ := unhx(ans[3:])
		x.R.Count(sizeBucket(len(b)))
		x.line("dec n " + hexs(b))
		if rng.Chance(1, 3) {
			for _, m := range Mutate(rng, b, b, 1, true) {
				x.line("dec n " + hexs(m))
			}
		}
	}
	del := func(k string) {
		x.line("som del " + k)
		deletes++
	}
	// a scripted prefix that pins the shapes by name, then a random tail
	switch rng.Intn(6) {
	case 0: // delete the tail (the entry set last), nothing set afterwards
		for _, k := range pool[:3] {
			x.line("som set (kv " + k + " " + value() + ")")
		}
		del(pool[2])
		encode()
	case 1: // delete the head
		for _, k := range pool[:3] {
			x.line("som set (kv " + k + " " + value() + ")")
		}
		del(pool[0])
		encode()
	case 2: // delete a middle entry, set it again (moves to the end)
		for _, k := range pool[:4] {
			x.line("som set (kv " + k + " " + value() + ")")
		}
		del(pool[1])
		encode()
		x.line("som set (kv " + pool[1] + " " + value() + ")")
		encode()
	case 3: // delete everything, one by one from the tail, encode in between
		for _, k := range pool[:3] {
			x.line("som set (kv " + k + " " + value() + ")")
		}
		for i := 2; i >= 0; i-- {
			del(pool[i])
			encode()
		}
	case 4: // a single entry deleted, then a new one
		x.line("som set (kv " + pool[0] + " " + value() + ")")
		del(pool[0])
		encode()
		x.line("som set (kv " + pool[1] + " " + value() + ")")
		encode()
	}
	for i := rng.Intn(14); i > 0; i-- {
		switch y := rng.Intn(100); {
		case y < 55:
			x.line("som set (kv " + hx.Pick(rng, pool) + " " + value() + ")")
		case y < 90:
			k := hx.Pick(rng, pool)
			if len(x.somRef) > 0 && rng.Bool() {
				// prefer an end of the list
				k = x.somRef[len(x.somRef)-1][0]
				if rng.Chance(1, 3) {
					k = x.somRef[0][0]
				}
			}
			del(k)
			if rng.Bool() {
				encode()
			}
		case y < 93:
			x.line("som clear")
		default:
			encode()
		}
	}
	encode()
	if deletes > 0 && len(x.somRef) > 0 {
		x.R.Nontrivial(CaseKey("som", name, strings.Join(x.R.CaseLines(), "\n")))
	}
	x.R.Sample(x.R.CaseLines())
}
