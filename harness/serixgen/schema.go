// Package serixgen is the shared Go side of the serix checks (C01 binary part, C03, C02b): the schema
// descriptor that is sent to the Lean model, its derivation by reflection from a Go type plus the
// settings registered in a serix.API, value <-> descriptor text conversion, random schema and value
// generators, a catalogue of hand written types, and input mutation.
package serixgen

import (
	"fmt"
	"reflect"
	"strings"
)

type Kind int

const (
	KBool Kind = iota
	KUint
	KInt
	KFloat
	KStr
	KBytes
	KByteArr
	KU256
	KTime
	KSlice
	KArray
	KMap
	KStruct
	KPtr
	KIface
	KCustom
)

var kindNames = []string{"bool", "uint", "int", "float", "str", "bytes", "barr", "u256", "time", "slice", "arr", "map", "struct", "ptr", "iface", "custom"}

func (k Kind) String() string { return kindNames[k] }

// Code is an object type code with its denotation ("u8" or "u32").
type Code struct {
	Den string
	N   uint32
}

// Rules mirrors serializer.ArrayRules as serix uses them, plus the lexicalOrdering type setting.
type Rules struct {
	Min, Max uint
	NoDups   bool
	Lex      bool
	One8     bool
	One32    bool
	AutoSort bool
	Must     []uint32
}

type Field struct {
	Kind  byte // 'p' plain, 'o' optional, 'e' embedded (flattened)
	T     *Schema
	Index int // index of the Go struct field
	Name  string
}

type Alt struct {
	Code   uint32
	T      *Schema
	GoType reflect.Type
}

// Schema is the Go twin of the Lean type `Hive.Serix.Ty`.
type Schema struct {
	K      Kind
	W      int    // byte width of numbers
	LP     string // u8 u16 u32 u64 none
	Min    uint   // str / bytes / barr bounds
	Max    uint
	N      int // array length
	Code   *Code
	Rules  Rules
	Elem   *Schema // slice / array element, map value, pointer target
	Key    *Schema
	Fields []Field
	Fixed  int    // custom: the only payload length the type accepts (-1: any)
	Den    string // interface: denotation of the alternatives' codes
	Alts   []Alt
	GoType reflect.Type
}

func codeText(c *Code) string {
	if c == nil {
		return "none"
	}

	return fmt.Sprintf("(%s %d)", c.Den, c.N)
}

func (r Rules) text() string {
	fl := ""
	if r.NoDups {
		fl += "d"
	}
	if r.Lex {
		fl += "l"
	}
	if r.One8 {
		fl += "b"
	}
	if r.One32 {
		fl += "w"
	}
	if r.AutoSort {
		fl += "s"
	}
	if fl == "" {
		fl = "-"
	}
	must := make([]string, len(r.Must))
	for i, m := range r.Must {
		must[i] = fmt.Sprint(m)
	}

	return fmt.Sprintf("(%d %d %s (%s))", r.Min, r.Max, fl, strings.Join(must, " "))
}

// SExp prints the schema in the syntax `Hive.Serix.parseTy` reads.
func (s *Schema) SExp() string {
	switch s.K {
	case KBool:
		return "bool"
	case KUint:
		return fmt.Sprintf("(u %d)", s.W)
	case KInt:
		return fmt.Sprintf("(i %d)", s.W)
	case KFloat:
		return fmt.Sprintf("(f %d)", s.W)
	case KStr:
		return fmt.Sprintf("(str %s %d %d)", s.LP, s.Min, s.Max)
	case KBytes:
		return fmt.Sprintf("(bytes %s %d %d)", s.LP, s.Min, s.Max)
	case KByteArr:
		return fmt.Sprintf("(barr %d %s %d %d)", s.N, codeText(s.Code), s.Min, s.Max)
	case KU256:
		return "u256"
	case KTime:
		return "time"
	case KSlice:
		return fmt.Sprintf("(slice %s %s %s)", s.LP, s.Rules.text(), s.Elem.SExp())
	case KArray:
		return fmt.Sprintf("(arr %d %s %s %s)", s.N, s.LP, s.Rules.text(), s.Elem.SExp())
	case KMap:
		return fmt.Sprintf("(map %s %s %s %s)", s.LP, s.Rules.text(), s.Key.SExp(), s.Elem.SExp())
	case KStruct:
		var b strings.Builder
		b.WriteString("(struct " + codeText(s.Code))
		for _, f := range s.Fields {
			fmt.Fprintf(&b, " (%c %s)", f.Kind, f.T.SExp())
		}
		b.WriteString(")")

		return b.String()
	case KPtr:
		return fmt.Sprintf("(ptr %s)", s.Elem.SExp())
	case KCustom:
		if s.Fixed < 0 {
			return fmt.Sprintf("(custom %s any)", codeText(s.Code))
		}

		return fmt.Sprintf("(custom %s %d)", codeText(s.Code), s.Fixed)
	case KIface:
		var b strings.Builder
		b.WriteString("(iface " + s.Den)
		for _, a := range s.Alts {
			fmt.Fprintf(&b, " (%d %s)", a.Code, a.T.SExp())
		}
		b.WriteString(")")

		return b.String()
	}
	panic("unknown kind")
}

// ---- the harness's own copy of the Lean predicate `Ty.wf` (the tie compares the two verdicts) ----

func boundsOk(min, max uint, n int) bool {
	return (min == 0 || min <= uint(n)) && (max == 0 || uint(n) <= max)
}

func codeWf(c *Code) bool {
	if c == nil {
		return true
	}
	if c.Den == "u8" {
		return c.N < 256
	}

	return true
}

func (s *Schema) NonEmpty() bool {
	switch s.K {
	case KUint, KInt, KFloat:
		return s.W > 0
	case KByteArr:
		return s.N > 0 || s.Code != nil
	case KStruct:
		if s.Code != nil {
			return true
		}

		return fieldsNonEmpty(s.Fields)
	case KPtr:
		return s.Elem.NonEmpty()
	case KIface:
		for _, a := range s.Alts {
			if !a.T.NonEmpty() {
				return false
			}
		}

		return true
	default:
		return true
	}
}

func embFields(t *Schema) ([]Field, bool) {
	if t.K == KStruct {
		return t.Fields, true
	}
	if t.K == KPtr && t.Elem.K == KStruct {
		return t.Elem.Fields, true
	}

	return nil, false
}

func fieldsNonEmpty(fs []Field) bool {
	for _, f := range fs {
		switch f.Kind {
		case 'p':
			if f.T.NonEmpty() {
				return true
			}
		case 'o':
			return true
		case 'e':
			if sub, ok := embFields(f.T); ok && fieldsNonEmpty(sub) {
				return true
			}
		}
	}

	return false
}

func (s *Schema) IsKey() bool {
	switch s.K {
	case KBool, KUint, KInt, KStr, KByteArr, KCustom:
		return true
	case KArray:
		return !(s.Rules.AutoSort && s.Rules.Lex) && s.Elem.IsKey()
	case KStruct:
		return fieldsIsKey(s.Fields)
	default:
		return false
	}
}

func fieldsIsKey(fs []Field) bool {
	for _, f := range fs {
		switch f.Kind {
		case 'p':
			if !f.T.IsKey() {
				return false
			}
		case 'e':
			if f.T.K != KStruct || !fieldsIsKey(f.T.Fields) {
				return false
			}
		default:
			return false
		}
	}

	return true
}

func (s *Schema) startsWith(den string, code uint32) bool {
	t := s
	if t.K == KPtr {
		t = t.Elem
	}
	if t.K != KStruct && t.K != KByteArr && t.K != KCustom {
		return false
	}

	return t.Code != nil && t.Code.Den == den && t.Code.N == code
}

func (s *Schema) ptrTarget() bool {
	return s.K == KStruct || s.K == KArray || s.K == KByteArr || s.K == KTime || s.K == KCustom
}

// WF mirrors `Hive.Serix.Ty.wf`.
func (s *Schema) WF() bool {
	switch s.K {
	case KBool, KStr, KBytes, KU256, KTime:
		return true
	case KUint, KInt:
		return s.W == 1 || s.W == 2 || s.W == 4 || s.W == 8
	case KFloat:
		return s.W == 4 || s.W == 8
	case KByteArr, KCustom:
		return codeWf(s.Code)
	case KSlice, KArray:
		return s.Elem.WF()
	case KMap:
		return s.Key.IsKey() && s.Key.WF() && s.Elem.WF()
	case KStruct:
		if !codeWf(s.Code) {
			return false
		}
		for _, f := range s.Fields {
			switch f.Kind {
			case 'p':
				if !f.T.WF() {
					return false
				}
			case 'o':
				optKind := f.T.K == KPtr || f.T.K == KIface || f.T.K == KU256
				if !(optKind && f.T.NonEmpty() && f.T.WF()) {
					return false
				}
			case 'e':
				if _, ok := embFields(f.T); !ok || !f.T.WF() {
					return false
				}
			}
		}

		return true
	case KPtr:
		return s.Elem.ptrTarget() && s.Elem.WF()
	case KIface:
		seen := map[uint32]bool{}
		for _, a := range s.Alts {
			if !a.T.startsWith(s.Den, a.Code) || !a.T.WF() || seen[a.Code] {
				return false
			}
			seen[a.Code] = true
		}

		return true
	}
	panic("unknown kind")
}

// Walk calls f for every schema node.
func (s *Schema) Walk(f func(*Schema)) {
	f(s)
	switch s.K {
	case KSlice, KArray, KPtr:
		s.Elem.Walk(f)
	case KMap:
		s.Key.Walk(f)
		s.Elem.Walk(f)
	case KStruct:
		for _, fl := range s.Fields {
			fl.T.Walk(f)
		}
	case KIface:
		for _, a := range s.Alts {
			a.T.Walk(f)
		}
	}
}
