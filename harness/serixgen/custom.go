package serixgen

import (
	"errors"
	"reflect"
	"sort"
	"strings"

	"verifharness/hx"

	"github.com/iotaledger/hive.go/serializer/v2/serix"
)

// Custom Serializable / Deserializable types.  Their wire form is self-delimiting — one length byte n
// followed by n payload bytes — so that the Lean model can treat the encoding as part of the value
// (`Ty.custom code fixed`).  What differs is where Encode's result lives:
//
//	CuFresh  a freshly allocated slice
//	CuTab    a view into a package-level table with spare capacity (cap > len)
//	CuSelf   a sub-slice of a field of the value itself (spare capacity behind it)
//
// The `…C` twins are the same types registered with an object code (serix then copies the bytes behind
// the code prefix; without a code it must copy them as well — the memory oracle checks that nobody
// writes into the backing arrays).

var (
	serializableType    = reflect.TypeOf((*serix.Serializable)(nil)).Elem()
	deserializableType  = reflect.TypeOf((*serix.Deserializable)(nil)).Elem()
	errCustom           = errors.New("custom type: malformed encoding")
	cuTable, cuPristine [512]byte
)

func init() {
	for k := 0; k < 256; k++ {
		cuTable[2*k], cuTable[2*k+1] = 1, byte(k)
	}
	cuPristine = cuTable
}

// customInfo is implemented (value receiver) by every custom type of the harness.
type customInfo interface{ CustomFixed() int }

// customFiller is implemented (pointer receiver) by every custom type of the harness.
type customFiller interface{ FillRandom(r *hx.Rng) }

func customDecode(b []byte, fixed int) (payload []byte, n int, err error) {
	if len(b) == 0 {
		return nil, 0, errCustom
	}
	l := int(b[0])
	if len(b) < 1+l || (fixed >= 0 && l != fixed) {
		return nil, 0, errCustom
	}

	return b[1 : 1+l], 1 + l, nil
}

type (
	CuTab   uint8
	CuTabC  uint8
	CuFresh struct {
		A uint8
		B uint16
	}
	CuFreshC struct {
		A uint8
		B uint16
	}
	CuSelf  struct{ Raw []byte }
	CuSelfC struct{ Raw []byte }
)

func tabEncode(k uint8) ([]byte, error) { return cuTable[2*int(k) : 2*int(k)+2], nil }

func (c CuTab) Encode() ([]byte, error)  { return tabEncode(uint8(c)) }
func (c CuTabC) Encode() ([]byte, error) { return tabEncode(uint8(c)) }
func (c CuTab) CustomFixed() int         { return 1 }
func (c CuTabC) CustomFixed() int        { return 1 }
func (c *CuTab) FillRandom(r *hx.Rng)    { *c = CuTab(r.Intn(256)) }
func (c *CuTabC) FillRandom(r *hx.Rng)   { *c = CuTabC(r.Intn(256)) }

func (c *CuTab) Decode(b []byte) (int, error) {
	p, n, err := customDecode(b, 1)
	if err != nil {
		return 0, err
	}
	*c = CuTab(p[0])

	return n, nil
}

func (c *CuTabC) Decode(b []byte) (int, error) {
	p, n, err := customDecode(b, 1)
	if err != nil {
		return 0, err
	}
	*c = CuTabC(p[0])

	return n, nil
}

func freshEncode(a uint8, b uint16) ([]byte, error) { return []byte{3, a, byte(b), byte(b >> 8)}, nil }

func (c CuFresh) Encode() ([]byte, error)  { return freshEncode(c.A, c.B) }
func (c CuFreshC) Encode() ([]byte, error) { return freshEncode(c.A, c.B) }
func (c CuFresh) CustomFixed() int         { return 3 }
func (c CuFreshC) CustomFixed() int        { return 3 }
func (c *CuFresh) FillRandom(r *hx.Rng)    { c.A, c.B = uint8(r.Intn(256)), uint16(r.Intn(65536)) }
func (c *CuFreshC) FillRandom(r *hx.Rng)   { c.A, c.B = uint8(r.Intn(256)), uint16(r.Intn(65536)) }

func (c *CuFresh) Decode(b []byte) (int, error) {
	p, n, err := customDecode(b, 3)
	if err != nil {
		return 0, err
	}
	c.A, c.B = p[0], uint16(p[1])|uint16(p[2])<<8

	return n, nil
}

func (c *CuFreshC) Decode(b []byte) (int, error) {
	p, n, err := customDecode(b, 3)
	if err != nil {
		return 0, err
	}
	c.A, c.B = p[0], uint16(p[1])|uint16(p[2])<<8

	return n, nil
}

func selfEncode(raw []byte) ([]byte, error) {
	if len(raw) == 0 {
		return []byte{0}, nil
	}

	return raw[:1+int(raw[0])], nil
}

func selfRaw(payload []byte) []byte {
	raw := make([]byte, 1+len(payload), 1+len(payload)+8) // spare capacity behind the encoding
	raw[0] = byte(len(payload))
	copy(raw[1:], payload)

	return raw
}

func selfFill(r *hx.Rng) []byte {
	p := make([]byte, r.Intn(5))
	for i := range p {
		p[i] = byte(r.Intn(256))
	}

	return selfRaw(p)
}

func (c CuSelf) Encode() ([]byte, error)  { return selfEncode(c.Raw) }
func (c CuSelfC) Encode() ([]byte, error) { return selfEncode(c.Raw) }
func (c CuSelf) CustomFixed() int         { return -1 }
func (c CuSelfC) CustomFixed() int        { return -1 }
func (c *CuSelf) FillRandom(r *hx.Rng)    { c.Raw = selfFill(r) }
func (c *CuSelfC) FillRandom(r *hx.Rng)   { c.Raw = selfFill(r) }

func (c *CuSelf) Decode(b []byte) (int, error) {
	p, n, err := customDecode(b, -1)
	if err != nil {
		return 0, err
	}
	c.Raw = selfRaw(p)

	return n, nil
}

func (c *CuSelfC) Decode(b []byte) (int, error) {
	p, n, err := customDecode(b, -1)
	if err != nil {
		return 0, err
	}
	c.Raw = selfRaw(p)

	return n, nil
}

// CuPR: Encode AND Decode declared on the pointer receiver (the usual idiom for a type that fills itself in Decode), with
// serix tags on its fields, held by value in fields / elements / map values and at the top: API.decode finds Decode through
// value.Addr(), so API.encode has to find Encode through the address as well (fix in /repo) — before the fix Encode wrote
// the reflective struct form (3 bytes) that the type's own Decode refuses.
type CuPR struct {
	A uint8  `serix:""`
	B uint16 `serix:""`
}

func (c *CuPR) Encode() ([]byte, error) { return freshEncode(c.A, c.B) }
func (c CuPR) CustomFixed() int         { return 3 }
func (c *CuPR) FillRandom(r *hx.Rng)    { c.A, c.B = uint8(r.Intn(256)), uint16(r.Intn(65536)) }

func (c *CuPR) Decode(b []byte) (int, error) {
	p, n, err := customDecode(b, 3)
	if err != nil {
		return 0, err
	}
	c.A, c.B = p[0], uint16(p[1])|uint16(p[2])<<8

	return n, nil
}

// isCustomType: serix delegates to the type's own Encode / Decode — the type implements Serializable itself, or (held by
// value) its pointer type implements both Serializable and Deserializable.
func isCustomType(t reflect.Type) bool {
	if t.Implements(serializableType) {
		return true
	}

	return t.Kind() != reflect.Ptr && t.Kind() != reflect.Interface &&
		reflect.PointerTo(t).Implements(serializableType) && reflect.PointerTo(t).Implements(deserializableType)
}

// customEncode calls the Encode method of a custom value, through its address when the method has a pointer receiver.
func customEncode(v reflect.Value) ([]byte, error) {
	if e, ok := v.Interface().(interface{ Encode() ([]byte, error) }); ok {
		return e.Encode()
	}
	p := reflect.New(v.Type())
	p.Elem().Set(v)

	return p.Interface().(interface{ Encode() ([]byte, error) }).Encode()
}

var (
	tCuTab, tCuTabC     = reflect.TypeOf(CuTab(0)), reflect.TypeOf(CuTabC(0))
	tCuFresh, tCuFreshC = reflect.TypeOf(CuFresh{}), reflect.TypeOf(CuFreshC{})
	tCuSelf, tCuSelfC   = reflect.TypeOf(CuSelf{}), reflect.TypeOf(CuSelfC{})
	customPlain         = []reflect.Type{tCuTab, tCuFresh, tCuSelf}
	customCoded         = []reflect.Type{tCuTabC, tCuFreshC, tCuSelfC}
)

// customMemory collects the backing memory custom values own and Encode hands out views of: the whole
// capacity of every CuSelf/CuSelfC.Raw inside v (the package-level table is checked separately).
func customMemory(s *Schema, v reflect.Value) string {
	var out []string
	var walk func(s *Schema, v reflect.Value)
	walk = func(s *Schema, v reflect.Value) {
		switch s.K {
		case KCustom:
			switch c := v.Interface().(type) {
			case CuSelf:
				out = append(out, string(c.Raw[:cap(c.Raw)]))
			case CuSelfC:
				out = append(out, string(c.Raw[:cap(c.Raw)]))
			}
		case KSlice, KArray:
			for i := 0; i < v.Len(); i++ {
				walk(s.Elem, v.Index(i))
			}
		case KMap:
			iter := v.MapRange()
			for iter.Next() {
				walk(s.Key, iter.Key())
				walk(s.Elem, iter.Value())
			}
		case KStruct:
			for _, f := range s.Fields {
				walk(f.T, v.Field(f.Index))
			}
		case KPtr:
			if !v.IsNil() {
				walk(s.Elem, v.Elem())
			}
		case KIface:
			if !v.IsNil() {
				cv := v.Elem()
				for _, a := range s.Alts {
					if a.GoType == cv.Type() {
						walk(a.T, cv)
					}
				}
			}
		}
	}
	walk(s, v)
	sort.Strings(out) // maps are visited in random order

	return strings.Join(out, "\xfe")
}

// tableIntact reports whether the package-level code table is unchanged, and repairs it.
func tableIntact() bool {
	ok := cuTable == cuPristine
	cuTable = cuPristine

	return ok
}
