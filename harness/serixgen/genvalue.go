package serixgen

import (
	"bytes"
	"context"
	"math"
	"math/big"
	"reflect"
	"sort"

	"verifharness/hx"

	"github.com/iotaledger/hive.go/serializer/v2/serix"
)

// VGen generates mostly-valid values of a schema's Go type.
type VGen struct {
	Rng *hx.Rng
	API *serix.API
	// Big allows boundary-length byte payloads (255/256/65535/65536).
	Big bool
}

var boundaryLens = []int{255, 256, 257, 65535, 65536}

func (g *VGen) length(min, max uint, cap int) int {
	lo, hi := 0, cap
	if min > 0 && g.Rng.Chance(9, 10) {
		lo = int(min)
	}
	if max > 0 && g.Rng.Chance(9, 10) {
		hi = int(max)
	}
	if hi > lo+cap {
		hi = lo + cap
	}
	if hi < lo {
		// contradictory bounds: any length fails validation
		return g.Rng.Intn(cap + 1)
	}
	switch x := g.Rng.Intn(20); {
	case x == 0 && max > 0:
		return int(max) + 1 // just above the maximum
	case x == 1 && min > 0:
		return int(min) - 1 // just below the minimum
	case x == 2 && max > 0:
		return int(max)
	}

	return g.Rng.Range(lo, hi)
}

func (g *VGen) bytesPayload(min, max uint, text bool) []byte {
	n := g.length(min, max, 6)
	if g.Big && g.Rng.Chance(1, 25) {
		n = hx.Pick(g.Rng, boundaryLens)
	}
	b := make([]byte, n)
	mode := g.Rng.Intn(10)
	for i := range b {
		switch {
		case text && mode < 7:
			b[i] = byte(g.Rng.Range(0x20, 0x7e))
		default:
			b[i] = byte(g.Rng.Intn(256))
		}
	}
	if text && mode == 7 && n >= 4 {
		copy(b, []byte("\xf0\x9f\x98\x80")) // a 4-byte rune
		for i := 4; i < n; i++ {
			b[i] = 'a'
		}
	}

	return b
}

func (g *VGen) uintVal(w int) uint64 {
	max := uint64(math.MaxUint64)
	if w < 8 {
		max = 1<<(8*uint(w)) - 1
	}
	switch g.Rng.Intn(8) {
	case 0:
		return 0
	case 1:
		return max
	case 2:
		return max >> 1
	case 3:
		return uint64(g.Rng.Intn(4))
	default:
		return g.Rng.U64() & max
	}
}

var timeSpecials = []string{"0", "1", "9223372036854775807", "9223372036854775806", "9223372036854775808",
	"9223372036999999999", "9223372037000000000", "9223372037000000001", "-1", "-1000000000", "18446744073709551615",
	"99999999999999999999", "1700000000123456789",
	// the last second of the int64-nanosecond range and its neighbours (a saturation threshold placed on a whole second
	// instead of MaxInt64 swallows them), small offsets from MaxInt64, MinInt64
	"9223372036000000000", "9223372035999999999", "9223372036000000001", "9223372036500000000", "9223372036854775805",
	"9223372036854775800", "9223372036854774807", "9223372035000000000", "-9223372036854775808", "999999999", "1000000000"}

func (g *VGen) nanos() *big.Int {
	if g.Rng.Chance(1, 4) {
		n, _ := new(big.Int).SetString(hx.Pick(g.Rng, timeSpecials), 10)

		return n
	}

	return new(big.Int).SetUint64(g.Rng.U64() >> 1)
}

// Gen builds a value of type s.GoType.
func (g *VGen) Gen(s *Schema) reflect.Value {
	v := reflect.New(s.GoType).Elem()
	g.fill(s, v)

	return v
}

func (g *VGen) fill(s *Schema, v reflect.Value) {
	switch s.K {
	case KBool:
		v.SetBool(g.Rng.Bool())
	case KUint:
		v.SetUint(g.uintVal(s.W))
	case KInt:
		u := g.uintVal(s.W)
		sh := uint(64 - 8*s.W)
		v.SetInt(int64(u<<sh) >> sh)
	case KFloat:
		bits := g.uintVal(s.W)
		if g.Rng.Chance(1, 5) {
			if s.W == 4 {
				bits = uint64(hx.Pick(g.Rng, []uint32{0x7fc00000, 0x7fa00001, 0xffc00001, 0x7f800000, 0x80000000, 0x3f800000}))
			} else {
				bits = hx.Pick(g.Rng, []uint64{0x7ff8000000000000, 0x7ff4000000000001, 0xfff8000000000001, 0x7ff0000000000000, 0x8000000000000000})
			}
		}
		setFloatBits(v, bits)
	case KStr:
		v.SetString(string(g.bytesPayload(s.Min, s.Max, true)))
	case KBytes:
		b := g.bytesPayload(s.Min, s.Max, false)
		if len(b) == 0 && g.Rng.Bool() {
			return // nil slice
		}
		v.SetBytes(b)
	case KByteArr:
		for i := 0; i < v.Len(); i++ {
			v.Index(i).SetUint(uint64(g.Rng.Intn(256)))
		}
	case KU256:
		switch x := g.Rng.Intn(20); {
		case x == 0:
			// nil
		case x == 1:
			v.Set(reflect.ValueOf(big.NewInt(-int64(g.Rng.Intn(5)) - 1)))
		case x == 2:
			v.Set(reflect.ValueOf(new(big.Int).Lsh(big.NewInt(1), 256)))
		case x == 3:
			n := new(big.Int).Lsh(big.NewInt(1), 256)
			v.Set(reflect.ValueOf(n.Sub(n, big.NewInt(1))))
		case x < 8:
			v.Set(reflect.ValueOf(big.NewInt(int64(g.Rng.Intn(1000)))))
		default:
			b := make([]byte, g.Rng.Range(1, 32))
			for i := range b {
				b[i] = byte(g.Rng.Intn(256))
			}
			v.Set(reflect.ValueOf(new(big.Int).SetBytes(b)))
		}
	case KTime:
		v.Set(reflect.ValueOf(TimeFromNanos(g.nanos())))
	case KSlice:
		n := g.length(s.Rules.Min, s.Rules.Max, 6)
		if g.Big && s.Elem.tiny() && g.Rng.Chance(1, 6) {
			// element counts at the capacity of the length prefix and next to it
			n = hx.Pick(g.Rng, []int{254, 255, 256, 257})
			if !(s.Rules.AutoSort && s.Rules.Lex) && g.Rng.Chance(1, 3) {
				n = hx.Pick(g.Rng, []int{65535, 65536, 65537})
			}
		}
		if n == 0 && g.Rng.Bool() {
			return
		}
		v.Set(reflect.MakeSlice(v.Type(), n, n))
		for i := 0; i < n; i++ {
			g.fill(s.Elem, v.Index(i))
		}
		g.arrange(s, v)
	case KArray:
		for i := 0; i < v.Len(); i++ {
			g.fill(s.Elem, v.Index(i))
		}
		g.arrange(s, v)
	case KMap:
		n := g.length(s.Rules.Min, s.Rules.Max, 6)
		if g.Big && s.Key.K == KUint && s.Key.W >= 2 && s.Elem.tiny() && g.Rng.Chance(1, 6) {
			n = hx.Pick(g.Rng, []int{255, 256, 257}) // distinct keys are likely, the count is approximate
		}
		if n == 0 && g.Rng.Bool() {
			return
		}
		v.Set(reflect.MakeMap(v.Type()))
		for i := 0; i < n; i++ {
			k := reflect.New(v.Type().Key()).Elem()
			val := reflect.New(v.Type().Elem()).Elem()
			g.fill(s.Key, k)
			g.fill(s.Elem, val)
			v.SetMapIndex(k, val)
		}
	case KStruct:
		for _, f := range s.Fields {
			switch f.Kind {
			case 'o':
				if g.Rng.Chance(2, 5) {
					continue // nil
				}
				g.fillNonNil(f.T, v.Field(f.Index))
			case 'e':
				if f.T.K == KPtr && g.Rng.Chance(1, 12) {
					continue // nil embedded pointer: Encode must refuse
				}
				g.fillNonNil(f.T, v.Field(f.Index))
			default:
				g.fill(f.T, v.Field(f.Index))
			}
		}
	case KCustom:
		v.Addr().Interface().(customFiller).FillRandom(g.Rng)
	case KPtr:
		// a nil pointer to a custom type makes Encode call a value-receiver method through nil
		if s.Elem.K != KCustom && g.Rng.Chance(1, 12) {
			return
		}
		g.fillNonNil(s, v)
	case KIface:
		if g.Rng.Chance(1, 15) || len(s.Alts) == 0 {
			return
		}
		g.fillNonNil(s, v)
	}
}

func (g *VGen) fillNonNil(s *Schema, v reflect.Value) {
	switch s.K {
	case KPtr:
		p := reflect.New(v.Type().Elem())
		g.fill(s.Elem, p.Elem())
		v.Set(p)
	case KIface:
		if len(s.Alts) == 0 {
			return
		}
		a := hx.Pick(g.Rng, s.Alts)
		cv := reflect.New(a.GoType).Elem()
		if a.T.K == KPtr {
			g.fillNonNil(a.T, cv)
		} else {
			g.fill(a.T, cv)
		}
		v.Set(cv)
	case KU256:
		for v.IsNil() {
			g.fill(s, v)
		}
	default:
		g.fill(s, v)
	}
}

// arrange makes a slice/array satisfy its ordering / uniqueness rules most of the time: the elements
// are sorted by their encoded bytes and duplicates are replaced (slices: dropped).
func (g *VGen) arrange(s *Schema, v reflect.Value) {
	r := s.Rules
	if !(r.Lex || r.NoDups) || v.Len() < 2 || g.Rng.Chance(1, 5) {
		return
	}
	type item struct {
		b []byte
		v reflect.Value
	}
	items := make([]item, 0, v.Len())
	for i := 0; i < v.Len(); i++ {
		var b []byte
		var err error
		if p := hx.Safely(func() { b, err = g.API.Encode(context.Background(), v.Index(i).Interface()) }); p != "" || err != nil {
			return
		}
		cp := reflect.New(v.Type().Elem()).Elem()
		cp.Set(v.Index(i))
		items = append(items, item{b, cp})
	}
	if r.Lex && !(r.AutoSort && g.Rng.Bool()) {
		sort.SliceStable(items, func(i, j int) bool { return bytes.Compare(items[i].b, items[j].b) < 0 })
	}
	if r.NoDups && s.K == KSlice {
		seen := map[string]bool{}
		out := items[:0]
		for _, it := range items {
			if !seen[string(it.b)] {
				seen[string(it.b)] = true
				out = append(out, it)
			}
		}
		items = out
		v.Set(reflect.MakeSlice(v.Type(), len(items), len(items)))
	}
	for i, it := range items {
		v.Index(i).Set(it.v)
	}
}

// tiny: a one-byte scalar (collections of such elements can be made as long as a length prefix can count).
func (s *Schema) tiny() bool {
	return s.K == KBool || ((s.K == KUint || s.K == KInt) && s.W == 1)
}
