package serixgen

import (
	"bytes"
	"context"
	"crypto/sha256"
	"fmt"
	"os"
	"os/exec"
	"reflect"
	"strconv"
	"strings"
	"time"

	"verifharness/hx"
)

// Runner interprets the op lines of the serix line protocol against the real serix API and evaluates
// the property oracles (independently of the Lean model):
//
//	type gen SEED DEPTH | type cat NAME     select the registered universe (answer: ok | err)
//	def SCHEMA                               schema derived by reflection (answer: ok wf|nowf)
//	enc v|n VALUE                            API.Encode                (ok HEX | err | panic)
//	dec v|n HEX                              API.Decode                (ok VALUE N | err | panic)
//	canon v|n VALUE                          Decode(Encode(VALUE))     (ok VALUE | n/a)
type Runner struct {
	R   *hx.Run
	Env *Env
	// Prop is the property the oracle failures are reported for ("C01" or "C03").
	Prop string
	// encLog keeps every executed `enc` request with its schema for the C03 layout oracle.
	encLog   []encRecord
	typeLine string // the `type …` line of the current universe (for replayable failure details)
	failSeen map[string]int
	somRef   [][2]string // reference list of the ordered-map history: (key text, value text) in order
	somHist  []string
	encCalls int
	decCalls int
	// inRange: encodings Encode produced for values all of whose timestamps lie in [0, MaxInt64] ns — inputs whose
	// stamps are known to lie inside the int64-nanosecond range, so the canonical oracle need not skip them when the
	// decoded stamp is the saturation value
	inRange map[string]bool
	// tw: the twin API with syntactic validators of the current universe (validators.go; nil: none); twN counts the
	// twin checks; twLastDec: the bytes whose validated Decode was analysed together with the `enc` line
	tw        *twin
	tws       []*twin // all twins of the universe; the op line picks the one it runs on (a function of its text)
	twN       int
	twLastDec string
}

// fail reports an oracle failure, at most 25 times per signature: hx keeps 2000 findings per run and
// the frequent known findings must not crowd out a rare unknown one.
func (x *Runner) fail(oracle, detail string, sig map[string]string) {
	if x.failSeen == nil {
		x.failSeen = map[string]int{}
	}
	key := oracle + "|" + sig["oracle"] + "|" + sig["trigger"] + "|" + sig["validation"] + "|" + sig["type"]
	x.failSeen[key]++
	x.R.Count("finding:" + sig["oracle"] + ":" + sig["trigger"])
	if x.failSeen[key] > 25 {
		return
	}
	x.R.Fail(oracle, detail, sig)
}

type encRecord struct {
	def, op, impl, universe, typeLine string
}

var ctxBg = context.Background()

func flagOf(s string) (bool, bool) {
	switch s {
	case "v":
		return true, true
	case "n":
		return false, true
	}

	return false, false
}

func flagName(v bool) string {
	if v {
		return "v"
	}

	return "n"
}

// Encode calls API.Encode on a value of the top type.
func (x *Runner) Encode(v reflect.Value, validation bool) (b []byte, outcome string) {
	var err error
	before := customMemory(x.Env.Schema, v)
	tableIntact()
	// Encode must not change the value it encodes (sorting a slice in place, swapping bytes of a big.Int …)
	textBefore := ""
	checkValue := x.encCalls%3 == 0 || x.R.Replay != ""
	x.encCalls++
	if checkValue {
		textBefore = ValText(x.Env.Schema, v, TextOpts{})
	}
	p := hx.Safely(func() { b, err = x.Env.API.Encode(ctxBg, v.Interface(), x.Env.Opts(validation)...) })
	if checkValue {
		if textAfter := ValText(x.Env.Schema, v, TextOpts{}); textAfter != textBefore {
			x.fail("aliasing", fmt.Sprintf("Encode changed the value it was given: before %s after %s; %s", clip(textBefore, 300), clip(textAfter, 300), x.where())+
				x.replay("enc "+flagName(validation)+" "+textBefore), x.sig("encode-mutated-value", "value", validation))
		}
	}
	// Encode must not write into memory owned by the values it encodes (custom Serializable types hand
	// out views into their own backing arrays)
	if after := customMemory(x.Env.Schema, v); before != after {
		x.fail("custom-memory", "Encode modified the backing array of a custom Serializable value (bytes behind the slice its Encode returned); "+
			x.where()+x.replay("enc "+flagName(validation)+" "+ValText(x.Env.Schema, v, TextOpts{})),
			x.sig("custom-memory", "value-backing-array", validation))
	}
	if !tableIntact() {
		x.fail("custom-memory", "Encode modified the package-level table a custom Serializable type's Encode returns views of; "+
			x.where()+x.replay("enc "+flagName(validation)+" "+ValText(x.Env.Schema, v, TextOpts{})),
			x.sig("custom-memory", "shared-table", validation))
	}
	switch {
	case p != "":
		return nil, "panic"
	case err != nil:
		return nil, "err"
	}
	// the produced bytes belong to the caller: they must not be a view into the value (or into memory of a custom
	// type) — overwrite them, compare the value's text and the custom types' memory, restore
	if checkValue && len(b) > 0 {
		for i := range b {
			b[i] ^= 0xff
		}
		textAfter, memAfter, tab := ValText(x.Env.Schema, v, TextOpts{}), customMemory(x.Env.Schema, v), tableIntact()
		for i := range b {
			b[i] ^= 0xff
		}
		tableIntact() // (repairs the table in case the restore above wrote through a view)
		if textAfter != textBefore || memAfter != before || !tab {
			x.fail("aliasing", fmt.Sprintf("the encoded value changed when the bytes Encode returned were overwritten: before %s after %s (custom memory intact: %v, table intact: %v); %s",
				clip(textBefore, 300), clip(textAfter, 300), memAfter == before, tab, x.where())+
				x.replay("enc "+flagName(validation)+" "+textBefore), x.sig("encoded-bytes-alias-value", "value", validation))
		}
	}

	return b, "ok"
}

// Decode calls API.Decode into a fresh value of the top type.
func (x *Runner) Decode(b []byte, validation bool) (v reflect.Value, n int, outcome string) {
	dst := reflect.New(x.Env.Top)
	var err error
	// the caller's buffer belongs to the caller: a private copy is kept and compared after the call
	orig := append([]byte(nil), b...)
	p := hx.Safely(func() { n, err = x.Env.API.Decode(ctxBg, b, dst.Interface(), x.Env.Opts(validation)...) })
	if !bytes.Equal(orig, b) {
		x.fail("aliasing", fmt.Sprintf("Decode modified its input buffer: before %s after %s; %s", clip(hexs(orig), 200), clip(hexs(b), 200), x.where())+
			x.replay("dec "+flagName(validation)+" "+hexs(orig)), x.sig("decode-mutated-input", "input", validation))
		copy(b, orig)
	}
	switch {
	case p != "":
		v, outcome = reflect.Value{}, "panic"
	case err != nil:
		v, n, outcome = reflect.Value{}, 0, "err"
	default:
		v, outcome = dst.Elem(), "ok"
	}
	// the decoded value belongs to the caller as well: it must not be a view into the input buffer (a caller that
	// reuses its read buffer would see the value change) — overwrite the buffer, compare the value's text, restore
	if outcome == "ok" && len(b) > 0 && (x.decCalls%2 == 1 || x.R.Replay != "") {
		t1 := ValText(x.Env.Schema, v, TextOpts{})
		for i := range b {
			b[i] ^= 0xff
		}
		t2 := ValText(x.Env.Schema, v, TextOpts{})
		copy(b, orig)
		if t1 != t2 {
			x.fail("aliasing", fmt.Sprintf("the decoded value changed when the input buffer was overwritten after Decode returned: was %s, is %s; input %s; %s",
				clip(t1, 300), clip(t2, 300), clip(hexs(orig), 200), x.where())+
				x.replay("dec "+flagName(validation)+" "+hexs(orig)), x.sig("decoded-value-aliases-input", "input", validation))
		}
	}
	// decoding the very same buffer a second time (and with the other validation mode) must agree with the first time
	x.decCalls++
	if outcome != "panic" && (x.decCalls%2 == 0 || x.R.Replay != "") {
		first := outcome
		if outcome == "ok" {
			first = fmt.Sprintf("ok %s %d", ValText(x.Env.Schema, v, TextOpts{Norm: true}), n)
		}
		dst2 := reflect.New(x.Env.Top)
		var n2 int
		var err2 error
		p2 := hx.Safely(func() { n2, err2 = x.Env.API.Decode(ctxBg, b, dst2.Interface(), x.Env.Opts(validation)...) })
		second := "ok"
		switch {
		case p2 != "":
			second = "panic"
		case err2 != nil:
			second = "err"
		default:
			second = fmt.Sprintf("ok %s %d", ValText(x.Env.Schema, dst2.Elem(), TextOpts{Norm: true}), n2)
		}
		if second != first {
			x.fail("aliasing", fmt.Sprintf("two Decode calls on the same buffer disagree: first %s, second %s; input %s; %s", clip(first, 300), clip(second, 300), clip(hexs(orig), 200), x.where())+
				x.replay("dec "+flagName(validation)+" "+hexs(orig)), x.sig("decode-twice", "input", validation))
		}
		if validation && outcome == "ok" {
			// what the validating decoder accepts, the plain decoder accepts with the same result
			dst3 := reflect.New(x.Env.Top)
			var n3 int
			var err3 error
			p3 := hx.Safely(func() { n3, err3 = x.Env.API.Decode(ctxBg, b, dst3.Interface(), x.Env.Opts(false)...) })
			third := "ok"
			switch {
			case p3 != "":
				third = "panic"
			case err3 != nil:
				third = "err"
			default:
				third = fmt.Sprintf("ok %s %d", ValText(x.Env.Schema, dst3.Elem(), TextOpts{Norm: true}), n3)
			}
			if third != first {
				x.fail("aliasing", fmt.Sprintf("Decode without validation disagrees with the validated Decode of the same buffer: %s vs %s; input %s; %s", clip(first, 300), clip(third, 300), clip(hexs(orig), 200), x.where())+
					x.replay("dec v "+hexs(orig)), x.sig("decode-modes", "input", validation))
			}
		}
		copy(b, orig)
	}

	return v, n, outcome
}

// Exec executes one op line and returns the implementation's answer.
func (x *Runner) Exec(op string) string {
	f := strings.SplitN(op, " ", 3)
	switch f[0] {
	case "type":
		x.Env = nil
		x.tw, x.tws = nil, nil
		x.inRange = nil
		x.typeLine = op
		if len(f) < 3 {
			return "err"
		}
		x.somRef, x.somHist = nil, nil
		switch f[1] {
		case "som":
			x.Env = SomEnv(f[2])
		case "cat":
			x.Env = CatalogueEnv(f[2])
		case "gen":
			g := strings.Fields(f[2])
			if len(g) != 2 {
				return "err"
			}
			seed, err1 := strconv.ParseUint(g[0], 10, 64)
			depth, err2 := strconv.Atoi(g[1])
			if err1 != nil || err2 != nil {
				return "err"
			}
			x.Env = GenEnv(hx.NewRng(seed), depth)
		}
		if x.Env == nil {
			return "err"
		}
		if twinEnabled {
			if twinMode != "settings" {
				x.buildTwin()
			}
			if twinMode != "validators" {
				x.settingsOracle()
			}
		}

		return "ok"
	case "def":
		if x.Env == nil || x.Env.Err != nil {
			return "bad-schema"
		}
		if x.Env.Schema.WF() {
			return "ok wf"
		}

		return "ok nowf"
	case "som":
		x.somHist = append(x.somHist, clip(op, 400))

		return x.execSom(op)
	case "enc", "canon":
		if x.Env == nil || x.Env.Err != nil || len(f) < 3 {
			return "bad-op"
		}
		if x.Env.SOM != nil {
			if f[0] != "enc" {
				return "n/a"
			}
			ans := x.somEnc()
			if x.Prop == "C03" {
				x.encLog = append(x.encLog, encRecord{def: "def " + x.Env.Schema.SExp(), op: op, impl: ans, universe: x.Env.Name, typeLine: x.typeLine})
			}

			return ans
		}
		val, ok := flagOf(f[1])
		if !ok {
			return "bad-op"
		}
		v, err := ParseVal(x.Env.Schema, f[2])
		if err != nil {
			return "bad-op"
		}
		if f[0] == "enc" {
			ans := x.execEnc(v, val)
			if x.Prop == "C03" && len(x.encLog) < 400000 {
				x.encLog = append(x.encLog, encRecord{def: "def " + x.Env.Schema.SExp(), op: op, impl: ans, universe: x.Env.Name, typeLine: x.typeLine})
			}

			return ans
		}
		b, out := x.Encode(v, val)
		if out != "ok" {
			return "n/a"
		}
		d, _, out := x.Decode(b, val)
		if out != "ok" {
			return "n/a"
		}

		return "ok " + ValText(x.Env.Schema, d, TextOpts{})
	case "dec":
		if x.Env == nil || x.Env.Err != nil || len(f) < 3 {
			return "bad-op"
		}
		val, ok := flagOf(f[1])
		if !ok {
			return "bad-op"
		}
		b, err := unhx(f[2])
		if err != nil {
			return "bad-op"
		}
		if x.Env.SOM != nil {
			return x.somDec(b)
		}

		return x.execDec(b, val)
	}

	return "bad-op"
}

func (x *Runner) sig(oracle, trigger string, validation bool) map[string]string {
	return map[string]string{"oracle": oracle, "trigger": trigger, "validation": flagName(validation), "type": x.Env.Name}
}

func (x *Runner) where() string {
	return fmt.Sprintf("universe=%s schema=%s", x.Env.Name, clip(x.Env.Schema.SExp(), 600))
}

// replay renders op lines that reproduce a failure (one per line in a file for `--replay`).
func (x *Runner) replay(op string) string {
	return " replay-ops=[" + x.typeLine + " ;; def - ;; " + clip(op, 6000) + "]"
}

func clip(s string, n int) string {
	if len(s) > n {
		return s[:n] + "…"
	}

	return s
}

// execEnc: Encode, plus the C01 oracles on the real code: determinism (encode twice, and a rebuilt copy
// whose maps were filled in another order) and the round trip Decode(Encode(v)) ≡ canon v, n = len.
func (x *Runner) execEnc(v reflect.Value, validation bool) string {
	s := x.Env.Schema
	rp := x.replay("enc " + flagName(validation) + " " + ValText(s, v, TextOpts{}))
	b, out := x.Encode(v, validation)
	x.twinEnc(v, validation, b, out)
	if out == "panic" {
		// not a failure of C01 (a panic is not an accepted value); counted, and the model must agree
		x.R.Count("encode-panic:" + Classify(s, v, "encode-panic"))
	}
	if out != "ok" {
		return out
	}
	if stampsInRange(s, v) {
		if x.inRange == nil {
			x.inRange = map[string]bool{}
		}
		x.inRange[string(b)] = true
	}
	if validation {
		x.rulesOracle(s, v, "encode", "enc v "+ValText(s, v, TextOpts{}))
	}
	if x.Prop != "C01" {
		return "ok " + hexs(b)
	}
	// determinism
	b2, out2 := x.Encode(v, validation)
	if out2 != "ok" || !bytes.Equal(b, b2) {
		x.fail("determinism", fmt.Sprintf("two encodings of one value differ: %x vs %x (%s) %s", b, b2, out2, x.where())+rp,
			x.sig("determinism", "same-value", validation))
	}
	if cp, err := ParseVal(s, ValText(s, v, TextOpts{Perm: reversePerm})); err == nil {
		b3, out3 := x.Encode(cp, validation)
		if out3 != "ok" || !bytes.Equal(b, b3) {
			x.fail("determinism", fmt.Sprintf("rebuilt value (maps filled in reverse order) encodes differently: %x vs %x (%s) %s", b, b3, out3, x.where())+rp,
				x.sig("determinism", "rebuilt-maps", validation))
		}
	}
	// round trip, also with trailing bytes
	for _, suffix := range [][]byte{nil, {0xa5, 0x01}} {
		d, n, outD := x.Decode(append(append([]byte{}, b...), suffix...), validation)
		want := ValText(s, v, TextOpts{Norm: true})
		switch {
		case outD != "ok":
			x.fail("roundtrip", fmt.Sprintf("Decode(Encode(v)) = %s; bytes=%s value=%s %s", outD, clip(hexs(b), 200), clip(want, 400), x.where())+rp,
				x.sig("roundtrip-"+outD, Classify(s, v, "roundtrip-"+outD), validation))
		case n != len(b):
			x.fail("roundtrip", fmt.Sprintf("Decode consumed %d of %d produced bytes; %s", n, len(b), x.where())+rp,
				x.sig("roundtrip-count", Classify(s, v, "roundtrip-count"), validation))
		default:
			if got := ValText(s, d, TextOpts{Norm: true}); got != want {
				x.fail("roundtrip", fmt.Sprintf("Decode(Encode(v)) differs: want %s got %s; %s", clip(want, 400), clip(got, 400), x.where())+rp,
					x.sig("roundtrip-value", Classify(s, v, "roundtrip-value"), validation))
			}
		}
	}

	return "ok " + hexs(b)
}

func reversePerm(items []string) []int {
	n := len(items)
	p := make([]int, n)
	for i := range p {
		p[i] = n - 1 - i
	}

	return p
}

// execDec: Decode, plus the oracles "consumed ≤ supplied" and (C03, validation only) "accepted ⇒
// re-encoding the decoded value yields exactly b[:n]" for inputs whose stamps lie in the int64 range.
func (x *Runner) execDec(b []byte, validation bool) string {
	s := x.Env.Schema
	d, n, out := x.Decode(b, validation)
	x.twinDecLine(b, validation, d, n, out)
	if out == "panic" {
		x.fail("decode-panic", fmt.Sprintf("Decode panicked on %s; %s", clip(hexs(b), 200), x.where())+x.replay("dec "+flagName(validation)+" "+hexs(b)),
			x.sig("decode-panic", "input", validation))
	}
	if out != "ok" {
		return out
	}
	if n > len(b) || n < 0 {
		x.fail("consumed", fmt.Sprintf("Decode reports %d consumed bytes of %d; %s", n, len(b), x.where()),
			x.sig("consumed", "input", validation))

		return fmt.Sprintf("ok %s %d", ValText(s, d, TextOpts{}), n)
	}
	if validation {
		x.rulesOracle(s, d, "decode", "dec v "+hexs(b))
	}
	if validation && x.Prop == "C03" {
		x.R.Count("c03:accepted")
		known := x.inRange[string(b[:n])] || (s.K == KTime && n == 8 && b[7] < 0x80)
		if known && !InTimeRange(s, d) {
			x.R.Count("c03:saturation-value-from-in-range-input")
		}
		if InTimeRange(s, d) || known {
			b2, out2 := x.Encode(d, true)
			if out2 != "ok" || !bytes.Equal(b2, b[:n]) {
				x.fail("canonical", fmt.Sprintf("validated Decode accepted %s (n=%d) but re-encoding gives %s %s; value=%s %s",
					clip(hexs(b), 200), n, out2, clip(hexs(b2), 200), clip(ValText(s, d, TextOpts{}), 300), x.where())+x.replay("dec v "+hexs(b)),
					x.sig("canonical-"+out2, ClassifyDecoded(s, d), validation))
			} else {
				x.R.Count("c03:reencoded-equal")
			}
		} else {
			x.R.Count("c03:saturated-time-skipped")
		}
	}

	return fmt.Sprintf("ok %s %d", ValText(s, d, TextOpts{}), n)
}

// LayoutOracle is the forward direction of C03 evaluated as a property oracle: every Encode result
// of the real code must equal the bytes of the independent reference encoder (the Lean model,
// pinned to the documented layout by the C03_layout_* theorems).  The compiled driver is run once
// over all recorded `enc` requests; a differing answer is reported with the value as failing input.
func (x *Runner) LayoutOracle(driver string) {
	if len(x.encLog) == 0 {
		return
	}
	if _, err := os.Stat(driver); err != nil {
		x.R.Count("layout-oracle:driver-missing")

		return
	}
	var in bytes.Buffer
	for i, e := range x.encLog {
		fmt.Fprintf(&in, "# enc %d\n%s\n%s\n", i, e.def, e.op)
	}
	cmd := exec.Command(driver)
	cmd.Stdin = &in
	out, err := cmd.Output()
	if err != nil {
		x.R.Count("layout-oracle:driver-failed")

		return
	}
	lines := strings.Split(strings.TrimRight(string(out), "\n"), "\n")
	if len(lines) != 3*len(x.encLog) {
		x.R.Count("layout-oracle:driver-output-short")

		return
	}
	for i, e := range x.encLog {
		ref := lines[3*i+2]
		x.R.Count("layout-oracle:compared")
		if ref == e.impl {
			continue
		}
		kind := strings.SplitN(e.impl, " ", 2)[0] + "-vs-" + strings.SplitN(ref, " ", 2)[0]
		x.fail("layout", fmt.Sprintf("Encode differs from the reference encoder: impl=%s reference=%s request=%s schema=%s universe=%s",
			clip(e.impl, 300), clip(ref, 300), clip(e.op, 400), clip(e.def, 600), e.universe)+" replay-ops=["+e.typeLine+" ;; def - ;; "+clip(e.op, 6000)+"]",
			map[string]string{"oracle": "layout", "trigger": kind, "type": e.universe})
	}
}

// CaseKey is the canonical key of a case for the distinct-nontrivial count.
func CaseKey(parts ...string) string {
	h := sha256.Sum256([]byte(strings.Join(parts, "\x00")))

	return string(h[:10])
}

// ---- classification of a failing (schema, value) by structural cause; this is what known findings match on ----

// Classify names the structural feature of (schema, value) that is known to break the round trip in
// the observed way (kind = the oracle's signature, e.g. "roundtrip-err"), or "unexplained":
// an error or panic of Decode is explained by colliding map keys (needs two entries) or by duplicate
// empty-encoding elements, a differing value by an optional field with an empty encoding.
func Classify(s *Schema, v reflect.Value, kind string) string {
	found := map[string]bool{}
	var walk func(s *Schema, v reflect.Value)
	walk = func(s *Schema, v reflect.Value) {
		switch s.K {
		case KSlice, KArray:
			if s.Rules.Lex && s.Rules.NoDups && !s.Elem.NonEmpty() && v.Len() >= 2 {
				found["lex-nodups-empty-elements"] = true
			}
			for i := 0; i < v.Len(); i++ {
				walk(s.Elem, v.Index(i))
			}
		case KMap:
			if !s.Key.IsKey() && v.Len() >= 2 {
				found["map-key-"+s.Key.K.String()] = true
			}
			iter := v.MapRange()
			for iter.Next() {
				walk(s.Key, iter.Key())
				walk(s.Elem, iter.Value())
			}
		case KStruct:
			for _, f := range s.Fields {
				fv := v.Field(f.Index)
				if f.Kind == 'o' && !fv.IsNil() && !f.T.NonEmpty() {
					found["optional-empty-encoding"] = true
				}
				walk(f.T, fv)
			}
		case KPtr:
			if !v.IsNil() {
				walk(s.Elem, v.Elem())
			}
		case KIface:
			if !v.IsNil() {
				cv := v.Elem()
				for _, a := range s.Alts {
					if a.GoType == cv.Type() {
						if !a.T.startsWith(s.Den, a.Code) {
							found["iface-alt-without-code"] = true
						}
						walk(a.T, cv)
					}
				}
			}
		}
	}
	walk(s, v)
	var order []string
	switch kind {
	case "roundtrip-value", "roundtrip-count":
		order = []string{"optional-empty-encoding", "iface-alt-without-code"}
	default:
		order = []string{"map-key-time", "map-key-arr", "lex-nodups-empty-elements", "iface-alt-without-code"}
		for k := range found {
			if strings.HasPrefix(k, "map-key-") && k != "map-key-time" && k != "map-key-arr" {
				return k
			}
		}
	}
	for _, k := range order {
		if found[k] {
			return k
		}
	}

	return "unexplained"
}

// ClassifyDecoded names the structural feature of a decoded value known to make re-encoding fail.
func ClassifyDecoded(s *Schema, v reflect.Value) string {
	found := ""
	s.Walk(func(n *Schema) {
		if found != "" {
			return
		}
		switch {
		case n.K == KPtr && !n.Elem.ptrTarget():
			found = "pointer-to-" + n.Elem.K.String()
		case n.K == KByteArr && !boundsOk(n.Min, n.Max, n.N):
			found = "byte-array-bounds"
		case n.K == KMap && !n.Key.IsKey():
			found = "map-key-" + n.Key.K.String()
		}
	})
	if found == "" {
		return "unexplained"
	}

	return found
}

// ---- mutation of encodings ----

// Mutate derives inputs for Decode from a valid encoding.
func Mutate(rng *hx.Rng, b []byte, other []byte, n int, safeOnly bool) [][]byte {
	var out [][]byte
	cp := func() []byte { return append([]byte{}, b...) }
	for len(out) < n {
		switch k := rng.Intn(10); {
		case k == 0:
			// trailing bytes
			m := cp()
			for i := rng.Range(1, 3); i > 0; i-- {
				m = append(m, byte(rng.Intn(256)))
			}
			out = append(out, m)
		case k == 1:
			if len(b) > 0 {
				out = append(out, cp()[:rng.Intn(len(b))])
			}
		case k < 6 && !safeOnly:
			if len(b) == 0 {
				continue
			}
			m := cp()
			for i := rng.Range(1, 2); i > 0; i-- {
				pos := rng.Intn(len(m))
				if rng.Chance(1, 3) && len(m) > 8 {
					pos = rng.Intn(8)
				}
				switch rng.Intn(5) {
				case 0:
					m[pos]++
				case 1:
					m[pos]--
				case 2:
					m[pos] = byte(rng.Intn(3))
				case 3:
					m[pos] ^= 1 << uint(rng.Intn(8))
				default:
					m[pos] = byte(rng.Intn(256))
				}
			}
			out = append(out, m)
		case k == 6 && !safeOnly:
			if len(b) < 2 {
				continue
			}
			// swap two chunks of equal size (breaks orderings, keeps lengths)
			w := rng.Range(1, 3)
			if len(b) < 2*w {
				w = 1
			}
			i := rng.Intn(len(b) - 2*w + 1)
			m := cp()
			for j := 0; j < w; j++ {
				m[i+j], m[i+w+j] = m[i+w+j], m[i+j]
			}
			out = append(out, m)
		case k == 7 && !safeOnly:
			if len(b) == 0 || len(other) == 0 {
				continue
			}
			// splice with another encoding of the same type
			out = append(out, append(cp()[:rng.Intn(len(b)+1)], other[rng.Intn(len(other)):]...))
		case k == 8 && !safeOnly:
			// duplicate or drop a chunk
			if len(b) < 2 {
				continue
			}
			i := rng.Intn(len(b))
			j := i + rng.Range(1, 4)
			if j > len(b) {
				j = len(b)
			}
			m := append(append(append([]byte{}, b[:j]...), b[i:j]...), b[j:]...)
			if rng.Bool() {
				m = append(append([]byte{}, b[:i]...), b[j:]...)
			}
			out = append(out, m)
		default:
			m := make([]byte, rng.Intn(12))
			for i := range m {
				m[i] = byte(rng.Intn(256))
			}
			if !safeOnly {
				out = append(out, m)
			} else {
				out = append(out, cp())
			}
		}
	}

	return out
}

// HostileLoop: a collection with a uint32 count whose items may all be empty makes Decode iterate
// up to 2^32 times on a tampered count (C02's concern); such universes only get length-preserving mutations.
func (s *Schema) HostileLoop() bool {
	bad := false
	s.Walk(func(n *Schema) {
		switch n.K {
		case KSlice:
			if n.LP == "u32" && !n.Elem.NonEmpty() {
				bad = true
			}
		case KMap:
			if n.LP == "u32" && !n.Key.NonEmpty() && !n.Elem.NonEmpty() {
				bad = true
			}
		}
	})

	return bad
}

// stampsInRange: every timestamp inside v lies in [0, MaxInt64] nanoseconds (nothing for the encoder to saturate).
func stampsInRange(s *Schema, v reflect.Value) bool {
	ok := true
	walkValue(s, v, func(n *Schema, nv reflect.Value) {
		if n.K == KTime {
			ns := TimeNanos(nv.Interface().(time.Time))
			if ns.Sign() < 0 || ns.Cmp(maxInt64Big) > 0 {
				ok = false
			}
		}
	})

	return ok
}

// walkValue visits every (schema node, value) pair of a value.
func walkValue(s *Schema, v reflect.Value, f func(*Schema, reflect.Value)) {
	f(s, v)
	switch s.K {
	case KSlice, KArray:
		for i := 0; i < v.Len(); i++ {
			walkValue(s.Elem, v.Index(i), f)
		}
	case KMap:
		iter := v.MapRange()
		for iter.Next() {
			walkValue(s.Key, iter.Key(), f)
			walkValue(s.Elem, iter.Value(), f)
		}
	case KStruct:
		for _, fl := range s.Fields {
			walkValue(fl.T, v.Field(fl.Index), f)
		}
	case KPtr:
		if !v.IsNil() {
			walkValue(s.Elem, v.Elem(), f)
		}
	case KIface:
		if !v.IsNil() {
			cv := v.Elem()
			for _, a := range s.Alts {
				if a.GoType == cv.Type() {
					walkValue(a.T, cv, f)
				}
			}
		}
	}
}

// elemCode: the object code a collection element starts with, when its type has one (interface alternative,
// struct / byte array / custom type registered with a code, pointer to one).
func elemCode(s *Schema, v reflect.Value) (uint32, bool) {
	switch s.K {
	case KIface:
		if v.IsNil() {
			return 0, false
		}
		for _, a := range s.Alts {
			if a.GoType == v.Elem().Type() {
				return a.Code, true
			}
		}

		return 0, false
	case KPtr:
		if v.IsNil() {
			return 0, false
		}

		return elemCode(s.Elem, v.Elem())
	case KStruct, KByteArr, KCustom:
		if s.Code != nil {
			return s.Code.N, true
		}
	}

	return 0, false
}

// rulesOracle: what the validating Encode / Decode accepted satisfies the array rules that can be judged on the
// value itself, independently of the byte level: element count within the bounds, every must-occur type present,
// and no type twice under an at-most-one-of-each-type rule (for elements that carry an object code).
func (x *Runner) rulesOracle(s *Schema, v reflect.Value, side string, op string) {
	walkValue(s, v, func(n *Schema, nv reflect.Value) {
		if n.K != KSlice && n.K != KArray && n.K != KMap {
			return
		}
		r := n.Rules
		cnt := uint(nv.Len())
		if (r.Min != 0 && cnt < r.Min) || (r.Max != 0 && cnt > r.Max) {
			x.fail("rules", fmt.Sprintf("validated %s accepted a collection of %d elements, bounds min=%d max=%d; %s", side, cnt, r.Min, r.Max, x.where())+x.replay(op),
				x.sig("rules-bounds", side, true))
		}
		if n.K == KMap || (len(r.Must) == 0 && !r.One8 && !r.One32) {
			return
		}
		seen := map[uint32]int{}
		coded := true
		for i := 0; i < nv.Len(); i++ {
			c, ok := elemCode(n.Elem, nv.Index(i))
			if !ok {
				coded = false

				break
			}
			seen[c]++
		}
		if !coded {
			return
		}
		for _, m := range r.Must {
			if seen[m] == 0 {
				x.fail("rules", fmt.Sprintf("validated %s accepted a collection without the must-occur type %d (types present: %v); %s", side, m, seen, x.where())+x.replay(op),
					x.sig("rules-must-occur", side, true))
			}
		}
		if (r.One8 && n.Elem.codeDen() == "u8") || (r.One32 && n.Elem.codeDen() == "u32") {
			for c, k := range seen {
				if k > 1 {
					x.fail("rules", fmt.Sprintf("validated %s accepted a collection with type %d occurring %d times under an at-most-one-of-each-type rule; %s", side, c, k, x.where())+x.replay(op),
						x.sig("rules-type-unique", side, true))
				}
			}
		}
	})
}

// codeDen: the denotation of the object codes the elements of this type start with ("" when unknown / mixed).
func (s *Schema) codeDen() string {
	switch s.K {
	case KIface:
		return s.Den
	case KPtr:
		return s.Elem.codeDen()
	case KStruct, KByteArr, KCustom:
		if s.Code != nil {
			return s.Code.Den
		}
	}

	return ""
}
