package serixgen

import (
	"errors"
	"fmt"
	"reflect"

	"verifharness/hx"

	"github.com/iotaledger/hive.go/serializer/v2"
	"github.com/iotaledger/hive.go/serializer/v2/serix"
)

// Oracle `settings-accessors` (Go only, once per universe): the setter / getter pairs of serix.TypeSettings
// return what was set ("unset" otherwise), a With* call leaves its receiver alone, and a TypeSettingsRegistry
// filled with the (type, settings) pairs the universe registered (read through API.ForEachRegisteredTypeSetting —
// the registry of an API is not exported) answers Has / GetByType / GetByValue / ForEach / GetObjectMetadata
// accordingly.

// tsModel is the harness's own record of what a TypeSettings value was given.
type tsModel struct {
	key   *string
	desc  string
	obj   any
	lp    *serix.LengthPrefixType
	lex   *bool
	rules *serix.ArrayRules // identity matters: ArrayRules() hands out the pointer that was set
	// min/max are tracked separately from `rules`: WithMinLen / WithMaxLen create rules when there are none
	hasRules bool
	min, max uint
}

// tsCheck compares every getter of ts with the model ("" when they agree).
func tsCheck(ts serix.TypeSettings, m tsModel) string {
	k, okK := ts.FieldKey()
	switch {
	case m.key == nil && (okK || k != ""):
		return fmt.Sprintf("FieldKey() = %q,%v on settings without a field key", k, okK)
	case m.key != nil && (!okK || k != *m.key):
		return fmt.Sprintf("FieldKey() = %q,%v want %q,true", k, okK, *m.key)
	}
	var mk string
	p := hx.Safely(func() { mk = ts.MustFieldKey() })
	switch {
	case m.key == nil && p == "":
		return "MustFieldKey() did not panic on settings without a field key"
	case m.key != nil && (p != "" || mk != *m.key):
		return fmt.Sprintf("MustFieldKey() = %q (panic %q) want %q", mk, p, *m.key)
	}
	if d := ts.Description(); d != m.desc {
		return fmt.Sprintf("Description() = %q want %q", d, m.desc)
	}
	if o := ts.ObjectType(); o != m.obj {
		return fmt.Sprintf("ObjectType() = %v (%T) want %v (%T)", o, o, m.obj, m.obj)
	}
	lp, okL := ts.LengthPrefixType()
	switch {
	case m.lp == nil && (okL || lp != 0):
		return fmt.Sprintf("LengthPrefixType() = %d,%v on settings without a length prefix type", lp, okL)
	case m.lp != nil && (!okL || lp != *m.lp):
		return fmt.Sprintf("LengthPrefixType() = %d,%v want %d,true", lp, okL, *m.lp)
	}
	lex, okX := ts.LexicalOrdering()
	switch {
	case m.lex == nil && (okX || lex):
		return fmt.Sprintf("LexicalOrdering() = %v,%v on settings without the flag", lex, okX)
	case m.lex != nil && (!okX || lex != *m.lex):
		return fmt.Sprintf("LexicalOrdering() = %v,%v want %v,true", lex, okX, *m.lex)
	}
	r := ts.ArrayRules()
	switch {
	case !m.hasRules && r != nil:
		return "ArrayRules() != nil on settings without array rules"
	case m.hasRules && r == nil:
		return "ArrayRules() = nil although rules (or a bound) were set"
	case m.rules != nil && r != m.rules:
		return "ArrayRules() is not the pointer given to WithArrayRules"
	}
	if m.hasRules && (r.Min != m.min || r.Max != m.max) {
		return fmt.Sprintf("ArrayRules() has Min=%d Max=%d want %d %d", r.Min, r.Max, m.min, m.max)
	}
	mn, okMn := ts.MinLen()
	if mn != m.min || okMn != (m.min != 0) {
		return fmt.Sprintf("MinLen() = %d,%v want %d,%v", mn, okMn, m.min, m.min != 0)
	}
	mx, okMx := ts.MaxLen()
	if mx != m.max || okMx != (m.max != 0) {
		return fmt.Sprintf("MaxLen() = %d,%v want %d,%v", mx, okMx, m.max, m.max != 0)
	}
	if a, b := ts.MinMaxLen(); a != int(m.min) || b != int(m.max) {
		return fmt.Sprintf("MinMaxLen() = %d,%d want %d,%d", a, b, m.min, m.max)
	}

	return ""
}

// tsSame: two settings agree in every getter (array rules by identity).
func tsSame(a, b serix.TypeSettings) bool {
	ka, oka := a.FieldKey()
	kb, okb := b.FieldKey()
	la, okla := a.LengthPrefixType()
	lb, oklb := b.LengthPrefixType()
	xa, okxa := a.LexicalOrdering()
	xb, okxb := b.LexicalOrdering()

	return ka == kb && oka == okb && a.Description() == b.Description() && a.ObjectType() == b.ObjectType() &&
		la == lb && okla == oklb && xa == xb && okxa == okxb && a.ArrayRules() == b.ArrayRules()
}

func (x *Runner) settingsFail(trigger, format string, args ...any) {
	name := ""
	if x.Env != nil {
		name = x.Env.Name
	}
	x.fail("settings-accessors", fmt.Sprintf(format, args...)+"; "+x.typeLine+" replay-ops=["+x.typeLine+" ;; def -]",
		map[string]string{"oracle": "settings-accessors", "trigger": trigger, "type": name})
}

// settingsOracle runs once per universe (C01 only); its random choices are a function of the `type` line.
func (x *Runner) settingsOracle() {
	if x.Prop != "C01" || x.Env == nil {
		return
	}
	x.R.Count("settings:universes")
	rng := hx.NewRng(fnv64(x.typeLine) ^ 0x73657474696e6773)
	x.settingsChain(rng)
	x.settingsRegistry(rng)
}

// settingsChain: a random chain of With* calls, every getter checked against the model after every step,
// and the receiver of every step checked to be unchanged.
func (x *Runner) settingsChain(rng *hx.Rng) {
	ts := serix.NewTypeSettings()
	var m tsModel
	if d := tsCheck(ts, m); d != "" {
		x.settingsFail("new", "NewTypeSettings(): %s", d)

		return
	}
	if d := tsCheck(serix.TypeSettings{}, m); d != "" {
		x.settingsFail("zero", "TypeSettings{}: %s", d)

		return
	}
	steps := rng.Range(3, 9)
	for i := 0; i < steps; i++ {
		prev, pm := ts, m
		prevRules := ts.ArrayRules()
		var prevMin, prevMax uint
		if prevRules != nil {
			prevMin, prevMax = prevRules.Min, prevRules.Max
		}
		name := ""
		sharesRules := false
		switch rng.Intn(8) {
		case 0:
			name = "WithFieldKey"
			k := hx.Pick(rng, []string{"", "a", "fieldKey", "ключ", "k 1"})
			ts = ts.WithFieldKey(k)
			m.key = &k
		case 1:
			name = "WithDescription"
			d := hx.Pick(rng, []string{"", "d", "some description"})
			ts = ts.WithDescription(d)
			m.desc = d
		case 2:
			name = "WithObjectType"
			var o any
			switch rng.Intn(4) {
			case 0:
				o = uint8(rng.Intn(256))
			case 1:
				o = uint32(rng.U64())
			case 2:
				o = uint32(rng.Intn(256))
			default:
				o = nil
			}
			ts = ts.WithObjectType(o)
			m.obj = o
		case 3:
			name = "WithLengthPrefixType"
			lp := hx.Pick(rng, []serix.LengthPrefixType{serix.LengthPrefixTypeAsByte, serix.LengthPrefixTypeAsUint16,
				serix.LengthPrefixTypeAsUint32, serix.LengthPrefixTypeAsUint64, serix.LengthPrefixType(77)})
			ts = ts.WithLengthPrefixType(lp)
			m.lp = &lp
		case 4:
			name = "WithLexicalOrdering"
			b := rng.Bool()
			ts = ts.WithLexicalOrdering(b)
			m.lex = &b
		case 5:
			name = "WithArrayRules"
			if rng.Chance(1, 5) {
				ts = ts.WithArrayRules(nil)
				m.rules, m.hasRules, m.min, m.max = nil, false, 0, 0
			} else {
				r := &serix.ArrayRules{Min: uint(rng.Intn(4)), Max: uint(rng.Intn(9)), ValidationMode: serializer.ArrayValidationMode(rng.Intn(32))}
				ts = ts.WithArrayRules(r)
				m.rules, m.hasRules, m.min, m.max = r, true, r.Min, r.Max
			}
		case 6:
			name = "WithMinLen"
			l := uint(rng.Intn(5))
			sharesRules = pm.hasRules
			ts = ts.WithMinLen(l)
			m.hasRules, m.min = true, l
		default:
			name = "WithMaxLen"
			l := uint(rng.Intn(5))
			sharesRules = pm.hasRules
			ts = ts.WithMaxLen(l)
			m.hasRules, m.max = true, l
		}
		x.R.Count("settings:step:" + name)
		if d := tsCheck(ts, m); d != "" {
			x.settingsFail("getter:"+name, "after %s (step %d of the chain): %s", name, i, d)

			return
		}
		if sharesRules {
			// WithMinLen / WithMaxLen write through the receiver's *ArrayRules when it has one (the copy shares the
			// pointer): the receiver's bounds change with the result's.  Observed, counted, not judged (nothing in the
			// property depends on it); everything else of the receiver must still be unchanged.
			if prevRules != nil && (prevRules.Min != prevMin || prevRules.Max != prevMax) {
				x.R.Count("settings:bound-setter-writes-through-shared-rules")
				pm.min, pm.max = m.min, m.max
			}
		}
		if d := tsCheck(prev, pm); d != "" {
			x.settingsFail("receiver-changed:"+name, "%s changed its receiver (step %d of the chain): %s", name, i, d)

			return
		}
	}
	// LengthPrefixTypeSize
	for _, c := range []struct {
		lp   serix.LengthPrefixType
		size int
	}{{serix.LengthPrefixTypeAsByte, 1}, {serix.LengthPrefixTypeAsUint16, 2}, {serix.LengthPrefixTypeAsUint32, 4}, {serix.LengthPrefixTypeAsUint64, 8}} {
		if n, err := serix.LengthPrefixTypeSize(c.lp); err != nil || n != c.size {
			x.settingsFail("prefix-size", "LengthPrefixTypeSize(%d) = %d, %v want %d", c.lp, n, err, c.size)
		}
	}
	known := map[serix.LengthPrefixType]bool{serix.LengthPrefixTypeAsByte: true, serix.LengthPrefixTypeAsUint16: true,
		serix.LengthPrefixTypeAsUint32: true, serix.LengthPrefixTypeAsUint64: true}
	if lp := serix.LengthPrefixType(rng.Intn(256)); !known[lp] {
		if n, err := serix.LengthPrefixTypeSize(lp); err == nil || n != 0 || !errors.Is(err, serix.ErrUnknownLengthPrefixType) {
			x.settingsFail("prefix-size-unknown", "LengthPrefixTypeSize(%d) = %d, %v want 0, ErrUnknownLengthPrefixType", lp, n, err)
		}
	}
}

type regPair struct {
	t  reflect.Type
	ts serix.TypeSettings
}

// settingsRegistry: a registry of its own, filled with what the universe registered.
func (x *Runner) settingsRegistry(rng *hx.Rng) {
	var pairs []regPair
	seen := map[reflect.Type]bool{}
	x.Env.API.ForEachRegisteredTypeSetting(func(t reflect.Type, ts serix.TypeSettings) bool {
		if seen[t] {
			x.settingsFail("foreach-api-duplicate", "API.ForEachRegisteredTypeSetting visited %s twice", t)
		}
		seen[t] = true
		pairs = append(pairs, regPair{t, ts})

		return true
	})
	x.R.CountN("settings:registered-types", len(pairs))
	reg := serix.NewTypeSettingsRegistry()
	if err := reg.RegisterTypeSettings(nil, serix.TypeSettings{}); err == nil {
		x.settingsFail("register-nil", "RegisterTypeSettings(nil, …) was accepted")
	}
	n0 := 0
	reg.ForEach(func(reflect.Type, serix.TypeSettings) bool { n0++; return true })
	if n0 != 0 {
		x.settingsFail("foreach-empty", "ForEach on a new registry visited %d entries", n0)
	}
	for i, p := range pairs {
		if reg.Has(p.t) {
			x.settingsFail("has-before", "Has(%s) is true before the type was registered", p.t)
		}
		if err := reg.RegisterTypeSettings(reflect.New(p.t).Elem().Interface(), p.ts); err != nil {
			x.settingsFail("register", "RegisterTypeSettings(%s) failed on a fresh registry: %v", p.t, err)

			return
		}
		if i%3 == 0 {
			// a second registration is refused and changes nothing
			if err := reg.RegisterTypeSettings(reflect.New(p.t).Elem().Interface(), p.ts.WithDescription("second").WithObjectType(uint32(4242))); err == nil {
				x.settingsFail("register-twice", "a second RegisterTypeSettings(%s) was accepted", p.t)
			}
		}
	}
	// ForEach: exactly the registered pairs, once each, in registration order; stops when told to
	var visited []regPair
	reg.ForEach(func(t reflect.Type, ts serix.TypeSettings) bool {
		visited = append(visited, regPair{t, ts})

		return true
	})
	if len(visited) != len(pairs) {
		x.settingsFail("foreach-count", "ForEach visited %d entries, %d types were registered", len(visited), len(pairs))
	} else {
		for i := range pairs {
			if visited[i].t != pairs[i].t || !tsSame(visited[i].ts, pairs[i].ts) {
				x.settingsFail("foreach-entry", "ForEach entry %d is %s, registered in that place: %s (or its settings differ)", i, visited[i].t, pairs[i].t)

				break
			}
		}
	}
	if len(pairs) > 1 {
		stopAt := 1 + rng.Intn(len(pairs)-1)
		k := 0
		reg.ForEach(func(reflect.Type, serix.TypeSettings) bool { k++; return k < stopAt })
		if k != stopAt {
			x.settingsFail("foreach-stop", "ForEach went on after the consumer returned false: %d visits, stop requested at %d", k, stopAt)
		}
	}
	opt := serix.TypeSettings{}.WithLengthPrefixType(serix.LengthPrefixTypeAsUint16).WithDescription("opt")
	for _, p := range pairs {
		x.R.Count("settings:registry-type")
		if !reg.Has(p.t) {
			x.settingsFail("has", "Has(%s) is false for a registered type", p.t)
		}
		if ts, ok := reg.GetByType(p.t); !ok || !tsSame(ts, p.ts) {
			x.settingsFail("get-by-type", "GetByType(%s) = found %v, or not the registered settings", p.t, ok)
		}
		// a pointer to a registered type resolves to the type's settings unless the pointer type is registered itself
		pt := reflect.PointerTo(p.t)
		if !seen[pt] {
			if reg.Has(pt) {
				x.settingsFail("has-pointer", "Has(%s) is true, only %s was registered", pt, p.t)
			}
			if ts, ok := reg.GetByType(pt); !ok || !tsSame(ts, p.ts) {
				x.settingsFail("get-by-type-pointer", "GetByType(%s) = found %v, or not the settings registered for %s", pt, ok, p.t)
			}
			// GetByValue: through a non-nil pointer, and through a nil pointer (resolved by its element type)
			if ts := reg.GetByValue(reflect.New(p.t)); !tsSame(ts, p.ts) {
				x.settingsFail("get-by-value-pointer", "GetByValue(non-nil %s) is not the settings registered for %s", pt, p.t)
			}
			if ts := reg.GetByValue(reflect.Zero(pt)); !tsSame(ts, p.ts) {
				x.settingsFail("get-by-value-nil-pointer", "GetByValue(nil %s) is not the settings registered for %s", pt, p.t)
			}
		}
		// an unregistered type built from it
		st := reflect.SliceOf(reflect.SliceOf(p.t))
		if !seen[st] {
			if reg.Has(st) {
				x.settingsFail("has-unregistered", "Has(%s) is true for a type that was never registered", st)
			}
			if ts, ok := reg.GetByType(st); ok || !tsSame(ts, serix.TypeSettings{}) {
				x.settingsFail("get-by-type-unregistered", "GetByType(%s) = found %v for a type that was never registered", st, ok)
			}
			if ts := reg.GetByValue(reflect.Zero(st), opt); !tsSame(ts, opt) {
				x.settingsFail("get-by-value-unregistered", "GetByValue(%s, opt) is not opt for a type that was never registered", st)
			}
		}
		if ts := reg.GetByValue(reflect.Zero(p.t)); !tsSame(ts, p.ts) {
			x.settingsFail("get-by-value", "GetByValue(zero %s) is not the registered settings", p.t)
		}
		// with optional settings: those win where set, the registered ones fill the rest
		{
			ts := reg.GetByValue(reflect.Zero(p.t), opt)
			lp, okL := ts.LengthPrefixType()
			lex, okX := ts.LexicalOrdering()
			rlex, rokX := p.ts.LexicalOrdering()
			if !okL || lp != serix.LengthPrefixTypeAsUint16 || ts.ObjectType() != p.ts.ObjectType() || ts.ArrayRules() != p.ts.ArrayRules() ||
				lex != rlex || okX != rokX || ts.Description() != "opt" {
				x.settingsFail("get-by-value-opt", "GetByValue(zero %s, opt) is not opt merged over the registered settings", p.t)
			}
		}
		// GetObjectMetadata: type, denotation and code of the registered object type
		md, err := reg.GetObjectMetadata(reflect.New(p.t).Elem().Interface())
		switch o := p.ts.ObjectType().(type) {
		case uint8:
			if err != nil || md == nil || md.Type != p.t || md.TypeDenotation != serializer.TypeDenotationByte || md.Code != uint32(o) {
				x.settingsFail("metadata", "GetObjectMetadata(%s) = %+v, %v want byte code %d", p.t, md, err, o)
			}
		case uint32:
			if err != nil || md == nil || md.Type != p.t || md.TypeDenotation != serializer.TypeDenotationUint32 || md.Code != o {
				x.settingsFail("metadata", "GetObjectMetadata(%s) = %+v, %v want uint32 code %d", p.t, md, err, o)
			}
		default:
			if err == nil {
				x.settingsFail("metadata-no-code", "GetObjectMetadata(%s) = %+v without an error although the type has no (usable) object code", p.t, md)
			}
		}
	}
	if _, err := reg.GetObjectMetadata(struct{ NeverRegistered int }{}); err == nil {
		x.settingsFail("metadata-unregistered", "GetObjectMetadata of an unregistered type returned no error")
	}
}
