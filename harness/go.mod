module verifharness

go 1.22

require (
	github.com/iotaledger/hive.go/ads v0.0.0-00010101000000-000000000000
	github.com/iotaledger/hive.go/app v0.0.0-00010101000000-000000000000
	github.com/iotaledger/hive.go/constraints v0.0.0
	github.com/iotaledger/hive.go/core v0.0.0-00010101000000-000000000000
	github.com/iotaledger/hive.go/ds v0.0.0
	github.com/iotaledger/hive.go/ierrors v0.0.0
	github.com/iotaledger/hive.go/kvstore v0.0.0
	github.com/iotaledger/hive.go/lo v0.0.0
	github.com/iotaledger/hive.go/runtime v0.0.0
	github.com/iotaledger/hive.go/serializer/v2 v2.0.0
	github.com/iotaledger/hive.go/web v0.0.0-00010101000000-000000000000
	github.com/pokt-network/smt v0.9.2
)

require (
	github.com/ethereum/go-ethereum v1.13.14 // indirect
	github.com/holiman/uint256 v1.2.4 // indirect
	github.com/iancoleman/orderedmap v0.3.0 // indirect
	github.com/iotaledger/hive.go/log v0.0.0-20240325125531-49f04658265e // indirect
	github.com/iotaledger/hive.go/stringify v0.0.0-20240315104458-b689cbcfddbd // indirect
	github.com/kr/text v0.2.0 // indirect
	github.com/petermattis/goid v0.0.0-20231207134359-e60b3f734c67 // indirect
	github.com/sasha-s/go-deadlock v0.3.1 // indirect
)

replace (
	github.com/iotaledger/hive.go/ads => /repo/ads
	github.com/iotaledger/hive.go/app => /repo/app
	github.com/iotaledger/hive.go/apputils => /repo/apputils
	github.com/iotaledger/hive.go/codegen => /repo/codegen
	github.com/iotaledger/hive.go/constraints => /repo/constraints
	github.com/iotaledger/hive.go/core => /repo/core
	github.com/iotaledger/hive.go/crypto => /repo/crypto
	github.com/iotaledger/hive.go/db => /repo/db
	github.com/iotaledger/hive.go/ds => /repo/ds
	github.com/iotaledger/hive.go/ierrors => /repo/ierrors
	github.com/iotaledger/hive.go/kvstore => /repo/kvstore
	github.com/iotaledger/hive.go/lo => /repo/lo
	github.com/iotaledger/hive.go/log => /repo/log
	github.com/iotaledger/hive.go/logger => /repo/logger
	github.com/iotaledger/hive.go/runtime => /repo/runtime
	github.com/iotaledger/hive.go/serializer/v2 => /repo/serializer
	github.com/iotaledger/hive.go/sql => /repo/sql
	github.com/iotaledger/hive.go/stringify => /repo/stringify
	github.com/iotaledger/hive.go/web => /repo/web
)
