// C10 correspondence harness: three-way differential of ds.List (both flavours) against the Lean
// pointer-level model (Hive/Model/DList.lean, through the op/answer lines) and against Go's
// container/list executed here on the same history (the independent oracle the property names).
//
// A case is a history over two lists A and B.  It is executed on three "worlds": hive with the
// flavours chosen by the case's sub-seed, hive with the complementary flavours, and container/list.
// After every operation every world is observed completely (Len, Front, Back, Values, reverse
// values, and Prev/Next/Value of every handle ever created, removed ones included); any difference
// between a hive world and container/list is a property-oracle failure.  The answers of the first
// hive world are what the Lean driver has to reproduce line by line.
//
// Handles are named by allocation order (3, 4, ...; 1 and 2 are the sentinels in the Lean model), the
// elements created by PushBackList/PushFrontList are discovered by walking and named in the order the
// library allocates them.  Handles that were live when Init was called on their list ("stale") are "wild":
// the Lean theorems exclude them by hypothesis, so from the first such call on a case continues two-way
// (hive vs container/list) and no further lines are sent to Lean.  Both libraries run the same splices on the
// same stale pointers, so the comparison (Len, Front, Back, Values, reverse walk, every handle) goes on through
// further Init / pushes / stale calls, corrupted rings and negative Len included; a case ends only where the
// two representations are not the same pointer program or nothing can be observed: a whole-list push over a
// ring that is not observably a list (it would read the sentinel's value), a walk that never returns to the
// sentinel, a panic inside the reference, a nil / never-named handle.
//
// After the sequential cases the thread-safe flavour gets a concurrent smoke part (stress rounds and forced
// two-writer schedules behind a parked reader) with its own oracle: no panic, no deadlock, and at quiescence a
// well-formed ring whose length is Len and whose elements are exactly inserted minus removed.
//
// conc.go: recorded concurrent histories of the thread-safe flavour (forced schedules for every mutating method queued
// behind a parked reader, stress rounds), each judged for linearizability against container/list here and by the Lean
// driver (`lin` lines); whole-list pushes of long sources under polling observers; two thread-safe lists (a source
// that is modified during the push, lists pushing each other).
package main

import (
	"container/list"
	"crypto/sha256"
	"fmt"
	"os"
	"runtime"
	"sort"
	"strconv"
	"strings"
	"sync"
	"sync/atomic"
	"time"

	"verifharness/hx"

	"github.com/iotaledger/hive.go/ds"
)

// region adapters /////////////////////////////////////////////////////////////////////////////////

// listAPI is the common surface of both libraries; elements travel as `any` (nil = no element).
type listAPI interface {
	Init()
	Len() int
	Front() any
	Back() any
	PushFront(v int) any
	PushBack(v int) any
	Remove(e any) int
	InsertBefore(v int, m any) any
	InsertAfter(v int, m any) any
	MoveToFront(e any)
	MoveToBack(e any)
	MoveBefore(e, m any)
	MoveAfter(e, m any)
	PushBackList(o listAPI)
	PushFrontList(o listAPI)
	// Walk / RevWalk: the values met by the library's own forward / backward traversal, never more than cap
	// steps; cyc reports that the traversal did not end within the bound (the ring is cyclic).
	Walk(cap int) (vals []int, cyc bool)
	RevWalk(cap int) (vals []int, cyc bool)
	// Abort: ForEach (rev: ForEachReverse) with a callback that fails at its k-th call: the values the callback
	// received and "err" (the traversal ended with exactly that error) / "ok" (it ended with nil).
	Abort(k int, rev bool) (vals []int, how string)
	Prev(e any) any
	Next(e any) any
	Value(e any) int
}

type hiveL struct{ l ds.List[int] }

var tsCalls int

// newTS creates a thread-safe list through each of the spellings that must give one: NewList(), NewList(false),
// NewList(false, true) (only the first optional argument counts).
func newTS() ds.List[int] {
	tsCalls++
	switch tsCalls % 3 {
	case 1:
		return ds.NewList[int](false)
	case 2:
		return ds.NewList[int](false, true)
	}

	return ds.NewList[int]()
}

// flavourSelection: which implementation NewList hands out for every spelling of the optional argument.
func flavourSelection(r *hx.Run) {
	for _, c := range []struct {
		name string
		l    ds.List[int]
		want string
	}{
		{"NewList()", ds.NewList[int](), "*ds.threadSafeList[int]"},
		{"NewList(false)", ds.NewList[int](false), "*ds.threadSafeList[int]"},
		{"NewList(true)", ds.NewList[int](true), "*ds.list[int]"},
		{"NewList(false, true)", ds.NewList[int](false, true), "*ds.threadSafeList[int]"},
		{"NewList(true, false)", ds.NewList[int](true, false), "*ds.list[int]"},
	} {
		got := fmt.Sprintf("%T", c.l)
		r.Count("flavour:" + c.name)
		if got != c.want {
			r.Fail("flavour-selection", fmt.Sprintf("%s returns a %s, want %s", c.name, got, c.want),
				map[string]string{"part": "constructor", "call": c.name, "got": got})
		}
		// a fresh list of either flavour is an initialised empty list
		if c.l.Len() != 0 || c.l.Front() != nil || c.l.Back() != nil || len(c.l.Values()) != 0 {
			r.Fail("flavour-selection", c.name+": a fresh list is not empty", map[string]string{"part": "constructor", "call": c.name, "got": "non-empty"})
		}
		// the flavours differ in behaviour, whatever the type is called: while a Range callback is parked, a PushBack
		// on the thread-safe list has to wait, on the lock-free list it goes through
		ts := strings.Contains(c.want, "threadSafe")
		if got := writerWaitsForReader(c.l, ts); got != ts {
			r.Fail("flavour-selection", fmt.Sprintf("%s: a PushBack made while a Range callback is parked waits=%v, want %v", c.name, got, ts),
				map[string]string{"part": "constructor", "call": c.name, "got": fmt.Sprintf("waits=%v", got)})
		}
	}
}

// writerWaitsForReader: a Range callback is parked on the one element of l, a PushBack is started. Thread-safe
// expected: it must not have returned while the reader is parked (checked after a short pause: a writer that got
// through is through for good, so a slow machine cannot make this fail). Lock-free expected: it returns (generous
// bound).
func writerWaitsForReader(l ds.List[int], expectWait bool) (waits bool) {
	l.PushBack(1)
	parked, release, done := make(chan struct{}), make(chan struct{}), make(chan struct{})
	go l.Range(func(int) {
		select {
		case <-parked:
		default:
			close(parked)
			<-release
		}
	})
	<-parked
	go func() { defer close(done); _ = hx.Safely(func() { l.PushBack(2) }) }()
	bound := 20 * time.Second
	if expectWait {
		bound = 20 * time.Millisecond
	}
	select {
	case <-done:
		waits = false
	case <-time.After(bound):
		waits = true
	}
	close(release)
	select {
	case <-done:
	case <-time.After(20 * time.Second): // a PushBack that never returns is reported by the concurrent parts; do not hang here
	}

	return waits
}

func hel(e any) ds.ListElement[int] {
	if e == nil {
		return nil
	}

	return e.(ds.ListElement[int])
}

func hany(e ds.ListElement[int]) any {
	if e == nil {
		return nil
	}

	return e
}

func (a hiveL) Init()                         { a.l.Init() }
func (a hiveL) Len() int                      { return a.l.Len() }
func (a hiveL) Front() any                    { return hany(a.l.Front()) }
func (a hiveL) Back() any                     { return hany(a.l.Back()) }
func (a hiveL) PushFront(v int) any           { return hany(a.l.PushFront(v)) }
func (a hiveL) PushBack(v int) any            { return hany(a.l.PushBack(v)) }
func (a hiveL) Remove(e any) int              { return a.l.Remove(hel(e)) }
func (a hiveL) InsertBefore(v int, m any) any { return hany(a.l.InsertBefore(v, hel(m))) }
func (a hiveL) InsertAfter(v int, m any) any  { return hany(a.l.InsertAfter(v, hel(m))) }
func (a hiveL) MoveToFront(e any)             { a.l.MoveToFront(hel(e)) }
func (a hiveL) MoveToBack(e any)              { a.l.MoveToBack(hel(e)) }
func (a hiveL) MoveBefore(e, m any)           { a.l.MoveBefore(hel(e), hel(m)) }
func (a hiveL) MoveAfter(e, m any)            { a.l.MoveAfter(hel(e), hel(m)) }
func (a hiveL) PushBackList(o listAPI)        { a.l.PushBackList(o.(hiveL).l) }
func (a hiveL) PushFrontList(o listAPI)       { a.l.PushFrontList(o.(hiveL).l) }

var errBound = fmt.Errorf("step bound exceeded")

// Walk uses ForEach, whose callback can abort: hive's Values()/Range cannot be stopped and would allocate
// without end on a cyclic ring. Only when the bounded ForEach has ended are Values() and Range (the same
// pointer walk) called and required to agree with it.
func (a hiveL) Walk(cap int) ([]int, bool) {
	out := []int{}
	if err := a.l.ForEach(func(v int) error {
		if len(out) >= cap {
			return errBound
		}
		out = append(out, v)

		return nil
	}); err != nil {
		return out, true
	}
	vs := a.l.Values()
	n := 0
	a.l.Range(func(int) { n++ })
	if fmt.Sprint(vs) != fmt.Sprint(out) || n != len(out) {
		return append(out, -999999), false // Values()/Range disagree with ForEach: shows up as a difference
	}
	// the slice Values() returns belongs to the caller: scribbling over it changes neither the list nor what the
	// next call returns
	for i := range vs {
		vs[i] = -555555
	}
	if len(vs) > 0 {
		_ = append(vs[:0], -555555)
	}
	if vs2 := a.l.Values(); fmt.Sprint(vs2) != fmt.Sprint(out) {
		return append(out, -888888), false
	}
	for i := range vs {
		if vs[i] != -555555 {
			return append(out, -888887), false // a later Values() call wrote into the slice an earlier one returned
		}
	}

	return out, false
}

func (a hiveL) RevWalk(cap int) ([]int, bool) {
	out := []int{}
	if err := a.l.ForEachReverse(func(v int) error {
		if len(out) >= cap {
			return errBound
		}
		out = append(out, v)

		return nil
	}); err != nil {
		return out, true
	}
	n := 0
	a.l.RangeReverse(func(int) { n++ })
	if n != len(out) {
		return append(out, -999999), false
	}

	return out, false
}

var errAbort = fmt.Errorf("callback failed")

func (a hiveL) Abort(k int, rev bool) ([]int, string) {
	out := []int{}
	cb := func(v int) error {
		out = append(out, v)
		if len(out) == k {
			return errAbort
		}
		if len(out) > k {
			out = append(out, -777777) // called again after it had failed

			return errAbort
		}

		return nil
	}
	var err error
	if rev {
		err = a.l.ForEachReverse(cb)
	} else {
		err = a.l.ForEach(cb)
	}
	switch {
	case err == nil:
		return out, "ok"
	case err == errAbort: //nolint:errorlint // identity: the callback's own error must come back unwrapped
		return out, "err"
	}

	return out, "other-error"
}

func (a hiveL) Prev(e any) any  { return hany(hel(e).Prev()) }
func (a hiveL) Next(e any) any  { return hany(hel(e).Next()) }
func (a hiveL) Value(e any) int { return hel(e).Value() }

type stdL struct{ l *list.List }

func sel(e any) *list.Element {
	if e == nil {
		return nil
	}

	return e.(*list.Element)
}

// ival reads an element value; the sentinel (reachable only after a stale handle corrupted the ring) has
// none and reads as the zero value, which is what hive's Value() returns for it.
func ival(v any) int {
	n, _ := v.(int)

	return n
}

func sany(e *list.Element) any {
	if e == nil {
		return nil
	}

	return e
}

func (a stdL) Init()                         { a.l.Init() }
func (a stdL) Len() int                      { return a.l.Len() }
func (a stdL) Front() any                    { return sany(a.l.Front()) }
func (a stdL) Back() any                     { return sany(a.l.Back()) }
func (a stdL) PushFront(v int) any           { return sany(a.l.PushFront(v)) }
func (a stdL) PushBack(v int) any            { return sany(a.l.PushBack(v)) }
func (a stdL) Remove(e any) int              { return ival(a.l.Remove(sel(e))) }
func (a stdL) InsertBefore(v int, m any) any { return sany(a.l.InsertBefore(v, sel(m))) }
func (a stdL) InsertAfter(v int, m any) any  { return sany(a.l.InsertAfter(v, sel(m))) }
func (a stdL) MoveToFront(e any)             { a.l.MoveToFront(sel(e)) }
func (a stdL) MoveToBack(e any)              { a.l.MoveToBack(sel(e)) }
func (a stdL) MoveBefore(e, m any)           { a.l.MoveBefore(sel(e), sel(m)) }
func (a stdL) MoveAfter(e, m any)            { a.l.MoveAfter(sel(e), sel(m)) }
func (a stdL) PushBackList(o listAPI)        { a.l.PushBackList(o.(stdL).l) }
func (a stdL) PushFrontList(o listAPI)       { a.l.PushFrontList(o.(stdL).l) }
func (a stdL) Walk(cap int) ([]int, bool) {
	out := []int{}
	for e := a.l.Front(); e != nil; e = e.Next() {
		if len(out) >= cap {
			return out, true
		}
		out = append(out, ival(e.Value))
	}

	return out, false
}

func (a stdL) RevWalk(cap int) ([]int, bool) {
	out := []int{}
	for e := a.l.Back(); e != nil; e = e.Prev() {
		if len(out) >= cap {
			return out, true
		}
		out = append(out, ival(e.Value))
	}

	return out, false
}
func (a stdL) Abort(k int, rev bool) ([]int, string) {
	out := []int{}
	e := a.l.Front()
	if rev {
		e = a.l.Back()
	}
	for e != nil {
		out = append(out, ival(e.Value))
		if len(out) == k {
			return out, "err"
		}
		if rev {
			e = e.Prev()
		} else {
			e = e.Next()
		}
	}

	return out, "ok"
}

func (a stdL) Prev(e any) any  { return sany(sel(e).Prev()) }
func (a stdL) Next(e any) any  { return sany(sel(e).Next()) }
func (a stdL) Value(e any) int { return ival(sel(e).Value) }

// endregion ///////////////////////////////////////////////////////////////////////////////////////

// region world ////////////////////////////////////////////////////////////////////////////////////

const watchdog = 2 * time.Second

type runner struct {
	in  chan func()
	out chan string
}

func newRunner() *runner {
	r := &runner{in: make(chan func()), out: make(chan string, 1)}
	go func() {
		for f := range r.in {
			r.out <- hx.Safely(f)
		}
	}()

	return r
}

type world struct {
	name    string
	flavour [2]string // "ts" | "lf" | "std"
	l       [2]listAPI
	h       map[int]any
	n       map[any]int
	fresh   int
	run     *runner // nil: calls are made directly
	dead    bool    // a call did not return
}

func newHive(name string, lockFreeA, lockFreeB bool) *world {
	fl := func(b bool) string {
		if b {
			return "lf"
		}

		return "ts"
	}

	return &world{name: name, flavour: [2]string{fl(lockFreeA), fl(lockFreeB)},
		l: [2]listAPI{hiveL{ds.NewList[int](lockFreeA)}, hiveL{ds.NewList[int](lockFreeB)}},
		h: map[int]any{}, n: map[any]int{}, fresh: 3, run: newRunner()}
}

func newStd() *world {
	return &world{name: "container/list", flavour: [2]string{"std", "std"},
		l: [2]listAPI{stdL{list.New()}, stdL{list.New()}}, h: map[int]any{}, n: map[any]int{}, fresh: 3}
}

func (w *world) close() {
	if w.run != nil && !w.dead {
		close(w.run.in)
	}
}

// guarded runs f (recovering panics); on a hive world under the watchdog.
func (w *world) guarded(f func()) (panicked string, timedOut bool) {
	if w.run == nil {
		return hx.Safely(f), false
	}
	w.run.in <- f
	select {
	case p := <-w.run.out:
		return p, false
	case <-time.After(watchdog):
	}
	// not back after 2 s: a deadlock, or a machine so loaded that the worker goroutine was not scheduled — a slow
	// machine is not a violation, so the call gets a generous second chance before it is declared blocked
	select {
	case p := <-w.run.out:
		slowCalls++

		return p, false
	case <-time.After(10 * watchdog):
		w.dead = true

		return "", true
	}
}

var slowCalls int

func (w *world) reg(e any, id int) {
	if e == nil {
		return
	}
	if _, ok := w.n[e]; ok {
		return
	}
	w.n[e] = id
	w.h[id] = e
}

func (w *world) nm(e any) string {
	if e == nil {
		return "-"
	}
	if id, ok := w.n[e]; ok {
		return strconv.Itoa(id)
	}

	return "?"
}

func li(s string) int {
	if s == "B" {
		return 1
	}

	return 0
}

func atoi(s string) int {
	n, _ := strconv.Atoi(s)

	return n
}

// apply executes one op (no recovery here) and returns the canonical result.
func (w *world) apply(f []string) string {
	newH := func(e any) string {
		if e == nil {
			return "nil"
		}
		id := w.fresh
		w.fresh++
		w.reg(e, id)

		return "h " + strconv.Itoa(id)
	}
	l := w.l[li(f[1])]
	switch f[0] {
	case "pf":
		return newH(l.PushFront(atoi(f[2])))
	case "pb":
		return newH(l.PushBack(atoi(f[2])))
	case "rm":
		return "v " + strconv.Itoa(l.Remove(w.h[atoi(f[2])]))
	case "ib":
		return newH(l.InsertBefore(atoi(f[2]), w.h[atoi(f[3])]))
	case "ia":
		return newH(l.InsertAfter(atoi(f[2]), w.h[atoi(f[3])]))
	case "mf":
		l.MoveToFront(w.h[atoi(f[2])])
	case "mb":
		l.MoveToBack(w.h[atoi(f[2])])
	case "mvb":
		l.MoveBefore(w.h[atoi(f[2])], w.h[atoi(f[3])])
	case "mva":
		l.MoveAfter(w.h[atoi(f[2])], w.h[atoi(f[3])])
	case "pbl":
		o := w.l[li(f[2])]
		n := o.Len()
		l.PushBackList(o)
		// allocated in list order, each appended at the back: the j-th from the back is fresh+n-1-j
		cur := l.Back()
		for j := 0; j < n && cur != nil; j++ {
			w.reg(cur, w.fresh+n-1-j)
			cur = l.Prev(cur)
		}
		w.fresh += n
	case "pfl":
		o := w.l[li(f[2])]
		n := o.Len()
		l.PushFrontList(o)
		// allocated from other's back to its front, each pushed to the front: position j is fresh+n-1-j
		cur := l.Front()
		for j := 0; j < n && cur != nil; j++ {
			w.reg(cur, w.fresh+n-1-j)
			cur = l.Next(cur)
		}
		w.fresh += n
	case "init":
		l.Init()
	case "fe", "fer":
		vals, how := l.Abort(atoi(f[2]), f[0] == "fer")

		return how + " " + ints(vals)
	default:
		return "bad-op"
	}

	return "ok"
}

func ints(v []int) string {
	s := make([]string, len(v))
	for i, x := range v {
		s[i] = strconv.Itoa(x)
	}

	return "[" + strings.Join(s, " ") + "]"
}

// bound is the step bound of every traversal: no ring can have more nodes than were ever created.
func (w *world) bound() int { return 4*(w.fresh-3) + 8 }

func walked(vals []int, cyc bool) string {
	if cyc {
		return "cycle"
	}

	return ints(vals)
}

// observe prints everything the property talks about.
func (w *world) observe() string {
	var b strings.Builder
	for i, nm := range []string{"A", "B"} {
		l := w.l[i]
		fmt.Fprintf(&b, "%s %d f=%s b=%s %s %s ", nm, l.Len(), w.nm(l.Front()), w.nm(l.Back()), walked(l.Walk(w.bound())), walked(l.RevWalk(w.bound())))
	}
	b.WriteString("H")
	for id := 3; id < w.fresh; id++ {
		e, ok := w.h[id]
		if !ok {
			fmt.Fprintf(&b, " %d:?", id)

			continue
		}
		l := w.l[0]
		fmt.Fprintf(&b, " %d:%s:%s:%d", id, w.nm(l.Prev(e)), w.nm(l.Next(e)), l.Value(e))
	}
	if w.fresh == 3 {
		b.WriteString(" ")
	}

	return b.String()
}

// do = apply + observe, guarded.
func (w *world) do(f []string) (res, obs string) {
	if w.dead {
		return "dead", "dead"
	}
	p, to := w.guarded(func() { res = w.apply(f) })
	if to {
		return "deadlock", "dead"
	}
	if p != "" {
		res = "panic"
	}
	p, to = w.guarded(func() { obs = w.observe() })
	if to {
		return res, "deadlock"
	}
	if p != "" {
		obs = "panic"
	}

	return res, obs
}

// runaway reports a walk that does not come back to the sentinel (a cycle of stale elements): the
// libraries' own Values()/ForEach would not terminate, nothing can be observed any more.
func (w *world) runaway() bool {
	for i := 0; i < 2; i++ {
		l := w.l[i]
		n := 0
		for e := l.Front(); e != nil; e = l.Next(e) {
			if n++; n > w.bound() {
				return true
			}
		}
		n = 0
		for e := l.Back(); e != nil; e = l.Prev(e) {
			if n++; n > w.bound() {
				return true
			}
		}
	}

	return false
}

// sane reports whether list i is observably a list: Len, the forward walk and the backward walk agree and
// meet only element handles. Whole-list pushes are compared on a corrupted ring only when source and target
// are sane: the push reads the *value* of whatever the walk meets and the harness names the new elements by
// walking, and the sentinel (reachable on a corrupted ring) is where the two libraries' representations differ
// (nil value pointer vs nil interface) - the only place where they are not the same pointer program.
func (w *world) sane(i int) (ok bool) {
	if p := hx.Safely(func() {
		l := w.l[i]
		var fwd, bwd []any
		for e := l.Front(); e != nil && len(fwd) <= w.bound(); e = l.Next(e) {
			fwd = append(fwd, e)
		}
		for e := l.Back(); e != nil && len(bwd) <= w.bound(); e = l.Prev(e) {
			bwd = append(bwd, e)
		}
		if l.Len() != len(fwd) || len(fwd) != len(bwd) {
			return
		}
		for j, e := range fwd {
			if _, named := w.n[e]; !named || bwd[len(bwd)-1-j] != e {
				return
			}
		}
		ok = true
	}); p != "" {
		return false
	}

	return ok
}

// ids of the elements currently in list i (walk, bounded).
func (w *world) live(i int) []int {
	var out []int
	l := w.l[i]
	for e, n := l.Front(), 0; e != nil && n <= w.bound(); e, n = l.Next(e), n+1 {
		if id, ok := w.n[e]; ok { // the sentinel (reachable on a corrupted ring) is not a handle
			out = append(out, id)
		}
	}

	return out
}

// endregion ///////////////////////////////////////////////////////////////////////////////////////

// region cases ////////////////////////////////////////////////////////////////////////////////////

// tracker is the bookkeeping about handles that the generator and the case runner share; it is
// derived from the container/list world only.
type tracker struct {
	std     *world
	stale   map[int]bool
	tainted [2]bool // a stale handle was applied to the list since its last Init
}

func (t *tracker) kind(id int, l int) string {
	if id == 0 {
		return "nil"
	}
	if _, named := t.std.h[id]; id >= t.std.fresh || id < 3 || !named {
		return "unknown"
	}
	if t.stale[id] {
		return "stale"
	}
	for _, x := range t.std.live(l) {
		if x == id {
			return "live"
		}
	}
	for _, x := range t.std.live(1 - l) {
		if x == id {
			return "other"
		}
	}

	return "removed"
}

func handleArgs(f []string) []int {
	switch f[0] {
	case "rm", "mf", "mb":
		return []int{atoi(f[2])}
	case "ib", "ia":
		return []int{atoi(f[3])}
	case "mvb", "mva":
		return []int{atoi(f[2]), atoi(f[3])}
	}

	return nil
}

func (t *tracker) kinds(f []string) []string {
	var out []string
	for _, id := range handleArgs(f) {
		out = append(out, t.kind(id, li(f[1])))
	}

	return out
}

// before does the bookkeeping that has to precede the call: Init makes the list's elements stale and the
// list itself clean again (nothing is reachable from its sentinel any more); a call that hands list L a stale
// handle taints L until its next Init: its ring may be corrupted in ways no observation shows (Len == 0 hides
// a non-empty ring, Back() can be the sentinel while Front() is an element).
func (t *tracker) before(f []string, kinds []string) {
	l := li(f[1])
	if f[0] == "init" {
		for _, id := range t.std.live(l) {
			t.stale[id] = true
		}
		if t.tainted[l] {
			// on a tainted list the walk does not show every element whose list pointer is l (Len == 0 hides the
			// ring, elements inserted meanwhile may be unreachable): everything that is not visibly in the other
			// list counts as stale from here on
			other := map[int]bool{}
			if !t.tainted[1-l] {
				for _, id := range t.std.live(1 - l) {
					other[id] = true
				}
			}
			for id := 3; id < t.std.fresh; id++ {
				if !other[id] {
					t.stale[id] = true
				}
			}
		}
		t.tainted[l] = false

		return
	}
	for _, k := range kinds {
		if k == "stale" {
			t.tainted[l] = true
		}
	}
}

func noHandle(kinds []string) bool {
	for _, k := range kinds {
		if k == "nil" || k == "unknown" {
			return true
		}
	}

	return false
}

func isWild(kinds []string) bool {
	for _, k := range kinds {
		if k == "stale" || k == "nil" || k == "unknown" {
			return true
		}
	}

	return false
}

var deadlocks int

func runCase(r *hx.Run, sub uint64, ops []string) {
	r.Case(sub)
	lfA, lfB := sub&1 == 1, sub&2 == 2
	h0, h1, std := newHive("hive", lfA, lfB), newHive("hive'", !lfA, !lfB), newStd()
	defer h0.close()
	defer h1.close()
	t := &tracker{std: std, stale: map[int]bool{}}
	wild := false
	var trail []string
	opKinds := map[string]bool{}
	foreign, moved := 0, 0
	for _, op := range ops {
		f := strings.Fields(op)
		if len(f) == 0 || f[0] == "obs" || f[0] == "sched" {
			continue
		}
		if f[0] == "lin" {
			// replay of a recorded concurrent history: judged again against container/list after the setup lines
			if sub == 0 {
				var setup [][]string
				for _, o := range trail {
					setup = append(setup, strings.Fields(o))
				}
				replayLin(r, setup, f)
			}

			continue
		}
		kinds := t.kinds(f)
		if !wild && isWild(kinds) {
			wild = true
			r.Count("case:went-wild")
		}
		if wild && (f[0] == "pbl" || f[0] == "pfl") &&
			(t.tainted[li(f[1])] || t.tainted[li(f[2])] || !(std.sane(li(f[1])) && std.sane(li(f[2])))) {
			r.Count("case:stopped-pushlist-on-corrupt-ring")

			break
		}
		if noHandle(kinds) {
			// nil / never-named handles are not part of the property (hive's type assertion panics where
			// container/list returns early or dereferences nil)
			r.Count("case:stopped-no-handle")

			break
		}
		t.before(f, kinds)
		trail = append(trail, op)
		lastTrail.Store(strings.Join(trail, "; "))
		sres, sobs := std.do(f)
		if wild && std.runaway() {
			r.Count("case:stopped-runaway")

			break
		}
		res0, obs0 := h0.do(f)
		res1, obs1 := h1.do(f)
		if !wild || (sres != "panic" && res0 != "deadlock" && obs0 != "deadlock") {
			// three-way also after the first stale handle: the Lean model is the same pointer program (Int len,
			// bounded walks printing "cycle", sentinels shown as "?"), so it follows hive through corrupted rings
			if wild {
				r.Count("lean-lines:wild")
			}
			a, o := res0, obs0
			if res1 != res0 {
				a += " !other-flavour: " + res1
			}
			if obs1 != obs0 {
				o += " !other-flavour: " + obs1
			}
			r.Line(op, a)
			r.Line("obs", o)
		}
		r.Count("op:" + f[0])
		r.Count("ans:" + strings.Fields(sres)[0])
		for _, k := range kinds {
			r.Count("handle:" + k)
			if k == "other" || k == "removed" {
				foreign++
			}
		}
		if (f[0] == "mvb" || f[0] == "mva") && len(kinds) == 2 && kinds[0] == "live" && kinds[1] == "live" && f[2] != f[3] {
			moved++
		}
		if f[0] == "pbl" || f[0] == "pfl" {
			if f[1] == f[2] {
				r.Count("pushlist:self:" + h0.flavour[li(f[1])])
				r.Count("pushlist:self:" + h1.flavour[li(f[1])])
			} else {
				r.Count("pushlist:other")
			}
		}
		opKinds[f[0]] = true
		failed := false
		for _, hw := range []struct {
			w        *world
			res, obs string
		}{{h0, res0, obs0}, {h1, res1, obs1}} {
			what := ""
			switch {
			case hw.res == "deadlock" || hw.obs == "deadlock":
				what = "deadlock"
				deadlocks++
			case strings.Contains(hw.obs, "cycle") && !strings.Contains(sobs, "cycle"):
				what = "ring" // a traversal of the hive list does not come back to the sentinel
			case hw.res != sres && (hw.res == "panic" || sres == "panic"):
				what = "panic"
			case hw.res != sres:
				what = "result"
			case hw.obs != sobs:
				what = "observation"
			}
			if what == "" {
				continue
			}
			failed = true
			sig := map[string]string{"op": f[0], "handles": strings.Join(kinds, ","), "what": what,
				"flavour": hw.w.flavour[li(f[1])]}
			if f[0] == "pbl" || f[0] == "pfl" {
				sig["self"] = strconv.FormatBool(f[1] == f[2])
			}
			r.Fail("differs-from-container/list",
				fmt.Sprintf("%s (A:%s B:%s) after [%s]: result %q observation %q ; container/list: result %q observation %q",
					hw.w.name, hw.w.flavour[0], hw.w.flavour[1], strings.Join(trail, "; "), hw.res, hw.obs, sres, sobs), sig)
		}
		if failed {
			break
		}
		if wild && sres == "panic" {
			// both libraries panicked inside the same statement of the same splice; the half-done state was
			// compared above, nothing after it is meaningful
			r.Count("case:stopped-panic")

			break
		}
		if std.l[0].Len() > 0 || std.l[1].Len() > 0 {
			r.CountN("len-sum", std.l[0].Len()+std.l[1].Len())
		}
	}
	if len(opKinds) >= 5 && foreign >= 1 && moved >= 1 {
		h := sha256.Sum256([]byte(strings.Join(ops, "\n")))
		r.Nontrivial(string(h[:8]))
	}
	r.Sample(r.CaseLines())
}

// genCase simulates the history on a private container/list world to know which handles are live.
// mode 0: never passes a stale handle (three-way throughout); mode 1: occasionally; mode 2: stale-focused
// (frequent Init, then Remove/Move*/Insert* with handles that were live before it, further Init and pushes).
func genCase(rng *hx.Rng, n int, mode int) []string {
	wildOK := mode > 0
	stalePct, initPct := 20, 2
	if mode == 2 {
		stalePct, initPct = 50, 10
	}
	std := newStd()
	t := &tracker{std: std, stale: map[int]bool{}}
	var ops []string
	const maxLen = 8
	names := []string{"A", "B"}
	pick := func(l int) int {
		var live, other, removed, stale []int
		live, other = std.live(l), std.live(1-l)
		in := map[int]bool{}
		for _, x := range live {
			in[x] = true
		}
		for _, x := range other {
			in[x] = true
		}
		for id := 3; id < std.fresh; id++ {
			if _, named := std.h[id]; in[id] || !named {
				continue
			}
			if t.stale[id] {
				stale = append(stale, id)
			} else {
				removed = append(removed, id)
			}
		}
		x := rng.Intn(100)
		switch {
		case wildOK && x < stalePct && len(stale) > 0:
			return hx.Pick(rng, stale)
		case x < 32 && len(other) > 0:
			return hx.Pick(rng, other)
		case x < 45 && len(removed) > 0:
			return hx.Pick(rng, removed)
		case len(live) > 0:
			return hx.Pick(rng, live)
		case len(other) > 0:
			return hx.Pick(rng, other)
		case len(removed) > 0:
			return hx.Pick(rng, removed)
		}

		return -1
	}
	for len(ops) < n {
		l := rng.Intn(2)
		if rng.Chance(2, 3) {
			l = 0
		}
		L := names[l]
		room := std.l[l].Len() < maxLen
		v := rng.Intn(50)
		var op string
		switch x := rng.Intn(98 + initPct); {
		case x < 9:
			op = fmt.Sprintf("pf %s %d", L, v)
		case x < 20:
			op = fmt.Sprintf("pb %s %d", L, v)
		case x < 30:
			op = fmt.Sprintf("rm %s %d", L, pick(l))
		case x < 38:
			op = fmt.Sprintf("ib %s %d %d", L, v, pick(l))
		case x < 46:
			op = fmt.Sprintf("ia %s %d %d", L, v, pick(l))
		case x < 52:
			op = fmt.Sprintf("mf %s %d", L, pick(l))
		case x < 58:
			op = fmt.Sprintf("mb %s %d", L, pick(l))
		case x < 72:
			op = fmt.Sprintf("mvb %s %d %d", L, pick(l), pick(l))
		case x < 86:
			op = fmt.Sprintf("mva %s %d %d", L, pick(l), pick(l))
		case x < 92:
			o := rng.Intn(2)
			op = fmt.Sprintf("pbl %s %s", L, names[o])
			room = std.l[l].Len()+std.l[o].Len() <= maxLen
		case x < 98:
			o := rng.Intn(2)
			op = fmt.Sprintf("pfl %s %s", L, names[o])
			room = std.l[l].Len()+std.l[o].Len() <= maxLen
		default:
			op = fmt.Sprintf("init %s", L)
		}
		if rng.Chance(1, 12) {
			// a traversal whose callback fails at its k-th call (k beyond the end: never)
			k := 1 + rng.Intn(std.l[l].Len()+2)
			if std.l[l].Len() < 0 || k > 12 {
				k = 1 + rng.Intn(12)
			}
			op = fmt.Sprintf("%s %s %d", hx.Pick(rng, []string{"fe", "fer"}), L, k)
		}
		f := strings.Fields(op)
		if strings.Contains(op, "-1") {
			continue // no handle exists yet
		}
		if mode == 2 && (f[0] == "pbl" || f[0] == "pfl") && rng.Chance(3, 4) {
			continue // stale-focused cases end at a whole-list push over a corrupted ring: keep those rare
		}
		if !room && (f[0] == "pf" || f[0] == "pb" || f[0] == "ib" || f[0] == "ia" || f[0] == "pbl" || f[0] == "pfl") {
			continue
		}
		t.before(f, t.kinds(f))
		std.do(f)
		ops = append(ops, op)
	}

	return ops
}

// endregion ///////////////////////////////////////////////////////////////////////////////////////

// region concurrent smoke (thread-safe flavour) ///////////////////////////////////////////////////////

// checkQuiescent: at quiescence the thread-safe list must be a well-formed ring whose length is Len and whose
// elements are exactly those inserted minus those on which Remove was called (every value is unique).
func checkQuiescent(r *hx.Run, mode string, l ds.List[int], inserted, removed map[int]bool) {
	fail := func(what, detail string) {
		r.Fail("thread-safe-list-concurrent", mode+": "+detail, map[string]string{"part": "concurrent", "mode": mode, "what": what})
	}
	// every traversal is bounded: a ring cannot have more nodes than were inserted (plus slack)
	bound := 4*len(inserted) + 8
	var fwd, bwd []int
	if p := hx.Safely(func() {
		for e := l.Front(); e != nil && len(fwd) <= bound; e = e.Next() {
			fwd = append(fwd, e.Value())
		}
		for e := l.Back(); e != nil && len(bwd) <= bound; e = e.Prev() {
			bwd = append(bwd, e.Value())
		}
	}); p != "" {
		fail("panic", "walking the list at quiescence panicked: "+p)

		return
	}
	if len(fwd) > bound || len(bwd) > bound {
		fail("ring", fmt.Sprintf("cycle: a walk did not come back to the sentinel within %d steps (%d elements were inserted)", bound, len(inserted)))

		return // Values()/Range of the list itself would never end
	}
	if len(fwd) != len(bwd) {
		fail("ring", fmt.Sprintf("forward walk has %d elements, backward walk %d", len(fwd), len(bwd)))

		return
	}
	for i := range fwd {
		if fwd[i] != bwd[len(bwd)-1-i] {
			fail("ring", fmt.Sprintf("backward walk is not the reverse of the forward walk at %d", i))

			return
		}
	}
	if l.Len() != len(fwd) {
		fail("len", fmt.Sprintf("Len()=%d but the ring has %d elements", l.Len(), len(fwd)))
	}
	if vs := l.Values(); len(vs) != len(fwd) {
		fail("len", fmt.Sprintf("Values() has %d entries, the ring %d", len(vs), len(fwd)))
	}
	var want []int
	for v := range inserted {
		if !removed[v] {
			want = append(want, v)
		}
	}
	got := append([]int(nil), fwd...)
	sort.Ints(want)
	sort.Ints(got)
	if fmt.Sprint(want) != fmt.Sprint(got) {
		fail("multiset", fmt.Sprintf("elements at quiescence %v, expected inserted minus removed %v", got, want))
	}
}

// stressRound: goroutines doing PushBack/InsertAfter/Remove/Move*/reads on a small window of shared handles.
func stressRound(r *hx.Run, rng *hx.Rng, goroutines, opsEach int) (ops int) {
	l := newTS()
	var mu sync.Mutex
	var pool []ds.ListElement[int]
	inserted, removed := map[int]bool{}, map[int]bool{}
	var nextVal atomic.Int64
	var panics atomic.Int64
	publish := func(e ds.ListElement[int], v int) {
		mu.Lock()
		inserted[v] = true
		pool = append(pool, e)
		mu.Unlock()
	}
	pick := func(g *hx.Rng) ds.ListElement[int] {
		mu.Lock()
		defer mu.Unlock()
		if len(pool) == 0 {
			return nil
		}
		w := 6
		if len(pool) < w {
			w = len(pool)
		}

		return pool[len(pool)-1-g.Intn(w)]
	}
	for i := 0; i < 4; i++ {
		v := int(nextVal.Add(1))
		publish(l.PushBack(v), v)
	}
	var wg sync.WaitGroup
	for gi := 0; gi < goroutines; gi++ {
		g, _ := rng.Fork()
		wg.Add(1)
		go func() {
			defer wg.Done()
			for k := 0; k < opsEach; k++ {
				x := g.Intn(100)
				e, m := pick(g), pick(g)
				what := ""
				if p := hx.Safely(func() {
					switch {
					case x < 22:
						what = "PushBack"
						v := int(nextVal.Add(1))
						publish(l.PushBack(v), v)
					case x < 38:
						what = "InsertAfter"
						v := int(nextVal.Add(1))
						if n := l.InsertAfter(v, m); n != nil {
							publish(n, v)
						}
					case x < 66:
						what = "Remove"
						v := l.Remove(e)
						mu.Lock()
						removed[v] = true
						mu.Unlock()
					case x < 76:
						what = "MoveToFront"
						l.MoveToFront(e)
					case x < 82:
						what = "MoveToBack"
						l.MoveToBack(e)
					case x < 88:
						what = "MoveBefore"
						l.MoveBefore(e, m)
					case x < 94:
						what = "MoveAfter"
						l.MoveAfter(e, m)
					default:
						what = "read"
						_ = l.Len()
						n := 0
						_ = l.ForEach(func(int) error { // bounded: Values()/Range cannot be stopped on a cyclic ring
							if n++; n > 4*goroutines*opsEach+64 {
								return errBound
							}

							return nil
						})
						if f := l.Front(); f != nil {
							_ = f.Next()
						}
					}
				}); p != "" {
					if panics.Add(1) <= 3 {
						r.Fail("thread-safe-list-concurrent", "stress: "+what+" panicked: "+p,
							map[string]string{"part": "concurrent", "mode": "stress", "what": "panic", "op": what})
					}
				}
			}
		}()
	}
	done := make(chan struct{})
	go func() { wg.Wait(); close(done) }()
	select {
	case <-done:
	case <-time.After(30 * time.Second):
		r.Fail("thread-safe-list-concurrent", "stress: goroutines still blocked after 30s",
			map[string]string{"part": "concurrent", "mode": "stress", "what": "deadlock"})

		return 0
	}
	if panics.Load() == 0 {
		checkQuiescent(r, "stress", l, inserted, removed)
	}

	return goroutines * opsEach
}

// forcedPair parks a Range/ForEach callback (holding the read lock), starts two writers on the same handle b
// of [a b c], lets both reach the mutex, releases the reader, and checks the outcome.
func forcedPair(r *hx.Run, variant string, useForEach bool) {
	mode := "forced:" + variant
	l := newTS()
	a, b := l.PushBack(1), l.PushBack(2)
	l.PushBack(3)
	inserted, removed := map[int]bool{1: true, 2: true, 3: true}, map[int]bool{2: true}
	parked, release, readerDone := make(chan struct{}), make(chan struct{}), make(chan struct{})
	go func() {
		defer close(readerDone)
		first := true
		cb := func(int) {
			if first {
				first = false
				close(parked)
				<-release
			}
		}
		if useForEach {
			_ = l.ForEach(func(v int) error { cb(v); return nil })
		} else {
			l.Range(cb)
		}
	}()
	<-parked
	var imu sync.Mutex
	second := func() {
		switch variant {
		case "remove-remove":
			l.Remove(b)
		case "remove-movetofront":
			l.MoveToFront(b)
		case "remove-movebefore":
			l.MoveBefore(b, a)
		case "remove-insertafter":
			if n := l.InsertAfter(4, b); n != nil {
				imu.Lock()
				inserted[4] = true
				imu.Unlock()
			}
		}
	}
	results := make(chan string, 2)
	go func() { results <- hx.Safely(func() { l.Remove(b) }) }()
	go func() { results <- hx.Safely(second) }()
	time.Sleep(5 * time.Millisecond) // both writers have done whatever they do before Lock() and queue on the mutex
	close(release)
	for i := 0; i < 2; i++ {
		select {
		case p := <-results:
			if p != "" {
				r.Fail("thread-safe-list-concurrent", mode+": a writer panicked: "+p,
					map[string]string{"part": "concurrent", "mode": mode, "what": "panic"})

				return
			}
		case <-time.After(10 * time.Second):
			r.Fail("thread-safe-list-concurrent", mode+": writers still blocked 10s after the reader was released",
				map[string]string{"part": "concurrent", "mode": mode, "what": "deadlock"})

			return
		}
	}
	select {
	case <-readerDone:
	case <-time.After(10 * time.Second):
		r.Fail("thread-safe-list-concurrent", mode+": the released reader did not finish its traversal within 10s",
			map[string]string{"part": "concurrent", "mode": mode, "what": "ring"})

		return
	}
	checkQuiescent(r, mode, l, inserted, removed)
}

func concurrentSmoke(r *hx.Run) {
	rounds, forced := 40, 6
	if r.Scale > 1 {
		rounds, forced = 400, 40
	}
	ops := 0
	for i := 0; i < rounds; i++ {
		rng, _ := r.Rng.Fork()
		ops += stressRound(r, rng, 8, 250)
	}
	for i := 0; i < forced; i++ {
		for _, v := range []string{"remove-remove", "remove-movetofront", "remove-movebefore", "remove-insertafter"} {
			forcedPair(r, v, i%2 == 1)
			r.Count("conc:forced:" + v)
		}
	}
	r.CountN("conc:stress-rounds", rounds)
	r.CountN("conc:stress-ops", ops)
}

// endregion ///////////////////////////////////////////////////////////////////////////////////////

// region reader snapshots (thread-safe flavour) ///////////////////////////////////////////////////////

var readerKinds = []string{"Range", "ForEach", "Values", "RangeReverse", "ForEachReverse"}

func isReverse(kind string) bool { return strings.HasSuffix(kind, "Reverse") }

// readOnce makes one reader call. The callback dawdles (yields, short sleeps) so that writers queue on the
// mutex while the traversal is under way, and stops collecting at the step bound; park, if non-nil, is called
// once at element parkAt (forced schedules).
func readOnce(l ds.List[int], kind string, bound int, parkAt int, park func()) (got []int, cyc bool) {
	n := 0
	cb := func(v int) bool {
		if len(got) >= bound {
			cyc = true

			return false
		}
		got = append(got, v)
		n++
		if park != nil && n == parkAt {
			park()
		}
		if n%37 == 0 {
			runtime.Gosched()
		}
		if n%211 == 0 {
			time.Sleep(20 * time.Microsecond)
		}

		return true
	}
	each := func(v int) error {
		if !cb(v) {
			return errBound
		}

		return nil
	}
	switch kind {
	case "Range":
		l.Range(func(v int) { cb(v) })
	case "RangeReverse":
		l.RangeReverse(func(v int) { cb(v) })
	case "ForEach":
		_ = l.ForEach(each)
	case "ForEachReverse":
		_ = l.ForEachReverse(each)
	case "Values":
		got = l.Values()
	}

	return got, cyc
}

type readRec struct {
	kind   string
	vs, ve int // writer version before / after the call
	got    []int
	cyc    bool
}

func sameInts(a, b []int, reversed bool) bool {
	if len(a) != len(b) {
		return false
	}
	for i := range a {
		j := i
		if reversed {
			j = len(b) - 1 - i
		}
		if a[i] != b[j] {
			return false
		}
	}

	return true
}

// describe says how a delivered sequence differs from a state (duplicates, missing, extra).
func describe(got, state []int) string {
	seen, in := map[int]int{}, map[int]bool{}
	for _, v := range got {
		seen[v]++
	}
	for _, v := range state {
		in[v] = true
	}
	dup, missing, extra := 0, 0, 0
	for v, c := range seen {
		if c > 1 {
			dup++
		}
		if !in[v] {
			extra++
		}
	}
	for _, v := range state {
		if seen[v] == 0 {
			missing++
		}
	}

	return fmt.Sprintf("delivered %d values (list had %d at the start of the call): %d delivered twice, %d missing, %d not in that state",
		len(got), len(state), dup, missing, extra)
}

// snapshotRound: a long list, writers (serialised by the harness so that the sequence of list states is known)
// doing moves / removes / pushes, readers calling Range / ForEach / Values / reverse variants. What one reader
// call delivers must be exactly one of the states the list went through between the start and the end of that call.
func snapshotRound(r *hx.Run, rng *hx.Rng, n, readers, readsEach, writers, writesEach int) bool {
	const mode = "snapshot-stress"
	l := newTS()
	elems := map[int]ds.ListElement[int]{}
	var cur []int
	for v := 1; v <= n; v++ {
		elems[v] = l.PushBack(v)
		cur = append(cur, v)
	}
	states := [][]int{append([]int(nil), cur...)}
	var version atomic.Int64
	var hmu sync.Mutex
	nextVal := n
	bound := 4*(n+writers*writesEach) + 8
	var recMu sync.Mutex
	var recs []readRec
	var panics atomic.Int64
	var wg sync.WaitGroup
	for wi := 0; wi < writers; wi++ {
		g, _ := rng.Fork()
		wg.Add(1)
		go func() {
			defer wg.Done()
			for k := 0; k < writesEach; k++ {
				if p := hx.Safely(func() {
					hmu.Lock()
					defer hmu.Unlock()
					x := cur[g.Intn(len(cur))]
					without := func() []int {
						out := make([]int, 0, len(cur))
						for _, v := range cur {
							if v != x {
								out = append(out, v)
							}
						}

						return out
					}
					switch y := g.Intn(100); {
					case y < 35:
						l.MoveToFront(elems[x])
						cur = append([]int{x}, without()...)
					case y < 70:
						l.MoveToBack(elems[x])
						cur = append(without(), x)
					case y < 80 && len(cur) > n/2:
						l.Remove(elems[x])
						cur = without()
					case y < 90:
						nextVal++
						elems[nextVal] = l.PushFront(nextVal)
						cur = append([]int{nextVal}, cur...)
					default:
						nextVal++
						elems[nextVal] = l.PushBack(nextVal)
						cur = append(append([]int(nil), cur...), nextVal)
					}
					states = append(states, append([]int(nil), cur...))
					version.Add(1)
				}); p != "" && panics.Add(1) <= 2 {
					r.Fail("thread-safe-list-concurrent", mode+": a writer panicked: "+p,
						map[string]string{"part": "concurrent", "mode": mode, "what": "panic"})
				}
				time.Sleep(time.Duration(g.Intn(60)) * time.Microsecond)
			}
		}()
	}
	for ri := 0; ri < readers; ri++ {
		g, _ := rng.Fork()
		wg.Add(1)
		go func() {
			defer wg.Done()
			for k := 0; k < readsEach; k++ {
				kind := hx.Pick(g, readerKinds)
				rec := readRec{kind: kind, vs: int(version.Load())}
				if p := hx.Safely(func() { rec.got, rec.cyc = readOnce(l, kind, bound, 0, nil) }); p != "" {
					if panics.Add(1) <= 2 {
						r.Fail("thread-safe-list-concurrent", mode+": "+kind+" panicked: "+p,
							map[string]string{"part": "concurrent", "mode": mode, "what": "panic", "reader": kind})
					}

					continue
				}
				rec.ve = int(version.Load())
				recMu.Lock()
				recs = append(recs, rec)
				recMu.Unlock()
			}
		}()
	}
	done := make(chan struct{})
	go func() { wg.Wait(); close(done) }()
	select {
	case <-done:
	case <-time.After(30 * time.Second):
		r.Fail("thread-safe-list-concurrent", mode+": readers/writers still blocked after 30s (a reader or writer call did not return)",
			map[string]string{"part": "concurrent", "mode": mode, "what": "deadlock"})

		return false
	}
	bad := 0
	for _, rec := range recs {
		if rec.cyc {
			r.Fail("thread-safe-list-concurrent", mode+": "+rec.kind+" did not end within the step bound",
				map[string]string{"part": "concurrent", "mode": mode, "what": "ring", "reader": rec.kind})

			continue
		}
		// the list operation of version ve+1 may already have happened when ve was read
		ok := false
		for k := rec.vs; k <= rec.ve+1 && k < len(states); k++ {
			if sameInts(rec.got, states[k], isReverse(rec.kind)) {
				ok = true

				break
			}
		}
		if !ok {
			if bad++; bad <= 3 {
				r.Fail("thread-safe-list-concurrent",
					fmt.Sprintf("%s: one %s call is not a snapshot of any of the %d list states during the call; %s",
						mode, rec.kind, rec.ve+1-rec.vs+1, describe(rec.got, states[rec.vs])),
					map[string]string{"part": "concurrent", "mode": mode, "what": "snapshot", "reader": rec.kind})
			}
		}
	}
	r.CountN("conc:snapshot-reads", len(recs))
	r.CountN("conc:snapshot-writes", len(states)-1)

	return true
}

// forcedSnapshot: the reader is parked inside its callback at element 100 of 300 (holding the read lock), a
// writer that moves a not-yet-visited element to the other end is started and queues on the mutex, the reader is
// released: it must still deliver the list as it was.
func forcedSnapshot(r *hx.Run, kind string) bool {
	mode := "snapshot-forced:" + kind
	const n = 300
	l := newTS()
	var state []int
	var first, last ds.ListElement[int]
	for v := 1; v <= n; v++ {
		e := l.PushBack(v)
		if v == 1 {
			first = e
		}
		last = e
		state = append(state, v)
	}
	parked, release := make(chan struct{}), make(chan struct{})
	type res struct {
		got []int
		cyc bool
		p   string
	}
	readerDone, writerDone := make(chan res, 1), make(chan string, 1)
	go func() {
		var x res
		x.p = hx.Safely(func() {
			x.got, x.cyc = readOnce(l, kind, 4*n+8, 100, func() { close(parked); <-release })
		})
		readerDone <- x
	}()
	select {
	case <-parked:
	case <-time.After(10 * time.Second):
		r.Fail("thread-safe-list-concurrent", mode+": the reader never reached element 100",
			map[string]string{"part": "concurrent", "mode": mode, "what": "deadlock", "reader": kind})

		return false
	}
	go func() {
		writerDone <- hx.Safely(func() {
			if isReverse(kind) {
				l.MoveToBack(first)
			} else {
				l.MoveToFront(last)
			}
		})
	}()
	time.Sleep(5 * time.Millisecond) // the writer is queued on the mutex (pending writer)
	close(release)
	var x res
	select {
	case x = <-readerDone:
	case <-time.After(10 * time.Second):
		r.Fail("thread-safe-list-concurrent", mode+": the reader call did not return within 10s",
			map[string]string{"part": "concurrent", "mode": mode, "what": "deadlock", "reader": kind})

		return false
	}
	select {
	case p := <-writerDone:
		if p != "" {
			r.Fail("thread-safe-list-concurrent", mode+": the writer panicked: "+p,
				map[string]string{"part": "concurrent", "mode": mode, "what": "panic", "reader": kind})
		}
	case <-time.After(10 * time.Second):
		r.Fail("thread-safe-list-concurrent", mode+": the writer did not return within 10s",
			map[string]string{"part": "concurrent", "mode": mode, "what": "deadlock", "reader": kind})

		return false
	}
	if x.p != "" || x.cyc || !sameInts(x.got, state, isReverse(kind)) {
		r.Fail("thread-safe-list-concurrent",
			fmt.Sprintf("%s: with a writer queued behind the traversal, %s is not the list as it was (panic=%q cycle=%v); %s",
				mode, kind, x.p, x.cyc, describe(x.got, state)),
			map[string]string{"part": "concurrent", "mode": mode, "what": "snapshot", "reader": kind})
	}

	return true
}

// hammer: short list, readers calling Values()/Len()/Front()/Back() back to back while writers move elements
// back to back: every call must return (a read lock taken twice inside one call deadlocks as soon as a writer
// arrives in between).
func hammer(r *hx.Run, d time.Duration) bool {
	const mode = "hammer"
	l := newTS()
	var es []ds.ListElement[int]
	for v := 1; v <= 4; v++ {
		es = append(es, l.PushBack(v))
	}
	var stop atomic.Bool
	var wg sync.WaitGroup
	var calls atomic.Int64
	for i := 0; i < 4; i++ {
		wg.Add(2)
		go func() {
			defer wg.Done()
			for !stop.Load() {
				vs := l.Values()
				if len(vs) != 4 || l.Len() != 4 || l.Front() == nil || l.Back() == nil {
					r.Fail("thread-safe-list-concurrent", fmt.Sprintf("%s: Values()=%v Len()=%d on a list of 4 elements that are only moved", mode, vs, l.Len()),
						map[string]string{"part": "concurrent", "mode": mode, "what": "snapshot", "reader": "Values"})

					return
				}
				calls.Add(1)
			}
		}()
		go func() {
			defer wg.Done()
			for k := i; !stop.Load(); k++ {
				l.MoveToFront(es[k%4])
				l.MoveAfter(es[(k+1)%4], es[(k+2)%4])
			}
		}()
	}
	time.Sleep(d)
	stop.Store(true)
	done := make(chan struct{})
	go func() { wg.Wait(); close(done) }()
	select {
	case <-done:
	case <-time.After(10 * time.Second):
		r.Fail("thread-safe-list-concurrent", mode+": Values()/Len()/MoveToFront calls still blocked 10s after the stop signal",
			map[string]string{"part": "concurrent", "mode": mode, "what": "deadlock", "reader": "Values"})

		return false
	}
	r.CountN("conc:hammer-reader-calls", int(calls.Load()))

	return true
}

func readerSnapshots(r *hx.Run) {
	rounds, forced, hd := 6, 2, 400*time.Millisecond
	if r.Scale > 1 {
		rounds, forced, hd = 60, 10, 4*time.Second
	}
	for i := 0; i < forced; i++ {
		for _, k := range []string{"Range", "ForEach", "RangeReverse", "ForEachReverse"} {
			if !forcedSnapshot(r, k) {
				return
			}
			r.Count("conc:snapshot-forced:" + k)
		}
	}
	if !hammer(r, hd) {
		return
	}
	for i := 0; i < rounds; i++ {
		rng, _ := r.Rng.Fork()
		if !snapshotRound(r, rng, []int{300, 600, 1000}[i%3], 4, 10, 3, 50) {
			return
		}
	}
	r.CountN("conc:snapshot-rounds", rounds)
}

// endregion ///////////////////////////////////////////////////////////////////////////////////////

// lastResort turns a run-away harness (a leaked goroutine allocating without end, a hang nothing else caught)
// into an oracle failure while the process can still write its results: GOMEMLIMIT is only a soft limit.
func lastResort(r *hx.Run, trail *atomic.Value) {
	start := time.Now()
	limit := 45 * time.Minute
	var once sync.Once
	for {
		time.Sleep(200 * time.Millisecond)
		var m runtime.MemStats
		runtime.ReadMemStats(&m)
		why := ""
		if m.HeapAlloc > 3<<30 {
			why = fmt.Sprintf("heap grew to %d MiB", m.HeapAlloc>>20)
		} else if time.Since(start) > limit {
			why = "still running after " + limit.String()
		}
		if why == "" {
			continue
		}
		once.Do(func() {
			last, _ := trail.Load().(string)
			r.Fail("harness-watchdog", why+"; last history: ["+last+"]", map[string]string{"part": "watchdog", "what": "runaway"})
			r.Finish()
			os.Exit(0)
		})
	}
}

var lastTrail atomic.Value

func main() {
	r := hx.Start()
	go lastResort(r, &lastTrail)
	r.Rule = "random histories (40 ops) over two lists of length <= 8, both flavours of each list in every case; handles: " +
		"live / other list / removed (three-way with Lean), stale-after-Init (two-way vs container/list, every 7th case " +
		"stale-focused); thread-safe flavour additionally: concurrent stress rounds and forced two-writer schedules; " +
		"non-trivial = at least 5 distinct op kinds, one call with a removed or foreign handle and one MoveBefore/MoveAfter " +
		"with two distinct live handles; distinct by sha256 of the op lines"
	if lines := r.ReplayLines(); lines != nil {
		if replaySched(r, lines) || replayReentrant(r, lines) {
			r.Finish()

			return
		}
		runCase(r, 0, lines)
		runCase(r, 3, lines)
		r.Finish()

		return
	}
	flavourSelection(r)
	corpus := [][]string{
		// MoveBefore/MoveAfter must use the position argument
		{"pb A 1", "pb A 2", "pb A 3", "mvb A 5 3", "mva A 3 4", "mvb A 4 5", "mva A 5 5"},
		// whole-list pushes, self included (the thread-safe flavour must not deadlock on itself)
		{"pb A 1", "pb A 2", "pbl A A", "pfl A A", "pb B 7", "pbl B A", "pfl A B", "pfl B B"},
		// removed and foreign handles are no-ops
		{"pb A 1", "pb B 2", "pb A 3", "rm A 3", "rm A 3", "rm A 4", "rm B 3", "ib A 9 3", "ia A 9 4", "mf A 4", "mb A 3",
			"mvb A 5 4", "mva A 4 5", "mvb A 5 3", "mva A 3 5", "ia B 8 4", "mf B 4", "mva B 4 6"},
		// Init, then only fresh handles
		{"pb A 1", "pb A 2", "init A", "pb A 3", "pf A 4", "mvb A 6 5", "init B", "pbl B A"},
		// a handle that was live before Init (two-way only from here on)
		{"pb A 1", "pb A 2", "init A", "pb A 3", "rm A 3", "mf A 4", "pb A 5"},
		// Init must reset len even when the ring is already empty: Remove of a stale handle drives Len to -1 in
		// both libraries, the second Init brings it back to 0
		{"pb A 1", "init A", "rm A 3", "init A", "pb A 2", "rm A 4", "pb A 5", "pf A 6"},
		{"pb A 1", "pb A 2", "init A", "mf A 3", "mb A 4", "init A", "pb A 5", "ia A 6 5", "init A", "init A", "pb A 7"},
		{"pb A 1", "pb A 2", "pb A 3", "init A", "ib A 9 4", "ia A 8 3", "init A", "pf A 7", "mvb A 5 3", "init A", "pb A 6"},
		{"pb A 1", "pb B 2", "init A", "init B", "rm A 3", "rm B 4", "init B", "pb B 5", "pbl A B", "init A", "pfl A B"},
	}
	corpus = append(corpus,
		// ForEach / ForEachReverse aborted by the callback's error at the k-th element, beyond the end, on the empty list
		[]string{"fe A 1", "fer A 1", "pb A 1", "pb A 2", "pb A 3", "fe A 1", "fe A 2", "fe A 3", "fe A 4", "fer A 1", "fer A 3",
			"fer A 4", "rm A 4", "fe A 2", "fer A 2", "fe B 1"},
		// the same on a ring corrupted by a stale handle (Len -1, then a re-linked stale element)
		[]string{"pb A 1", "pb A 2", "init A", "rm A 3", "fe A 1", "fer A 2", "mf A 4", "fe A 1", "fe A 3", "fer A 1"})
	for i, c := range corpus {
		runCase(r, uint64(i), c)
	}
	n := 5000
	if r.Scale > 1 {
		n = 3000 * r.Scale // thorough: 60 000 histories (the answer streams are ~70 bytes per line, 80 lines per case)
	}
	for i := 0; i < n && deadlocks < 5; i++ {
		rng, sub := r.Rng.Fork()
		mode := 0
		switch i % 7 {
		case 6:
			mode = 1
		case 3:
			mode = 2
		}
		runCase(r, sub, genCase(rng, 40, mode))
	}
	r.Extra["deadlocks"] = deadlocks
	r.Extra["slow_calls"] = slowCalls
	reentrantTraversals(r)
	concurrentSmoke(r)
	readerSnapshots(r)
	concurrentHistories(r)
	twoLists(r)
	r.Finish()
}
