// Concurrent histories of the thread-safe flavour: recorded calls with invocation / response stamps, checked for
// linearizability twice — here against Go's container/list (Wing–Gong search: is there a sequential order of the
// calls, compatible with their real-time order, in which container/list returns exactly the recorded results?) and by
// the Lean driver against the abstract specification Hive/Spec/DList.lean (`lin` request line, same search; the
// theorems C10_ts_* are about that predicate).  The histories come from forced schedules (a whole-list push queued
// behind a parked reader with a reader and a writer queued behind it) and from small stress rounds.
package main

import (
	"container/list"
	"fmt"
	"sort"
	"strconv"
	"strings"
	"sync"
	"sync/atomic"
	"time"

	"verifharness/hx"

	"github.com/iotaledger/hive.go/ds"
)

// concBase: names of the handles created during a concurrent phase (the setup handles are named 3, 4, ... by
// allocation order, as everywhere else).
const concBase = 100000

// ccall is one completed call: op tokens in the vocabulary of the sequential lines (pb pf ia ib rm mf mb mvb mva pbl
// pfl) plus the readers len / vals / rvals / fv / bv (value of Front / Back), and the ';'-joined result fields:
// "h;NAME" | "nil" | "v;N" | "ok" | "n;K" | "l;v,v,v" ("l;-" = empty).
type ccall struct {
	inv, ret int64
	f        []string
	res      string
	api      string // which method delivered a read (Values / Range / ForEach / ...)
}

func (c *ccall) token() string {
	return fmt.Sprintf("%d;%d;%s;%s", c.inv, c.ret, strings.Join(c.f, ";"), c.res)
}

type concWorld struct {
	r     *hx.Run
	w     *world
	l     [2]ds.List[int]
	mu    sync.Mutex
	h     map[int]ds.ListElement[int]
	next  int
	clock atomic.Int64
	calls []*ccall
	setup [][]string
	reads atomic.Int64
	bound int
	// parkAt: a parked reader parks inside its parkAt-th callback (1 = at the first element, 2 = in the middle of [1 2 3])
	parkAt int
}

func newConc(r *hx.Run, w *world) *concWorld {
	return &concWorld{r: r, w: w, l: [2]ds.List[int]{w.l[0].(hiveL).l, w.l[1].(hiveL).l}, h: map[int]ds.ListElement[int]{},
		next: concBase, bound: 4096, parkAt: 1}
}

// setupOp runs one sequential op of the setup on the hive world; the Lean driver follows it like any other line.
func (cw *concWorld) setupOp(op string) bool {
	f := strings.Fields(op)
	res, obs := cw.w.do(f)
	cw.r.Line(op, res)
	cw.r.Line("obs", obs)
	cw.setup = append(cw.setup, f)
	for id, e := range cw.w.h {
		if he, ok := e.(ds.ListElement[int]); ok {
			cw.h[id] = he
		}
	}

	return res != "deadlock" && res != "panic" && obs != "deadlock" && obs != "panic"
}

func (cw *concWorld) el(name string) ds.ListElement[int] {
	cw.mu.Lock()
	defer cw.mu.Unlock()

	return cw.h[atoi(name)]
}

func (cw *concWorld) newName(e ds.ListElement[int]) string {
	if e == nil {
		return "nil"
	}
	cw.mu.Lock()
	defer cw.mu.Unlock()
	n := cw.next
	cw.next++
	cw.h[n] = e

	return "h;" + strconv.Itoa(n)
}

func csv(vs []int) string {
	if len(vs) == 0 {
		return "l;-"
	}
	s := make([]string, len(vs))
	for i, v := range vs {
		s[i] = strconv.Itoa(v)
	}

	return "l;" + strings.Join(s, ",")
}

// read delivers the values of l forwards / backwards through one of the reader methods in turn; park (if any) is
// called inside the callback at the first element, i.e. while the read lock is held.
func (cw *concWorld) read(c *ccall, l ds.List[int], rev bool, park func()) []int {
	var got []int
	n := 0
	cb := func(v int) bool {
		if n++; n == cw.parkAt && park != nil {
			park()
		}
		if len(got) >= cw.bound {
			return false
		}
		got = append(got, v)

		return true
	}
	each := func(v int) error {
		if !cb(v) {
			return errBound
		}

		return nil
	}
	k := int(cw.reads.Add(1))
	switch {
	case rev && k%2 == 0:
		c.api = "RangeReverse"
		l.RangeReverse(func(v int) { cb(v) })
	case rev:
		c.api = "ForEachReverse"
		_ = l.ForEachReverse(each)
	case park == nil && k%3 == 0:
		c.api = "Values"
		got = l.Values()
	case k%3 == 1:
		c.api = "Range"
		l.Range(func(v int) { cb(v) })
	default:
		c.api = "ForEach"
		_ = l.ForEach(each)
	}

	return got
}

// exec makes the call on the hive lists.
func (cw *concWorld) exec(c *ccall, park func()) string {
	f := c.f
	l := cw.l[li(f[1])]
	switch f[0] {
	case "pf":
		return cw.newName(l.PushFront(atoi(f[2])))
	case "pb":
		return cw.newName(l.PushBack(atoi(f[2])))
	case "ib":
		return cw.newName(l.InsertBefore(atoi(f[2]), cw.el(f[3])))
	case "ia":
		return cw.newName(l.InsertAfter(atoi(f[2]), cw.el(f[3])))
	case "rm":
		return "v;" + strconv.Itoa(l.Remove(cw.el(f[2])))
	case "mf":
		l.MoveToFront(cw.el(f[2]))
	case "mb":
		l.MoveToBack(cw.el(f[2]))
	case "mvb":
		l.MoveBefore(cw.el(f[2]), cw.el(f[3]))
	case "mva":
		l.MoveAfter(cw.el(f[2]), cw.el(f[3]))
	case "pbl":
		l.PushBackList(cw.l[li(f[2])])
	case "pfl":
		l.PushFrontList(cw.l[li(f[2])])
	case "init":
		l.Init()
	case "len":
		return "n;" + strconv.Itoa(l.Len())
	case "vals":
		return csv(cw.read(c, l, false, park))
	case "rvals":
		return csv(cw.read(c, l, true, park))
	case "fv":
		if e := l.Front(); e != nil {
			return "v;" + strconv.Itoa(e.Value())
		}

		return "nil"
	case "bv":
		if e := l.Back(); e != nil {
			return "v;" + strconv.Itoa(e.Value())
		}

		return "nil"
	default:
		return "bad-op"
	}

	return "ok"
}

// call makes one recorded call; the stamps are taken before the call starts and after it has returned.
func (cw *concWorld) call(f []string, park func()) (panicked string) {
	_, panicked = cw.callC(f, park)

	return panicked
}

func (cw *concWorld) callC(f []string, park func()) (c *ccall, panicked string) {
	c = &ccall{f: f}
	c.inv = cw.clock.Add(1)
	panicked = hx.Safely(func() { c.res = cw.exec(c, park) })
	if panicked != "" {
		c.res = "panic"
	}
	c.ret = cw.clock.Add(1)
	cw.mu.Lock()
	cw.calls = append(cw.calls, c)
	cw.mu.Unlock()

	return c, panicked
}

// region the reference: container/list, sequentially /////////////////////////////////////////////////////////////////

type linRef struct {
	l [2]*list.List
	h map[int]*list.Element
}

func stdVals(l *list.List, rev bool) []int {
	var out []int
	if rev {
		for e := l.Back(); e != nil; e = e.Prev() {
			out = append(out, e.Value.(int))
		}

		return out
	}
	for e := l.Front(); e != nil; e = e.Next() {
		out = append(out, e.Value.(int))
	}

	return out
}

// apply executes one recorded call on container/list and returns what it returns, in the format of ccall.res; a
// handle name that is not bound yet (its creating call has not been placed) gives "unbound".
func (w *linRef) apply(c *ccall) string {
	f := c.f
	l := w.l[li(f[1])]
	bind := func(e *list.Element) string {
		if e == nil {
			return "nil"
		}
		if !strings.HasPrefix(c.res, "h;") {
			return "h;?"
		}
		w.h[atoi(c.res[2:])] = e

		return c.res
	}
	el := func(s string) (*list.Element, bool) {
		e, ok := w.h[atoi(s)]

		return e, ok
	}
	args := f[2:]
	switch f[0] {
	case "ib", "ia":
		args = f[3:]
	case "pf", "pb", "pbl", "pfl", "len", "vals", "rvals", "fv", "bv", "init":
		args = nil
	}
	var es []*list.Element
	for _, a := range args {
		e, ok := el(a)
		if !ok {
			return "unbound"
		}
		es = append(es, e)
	}
	switch f[0] {
	case "pf":
		return bind(l.PushFront(atoi(f[2])))
	case "pb":
		return bind(l.PushBack(atoi(f[2])))
	case "ib":
		return bind(l.InsertBefore(atoi(f[2]), es[0]))
	case "ia":
		return bind(l.InsertAfter(atoi(f[2]), es[0]))
	case "rm":
		return "v;" + strconv.Itoa(l.Remove(es[0]).(int))
	case "mf":
		l.MoveToFront(es[0])
	case "mb":
		l.MoveToBack(es[0])
	case "mvb":
		l.MoveBefore(es[0], es[1])
	case "mva":
		l.MoveAfter(es[0], es[1])
	case "pbl":
		l.PushBackList(w.l[li(f[2])])
	case "pfl":
		l.PushFrontList(w.l[li(f[2])])
	case "init":
		l.Init()
	case "len":
		return "n;" + strconv.Itoa(l.Len())
	case "vals":
		return csv(stdVals(l, false))
	case "rvals":
		return csv(stdVals(l, true))
	case "fv":
		if e := l.Front(); e != nil {
			return "v;" + strconv.Itoa(e.Value.(int))
		}

		return "nil"
	case "bv":
		if e := l.Back(); e != nil {
			return "v;" + strconv.Itoa(e.Value.(int))
		}

		return "nil"
	default:
		return "bad-op"
	}

	return "ok"
}

// refAfter replays the setup and then the calls in the given order on a fresh pair of container/list lists; ok says
// whether every call returned its recorded result.
func refAfter(setup [][]string, calls []*ccall, order []int) bool {
	std := newStd()
	for _, f := range setup {
		if hx.Safely(func() { std.apply(f) }) != "" {
			return false
		}
	}
	w := &linRef{l: [2]*list.List{std.l[0].(stdL).l, std.l[1].(stdL).l}, h: map[int]*list.Element{}}
	for id, e := range std.h {
		if se, ok := e.(*list.Element); ok {
			w.h[id] = se
		}
	}
	for _, i := range order {
		got := ""
		if hx.Safely(func() { got = w.apply(calls[i]) }) != "" || got != calls[i].res {
			return false
		}
	}

	return true
}

// linearizableStd: Wing–Gong search. A call may be placed next iff no other unplaced call returned before it was
// invoked. nodes is the budget of replays (exhausted: undecided = true).
func linearizableStd(setup [][]string, calls []*ccall, nodes int) (ok, undecided bool) {
	n := len(calls)
	used := make([]bool, n)
	var order []int
	var rec func() bool
	rec = func() bool {
		if len(order) == n {
			return true
		}
		for i := 0; i < n; i++ {
			if used[i] {
				continue
			}
			minimal := true
			for j := 0; j < n; j++ {
				if j != i && !used[j] && calls[j].ret < calls[i].inv {
					minimal = false

					break
				}
			}
			if !minimal {
				continue
			}
			if nodes--; nodes < 0 {
				undecided = true

				return false
			}
			order = append(order, i)
			if refAfter(setup, calls, order) {
				used[i] = true
				if rec() {
					return true
				}
				used[i] = false
			}
			order = order[:len(order)-1]
			if undecided {
				return false
			}
		}

		return false
	}
	ok = rec()

	return ok, undecided
}

// endregion ///////////////////////////////////////////////////////////////////////////////////////////////////////////

// finish emits the history as one `lin` line (the Lean driver must accept it) and checks it against container/list.
func (cw *concWorld) finish(mode string, sig map[string]string) {
	r := cw.r
	sort.Slice(cw.calls, func(i, j int) bool { return cw.calls[i].inv < cw.calls[j].inv })
	toks := make([]string, len(cw.calls))
	overlap := 0
	for i, c := range cw.calls {
		toks[i] = c.token()
		r.Count("lin:op:" + c.f[0])
		if c.api != "" {
			r.Count("lin:reader:" + c.api)
		}
		for _, d := range cw.calls[:i] {
			if d.ret > c.inv {
				overlap++
				// what the overlapping pairs are made of (generator quality)
				isPush := func(x *ccall) bool { return x.f[0] == "pbl" || x.f[0] == "pfl" }
				isRead := func(x *ccall) bool {
					switch x.f[0] {
					case "len", "vals", "rvals", "fv", "bv":
						return true
					}

					return false
				}
				switch {
				case isPush(c) && isPush(d):
					r.Count("lin:overlap:pushlist-pushlist")
				case isPush(c) || isPush(d):
					if isRead(c) || isRead(d) {
						r.Count("lin:overlap:pushlist-reader")
					} else {
						r.Count("lin:overlap:pushlist-writer")
					}
				case isRead(c) && isRead(d):
					r.Count("lin:overlap:reader-reader")
				case isRead(c) || isRead(d):
					r.Count("lin:overlap:writer-reader")
				default:
					r.Count("lin:overlap:writer-writer")
				}
			}
		}
	}
	r.CountN("lin:calls", len(cw.calls))
	r.CountN("lin:overlapping-pairs", overlap)
	line := "lin " + strings.Join(toks, " ")
	r.Line(line, "accept")
	cw.judge(mode, sig, line)
}

func (cw *concWorld) judge(mode string, sig map[string]string, line string) {
	r := cw.r
	full := func(what string) map[string]string {
		m := map[string]string{"part": "linearizable", "mode": mode, "what": what}
		for k, v := range sig {
			m[k] = v
		}

		return m
	}
	var setup []string
	for _, f := range cw.setup {
		setup = append(setup, strings.Join(f, " "))
	}
	for _, c := range cw.calls {
		if c.res == "panic" {
			r.Fail("thread-safe-list-linearizable", fmt.Sprintf("%s: %s panicked; setup [%s]; history: %s", mode, strings.Join(c.f, " "),
				strings.Join(setup, "; "), line), full("panic"))

			return
		}
	}
	ok, undecided := linearizableStd(cw.setup, cw.calls, 400000)
	switch {
	case undecided:
		r.Count("lin:undecided")
	case !ok:
		r.Fail("thread-safe-list-linearizable",
			fmt.Sprintf("%s: no sequential order of these concurrent calls (compatible with their real-time order) makes container/list "+
				"return the recorded results — a call did not take effect as ONE operation; setup [%s] (A:%s B:%s); history (inv;ret;call;result): %s",
				mode, strings.Join(setup, "; "), cw.w.flavour[0], cw.w.flavour[1], line), full("not-linearizable"))
	default:
		r.Count("lin:accepted")
	}
}

// linDeadlocks: calls that never came back in this part; after three the part stops (every further schedule would wait
// for its timeout again and leak more goroutines).
var linDeadlocks atomic.Int64

// wait collects n completions; a call that does not come back within the (generous) bound is a deadlock finding.
func waitCalls(r *hx.Run, done chan string, n int, mode string, sig map[string]string) bool {
	for i := 0; i < n; i++ {
		select {
		case <-done:
		case <-time.After(20 * time.Second):
			m := map[string]string{"part": "linearizable", "mode": mode, "what": "deadlock"}
			for k, v := range sig {
				m[k] = v
			}
			r.Fail("thread-safe-list-linearizable", mode+": a call was still blocked 20s after the parked reader had been released", m)
			linDeadlocks.Add(1)

			return false
		}
	}

	return true
}

// forcedWholePush: A = [1 2 3] (thread-safe), the source holds four values. A reader of A is parked inside its
// callback (read lock held); the whole-list push is started and reaches the mutex; behind it a reader and (optionally)
// a writer are started; the parked reader is released. In a list whose whole-list push is ONE operation the queued
// reader sees A before or after the whole block, and the writer's element lands outside the block.
func forcedWholePush(r *hx.Run, idx int, push, src, reader string, writer []string, wfirst bool) {
	mode := "forced-" + push
	sig := map[string]string{"source": src, "reader": reader, "writer": "none", "order": map[bool]string{false: "call-first", true: "writer-first"}[wfirst]}
	if writer != nil {
		sig["writer"] = writer[0]
	}
	r.Case(uint64(idx))
	wtok := "none"
	if writer != nil {
		wtok = strings.Join(writer, ";")
	}
	r.Line("sched forced "+push+" "+src+" "+reader+" "+wtok+" "+strconv.FormatBool(wfirst), "ok") // what --replay re-runs on the real code
	w := newHive("hive", false, src == "lf")
	defer w.close()
	cw := newConc(r, w)
	cw.parkAt = 2 // the parked reader has delivered one value and sits on the middle element
	for _, op := range []string{"pb A 1", "pb A 2", "pb A 3", "pb B 11", "pb B 12", "pb B 13", "pb B 14"} {
		if !cw.setupOp(op) {
			return
		}
	}
	srcL := "B"
	if src == "self" {
		srcL = "A"
	}
	first := []string{push, "A", srcL}
	if push != "pbl" && push != "pfl" {
		first = strings.Split(push, ";") // any other mutating call, e.g. rm;A;4
		mode = "forced-" + first[0]
	}
	parked, release := make(chan struct{}), make(chan struct{})
	done := make(chan string, 8)
	n := 0
	start := func(f []string, park func()) {
		n++
		go func() { done <- cw.call(f, park) }()
	}
	parkedKind := "vals"
	if idx%2 == 1 {
		parkedKind = "rvals"
	}
	start([]string{parkedKind, "A"}, func() { close(parked); <-release })
	select {
	case <-parked:
	case <-time.After(20 * time.Second):
		r.Fail("thread-safe-list-linearizable", mode+": the first reader never reached its callback",
			map[string]string{"part": "linearizable", "mode": mode, "what": "deadlock", "source": src})

		return
	}
	if wfirst && writer != nil {
		start(writer, nil) // the other writer reaches the mutex first; the call under test queues behind it
		time.Sleep(4 * time.Millisecond)
	}
	start(first, nil)
	time.Sleep(4 * time.Millisecond) // the call has done whatever it does before Lock() and waits for the mutex
	start([]string{reader, "A"}, nil)
	if !wfirst && writer != nil {
		start(writer, nil)
	}
	time.Sleep(4 * time.Millisecond) // reader and writer are queued behind the pending writer
	close(release)
	if !waitCalls(r, done, n, mode, sig) {
		return
	}
	for _, f := range [][]string{{"vals", "A"}, {"rvals", "A"}, {"len", "A"}, {"vals", "B"}} {
		cw.call(f, nil)
	}
	r.Count("lin:forced:" + first[0] + ":" + src)
	cw.finish(mode, sig)
	r.Sample(r.CaseLines())
}

// linStressRound: three goroutines make three calls each on A (every op kind, whole-list pushes from B and from A
// itself included; B is only a source) — in every second round piled up behind a parked reader so that their first
// calls are certainly concurrent.
func linStressRound(r *hx.Run, seed uint64, idx int) {
	const mode = "stress"
	rng := hx.NewRng(seed)
	r.Case(uint64(idx))
	r.Line("sched stress "+strconv.FormatUint(seed, 10), "ok")
	lfB := rng.Bool()
	w := newHive("hive", false, lfB)
	defer w.close()
	cw := newConc(r, w)
	for _, op := range []string{"pb A 1", "pb A 2", "pb A 3", "pb A 4", "pb B 11", "pb B 12", "pb B 13"} {
		if !cw.setupOp(op) {
			return
		}
	}
	sig := map[string]string{"source": w.flavour[1]}
	goroutines, each := 3, 3
	pile := rng.Bool()
	parked, release := make(chan struct{}), make(chan struct{})
	done := make(chan string, 16)
	n := 0
	if pile {
		n++
		go func() { done <- cw.call([]string{"rvals", "A"}, func() { close(parked); <-release }) }()
		select {
		case <-parked:
		case <-time.After(20 * time.Second):
			r.Fail("thread-safe-list-linearizable", mode+": the first reader never reached its callback",
				map[string]string{"part": "linearizable", "mode": mode, "what": "deadlock"})

			return
		}
	}
	go0 := make(chan struct{})
	for gi := 0; gi < goroutines; gi++ {
		g, _ := rng.Fork()
		n++
		go func() {
			<-go0
			var own []int
			p := ""
			for k := 0; k < each && p == ""; k++ {
				var c *ccall
				c, p = cw.callC(genConcOp(g, gi, k, own), nil)
				if strings.HasPrefix(c.res, "h;") {
					own = append(own, atoi(c.res[2:]))
				}
			}
			done <- p
		}()
	}
	close(go0)
	if pile {
		time.Sleep(2 * time.Millisecond)
		close(release)
	}
	if !waitCalls(r, done, n, mode, sig) {
		return
	}
	for _, f := range [][]string{{"vals", "A"}, {"rvals", "A"}, {"len", "A"}, {"fv", "A"}, {"bv", "A"}, {"vals", "B"}} {
		cw.call(f, nil)
	}
	r.Count("lin:stress-round")
	cw.finish(mode, sig)
	if idx%50 == 0 {
		r.Sample(r.CaseLines())
	}
}

// genConcOp: call k of goroutine gi. Handles: the setup handles of A (3..6), of B (7..9: foreign, no-ops), and the
// ones this goroutine created itself.
func genConcOp(g *hx.Rng, gi, k int, own []int) []string {
	h := func() string {
		x := g.Intn(100)
		switch {
		case x < 20 && len(own) > 0:
			return strconv.Itoa(own[g.Intn(len(own))])
		case x < 30:
			return strconv.Itoa(7 + g.Intn(3))
		}

		return strconv.Itoa(3 + g.Intn(4))
	}
	v := strconv.Itoa(1000*(gi+1) + k)
	switch x := g.Intn(100); {
	case x < 11:
		return []string{"pb", "A", v}
	case x < 20:
		return []string{"pf", "A", v}
	case x < 28:
		return []string{"ia", "A", v, h()}
	case x < 36:
		return []string{"ib", "A", v, h()}
	case x < 48:
		return []string{"rm", "A", h()}
	case x < 54:
		return []string{"mf", "A", h()}
	case x < 60:
		return []string{"mb", "A", h()}
	case x < 67:
		return []string{"mvb", "A", h(), h()}
	case x < 74:
		return []string{"mva", "A", h(), h()}
	case x < 80:
		return []string{"pbl", "A", "B"}
	case x < 85:
		return []string{"pfl", "A", "B"}
	case x < 88:
		return []string{"pbl", "A", "A"}
	case x < 90:
		return []string{"pfl", "A", "A"}
	case x < 93:
		return []string{"len", "A"}
	case x < 96:
		return []string{"vals", "A"}
	case x < 98:
		return []string{"rvals", "A"}
	case x < 99:
		return []string{"fv", "A"}
	}

	return []string{"bv", "A"}
}

// bigPushPolling: a whole-list push of a long source (a foreign list, or the list itself) while observers poll
// Len() / Front / Back / Values of the target back to back. The push is ONE operation: every observation is the list
// before it or the list after it — Len is n0 or n0+N, never in between; Values() has one of the two lengths and the
// block is complete; Front/Back are the old ones or the block's. Nothing here depends on timing (a slow machine only
// makes fewer observations).
func bigPushPolling(r *hx.Run, round int) {
	mode := "big-push"
	const n0, N = 3, 20000
	front := round%2 == 1
	self := round%3 == 2
	t := newTS()
	for v := 1; v <= n0; v++ {
		t.PushBack(v)
	}
	var src ds.List[int] = t
	total, first, last := n0+n0, 1, n0 // self-push doubles the list
	if !self {
		src = ds.NewList[int](round%4 < 2)
		for v := 1; v <= N; v++ {
			src.PushBack(100 + v)
		}
		total, first, last = n0+N, 101, 100+N
	}
	sig := map[string]string{"part": "linearizable", "mode": mode, "push": map[bool]string{false: "pbl", true: "pfl"}[front],
		"source": map[bool]string{false: "other", true: "self"}[self]}
	var stop atomic.Bool
	var wg sync.WaitGroup
	var obs atomic.Int64
	var failed atomic.Bool
	bad := func(what, detail string) {
		if failed.CompareAndSwap(false, true) {
			m := map[string]string{"what": what}
			for k, v := range sig {
				m[k] = v
			}
			r.Fail("thread-safe-list-linearizable", mode+": "+detail+" — the whole-list push did not take effect as one operation", m)
		}
	}
	for g := 0; g < 3; g++ {
		wg.Add(1)
		go func() {
			defer wg.Done()
			for k := 0; !stop.Load() || k < 3; k++ {
				if p := hx.Safely(func() {
					switch (k + g) % 3 {
					case 0:
						if n := t.Len(); n != n0 && n != total {
							bad("len", fmt.Sprintf("Len()=%d observed, the list has %d elements before and %d after the push", n, n0, total))
						}
					case 1:
						f, b := t.Front(), t.Back()
						if f == nil || b == nil {
							bad("ends", "Front()/Back() returned nil on a non-empty list")

							return
						}
						fv, bv := f.Value(), b.Value()
						okF := fv == 1 || (front && fv == first)
						okB := bv == n0 || (!front && bv == last)
						if !okF || !okB {
							bad("ends", fmt.Sprintf("Front=%d Back=%d observed; before the push 1/%d, after it %d/%d", fv, bv, n0,
								map[bool]int{true: first, false: 1}[front], map[bool]int{true: n0, false: last}[front]))
						}
					default:
						if k%8 != 2 {
							return // Values() of 20000 elements is slow; mostly poll the cheap observers
						}
						if n := len(t.Values()); n != n0 && n != total {
							bad("values", fmt.Sprintf("Values() has %d entries, the list has %d before and %d after the push", n, n0, total))
						}
					}
					obs.Add(1)
				}); p != "" {
					bad("panic", "an observer panicked: "+p)

					return
				}
			}
		}()
	}
	done := make(chan string, 1)
	go func() {
		done <- hx.Safely(func() {
			if front {
				t.PushFrontList(src)
			} else {
				t.PushBackList(src)
			}
		})
	}()
	select {
	case p := <-done:
		if p != "" {
			bad("panic", "the push panicked: "+p)
		}
	case <-time.After(30 * time.Second):
		bad("deadlock", "the push did not return within 30s")
		linDeadlocks.Add(1)
		stop.Store(true)

		return
	}
	stop.Store(true)
	fin := make(chan struct{})
	go func() { wg.Wait(); close(fin) }()
	select {
	case <-fin:
	case <-time.After(60 * time.Second):
		bad("deadlock", "observers still blocked 60s after the push returned")

		return
	}
	if n := t.Len(); n != total && !failed.Load() {
		bad("len", fmt.Sprintf("Len()=%d after the push, want %d", n, total))
	}
	r.CountN("lin:big-push-observations", int(obs.Load()))
	r.Count("lin:big-push-round")
}

// region two thread-safe lists ////////////////////////////////////////////////////////////////////////////////////////

// sourceMutated: A.PushBackList(B) / A.PushFrontList(B) while ONE other goroutine mutates the thread-safe source B
// (removes its elements front to back, then pushes new ones) — the sequence of B's states is therefore known. A
// whole-list push is one operation of container/list: it must not panic, and the block that arrives in A is B as it
// was at ONE moment between the start and the end of the call.
func sourceMutated(r *hx.Run, round int) bool {
	const mode = "source-mutated"
	front := round%2 == 1
	sig := map[string]string{"part": "two-lists", "mode": mode, "push": map[bool]string{false: "pbl", true: "pfl"}[front]}
	fail := func(what, detail string) {
		m := map[string]string{"what": what}
		for k, v := range sig {
			m[k] = v
		}
		r.Fail("thread-safe-list-two-lists", mode+": "+detail, m)
	}
	a, b := newTS(), newTS()
	const n = 40
	var es []ds.ListElement[int]
	cur := make([]int, 0, n)
	for v := 1; v <= n; v++ {
		es = append(es, b.PushBack(v))
		cur = append(cur, v)
	}
	states := [][]int{append([]int(nil), cur...)}
	var version atomic.Int64
	var smu sync.Mutex
	start := make(chan struct{})
	writerDone, pushDone := make(chan string, 1), make(chan string, 1)
	go func() {
		<-start
		writerDone <- hx.Safely(func() {
			for i, e := range es {
				smu.Lock()
				if i%5 == 4 {
					b.PushBack(1000 + i)
					cur = append(append([]int(nil), cur...), 1000+i)
				} else {
					b.Remove(e)
					next := make([]int, 0, len(cur))
					for _, v := range cur {
						if v != i+1 {
							next = append(next, v)
						}
					}
					cur = next
				}
				states = append(states, cur)
				version.Add(1)
				smu.Unlock()
			}
		})
	}()
	var vs, ve int64
	go func() {
		<-start
		pushDone <- hx.Safely(func() {
			vs = version.Load()
			if front {
				a.PushFrontList(b)
			} else {
				a.PushBackList(b)
			}
			ve = version.Load()
		})
	}()
	close(start)
	for _, ch := range []chan string{pushDone, writerDone} {
		select {
		case p := <-ch:
			if p != "" {
				fail("panic", "a whole-list push from a thread-safe list that is mutated at the same time panicked: "+p)

				return false
			}
		case <-time.After(20 * time.Second):
			fail("deadlock", "push / writer of the source still blocked after 20s")
			linDeadlocks.Add(1)

			return false
		}
	}
	got := a.Values()
	smu.Lock()
	defer smu.Unlock()
	for k := vs; k <= ve+1 && int(k) < len(states); k++ {
		if sameInts(got, states[k], false) {
			return true
		}
	}
	fail("torn", fmt.Sprintf("the block that arrived (%d values) is none of the %d states the source went through during the call", len(got), ve+1-vs+1))

	return false
}

// crossPush: A.PushBackList(B) and B.PushBackList(A) at the same time: both return (no lock-order deadlock), no panic,
// each list keeps its own elements in front and receives a block of the other's values.
func crossPush(r *hx.Run, round int) bool {
	const mode = "cross-push"
	a, b := newTS(), newTS()
	const n = 1000 // long enough that the two pushes overlap although the goroutines do not start at the same instant
	for v := 1; v <= n; v++ {
		a.PushBack(v)
		b.PushBack(n + v)
	}
	start := make(chan struct{})
	done := make(chan string, 2)
	go func() { <-start; done <- hx.Safely(func() { a.PushBackList(b) }) }()
	go func() { <-start; done <- hx.Safely(func() { b.PushBackList(a) }) }()
	close(start)
	for i := 0; i < 2; i++ {
		select {
		case p := <-done:
			if p != "" {
				r.Fail("thread-safe-list-two-lists", mode+": panicked: "+p, map[string]string{"part": "two-lists", "mode": mode, "what": "panic"})

				return false
			}
		case <-time.After(20 * time.Second):
			r.Fail("thread-safe-list-two-lists", mode+": two thread-safe lists pushing each other never return (each holds its own lock and waits for the other's)",
				map[string]string{"part": "two-lists", "mode": mode, "what": "deadlock"})
			linDeadlocks.Add(1)

			return false
		}
	}
	av, bv := a.Values(), b.Values()
	okA := len(av) == 2*n || len(av) == 3*n
	okB := len(bv) == 2*n || len(bv) == 3*n
	for i := 0; i < n && okA && okB; i++ {
		okA = av[i] == i+1 && av[n+i] == n+1+i
		okB = bv[i] == n+1+i && bv[n+i] == i+1
	}
	if !okA || !okB || (len(av) == 3*n && len(bv) == 3*n) {
		r.Fail("thread-safe-list-two-lists", fmt.Sprintf("%s: len(A)=%d len(B)=%d, or a block is not the other list's values in order", mode, len(av), len(bv)),
			map[string]string{"part": "two-lists", "mode": mode, "what": "result"})

		return false
	}

	return true
}

func twoLists(r *hx.Run) {
	n, m := 4000, 200
	if r.Scale > 1 {
		n, m = 40000, 2000
	}
	for i := 0; i < n && linDeadlocks.Load() < 3; i++ {
		if !sourceMutated(r, i) {
			break
		}
		r.Count("two-lists:source-mutated")
	}
	for i := 0; i < m && linDeadlocks.Load() < 3; i++ {
		if !crossPush(r, i) {
			break
		}
		r.Count("two-lists:cross-push")
	}
}

// endregion ///////////////////////////////////////////////////////////////////////////////////////////////////////////

// concurrentHistories: the forced whole-list-push schedules (every combination of push, source flavour, queued
// reader, queued writer) and the stress rounds.
func concurrentHistories(r *hx.Run) {
	idx := 0
	reps, rounds := 1, 300
	if r.Scale > 1 {
		reps, rounds = 5, 6000
	}
	writers := [][]string{nil, {"pb", "A", "99"}, {"pf", "A", "99"}, {"rm", "A", "4"}, {"ia", "A", "99", "5"}, {"mf", "A", "5"}}
	for rep := 0; rep < reps; rep++ {
		for _, push := range []string{"pbl", "pfl"} {
			for _, src := range []string{"ts", "lf", "self"} {
				for _, reader := range []string{"vals", "rvals", "len"} {
					for wi, wr := range writers {
						if linDeadlocks.Load() >= 3 {
							return
						}
						idx++
						forcedWholePush(r, idx, push, src, reader, wr, false)
						if wr != nil && (wi+len(reader))%2 == 0 {
							idx++
							forcedWholePush(r, idx, push, src, reader, wr, true)
						}
					}
				}
			}
		}
	}
	// the same schedule for every other mutating method: it has to take effect as one operation too
	for rep := 0; rep < reps; rep++ {
		for _, first := range []string{"pb;A;50", "pf;A;50", "ia;A;50;4", "ib;A;50;4", "rm;A;4", "mf;A;5", "mb;A;3", "mvb;A;5;3",
			"mva;A;3;5", "init;A"} {
			for _, reader := range []string{"vals", "rvals"} {
				ws := [][]string{nil, {"pb", "A", "99"}, {"rm", "A", "4"}}
				if first == "init;A" {
					ws = [][]string{nil, {"pb", "A", "99"}, {"pf", "A", "98"}} // no handle of A is used after its Init
				}
				for wi, wr := range ws {
					if linDeadlocks.Load() >= 3 {
						return
					}
					idx++
					forcedWholePush(r, idx, first, "ts", reader, wr, wi == 2 && reader == "rvals")
				}
			}
		}
	}
	for i := 0; i < 12*reps && linDeadlocks.Load() < 3; i++ {
		bigPushPolling(r, i)
	}
	for i := 0; i < rounds && linDeadlocks.Load() < 3; i++ {
		_, seed := r.Rng.Fork()
		idx++
		linStressRound(r, seed, idx)
	}
}

// replaySched: a replay file of a concurrent case starts with its `sched` line: the schedule is run again on the real
// code (the forced ones are deterministic up to the two sleeps; a stress round is repeated).
func replaySched(r *hx.Run, lines []string) bool {
	for _, ln := range lines {
		f := strings.Fields(ln)
		if len(f) == 0 || f[0] != "sched" {
			continue
		}
		switch {
		case len(f) == 7 && f[1] == "forced":
			var writer []string
			if f[5] != "none" {
				writer = strings.Split(f[5], ";")
			}
			for i := 1; i <= 6; i++ {
				forcedWholePush(r, i, f[2], f[3], f[4], writer, f[6] == "true")
			}

			return true
		case len(f) == 3 && f[1] == "stress":
			seed, _ := strconv.ParseUint(f[2], 10, 64)
			for i := 1; i <= 50; i++ {
				linStressRound(r, seed, i)
			}

			return true
		}
	}

	return false
}

// replayLin re-judges a recorded history (a `lin` line of a replay file) after the setup lines before it.
func replayLin(r *hx.Run, setup [][]string, f []string) {
	cw := &concWorld{r: r, w: &world{flavour: [2]string{"ts", "?"}}, setup: setup}
	for _, tok := range f[1:] {
		p := strings.Split(tok, ";")
		if len(p) < 5 {
			continue
		}
		c := &ccall{inv: int64(atoi(p[0])), ret: int64(atoi(p[1]))}
		nf := map[string]int{"pb": 3, "pf": 3, "ia": 4, "ib": 4, "rm": 3, "mf": 3, "mb": 3, "mvb": 4, "mva": 4, "pbl": 3, "pfl": 3,
			"len": 2, "vals": 2, "rvals": 2, "fv": 2, "bv": 2, "init": 2}[p[2]]
		if nf == 0 || len(p) < 2+nf+1 {
			continue
		}
		c.f = p[2 : 2+nf]
		c.res = strings.Join(p[2+nf:], ";")
		cw.calls = append(cw.calls, c)
	}
	line := strings.Join(f, " ")
	r.Line(line, "accept")
	cw.judge("replay", nil, line)
}
