// Traversals whose callback modifies the list (lock-free flavour; on the thread-safe flavour a callback that calls a
// mutating method waits for its own read lock). container/list documents the loop `for e := l.Front(); e != nil; e =
// e.Next() { ... }`: what the callback does to the list decides what the rest of the traversal sees (an element removed
// inside its own callback ends the walk, an element moved to the back is met again, ...). ds.List's Range / ForEach and
// the reverse variants are that loop; they are compared here with the loop over container/list, action by action.
package main

import (
	"container/list"
	"fmt"
	"strconv"
	"strings"

	"verifharness/hx"

	"github.com/iotaledger/hive.go/ds"
)

var reentrantActions = []string{"rm-cur", "rm-next", "rm-prev", "mb-cur", "mf-cur", "ia-cur", "ib-cur", "pb", "pf", "mb-first", "mf-last", "init"}

// reentrantCase: a list 1..n, traversal kind, at the k-th callback the action is applied (once).
func reentrantCase(r *hx.Run, n, k int, kind, action string) {
	bound := 4*n + 16
	// --- hive, lock-free; the setup and the traversal are lines of a case the Lean driver follows
	r.Case(uint64(n*1000 + k))
	w := newHive("hive", true, true)
	defer w.close()
	for v := 1; v <= n; v++ {
		op := "pb A " + strconv.Itoa(v)
		res, obs := w.do(strings.Fields(op))
		r.Line(op, res)
		r.Line("obs", obs)
	}
	hl := w.l[0].(hiveL).l
	var hes []ds.ListElement[int]
	for v := 1; v <= n; v++ {
		hes = append(hes, w.h[v+2].(ds.ListElement[int]))
	}
	created := func(e ds.ListElement[int]) {
		if e != nil {
			w.reg(e, w.fresh)
			w.fresh++
		}
	}
	var hgot []int
	calls := 0
	hcb := func(v int) bool {
		calls++
		if len(hgot) >= bound {
			return false
		}
		hgot = append(hgot, v)
		if calls == k {
			cur := hes[v-1]
			switch action {
			case "rm-cur":
				hl.Remove(cur)
			case "rm-next":
				if x := cur.Next(); x != nil {
					hl.Remove(x)
				}
			case "rm-prev":
				if x := cur.Prev(); x != nil {
					hl.Remove(x)
				}
			case "mb-cur":
				hl.MoveToBack(cur)
			case "mf-cur":
				hl.MoveToFront(cur)
			case "ia-cur":
				created(hl.InsertAfter(100+v, cur))
			case "ib-cur":
				created(hl.InsertBefore(100+v, cur))
			case "pb":
				created(hl.PushBack(200))
			case "pf":
				created(hl.PushFront(300))
			case "mb-first":
				hl.MoveToBack(hes[0])
			case "mf-last":
				hl.MoveToFront(hes[n-1])
			case "init":
				hl.Init()
			}
		}

		return true
	}
	hp := hx.Safely(func() {
		switch kind {
		case "Range":
			hl.Range(func(v int) { hcb(v) })
		case "RangeReverse":
			hl.RangeReverse(func(v int) { hcb(v) })
		case "ForEach":
			_ = hl.ForEach(func(v int) error {
				if !hcb(v) {
					return errBound
				}

				return nil
			})
		case "ForEachReverse":
			_ = hl.ForEachReverse(func(v int) error {
				if !hcb(v) {
					return errBound
				}

				return nil
			})
		}
	})
	if hp == "" {
		line := fmt.Sprintf("reent A %s %d %s %d %d", kind, k, action, 3, n+2)
		r.Line(line, ints(hgot))
		obs := ""
		if p := hx.Safely(func() { obs = w.observe() }); p != "" {
			obs = "panic"
		}
		r.Line("obs", obs)
	}
	var hfinal []int
	if hp == "" {
		i := 0
		_ = hl.ForEach(func(v int) error {
			if i++; i > bound {
				return errBound
			}
			hfinal = append(hfinal, v)

			return nil
		})
	}
	// --- container/list: the documented loop
	sl := list.New()
	var ses []*list.Element
	for v := 1; v <= n; v++ {
		ses = append(ses, sl.PushBack(v))
	}
	var sgot []int
	calls = 0
	scb := func(e *list.Element) {
		calls++
		v := e.Value.(int)
		sgot = append(sgot, v)
		if calls == k {
			switch action {
			case "rm-cur":
				sl.Remove(e)
			case "rm-next":
				if x := e.Next(); x != nil {
					sl.Remove(x)
				}
			case "rm-prev":
				if x := e.Prev(); x != nil {
					sl.Remove(x)
				}
			case "mb-cur":
				sl.MoveToBack(e)
			case "mf-cur":
				sl.MoveToFront(e)
			case "ia-cur":
				sl.InsertAfter(100+v, e)
			case "ib-cur":
				sl.InsertBefore(100+v, e)
			case "pb":
				sl.PushBack(200)
			case "pf":
				sl.PushFront(300)
			case "mb-first":
				sl.MoveToBack(ses[0])
			case "mf-last":
				sl.MoveToFront(ses[n-1])
			case "init":
				sl.Init()
			}
		}
	}
	sp := hx.Safely(func() {
		if isReverse(kind) {
			for e := sl.Back(); e != nil && len(sgot) < bound; e = e.Prev() {
				scb(e)
			}
		} else {
			for e := sl.Front(); e != nil && len(sgot) < bound; e = e.Next() {
				scb(e)
			}
		}
	})
	var sfinal []int
	for e, i := sl.Front(), 0; e != nil && i <= bound; e, i = e.Next(), i+1 {
		sfinal = append(sfinal, e.Value.(int))
	}
	r.Count("reentrant:" + kind)
	r.Count("reentrant:action:" + action)
	if (hp != "") != (sp != "") || !sameInts(hgot, sgot, false) || (hp == "" && !sameInts(hfinal, sfinal, false)) {
		r.Fail("differs-from-container/list",
			fmt.Sprintf("lock-free list 1..%d, %s whose %d-th callback does %s: delivered %v final %v panic=%q ; container/list's loop: delivered %v final %v panic=%q",
				n, kind, k, action, hgot, hfinal, hp, sgot, sfinal, sp),
			map[string]string{"part": "reentrant-traversal", "kind": kind, "action": action, "what": "observation"})
	}
}

// reentrantTraversals: every traversal kind x every action x every position on lists of 1..5 elements (exhaustive).
func reentrantTraversals(r *hx.Run) {
	n := 0
	for size := 1; size <= 5; size++ {
		for k := 1; k <= size+1; k++ {
			for _, kind := range []string{"Range", "RangeReverse", "ForEach", "ForEachReverse"} {
				for _, a := range reentrantActions {
					reentrantCase(r, size, k, kind, a)
					n++
				}
			}
		}
	}
	r.Extra["reentrant_cases"] = n
}

// replayReentrant re-runs the case of a replay file that contains a `reent` line.
func replayReentrant(r *hx.Run, lines []string) bool {
	n := 0
	for _, ln := range lines {
		f := strings.Fields(ln)
		if len(f) == 3 && f[0] == "pb" && f[1] == "A" {
			n++
		}
		if len(f) == 7 && f[0] == "reent" {
			reentrantCase(r, n, atoi(f[3]), f[2], f[4])

			return true
		}
	}

	return false
}
