// xlate: translates the bodies of a doubly-linked-list library into the statement language of
// lean/Hive/Model/DListIR.lean.
//
//	go run ./c10/xlate <out.lean> <LeanNamespace> <ds/list_impl.go> <GOROOT/src/container/list/list.go>
//
// Two inputs, one output: the inner `list` / `listElement` of hive's ds/list_impl.go (atomic fields:
// `x.next.Load()`, `x.next.Store(y)`, interface-typed handles with a type assertion in front) and Go's
// container/list (`x.next`, `x.next = y`).  Both are normalised to the same language, so that the Lean side can
// state "hive's function is container/list's function" as an equality of terms and give both a meaning.
//
// The translator is deliberately narrow: anything outside the fragment the two files are written in (another
// statement kind, a loop of another shape, an unknown field, a call of an unknown function) is an error — the
// check then reports that the code left the fragment the model is about.
package main

import (
	"bytes"
	"fmt"
	"go/ast"
	"go/parser"
	"go/printer"
	"go/token"
	"os"
	"strings"
)

type flavour struct {
	name     string // Lean prefix
	listType string // receiver type of the list functions
	elemType string // receiver type of the element functions
	atomic   bool   // fields are atomics (Load/Store)
}

var fnNames = []string{"Init", "lazyInit", "insert", "insertValue", "remove", "move", "Front", "Back", "Len", "PushFront",
	"PushBack", "Remove", "InsertBefore", "InsertAfter", "MoveToFront", "MoveToBack", "MoveBefore", "MoveAfter", "Next", "Prev", "Value"}

func isFn(n string) bool {
	for _, f := range fnNames {
		if f == n {
			return true
		}
	}

	return false
}

type bail struct{ msg string }

func fail(format string, a ...any) { panic(bail{fmt.Sprintf(format, a...)}) }

// tr is the translation context of one function.
type tr struct {
	fl    flavour
	fset  *token.FileSet
	recv  string            // receiver name
	elemR bool              // receiver is an element (Next/Prev/Value): the receiver is variable 0
	vars  map[string]int    // parameter / local -> index
	alias map[string]string // typedElement -> e (type assertions)
	subst map[string]string // if-init variables -> translated expression (E or LE, see kind)
	kind  map[string]string // "E" | "LE" for subst
	other string            // name of the `other` list parameter (whole-list pushes)
	next  int
	okVar map[string]bool // the `ok` of a type assertion
}

func (t *tr) pos(n ast.Node) string { return t.fset.Position(n.Pos()).String() }

func (t *tr) newVar(name string) int {
	i := t.next
	t.next++
	if name != "" {
		t.vars[name] = i
	}

	return i
}

// unLoad strips `.Load()` (hive) and returns the field selector underneath; for container/list the expression
// itself is the selector.
func (t *tr) unLoad(e ast.Expr) (sel *ast.SelectorExpr, ok bool) {
	if t.fl.atomic {
		c, isCall := e.(*ast.CallExpr)
		if !isCall || len(c.Args) != 0 {
			return nil, false
		}
		s, isSel := c.Fun.(*ast.SelectorExpr)
		if !isSel || s.Sel.Name != "Load" {
			return nil, false
		}
		inner, isSel := s.X.(*ast.SelectorExpr)

		return inner, isSel
	}
	s, isSel := e.(*ast.SelectorExpr)

	return s, isSel
}

func paren(s string) string {
	if strings.Contains(s, " ") {
		return "(" + s + ")"
	}

	return s
}

// isRoot: `l.root` (receiver's sentinel) or `<LE>.root`; returns the E of its address.
func (t *tr) rootAddr(e ast.Expr) (string, bool) {
	s, ok := e.(*ast.SelectorExpr)
	if !ok || s.Sel.Name != "root" {
		return "", false
	}
	if id, ok := s.X.(*ast.Ident); ok && id.Name == t.recv && !t.elemR {
		return ".rootSelf", true
	}
	le := t.le(s.X)
	if strings.HasPrefix(le, ".owner ") {
		return ".rootOwner " + strings.TrimPrefix(le, ".owner "), true
	}
	fail("%s: root of %s", t.pos(e), le)

	return "", false
}

// e translates a word-valued expression (element pointer or value).
func (t *tr) e(x ast.Expr) string {
	switch v := x.(type) {
	case *ast.ParenExpr:
		return t.e(v.X)
	case *ast.Ident:
		if v.Name == "nil" {
			return ".nil"
		}
		name := v.Name
		if a, ok := t.alias[name]; ok {
			name = a
		}
		if s, ok := t.subst[name]; ok {
			if t.kind[name] != "E" {
				fail("%s: %s is not a word", t.pos(x), name)
			}

			return s
		}
		if t.elemR && name == t.recv {
			return ".var 0"
		}
		if i, ok := t.vars[name]; ok {
			return fmt.Sprintf(".var %d", i)
		}
		fail("%s: unknown identifier %s", t.pos(x), name)
	case *ast.UnaryExpr:
		if v.Op == token.AND {
			if r, ok := t.rootAddr(v.X); ok {
				return r
			}
		}
		fail("%s: unsupported unary expression", t.pos(x))
	case *ast.StarExpr:
		// hive: *p.value.Load()
		if sel, ok := t.unLoad(v.X); ok && t.fl.atomic && sel.Sel.Name == "value" {
			return ".deref " + paren(t.e(sel.X))
		}
		fail("%s: unsupported dereference", t.pos(x))
	}
	if sel, ok := t.unLoad(x); ok {
		switch sel.Sel.Name {
		case "next", "prev":
			if r, isRoot := t.rootAddr(sel.X); isRoot {
				return fmt.Sprintf(".load .%s %s", sel.Sel.Name, paren(r))
			}

			return fmt.Sprintf(".load .%s %s", sel.Sel.Name, paren(t.e(sel.X)))
		case "Value":
			if !t.fl.atomic {
				return ".deref " + paren(t.e(sel.X))
			}
		}
	}
	fail("%s: unsupported expression %T", t.pos(x), x)

	return ""
}

// le translates a list-pointer expression.
func (t *tr) le(x ast.Expr) string {
	switch v := x.(type) {
	case *ast.ParenExpr:
		return t.le(v.X)
	case *ast.Ident:
		if v.Name == "nil" {
			return ".nil"
		}
		if v.Name == t.recv && !t.elemR {
			return ".self"
		}
		if s, ok := t.subst[v.Name]; ok && t.kind[v.Name] == "LE" {
			return s
		}
		fail("%s: %s is not a list pointer", t.pos(x), v.Name)
	}
	if sel, ok := t.unLoad(x); ok && sel.Sel.Name == "list" {
		return ".owner " + paren(t.e(sel.X))
	}
	fail("%s: unsupported list expression", t.pos(x))

	return ""
}

func (t *tr) isLE(x ast.Expr) bool {
	switch v := x.(type) {
	case *ast.ParenExpr:
		return t.isLE(v.X)
	case *ast.Ident:
		if v.Name == t.recv && !t.elemR {
			return true
		}

		return t.kind[v.Name] == "LE"
	}
	sel, ok := t.unLoad(x)

	return ok && sel.Sel.Name == "list"
}

func isNil(x ast.Expr) bool {
	id, ok := x.(*ast.Ident)

	return ok && id.Name == "nil"
}

func (t *tr) cond(x ast.Expr) string {
	switch v := x.(type) {
	case *ast.ParenExpr:
		return t.cond(v.X)
	case *ast.BinaryExpr:
		switch v.Op {
		case token.LOR:
			return fmt.Sprintf(".or %s %s", paren(t.cond(v.X)), paren(t.cond(v.Y)))
		case token.LAND:
			return fmt.Sprintf(".and %s %s", paren(t.cond(v.X)), paren(t.cond(v.Y)))
		case token.EQL, token.NEQ:
			// l.len == 0
			if s, ok := v.X.(*ast.SelectorExpr); ok && s.Sel.Name == "len" {
				if id, ok := s.X.(*ast.Ident); ok && id.Name == t.recv {
					if lit, ok := v.Y.(*ast.BasicLit); ok && lit.Value == "0" && v.Op == token.EQL {
						return ".lenZero"
					}
				}
				fail("%s: unsupported len comparison", t.pos(x))
			}
			// hive Value(): value == nil where value := l.value.Load()
			if id, ok := v.X.(*ast.Ident); ok && t.kind[id.Name] == "VP" && isNil(v.Y) && v.Op == token.EQL {
				return ".valNil " + paren(t.subst[id.Name])
			}
			op := map[token.Token]string{token.EQL: "eq", token.NEQ: "ne"}[v.Op]
			if t.isLE(v.X) || t.isLE(v.Y) {
				return fmt.Sprintf(".l%s %s %s", op, paren(t.le(v.X)), paren(t.le(v.Y)))
			}

			return fmt.Sprintf(".p%s %s %s", op, paren(t.e(v.X)), paren(t.e(v.Y)))
		}
	}
	fail("%s: unsupported condition", t.pos(x))

	return ""
}

// callOf recognises `l.fn(args)`.
func (t *tr) callOf(x ast.Expr) (fn string, args []ast.Expr, ok bool) {
	c, isCall := x.(*ast.CallExpr)
	if !isCall {
		return "", nil, false
	}
	s, isSel := c.Fun.(*ast.SelectorExpr)
	if !isSel {
		return "", nil, false
	}
	id, isId := s.X.(*ast.Ident)
	if !isId || id.Name != t.recv || t.elemR || !isFn(s.Sel.Name) {
		return "", nil, false
	}

	return s.Sel.Name, c.Args, true
}

// args translates call arguments; a composite literal `&Element{Value: v}` is hoisted into an alloc.
func (t *tr) args(as []ast.Expr, out *[]string) string {
	var parts []string
	for _, a := range as {
		if u, ok := a.(*ast.UnaryExpr); ok && u.Op == token.AND {
			if cl, ok := u.X.(*ast.CompositeLit); ok {
				if len(cl.Elts) != 1 {
					fail("%s: unsupported composite literal", t.pos(a))
				}
				kv, ok := cl.Elts[0].(*ast.KeyValueExpr)
				if !ok || fmt.Sprint(kv.Key) != "Value" {
					fail("%s: unsupported composite literal", t.pos(a))
				}
				dst := t.newVar("")
				*out = append(*out, fmt.Sprintf(".alloc %d %s", dst, paren(t.e(kv.Value))))
				parts = append(parts, fmt.Sprintf(".var %d", dst))

				continue
			}
		}
		parts = append(parts, t.e(a))
	}

	return "[" + strings.Join(parts, ", ") + "]"
}

func (t *tr) isPanicIf(s ast.Stmt) bool {
	is, ok := s.(*ast.IfStmt)
	if !ok || is.Init != nil || is.Else != nil || len(is.Body.List) != 1 {
		return false
	}
	u, ok := is.Cond.(*ast.UnaryExpr)
	if !ok || u.Op != token.NOT {
		return false
	}
	id, ok := u.X.(*ast.Ident)
	if !ok || !t.okVar[id.Name] {
		return false
	}
	es, ok := is.Body.List[0].(*ast.ExprStmt)
	if !ok {
		return false
	}
	c, ok := es.X.(*ast.CallExpr)
	if !ok {
		return false
	}
	f, ok := c.Fun.(*ast.Ident)

	return ok && f.Name == "panic"
}

func (t *tr) block(stmts []ast.Stmt) []string {
	var out []string
	for i := 0; i < len(stmts); i++ {
		st := stmts[i]
		switch v := st.(type) {
		case *ast.AssignStmt:
			// type assertion: typed, ok := e.(*listElement[T]) ; followed by if !ok { panic }
			if len(v.Lhs) == 2 && len(v.Rhs) == 1 {
				if ta, ok := v.Rhs[0].(*ast.TypeAssertExpr); ok {
					src, isId := ta.X.(*ast.Ident)
					if !isId || !strings.Contains(fmt.Sprint(exprString(ta.Type)), t.fl.elemType) {
						fail("%s: unsupported type assertion", t.pos(st))
					}
					name := src.Name
					if a, ok := t.alias[name]; ok {
						name = a
					}
					t.alias[v.Lhs[0].(*ast.Ident).Name] = name
					t.okVar[v.Lhs[1].(*ast.Ident).Name] = true
					if i+1 >= len(stmts) || !t.isPanicIf(stmts[i+1]) {
						fail("%s: type assertion without the panic guard", t.pos(st))
					}
					i++

					continue
				}
			}
			if len(v.Lhs) != 1 || len(v.Rhs) != 1 {
				fail("%s: unsupported assignment", t.pos(st))
			}
			if v.Tok == token.DEFINE {
				id := v.Lhs[0].(*ast.Ident)
				// hive insertValue: newElement := new(listElement[T]); newElement.value.Store(&v)
				if c, ok := v.Rhs[0].(*ast.CallExpr); ok {
					if f, ok := c.Fun.(*ast.Ident); ok && f.Name == "new" {
						if i+1 < len(stmts) {
							if val, ok := t.valueStore(stmts[i+1], id.Name); ok {
								dst := t.newVar(id.Name)
								out = append(out, fmt.Sprintf(".alloc %d %s", dst, paren(val)))
								i++

								continue
							}
						}
						fail("%s: new() without the value store", t.pos(st))
					}
					// hive Value(): value := l.value.Load()
					if sel, ok := t.unLoad(c); ok && t.fl.atomic && sel.Sel.Name == "value" {
						t.subst[id.Name] = t.e(sel.X)
						t.kind[id.Name] = "VP"

						continue
					}
				}
				e := t.e(v.Rhs[0])
				dst := t.newVar(id.Name)
				out = append(out, fmt.Sprintf(".letv %d %s", dst, paren(e)))

				continue
			}
			if v.Tok != token.ASSIGN {
				fail("%s: unsupported assignment operator", t.pos(st))
			}
			out = append(out, t.store(v.Lhs[0], v.Rhs[0], st))
		case *ast.IncDecStmt:
			s, ok := v.X.(*ast.SelectorExpr)
			if !ok || s.Sel.Name != "len" || fmt.Sprint(s.X) != t.recv {
				fail("%s: unsupported ++/--", t.pos(st))
			}
			if v.Tok == token.INC {
				out = append(out, ".lenInc")
			} else {
				out = append(out, ".lenDec")
			}
		case *ast.ExprStmt:
			// atomic store: x.f.Store(y)
			if c, ok := v.X.(*ast.CallExpr); ok && t.fl.atomic {
				if s, ok := c.Fun.(*ast.SelectorExpr); ok && s.Sel.Name == "Store" && len(c.Args) == 1 {
					out = append(out, t.store(s.X, c.Args[0], st))

					continue
				}
			}
			if fn, as, ok := t.callOf(v.X); ok {
				a := t.args(as, &out)
				out = append(out, fmt.Sprintf(".call .%s %s", fn, a))

				continue
			}
			fail("%s: unsupported expression statement", t.pos(st))
		case *ast.IfStmt:
			if v.Else != nil {
				fail("%s: else branch", t.pos(st))
			}
			saved := map[string]string{}
			if v.Init != nil {
				as, ok := v.Init.(*ast.AssignStmt)
				if !ok || as.Tok != token.DEFINE || len(as.Lhs) != len(as.Rhs) {
					fail("%s: unsupported if-init", t.pos(st))
				}
				// the initialised variables are substituted: allowed only when the block is a single return
				if len(v.Body.List) != 1 {
					fail("%s: if-init with a compound block", t.pos(st))
				}
				if _, ok := v.Body.List[0].(*ast.ReturnStmt); !ok {
					fail("%s: if-init with a non-return block", t.pos(st))
				}
				for k, l := range as.Lhs {
					name := l.(*ast.Ident).Name
					saved[name] = ""
					if t.isLE(as.Rhs[k]) {
						t.subst[name], t.kind[name] = t.le(as.Rhs[k]), "LE"
					} else {
						t.subst[name], t.kind[name] = t.e(as.Rhs[k]), "E"
					}
				}
			}
			c := t.cond(v.Cond)
			body := t.block(v.Body.List)
			out = append(out, fmt.Sprintf(".when %s %d", paren(c), len(body)))
			out = append(out, body...)
			for name := range saved {
				delete(t.subst, name)
				delete(t.kind, name)
			}
		case *ast.ReturnStmt:
			switch len(v.Results) {
			case 0:
				out = append(out, ".ret .none")
			case 1:
				r := v.Results[0]
				if fn, as, ok := t.callOf(r); ok {
					a := t.args(as, &out)
					out = append(out, fmt.Sprintf(".retCall .%s %s", fn, a))

					break
				}
				if id, ok := r.(*ast.Ident); ok && id.Name == t.recv && !t.elemR {
					out = append(out, ".ret .self")

					break
				}
				if s, ok := r.(*ast.SelectorExpr); ok && s.Sel.Name == "len" && fmt.Sprint(s.X) == t.recv {
					out = append(out, ".ret .len")

					break
				}
				if id, ok := r.(*ast.Ident); ok && t.kind[id.Name] == "ZERO" {
					out = append(out, ".ret (.expr .nil)")

					break
				}
				if se, ok := r.(*ast.StarExpr); ok {
					if id, ok := se.X.(*ast.Ident); ok && t.kind[id.Name] == "VP" {
						out = append(out, fmt.Sprintf(".ret (.expr (.deref %s))", paren(t.subst[id.Name])))

						break
					}
				}
				out = append(out, fmt.Sprintf(".ret (.expr %s)", paren(t.e(r))))
			default:
				fail("%s: multiple results", t.pos(st))
			}
		case *ast.DeclStmt:
			// hive Value(): var zeroValue T
			gd, ok := v.Decl.(*ast.GenDecl)
			if !ok || gd.Tok != token.VAR || len(gd.Specs) != 1 {
				fail("%s: unsupported declaration", t.pos(st))
			}
			vs := gd.Specs[0].(*ast.ValueSpec)
			if len(vs.Names) != 1 || len(vs.Values) != 0 {
				fail("%s: unsupported declaration", t.pos(st))
			}
			// only the zero *value* `var zeroValue T`: a zero pointer variable returned through the interface would be
			// a typed nil, not nil
			if id, ok := vs.Type.(*ast.Ident); !ok || id.Name != "T" || !t.elemR {
				fail("%s: unsupported declaration (only `var zero T` in Value())", t.pos(st))
			}
			t.kind[vs.Names[0].Name] = "ZERO"
		case *ast.EmptyStmt:
		default:
			fail("%s: unsupported statement %T", t.pos(st), st)
		}
	}

	return out
}

func exprString(e ast.Expr) string {
	switch v := e.(type) {
	case *ast.StarExpr:
		return "*" + exprString(v.X)
	case *ast.IndexExpr:
		return exprString(v.X) + "[" + exprString(v.Index) + "]"
	case *ast.Ident:
		return v.Name
	}

	return fmt.Sprintf("%T", e)
}

// valueStore recognises `name.value.Store(&v)` and returns the E of v.
func (t *tr) valueStore(st ast.Stmt, name string) (string, bool) {
	es, ok := st.(*ast.ExprStmt)
	if !ok {
		return "", false
	}
	c, ok := es.X.(*ast.CallExpr)
	if !ok || len(c.Args) != 1 {
		return "", false
	}
	s, ok := c.Fun.(*ast.SelectorExpr)
	if !ok || s.Sel.Name != "Store" {
		return "", false
	}
	f, ok := s.X.(*ast.SelectorExpr)
	if !ok || f.Sel.Name != "value" || fmt.Sprint(f.X) != name {
		return "", false
	}
	u, ok := c.Args[0].(*ast.UnaryExpr)
	if !ok || u.Op != token.AND {
		return "", false
	}

	return t.e(u.X), true
}

// store translates `lhs = rhs` / `lhs.Store(rhs)` where lhs is a field selector.
func (t *tr) store(lhs, rhs ast.Expr, at ast.Node) string {
	s, ok := lhs.(*ast.SelectorExpr)
	if !ok {
		fail("%s: unsupported store target", t.pos(at))
	}
	switch s.Sel.Name {
	case "next", "prev":
		var p string
		if r, isRoot := t.rootAddr(s.X); isRoot {
			p = r
		} else {
			p = t.e(s.X)
		}

		return fmt.Sprintf(".storeP .%s %s %s", s.Sel.Name, paren(p), paren(t.e(rhs)))
	case "list":
		return fmt.Sprintf(".storeL %s %s", paren(t.e(s.X)), paren(t.le(rhs)))
	case "len":
		if fmt.Sprint(s.X) == t.recv {
			if lit, ok := rhs.(*ast.BasicLit); ok && lit.Value == "0" {
				return ".lenSet0"
			}
		}
	}
	fail("%s: unsupported store to %s", t.pos(at), s.Sel.Name)

	return ""
}

func recvType(fd *ast.FuncDecl) (name, typ string) {
	if fd.Recv == nil || len(fd.Recv.List) != 1 {
		return "", ""
	}
	f := fd.Recv.List[0]
	ty := f.Type
	if s, ok := ty.(*ast.StarExpr); ok {
		ty = s.X
	}
	if ix, ok := ty.(*ast.IndexExpr); ok {
		ty = ix.X
	}
	id, ok := ty.(*ast.Ident)
	if !ok || len(f.Names) != 1 {
		return "", ""
	}

	return f.Names[0].Name, id.Name
}

func newTr(fl flavour, fset *token.FileSet, fd *ast.FuncDecl, elemR bool) *tr {
	recv, _ := recvType(fd)
	t := &tr{fl: fl, fset: fset, recv: recv, elemR: elemR, vars: map[string]int{}, alias: map[string]string{},
		subst: map[string]string{}, kind: map[string]string{}, okVar: map[string]bool{}}
	if elemR {
		t.next = 1
	}
	for _, f := range fd.Type.Params.List {
		for _, n := range f.Names {
			t.newVar(n.Name)
		}
	}

	return t
}

func leanStmts(ss []string) string {
	if len(ss) == 0 {
		return "[]"
	}

	return "[" + strings.Join(ss, ",\n     ") + "]"
}

// loopFn translates PushBackList / PushFrontList.
func loopFn(fl flavour, fset *token.FileSet, fd *ast.FuncDecl) string {
	t := newTr(fl, fset, fd, false)
	if len(fd.Type.Params.List) != 1 || len(fd.Type.Params.List[0].Names) != 1 {
		fail("%s: unexpected parameters", t.pos(fd))
	}
	other := fd.Type.Params.List[0].Names[0].Name
	body := fd.Body.List
	var loop *ast.ForStmt
	var pre []ast.Stmt
	for i, st := range body {
		if f, ok := st.(*ast.ForStmt); ok {
			if i != len(body)-1 {
				fail("%s: statements after the loop", t.pos(st))
			}
			loop = f

			break
		}
		pre = append(pre, st)
	}
	if loop == nil {
		fail("%s: no loop", t.pos(fd))
	}
	preS := t.block(pre)
	// for i, e := other.Len(), other.F(); i > 0; i, e = i-1, e.G()
	bad := func() {
		fail("%s: loop header is not `for i, e := other.Len(), other.F(); i > 0; i, e = i-1, e.G()`", t.pos(loop))
	}
	init, ok := loop.Init.(*ast.AssignStmt)
	if !ok || init.Tok != token.DEFINE || len(init.Lhs) != 2 || len(init.Rhs) != 2 {
		bad()
	}
	iv, ev := init.Lhs[0].(*ast.Ident).Name, init.Lhs[1].(*ast.Ident).Name
	method := func(x ast.Expr, on string) string {
		c, ok := x.(*ast.CallExpr)
		if !ok || len(c.Args) != 0 {
			bad()
		}
		s, ok := c.Fun.(*ast.SelectorExpr)
		if !ok || fmt.Sprint(s.X) != on {
			bad()
		}

		return s.Sel.Name
	}
	if method(init.Rhs[0], other) != "Len" {
		bad()
	}
	start := method(init.Rhs[1], other)
	if start != "Front" && start != "Back" {
		bad()
	}
	c, ok := loop.Cond.(*ast.BinaryExpr)
	if !ok || c.Op != token.GTR || fmt.Sprint(c.X) != iv {
		bad()
	}
	if lit, ok := c.Y.(*ast.BasicLit); !ok || lit.Value != "0" {
		bad()
	}
	post, ok := loop.Post.(*ast.AssignStmt)
	if !ok || post.Tok != token.ASSIGN || len(post.Lhs) != 2 || len(post.Rhs) != 2 ||
		fmt.Sprint(post.Lhs[0]) != iv || fmt.Sprint(post.Lhs[1]) != ev {
		bad()
	}
	dec, ok := post.Rhs[0].(*ast.BinaryExpr)
	if !ok || dec.Op != token.SUB || fmt.Sprint(dec.X) != iv {
		bad()
	}
	if lit, ok := dec.Y.(*ast.BasicLit); !ok || lit.Value != "1" {
		bad()
	}
	adv := method(post.Rhs[1], ev)
	if adv != "Next" && adv != "Prev" {
		bad()
	}
	// body: the loop pointer is variable 0
	bt := newTr(fl, fset, fd, false)
	bt.vars = map[string]int{ev: 0}
	bt.next = 1
	bodyS := bt.block(loop.Body.List)

	return fmt.Sprintf("{ pre := %s,\n    start := .%s, adv := .%s,\n    body := %s }", leanStmts(preS), start, adv, leanStmts(bodyS))
}

func translate(fl flavour, path string) (fns map[string]string, loops map[string]string, errs []string) {
	fset := token.NewFileSet()
	file, err := parser.ParseFile(fset, path, nil, 0)
	if err != nil {
		return nil, nil, []string{err.Error()}
	}
	fns, loops = map[string]string{}, map[string]string{}
	for _, d := range file.Decls {
		fd, ok := d.(*ast.FuncDecl)
		if !ok || fd.Body == nil {
			continue
		}
		_, typ := recvType(fd)
		name := fd.Name.Name
		func() {
			defer func() {
				if p := recover(); p != nil {
					b, ok := p.(bail)
					if !ok {
						panic(p)
					}
					errs = append(errs, fmt.Sprintf("%s.%s: %s", typ, name, b.msg))
				}
			}()
			switch {
			case typ == fl.listType && (name == "PushBackList" || name == "PushFrontList"):
				loops[name] = loopFn(fl, fset, fd)
			case typ == fl.listType && isFn(name):
				t := newTr(fl, fset, fd, false)
				fns[name] = leanStmts(t.block(fd.Body.List))
			case typ == fl.elemType && isFn(name):
				t := newTr(fl, fset, fd, true)
				fns[name] = leanStmts(t.block(fd.Body.List))
			}
		}()
	}

	return fns, loops, errs
}

// walkFn recognises the four traversals of the inner list:
//
//	for element := l.<start>(); element != nil; element = element.<adv>() { callback(element.Value()) }
//	for …  { if err := callback(element.Value()); err != nil { return err } } ; return nil
func walkFn(fset *token.FileSet, fd *ast.FuncDecl) (string, error) {
	recv, _ := recvType(fd)
	bad := func(why string) (string, error) {
		return "", fmt.Errorf("%s: not a traversal of the expected shape (%s)", fset.Position(fd.Pos()), why)
	}
	if len(fd.Type.Params.List) != 1 || len(fd.Type.Params.List[0].Names) != 1 {
		return bad("parameters")
	}
	cb := fd.Type.Params.List[0].Names[0].Name
	body := fd.Body.List
	if len(body) == 0 {
		return bad("empty")
	}
	loop, ok := body[0].(*ast.ForStmt)
	if !ok {
		return bad("no loop")
	}
	var buf bytes.Buffer
	pr := func(n ast.Node) string {
		buf.Reset()
		_ = printer.Fprint(&buf, fset, n)

		return strings.Join(strings.Fields(buf.String()), " ")
	}
	init, ok := loop.Init.(*ast.AssignStmt)
	if !ok || init.Tok != token.DEFINE || len(init.Lhs) != 1 || len(init.Rhs) != 1 {
		return bad("init")
	}
	ev := init.Lhs[0].(*ast.Ident).Name
	start := ""
	for _, f := range []string{"Front", "Back"} {
		if pr(init.Rhs[0]) == recv+"."+f+"()" {
			start = f
		}
	}
	if start == "" {
		return bad("start " + pr(init.Rhs[0]))
	}
	if pr(loop.Cond) != ev+" != nil" {
		return bad("condition " + pr(loop.Cond))
	}
	adv := ""
	for _, f := range []string{"Next", "Prev"} {
		if pr(loop.Post) == ev+" = "+ev+"."+f+"()" {
			adv = f
		}
	}
	if adv == "" {
		return bad("post " + pr(loop.Post))
	}
	if len(loop.Body.List) != 1 {
		return bad("body")
	}
	call := cb + "(" + ev + ".Value())"
	abortable := false
	switch b := pr(loop.Body.List[0]); b {
	case call:
		if len(body) != 1 {
			return bad("statements after the loop")
		}
	case "if err := " + call + "; err != nil { return err }":
		abortable = true
		if len(body) != 2 || pr(body[1]) != "return nil" {
			return bad("statements after the loop")
		}
	default:
		return bad("body " + b)
	}

	return fmt.Sprintf("{ start := .%s, adv := .%s, abortable := %v }", start, adv, abortable), nil
}

// walks emits the four traversals and the printed body of Values().
func walks(path string, errs *[]string) string {
	fset := token.NewFileSet()
	file, err := parser.ParseFile(fset, path, nil, 0)
	if err != nil {
		*errs = append(*errs, err.Error())

		return ""
	}
	var b strings.Builder
	found := map[string]bool{}
	for _, d := range file.Decls {
		fd, ok := d.(*ast.FuncDecl)
		if !ok || fd.Body == nil {
			continue
		}
		_, typ := recvType(fd)
		if typ != "list" {
			continue
		}
		switch fd.Name.Name {
		case "ForEach", "ForEachReverse", "Range", "RangeReverse":
			w, err := walkFn(fset, fd)
			if err != nil {
				*errs = append(*errs, "hive: "+err.Error())
				w = "{ start := .Value, adv := .Value, abortable := false }"
			}
			fmt.Fprintf(&b, "def hive_%s : WalkFn := %s\n\n", fd.Name.Name, w)
			found[fd.Name.Name] = true
		case "Values":
			var buf bytes.Buffer
			_ = printer.Fprint(&buf, fset, fd.Body)
			fmt.Fprintf(&b, "def hive_Values : List String := [")
			first := true
			for _, l := range strings.Split(buf.String(), "\n") {
				if l = strings.TrimSpace(l); l != "" {
					if !first {
						b.WriteString(", ")
					}
					first = false
					b.WriteString("\"" + strings.ReplaceAll(strings.ReplaceAll(l, "\\", "\\\\"), "\"", "\\\"") + "\"")
				}
			}
			b.WriteString("]\n\n")
			found["Values"] = true
		}
	}
	for _, n := range []string{"ForEach", "ForEachReverse", "Range", "RangeReverse"} {
		if !found[n] {
			*errs = append(*errs, "hive: "+n+" not found")
			fmt.Fprintf(&b, "def hive_%s : WalkFn := { start := .Value, adv := .Value, abortable := false }\n\n", n)
		}
	}
	if !found["Values"] {
		*errs = append(*errs, "hive: Values not found")
		b.WriteString("def hive_Values : List String := []\n\n")
	}

	return b.String()
}

// wrappers: for every method of the thread-safe wrapper the inner call it delegates to and which of its own
// parameters it passes, in order ("p0", "p1"; anything else is printed as source text).
func wrappers(path string) []string {
	fset := token.NewFileSet()
	file, err := parser.ParseFile(fset, path, nil, 0)
	if err != nil {
		return []string{"error: " + err.Error()}
	}
	var out []string
	for _, d := range file.Decls {
		fd, ok := d.(*ast.FuncDecl)
		if !ok || fd.Body == nil {
			continue
		}
		recv, typ := recvType(fd)
		if typ != "threadSafeList" {
			continue
		}
		params := map[string]int{}
		n := 0
		for _, f := range fd.Type.Params.List {
			for _, nm := range f.Names {
				params[nm.Name] = n
				n++
			}
		}
		var calls []string
		ast.Inspect(fd.Body, func(x ast.Node) bool {
			c, ok := x.(*ast.CallExpr)
			if !ok {
				return true
			}
			s, ok := c.Fun.(*ast.SelectorExpr)
			if !ok {
				return true
			}
			inner, ok := s.X.(*ast.SelectorExpr)
			if !ok || inner.Sel.Name != "list" || fmt.Sprint(inner.X) != recv {
				return true
			}
			var as []string
			for _, a := range c.Args {
				if id, ok := a.(*ast.Ident); ok {
					if i, isParam := params[id.Name]; isParam {
						as = append(as, fmt.Sprintf("p%d", i))

						continue
					}
				}
				as = append(as, "?"+exprString(a))
			}
			calls = append(calls, s.Sel.Name+"("+strings.Join(as, ",")+")")

			return true
		})
		out = append(out, fd.Name.Name+" -> "+strings.Join(calls, " ; "))
	}

	return out
}

// valueReceivers: every method of ds/list_impl.go whose receiver is not a pointer ("Type.Method"). A method of the
// wrapper with a value receiver locks a COPY of the mutex (and go vet's copylocks is not part of the build); a method
// of the inner list or of an element with a value receiver works on a copy of the atomics.
func valueReceivers(path string) []string {
	fset := token.NewFileSet()
	file, err := parser.ParseFile(fset, path, nil, 0)
	if err != nil {
		return []string{"error: " + err.Error()}
	}
	var out []string
	for _, d := range file.Decls {
		fd, ok := d.(*ast.FuncDecl)
		if !ok || fd.Recv == nil || len(fd.Recv.List) != 1 {
			continue
		}
		if _, isPtr := fd.Recv.List[0].Type.(*ast.StarExpr); isPtr {
			continue
		}
		_, typ := recvType(fd)
		out = append(out, typ+"."+fd.Name.Name)
	}

	return out
}

// constructors: the printed bodies (go/printer, one trimmed line per entry) of the three constructors; the model's
// initial state is "two lists fresh from newList(), which calls Init".
func constructors(path string) []string {
	fset := token.NewFileSet()
	file, err := parser.ParseFile(fset, path, nil, 0)
	if err != nil {
		return []string{"error: " + err.Error()}
	}
	var out []string
	for _, d := range file.Decls {
		fd, ok := d.(*ast.FuncDecl)
		if !ok || fd.Body == nil || fd.Recv != nil {
			continue
		}
		if fd.Name.Name != "newList" && fd.Name.Name != "newThreadSafeList" && fd.Name.Name != "NewList" {
			continue
		}
		var buf bytes.Buffer
		_ = printer.Fprint(&buf, fset, fd.Body)
		out = append(out, "func "+fd.Name.Name)
		for _, l := range strings.Split(buf.String(), "\n") {
			if l = strings.TrimSpace(l); l != "" {
				out = append(out, l)
			}
		}
	}

	return out
}

func main() {
	if len(os.Args) != 5 && len(os.Args) != 6 {
		fmt.Fprintln(os.Stderr, "usage: xlate <out.lean> <LeanNamespace> <ds/list_impl.go> <container/list/list.go> [<ds/list.go>]")
		os.Exit(2)
	}
	var b strings.Builder
	fmt.Fprintf(&b, "import Hive.Model.DListIR\n/-! GENERATED by harness/c10/xlate from ds/list_impl.go and GOROOT/src/container/list/list.go — do not edit. -/\n")
	fmt.Fprintf(&b, "namespace %s\nopen Hive.DList.IR\n\n", os.Args[2])
	var allErrs []string
	for k, fl := range []flavour{{"hive", "list", "listElement", true}, {"std", "List", "Element", false}} {
		fns, loops, errs := translate(fl, os.Args[3+k])
		for _, e := range errs {
			allErrs = append(allErrs, fl.name+": "+e)
		}
		fmt.Fprintf(&b, "def %s_code : Fn → List Stmt\n", fl.name)
		for _, fn := range fnNames {
			body, ok := fns[fn]
			if !ok {
				body = "[]"
			}
			fmt.Fprintf(&b, "  | .%s =>\n    %s\n", fn, body)
		}
		fmt.Fprintf(&b, "\n/-- the functions present in the source -/\ndef %s_defined : List Fn := [", fl.name)
		first := true
		for _, fn := range fnNames {
			if _, ok := fns[fn]; ok {
				if !first {
					b.WriteString(", ")
				}
				first = false
				b.WriteString("." + fn)
			}
		}
		b.WriteString("]\n\n")
		for _, ln := range []string{"PushBackList", "PushFrontList"} {
			body, ok := loops[ln]
			if !ok {
				allErrs = append(allErrs, fl.name+": "+ln+" not found / not translated")
				body = "{ pre := [], start := .Front, adv := .Next, body := [] }"
			}
			fmt.Fprintf(&b, "def %s_%s : LoopFn :=\n  %s\n\n", fl.name, ln, body)
		}
	}
	b.WriteString(walks(os.Args[3], &allErrs))
	fmt.Fprintf(&b, "/-- thread-safe wrapper: method -> delegated inner call with the parameters passed -/\ndef hive_wrappers : List String := [")
	for i, w := range wrappers(os.Args[3]) {
		if i > 0 {
			b.WriteString(",\n  ")
		}
		b.WriteString("\"" + w + "\"")
	}
	b.WriteString("]\n\n")
	fmt.Fprintf(&b, "/-- methods of ds/list_impl.go with a value (non-pointer) receiver (must be none) -/\ndef hive_value_receivers : List String := [")
	for i, w := range valueReceivers(os.Args[3]) {
		if i > 0 {
			b.WriteString(", ")
		}
		b.WriteString("\"" + w + "\"")
	}
	b.WriteString("]\n\n")
	fmt.Fprintf(&b, "/-- bodies of newList / newThreadSafeList -/\ndef hive_constructors : List String := [")
	cons := constructors(os.Args[3])
	if len(os.Args) == 6 {
		cons = append(cons, constructors(os.Args[5])...)
	}
	for i, w := range cons {
		if i > 0 {
			b.WriteString(",\n  ")
		}
		b.WriteString("\"" + strings.ReplaceAll(strings.ReplaceAll(w, "\\", "\\\\"), "\"", "\\\"") + "\"")
	}
	b.WriteString("]\n\n")
	fmt.Fprintf(&b, "/-- what the translator could not translate (must be empty) -/\ndef errors : List String := [")
	for i, e := range allErrs {
		if i > 0 {
			b.WriteString(",\n  ")
		}
		b.WriteString("\"" + strings.ReplaceAll(strings.ReplaceAll(e, "\\", "\\\\"), "\"", "\\\"") + "\"")
	}
	b.WriteString("]\n\n")
	fmt.Fprintf(&b, "end %s\n", os.Args[2])
	if err := os.WriteFile(os.Args[1], []byte(b.String()), 0o644); err != nil {
		fmt.Fprintln(os.Stderr, err)
		os.Exit(1)
	}
	for _, e := range allErrs {
		fmt.Fprintln(os.Stderr, "xlate:", e)
	}
}
