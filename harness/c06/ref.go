package main

import (
	"fmt"
	"reflect"
	"strconv"
	"strings"

	"verifharness/hx"

	"github.com/iotaledger/hive.go/kvstore"
	"github.com/iotaledger/hive.go/kvstore/mapdb"
)

// Reference-typed instantiation: TypedValue[*settings].  The cache then holds the caller's object, so the
// histories also mutate objects between calls (mutate-after-Set, mutate-after-Get).  Objects are referred to
// by role: a = the object last given to Set, g = the object last returned by Get/Compute.  The answers print
// contents and aliasing facts; the Lean mirror is Hive/Model/TypedRef.lean (generic model at V := Ref with a
// heap-dependent codec).

type settings struct{ X uint64 }

type tpWorld struct {
	base    kvstore.KVStore
	fs      *faultStore
	tv      *kvstore.TypedValue[*settings]
	flt     tvFaults
	trace   []string
	anyFail bool
	a, g    *settings
	// oracle
	lwKind   int // 0 none yet, 1 deleted, 2 value
	lwBytes  []byte // encoding of what the last successful Set/Compute was given, at the time of that call
	initRaw  []byte
	initHas  bool
	fnResult string
	bufs     codecBufs
	dirty    bool // the caller mutated the cached object: value-level cache coherence is not claimed (aliasing)
	argFlags []string // fa / fg / fc: the compute function was handed the caller's object a / g / the cached object
}

func newTPWorld() *tpWorld {
	w := &tpWorld{base: mapdb.NewMapDB()}
	w.fs = &faultStore{KVStore: w.base, trace: &w.trace, anyFail: &w.anyFail, kvAfter: -1}
	w.open()

	return w
}

func (w *tpWorld) open() {
	w.dirty = false
	w.tv = kvstore.NewTypedValue[*settings](w.fs, tvKey,
		func(v *settings) ([]byte, error) {
			if w.flt.enc || v == nil || v.X == maxU64 {
				w.trace = append(w.trace, "E!")
				w.anyFail = true

				return nil, errEnc
			}
			w.trace = append(w.trace, "E")

			return w.bufs.encVal(v.X), nil
		},
		func(b []byte) (*settings, int, error) {
			v, ok := decU64(b)
			w.bufs.consumed(b)
			if w.flt.dec || !ok {
				w.trace = append(w.trace, "D!")
				w.anyFail = true

				return nil, 0, errDec
			}
			w.trace = append(w.trace, "D")

			return &settings{X: v}, 8, nil
		})
}

func (w *tpWorld) raw() ([]byte, bool) {
	v, err := w.base.Get(tvKey)
	if err != nil {
		return nil, false
	}

	return v, true
}

// cache: the cached pointer (nil if none) and the presence flag.
func (w *tpWorld) cache() (cv *settings, cvSet bool, ch *bool, ptr uintptr) {
	e := reflect.ValueOf(w.tv).Elem()
	fv, fh := e.FieldByName("valueCached"), e.FieldByName("hasCached")
	if !fv.IsValid() || !fh.IsValid() {
		panic("TypedValue no longer has the fields valueCached/hasCached named by the property anchors")
	}
	if !fv.IsNil() {
		cvSet = true
		pp := fv.Elem() // the *settings stored in the cache
		if !pp.IsNil() {
			ptr = pp.Pointer()
			switch {
			case w.a != nil && ptr == reflect.ValueOf(w.a).Pointer():
				cv = w.a
			case w.g != nil && ptr == reflect.ValueOf(w.g).Pointer():
				cv = w.g
			default:
				cv = &settings{X: pp.Elem().Field(0).Uint()} // an object the harness holds no reference to
			}
		}
	}
	if !fh.IsNil() {
		x := fh.Elem().Bool()
		ch = &x
	}

	return cv, cvSet, ch, ptr
}

func showObj(o *settings) string {
	if o == nil {
		return "nil"
	}

	return strconv.FormatUint(o.X, 10)
}

func (w *tpWorld) showCache(cv *settings, cvSet bool, ch *bool) string {
	s := "nil"
	if cvSet {
		s = showObj(cv)
	}
	if ch == nil {
		return s + "/nil"
	}

	return s + "/" + strconv.FormatBool(*ch)
}

func (w *tpWorld) alias(ret *settings, cv *settings) string {
	var fl []string
	if ret != nil && ret == w.a {
		fl = append(fl, "ra")
	}
	if cv != nil && cv == w.a {
		fl = append(fl, "ca")
	}
	if cv != nil && cv == w.g {
		fl = append(fl, "cg")
	}
	fl = append(fl, w.argFlags...)
	if len(fl) == 0 {
		return "-"
	}

	return strings.Join(fl, ",")
}

func (w *tpWorld) role(name string) *settings {
	switch name {
	case "a":
		return w.a
	case "g":
		return w.g
	}

	return nil
}

func (w *tpWorld) line(out string, ret *settings) string {
	raw, has := w.raw()
	cv, cvSet, ch, _ := w.cache()

	return fmt.Sprintf("%s calls=%s raw=%s cache=%s alias=%s", out, traceStr(w.trace), showRaw(raw, has), w.showCache(cv, cvSet, ch), w.alias(ret, cv))
}

func (w *tpWorld) exec(r *hx.Run, f []string) string {
	op := "tp " + strings.Join(f, " ")
	switch f[0] {
	case "codec":
		return w.bufs.setFlavour(f[1])
	case "store":
		return w.fs.setFlavour(f[1])
	case "init":
		w.base.Delete(tvKey)
		w.initHas, w.initRaw = false, nil
		if f[1] != "none" {
			w.initRaw, w.initHas = hx.UnHex(f[1]), true
			w.base.Set(tvKey, w.initRaw)
		}
		w.lwKind, w.a, w.g = 0, nil, nil
		w.open()

		return "ok"
	case "reopen":
		w.open()
		w.trace = w.trace[:0]
		w.argFlags = nil

		return w.line("ok", nil)
	case "mut":
		o := w.role(f[1])
		if o == nil {
			return "noobj"
		}
		n, _ := strconv.ParseUint(f[2], 10, 64)
		rawBefore, hasBefore := w.raw()
		o.X = n
		w.trace = w.trace[:0]
		w.argFlags = nil
		if cv, _, _, _ := w.cache(); cv == o {
			w.dirty = true
		}
		// the caller's mutation of its own object must not reach the store
		if rawAfter, hasAfter := w.raw(); hasAfter != hasBefore || string(rawAfter) != string(rawBefore) {
			r.Fail("stored-is-last-written", fmt.Sprintf("%s changed the raw bytes %s -> %s", op, showRaw(rawBefore, hasBefore), showRaw(rawAfter, hasAfter)),
				map[string]string{"oracle": "stored-differs", "api": "TypedValue[*T].mutate"})
		}

		return w.line("ok", nil)
	}
	flt, ok := parseTVFaults(f[len(f)-1])
	if !ok {
		return "bad-op"
	}
	// resolve the object arguments before anything else
	var setObj *settings
	switch {
	case f[0] == "set" && f[1] == "new":
		n, _ := strconv.ParseUint(f[2], 10, 64)
		setObj = &settings{X: n}
	case f[0] == "set":
		if setObj = w.role(f[1]); setObj == nil {
			return "noobj"
		}
	case f[0] == "compute" && (f[1] == "a" || f[1] == "g"):
		if w.role(f[1]) == nil {
			return "noobj"
		}
	}
	w.flt = flt
	w.trace = w.trace[:0]
	w.anyFail = false
	w.fnResult = ""
	w.argFlags = nil
	failAt := map[int]bool{}
	if flt.kv1 {
		failAt[1] = true
	}
	if flt.kv2 {
		failAt[2] = true
	}
	w.fs.begin(failAt, -1)
	rawBefore, hasBefore := w.raw()
	cvB, cvSetB, chB, ptrB := w.cache()
	cacheBefore := w.showCache(cvB, cvSetB, chB)
	curBefore, decodableBefore := uint64(0), false
	if hasBefore {
		curBefore, decodableBefore = decU64(rawBefore)
	}
	var out, expect string
	var err error
	var ret *settings
	var wrote int
	var wroteBytes []byte
	pan := hx.Safely(func() {
		switch f[0] {
		case "get":
			ret, err = w.tv.Get()
			if err == nil {
				out = "val " + showObj(ret)
			}
			if !hasBefore {
				expect = "notfound"
			} else if decodableBefore {
				expect = fmt.Sprintf("val %d", curBefore)
			}
		case "has":
			var h bool
			h, err = w.tv.Has()
			if err == nil {
				out = fmt.Sprintf("has %v", h)
			}
			expect = fmt.Sprintf("has %v", hasBefore)
		case "set":
			given := encU64(setObj.X) // what Set is given, at the time of the call
			err = w.tv.Set(setObj)
			if err == nil {
				out, wrote, wroteBytes = "ok", 2, given
			}
			expect = "ok"
		case "del":
			err = w.tv.Delete()
			if err == nil {
				out, wrote = "ok", 1
			}
			expect = "ok"
		case "compute":
			kind := f[1]
			var arg uint64
			if len(f) == 4 {
				arg, _ = strconv.ParseUint(f[2], 10, 64)
			}
			var given []byte
			roleA, roleG := w.a, w.g
			ret, err = w.tv.Compute(func(cur *settings, ex bool) (*settings, error) {
				// ownership: what the function is handed must be an object nobody else holds — not the caller's
				// (a: last given to Set, g: last returned) and not the one in the cache
				if cur != nil {
					if cur == roleA {
						w.argFlags = append(w.argFlags, "fa")
					}
					if cur == roleG {
						w.argFlags = append(w.argFlags, "fg")
					}
					if ptrB != 0 && reflect.ValueOf(cur).Pointer() == ptrB {
						w.argFlags = append(w.argFlags, "fc")
					}
				}
				res := func(o *settings) (*settings, error) {
					w.fnResult = "ok"
					w.trace = append(w.trace, "F")
					given = encU64(o.X)

					return o, nil
				}
				switch kind {
				case "new":
					return res(&settings{X: arg})
				case "inc":
					if ex {
						cur.X++

						return res(cur)
					}

					return res(&settings{X: arg})
				case "a", "g":
					return res(w.role(kind))
				case "mutnc", "mutfail":
					// the function works in place on what it was handed and then gives up
					if ex && cur != nil {
						cur.X = arg
					}
					if kind == "mutnc" {
						w.fnResult = "nc"
						w.trace = append(w.trace, "F~")

						return nil, kvstore.ErrTypedValueNotChanged
					}
				case "nc":
					w.fnResult = "nc"
					w.trace = append(w.trace, "F~")

					return nil, kvstore.ErrTypedValueNotChanged
				}
				w.fnResult = "fail"
				w.trace = append(w.trace, "F!")
				w.anyFail = true

				return nil, errFn
			})
			if err == nil {
				if w.fnResult == "nc" {
					out = "computed " + showObj(ret) + " nc"
				} else {
					out, wrote, wroteBytes = "computed "+showObj(ret)+" chg", 2, given
				}
			}
		default:
			out = "bad-op"
		}
	})
	if out == "bad-op" {
		return out
	}
	api := "TypedValue[*T]." + f[0]
	if pan != "" {
		out = "panic"
		r.Fail("no-panic", fmt.Sprintf("%s panicked: %s", op, pan), map[string]string{"oracle": "panic", "api": api})
	} else if err != nil {
		out = errKind(err)
		ret = nil
	}
	if setObj != nil {
		w.a = setObj
	}
	if ret != nil {
		w.g = ret
	}
	w.bufs.opDone()
	rawAfter, hasAfter := w.raw()
	cvA, cvSetA, chA, ptrA := w.cache()
	cacheAfter := w.showCache(cvA, cvSetA, chA)
	isErr := strings.HasPrefix(out, "err:")
	// ---- property oracle ----
	if w.anyFail && !isErr {
		last := ""
		for _, t := range w.trace {
			if strings.HasSuffix(t, "!") {
				last = t
			}
		}
		r.Fail("failure-reported", fmt.Sprintf("%s: call %s failed but the method returned %q; calls=%s", op, last, out, traceStr(w.trace)),
			map[string]string{"oracle": "swallowed-error", "api": api, "failed_call": last})
	}
	if isErr && !w.anyFail && pan == "" {
		r.Fail("failure-reported", fmt.Sprintf("%s: returned %s although no store/codec/function call failed; calls=%s", op, out, traceStr(w.trace)),
			map[string]string{"oracle": "spurious-error", "api": api})
	}
	if w.anyFail || isErr {
		if hasAfter != hasBefore || string(rawAfter) != string(rawBefore) {
			r.Fail("failure-atomic", fmt.Sprintf("%s failed (%s) but the raw bytes changed %s -> %s", op, out, showRaw(rawBefore, hasBefore), showRaw(rawAfter, hasAfter)),
				map[string]string{"oracle": "store-changed-on-failure", "api": api, "calls": traceStr(w.trace)})
		}
		_ = cvB
		if cacheAfter != cacheBefore || ptrA != ptrB {
			r.Fail("failure-atomic", fmt.Sprintf("%s failed (%s) but the cache changed %s -> %s", op, out, cacheBefore, cacheAfter),
				map[string]string{"oracle": "cache-changed-on-failure", "api": api, "calls": traceStr(w.trace)})
		}
	}
	if len(w.argFlags) > 0 {
		r.Fail("ownership", fmt.Sprintf("%s: the compute function was handed an object somebody else holds (%s: fa/fg = the caller's, fc = the cached one); what it does to it before it aborts or fails is then visible through the cache without having been written",
			op, strings.Join(w.argFlags, ",")), map[string]string{"oracle": "callback-argument-aliased", "api": api})
	}
	// the stored bytes are the encoding of what the last successful Set/Compute was given, at the time of that call
	if wrote != 0 {
		w.lwKind, w.lwBytes = wrote, wroteBytes
		w.dirty = false
	}
	var wantRaw []byte
	wantHas := false
	switch w.lwKind {
	case 0:
		wantRaw, wantHas = w.initRaw, w.initHas
	case 2:
		wantRaw, wantHas = w.lwBytes, true
	}
	if hasAfter != wantHas || string(rawAfter) != string(wantRaw) {
		r.Fail("stored-is-last-written", fmt.Sprintf("after %s (%s): raw=%s but the last successful write was given %s", op, out, showRaw(rawAfter, hasAfter), showRaw(wantRaw, wantHas)),
			map[string]string{"oracle": "stored-differs", "api": api, "calls": traceStr(w.trace)})
	}
	// cache = store and transparency are claimed for objects the caller has not mutated behind the cache's back
	if !w.dirty {
		if cvSetA && cvA != nil {
			v, okd := decU64(rawAfter)
			if !hasAfter || !okd || v != cvA.X {
				r.Fail("cache-coherent", fmt.Sprintf("after %s (%s): cached object holds %d but raw=%s", op, out, cvA.X, showRaw(rawAfter, hasAfter)),
					map[string]string{"oracle": "cache-value", "api": api, "calls": traceStr(w.trace)})
			}
		}
		if !w.anyFail && !isErr && pan == "" && expect != "" && out != expect {
			r.Fail("transparent", fmt.Sprintf("%s on raw=%s returned %q, the raw key under the codec gives %q", op, showRaw(rawBefore, hasBefore), out, expect),
				map[string]string{"oracle": "result-differs", "api": api})
		}
	}
	if chA != nil && *chA != hasAfter {
		r.Fail("cache-coherent", fmt.Sprintf("after %s (%s): hasCached=%v but raw=%s", op, out, *chA, showRaw(rawAfter, hasAfter)),
			map[string]string{"oracle": "cache-has", "api": api, "calls": traceStr(w.trace)})
	}

	return fmt.Sprintf("%s calls=%s raw=%s cache=%s alias=%s", out, traceStr(w.trace), showRaw(rawAfter, hasAfter), cacheAfter, w.alias(ret, cvA))
}

// ---- generators ----

func corpusTP() [][]string {
	return [][]string{
		// Set(p); p.x++; Set(p): the second Set must write the new content
		{"tp init none", "tp set new 5 -", "tp mut a 6", "tp set a -", "tp reopen", "tp get -"},
		// Get, mutate, Set
		{"tp init none", "tp set new 5 -", "tp reopen", "tp get -", "tp mut g 7", "tp set g -", "tp reopen", "tp get -"},
		// mutate after Get of a cached object, then Compute hands the same object back
		{"tp init none", "tp set new 1 -", "tp get -", "tp mut g 2", "tp compute g -", "tp reopen", "tp get -"},
		{"tp init none", "tp compute inc 3 -", "tp compute inc 3 -", "tp mut g 40", "tp compute inc 3 -", "tp compute nc -", "tp set g kv1", "tp set g -", "tp reopen", "tp get -"},
		// the function scribbles over what it was handed and aborts / fails: nothing of it may show through the cache
		{"tp init none", "tp set new 5 -", "tp compute mutnc 77 -", "tp get -", "tp compute mutfail 78 -", "tp get -", "tp reopen", "tp get -"},
		{"tp init none", "tp set new 5 -", "tp reopen", "tp get -", "tp compute mutfail 78 -", "tp get -", "tp compute mutnc 77 -", "tp get -", "tp mut g 9", "tp get -"},
		{"tp init 010203", "tp get -", "tp compute inc 1 -", "tp set new 18446744073709551615 -", "tp set new 2 enc", "tp del -", "tp compute nc -", "tp get -"},
	}
}

func genTP(rng *hx.Rng) []string {
	init := "none"
	if rng.Chance(3, 10) {
		init = hx.Hex(encU64(uint64(rng.Intn(50))))
	} else if rng.Chance(1, 10) {
		init = hx.Pick(rng, []string{"010203", "ffffffffffffffff"})
	}
	ops := []string{"tp init " + init}
	if rng.Bool() {
		ops = append([]string{"tp codec scratch"}, ops...)
	}
	if rng.Chance(2, 5) {
		ops = append([]string{"tp store " + hx.Pick(rng, []string{"wrapped", "fmt"})}, ops...)
	}
	haveA, haveG := false, false
	vals := []string{"0", "1", "2", "7", "41", "18446744073709551614", "18446744073709551615"}
	n := rng.Range(6, 22)
	for i := 0; i < n; i++ {
		ft := genTVFaults(rng)
		switch x := rng.Intn(100); {
		case x < 14:
			ops = append(ops, "tp get "+ft)
			haveG = true // possibly
		case x < 20:
			ops = append(ops, "tp has "+ft)
		case x < 32:
			ops = append(ops, fmt.Sprintf("tp set new %s %s", hx.Pick(rng, vals), ft))
			haveA = true
		case x < 44:
			if haveA || haveG {
				role := "a"
				if !haveA || (haveG && rng.Bool()) {
					role = "g"
				}
				ops = append(ops, fmt.Sprintf("tp set %s %s", role, ft))
				haveA = true
			}
		case x < 62:
			if haveA || haveG {
				role := "a"
				if !haveA || (haveG && rng.Bool()) {
					role = "g"
				}
				ops = append(ops, fmt.Sprintf("tp mut %s %s", role, hx.Pick(rng, vals)))
			}
		case x < 68:
			ops = append(ops, "tp del "+ft)
		case x < 92:
			kind := hx.Pick(rng, []string{"new 5", "inc 3", "inc 3", "nc", "fail", "a", "g", "mutnc 77", "mutfail 78"})
			ops = append(ops, fmt.Sprintf("tp compute %s %s", kind, ft))
			haveG = true
		default:
			ops = append(ops, "tp reopen")
		}
	}
	ops = append(ops, "tp get -", "tp has -", "tp reopen", "tp get -")

	return ops
}

// exhaustiveTP: every operation x every single-fault position after each aliasing prelude.
func exhaustiveTP() [][]string {
	preludes := [][]string{
		{"tp set new 5 -"},
		{"tp set new 5 -", "tp mut a 6"},
		{"tp set new 5 -", "tp reopen", "tp get -"},
		{"tp set new 5 -", "tp reopen", "tp get -", "tp mut g 7"},
		{"tp set new 5 -", "tp get -", "tp mut g 7"},
		{"tp compute inc 3 -", "tp mut g 9"},
		{"tp set new 5 -", "tp mut a 18446744073709551615"},
		{"tp set new 5 -", "tp del -", "tp mut a 8"},
	}
	ops := []string{"get", "has", "set new 4", "set a", "set g", "del", "compute new 4", "compute inc 4", "compute a", "compute g", "compute nc", "compute fail", "compute mutnc 77", "compute mutfail 78"}
	faults := []string{"-", "kv1", "kv2", "dec", "enc"}
	var out [][]string
	for _, pre := range preludes {
		for _, op := range ops {
			for _, ft := range faults {
				c := []string{"tp init none"}
				c = append(c, pre...)
				c = append(c, "tp "+op+" "+ft, "tp get -", "tp has -", "tp reopen", "tp get -")
				out = append(out, c)
			}
		}
	}

	return out
}
