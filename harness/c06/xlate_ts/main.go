// xlate_ts translates the bodies of the point methods of kvstore/typedstore.go (TypedStore.Get/Has/Set/Delete and the
// pass-through methods DeletePrefix/Clear) into terms of the statement language of lean/Hive/Model/TypedStoreCode.lean and
// writes them as a Lean module (Hive/Gen/C06_StoreCode.lean).  The Lean side proves that these terms, run by the
// language's semantics, equal the hand-written model `sstep` for every store content, key, value, codec and fault vector.
//
// usage: xlate_ts <repo>/kvstore/typedstore.go OUT.lean
//
// Supported subset (anything else is a translation failure, exit status 1):
//
//	y, e := / = t.keyToBytes(<key parameter>)          y, e := / = t.valueToBytes(<value parameter>)
//	y, e := / = t.kv.Get(y)    e = t.kv.Set(y, y)      e = t.kv.Delete(y)       v, _, e := / = t.bytesToValue(y)
//	if e != nil { return … }
//	return <V variable>, <err>     return false|true, <err>     return <err>     with <err> ::= nil | e | ierrors.Wrap(<err>, "msg")
//	return t.kv.Has(y)             return t.kv.DeletePrefix(<prefix parameter>)        return t.kv.Clear()
//
// Variables are numbered per declaration (go/parser's resolver); 0 is the blank identifier.
package main

import (
	"fmt"
	"go/ast"
	"go/parser"
	"go/token"
	"os"
	"strconv"
	"strings"
)

type sort string

const (
	sV sort = "v"
	sB sort = "b"
	sY sort = "y"
	sE sort = "e"
	sK sort = "k" // the key parameter
	sP sort = "p" // the prefix parameter
	sD sort = "d" // a decoded key (local of the consumer closure)
)

type fnTr struct {
	fset  *token.FileSet
	name  string
	recv  string
	ids   map[*ast.Object]int
	sorts map[*ast.Object]sort
	names map[int]string
	next  int
	errs  []string
	// the value parameter of Set has sort v but is not a local: remember it
	valueParam *ast.Object
	cbName     string // Iterate: the callback parameter
	dirName    string // Iterate: the variadic direction parameter
	inClosure  bool
	cbArity    int // number of arguments the callback of the iteration being translated takes
}

func (t *fnTr) fail(n ast.Node, msg string) {
	t.errs = append(t.errs, fmt.Sprintf("%s: %s: %s", t.fset.Position(n.Pos()), t.name, msg))
}

func (t *fnTr) id(x *ast.Ident, s sort) int {
	if x.Name == "_" {
		return 0
	}
	if x.Obj == nil {
		t.fail(x, "unresolved identifier "+x.Name)

		return 0
	}
	n, ok := t.ids[x.Obj]
	if !ok {
		t.next++
		n = t.next
		t.ids[x.Obj] = n
		t.names[n] = x.Name
	}
	if old, ok := t.sorts[x.Obj]; ok && old != s {
		t.fail(x, fmt.Sprintf("variable %s used at sort %s and %s", x.Name, old, s))
	}
	t.sorts[x.Obj] = s

	return n
}

func (t *fnTr) sel(e ast.Expr, path ...string) bool {
	for i := len(path) - 1; i >= 0; i-- {
		s, ok := e.(*ast.SelectorExpr)
		if !ok || s.Sel.Name != path[i] {
			return false
		}
		e = s.X
	}
	id, ok := e.(*ast.Ident)

	return ok && id.Name == t.recv
}

func isNil(e ast.Expr) bool {
	id, ok := e.(*ast.Ident)

	return ok && id.Name == "nil" && id.Obj == nil
}

func (t *fnTr) varOf(e ast.Expr, s sort) (int, bool) {
	id, ok := e.(*ast.Ident)
	if !ok || id.Obj == nil || t.sorts[id.Obj] != s {
		return 0, false
	}

	return t.id(id, s), true
}

func (t *fnTr) eexp(e ast.Expr) string {
	if isNil(e) {
		return ".nil"
	}
	if n, ok := t.varOf(e, sE); ok {
		return fmt.Sprintf("(.var %d)", n)
	}
	if c, ok := e.(*ast.CallExpr); ok && len(c.Args) == 2 {
		if s, ok := c.Fun.(*ast.SelectorExpr); ok && s.Sel.Name == "Wrap" {
			if x, ok := s.X.(*ast.Ident); ok && x.Name == "ierrors" {
				if lit, ok := c.Args[1].(*ast.BasicLit); ok && lit.Kind == token.STRING {
					return fmt.Sprintf("(.wrap %s %s)", t.eexp(c.Args[0]), lit.Value)
				}
			}
		}
	}
	t.fail(e, "unsupported error expression")

	return ".nil"
}

func seq(parts []string) string {
	if len(parts) == 0 {
		return ".skip"
	}
	if len(parts) == 1 {
		return parts[0]
	}

	return "(.seq " + parts[0] + "\n " + seq(parts[1:]) + ")"
}

func (t *fnTr) block(b *ast.BlockStmt, results []sort) string {
	var parts []string
	for _, s := range b.List {
		parts = append(parts, t.stmt(s, results))
	}

	return seq(parts)
}

func (t *fnTr) kvCall(e ast.Expr) (string, []ast.Expr, bool) {
	c, ok := e.(*ast.CallExpr)
	if !ok {
		return "", nil, false
	}
	s, ok := c.Fun.(*ast.SelectorExpr)
	if !ok || !t.sel(s.X, "kv") {
		return "", nil, false
	}

	return s.Sel.Name, c.Args, true
}

func (t *fnTr) stmt(s ast.Stmt, results []sort) string {
	switch s := s.(type) {
	case *ast.DeclStmt:
		// `var innerErr error`
		if gd, ok := s.Decl.(*ast.GenDecl); ok && gd.Tok == token.VAR && len(gd.Specs) == 1 {
			if vs, ok := gd.Specs[0].(*ast.ValueSpec); ok && len(vs.Names) == 1 && len(vs.Values) == 0 {
				if so, ok := typeSort(vs.Type); ok && so == sE {
					t.id(vs.Names[0], sE)

					return ".skip"
				}
			}
		}
		t.fail(s, "unsupported declaration (only `var x error`)")

		return ".skip"
	case *ast.IfStmt:
		if s.Init != nil && s.Else == nil && !t.inClosure {
			// `if e := t.kv.Iterate(prefix, func(key Key, value Value) bool { … }, direction...); e != nil { … }`
			if as, ok := s.Init.(*ast.AssignStmt); ok && as.Tok == token.DEFINE && len(as.Lhs) == 1 && len(as.Rhs) == 1 {
				if it, ok := t.iterate(as); ok {
					if b, ok := s.Cond.(*ast.BinaryExpr); ok && b.Op == token.NEQ && isNil(b.Y) {
						if n, ok := t.varOf(b.X, sE); ok {
							return seq([]string{it, fmt.Sprintf("(.ifErr %d\n %s)", n, t.block(s.Body, results))})
						}
					}
				}
			}
			t.fail(s, "unsupported if statement with an init clause")

			return ".skip"
		}
		if s.Init == nil && s.Else == nil {
			if b, ok := s.Cond.(*ast.BinaryExpr); ok && b.Op == token.NEQ && isNil(b.Y) {
				if n, ok := t.varOf(b.X, sE); ok {
					return fmt.Sprintf("(.ifErr %d\n %s)", n, t.block(s.Body, results))
				}
			}
		}
		t.fail(s, "unsupported if statement (only `if err != nil { … }`)")

		return ".skip"
	case *ast.ReturnStmt:
		return t.ret(s, results)
	case *ast.AssignStmt:
		return t.assign(s)
	}
	t.fail(s, "unsupported statement")

	return ".skip"
}

// iterate translates `e := t.kv.Iterate(prefix, func(key Key, value Value) bool { … }, direction...)`.
func (t *fnTr) iterate(as *ast.AssignStmt) (string, bool) {
	name, args, ok := t.kvCall(as.Rhs[0])
	call, _ := as.Rhs[0].(*ast.CallExpr)
	if !ok || (name != "Iterate" && name != "IterateKeys") || len(args) != 3 || !call.Ellipsis.IsValid() {
		return "", false
	}
	wantParams := 2
	if name == "IterateKeys" {
		wantParams = 1
	}
	if _, ok := t.varOf(args[0], sP); !ok {
		return "", false
	}
	if id, ok := args[2].(*ast.Ident); !ok || id.Name != t.dirName || t.dirName == "" {
		return "", false
	}
	fl, ok := args[1].(*ast.FuncLit)
	if !ok || fl.Type.Results == nil || len(fl.Type.Results.List) != 1 {
		return "", false
	}
	if so, ok := typeSort(fl.Type.Results.List[0].Type); !ok || so != sB {
		return "", false
	}
	var ps []int
	for _, p := range fl.Type.Params.List {
		so, ok := typeSort(p.Type)
		if !ok || so != sY {
			return "", false
		}
		for _, n := range p.Names {
			ps = append(ps, t.id(n, sY))
		}
	}
	if len(ps) != wantParams {
		return "", false
	}
	t.inClosure = true
	t.cbArity = wantParams
	body := t.block(fl.Body, []sort{sB})
	t.inClosure = false
	l, ok := t.lhs(as, sE)
	if !ok {
		return "", false
	}
	if name == "IterateKeys" {
		return fmt.Sprintf("(.iterKeys %d\n %s\n %d)", ps[0], body, l[0]), true
	}

	return fmt.Sprintf("(.iter %d %d\n %s\n %d)", ps[0], ps[1], body, l[0]), true
}

func (t *fnTr) ret(s *ast.ReturnStmt, results []sort) string {
	if t.inClosure {
		if len(s.Results) == 1 {
			if id, ok := s.Results[0].(*ast.Ident); ok && id.Obj == nil && (id.Name == "false" || id.Name == "true") {
				return fmt.Sprintf("(.retAdv %s)", id.Name)
			}
			if c, ok := s.Results[0].(*ast.CallExpr); ok && len(c.Args) == t.cbArity && !c.Ellipsis.IsValid() {
				if f, ok := c.Fun.(*ast.Ident); ok && f.Name == t.cbName && t.cbName != "" {
					k, ok1 := t.varOf(c.Args[0], sD)
					if ok1 && t.cbArity == 1 {
						return fmt.Sprintf("(.retCb1 %d)", k)
					}
					if ok1 && t.cbArity == 2 {
						if v, ok2 := t.varOf(c.Args[1], sV); ok2 {
							return fmt.Sprintf("(.retCb %d %d)", k, v)
						}
					}
				}
			}
		}
		t.fail(s, "unsupported return in the consumer closure")

		return ".skip"
	}
	// tail calls into the store
	if len(s.Results) == 1 {
		if name, args, ok := t.kvCall(s.Results[0]); ok {
			switch {
			case name == "Has" && len(args) == 1 && len(results) == 2 && results[0] == sB && results[1] == sE:
				if k, ok := t.varOf(args[0], sY); ok {
					return fmt.Sprintf("(.retHas %d)", k)
				}
			case name == "DeletePrefix" && len(args) == 1 && len(results) == 1 && results[0] == sE:
				if _, ok := t.varOf(args[0], sP); ok {
					return ".retDelPrefix"
				}
			case name == "Clear" && len(args) == 0 && len(results) == 1 && results[0] == sE:
				return ".retClear"
			}
			t.fail(s, "unsupported tail call into the store")

			return ".skip"
		}
	}
	if len(s.Results) != len(results) {
		t.fail(s, "return with a different number of values than the signature (naked return?)")

		return ".skip"
	}
	switch {
	case len(results) == 2 && results[0] == sV && results[1] == sE:
		if v, ok := t.varOf(s.Results[0], sV); ok && (t.valueParam == nil || s.Results[0].(*ast.Ident).Obj != t.valueParam) {
			return fmt.Sprintf("(.retV %d %s)", v, t.eexp(s.Results[1]))
		}
	case len(results) == 2 && results[0] == sB && results[1] == sE:
		if id, ok := s.Results[0].(*ast.Ident); ok && id.Obj == nil && (id.Name == "false" || id.Name == "true") {
			return fmt.Sprintf("(.retB %s %s)", id.Name, t.eexp(s.Results[1]))
		}
	case len(results) == 1 && results[0] == sE:
		return fmt.Sprintf("(.retE %s)", t.eexp(s.Results[0]))
	}
	t.fail(s, "unsupported return")

	return ".skip"
}

func (t *fnTr) lhs(s *ast.AssignStmt, sorts ...sort) ([]int, bool) {
	if len(s.Lhs) != len(sorts) {
		return nil, false
	}
	for i, l := range s.Lhs {
		id, ok := l.(*ast.Ident)
		if !ok || (sorts[i] == "" && id.Name != "_") {
			return nil, false
		}
	}
	out := make([]int, len(sorts))
	for i, l := range s.Lhs {
		if sorts[i] != "" {
			out[i] = t.id(l.(*ast.Ident), sorts[i])
		}
	}

	return out, true
}

func (t *fnTr) assign(s *ast.AssignStmt) string {
	if (s.Tok != token.ASSIGN && s.Tok != token.DEFINE) || len(s.Rhs) != 1 {
		t.fail(s, "unsupported assignment")

		return ".skip"
	}
	call, ok := s.Rhs[0].(*ast.CallExpr)
	if !ok {
		// `innerErr = keyErr`
		if s.Tok == token.ASSIGN && len(s.Lhs) == 1 {
			if src, ok := t.varOf(s.Rhs[0], sE); ok {
				if dst, ok := t.varOf(s.Lhs[0], sE); ok {
					return fmt.Sprintf("(.setE %d (.var %d))", dst, src)
				}
			}
		}
		t.fail(s, "unsupported assignment (not a call)")

		return ".skip"
	}
	if name, args, ok := t.kvCall(call); ok {
		switch {
		case name == "Get" && len(args) == 1:
			if k, ok := t.varOf(args[0], sY); ok {
				if l, ok := t.lhs(s, sY, sE); ok {
					return fmt.Sprintf("(.kvGet %d %d %d)", k, l[0], l[1])
				}
			}
		case name == "Set" && len(args) == 2:
			k, ok1 := t.varOf(args[0], sY)
			y, ok2 := t.varOf(args[1], sY)
			if ok1 && ok2 {
				if l, ok := t.lhs(s, sE); ok {
					return fmt.Sprintf("(.kvSet %d %d %d)", k, y, l[0])
				}
			}
		case name == "Delete" && len(args) == 1:
			if k, ok := t.varOf(args[0], sY); ok {
				if l, ok := t.lhs(s, sE); ok {
					return fmt.Sprintf("(.kvDel %d %d)", k, l[0])
				}
			}
		}
		t.fail(s, "unsupported store call")

		return ".skip"
	}
	if len(call.Args) == 1 {
		switch {
		case t.sel(call.Fun, "keyToBytes"):
			if _, ok := t.varOf(call.Args[0], sK); ok {
				if l, ok := t.lhs(s, sY, sE); ok {
					return fmt.Sprintf("(.encKey %d %d)", l[0], l[1])
				}
			}
		case t.sel(call.Fun, "valueToBytes"):
			if id, ok := call.Args[0].(*ast.Ident); ok && id.Obj != nil && id.Obj == t.valueParam {
				if l, ok := t.lhs(s, sY, sE); ok {
					return fmt.Sprintf("(.encVal %d %d)", l[0], l[1])
				}
			}
		case t.sel(call.Fun, "bytesToKey"):
			if y, ok := t.varOf(call.Args[0], sY); ok {
				if l, ok := t.lhs(s, sD, "", sE); ok {
					return fmt.Sprintf("(.decKey %d %d %d)", y, l[0], l[2])
				}
			}
		case t.sel(call.Fun, "bytesToValue"):
			if y, ok := t.varOf(call.Args[0], sY); ok {
				if l, ok := t.lhs(s, sV, "", sE); ok {
					return fmt.Sprintf("(.decVal %d %d %d)", y, l[0], l[2])
				}
			}
		}
	}
	t.fail(s, "unsupported call assignment")

	return ".skip"
}

func typeSort(e ast.Expr) (sort, bool) {
	if id, ok := e.(*ast.Ident); ok {
		switch id.Name {
		case "K":
			return sK, true
		case "V":
			return sV, true
		case "bool":
			return sB, true
		case "error":
			return sE, true
		case "KeyPrefix":
			return sP, true
		case "Key", "Value":
			return sY, true
		}
	}

	return "", false
}

type fnOut struct {
	name, body, vars string
	line             int
}

func translate(fset *token.FileSet, fd *ast.FuncDecl) (*fnOut, []string) {
	t := &fnTr{fset: fset, name: fd.Name.Name, ids: map[*ast.Object]int{}, sorts: map[*ast.Object]sort{}, names: map[int]string{}}
	if fd.Recv == nil || len(fd.Recv.List) != 1 || len(fd.Recv.List[0].Names) != 1 {
		return nil, []string{fd.Name.Name + ": no named receiver"}
	}
	t.recv = fd.Recv.List[0].Names[0].Name
	for _, p := range fd.Type.Params.List {
		if _, ok := p.Type.(*ast.FuncType); ok && len(p.Names) == 1 {
			t.cbName = p.Names[0].Name

			continue
		}
		if _, ok := p.Type.(*ast.Ellipsis); ok && len(p.Names) == 1 {
			t.dirName = p.Names[0].Name

			continue
		}
		s, ok := typeSort(p.Type)
		if !ok {
			t.fail(p, "unsupported parameter type")

			continue
		}
		for _, n := range p.Names {
			t.id(n, s)
			if s == sV {
				t.valueParam = n.Obj
			}
		}
	}
	var results []sort
	if fd.Type.Results != nil {
		for _, p := range fd.Type.Results.List {
			s, ok := typeSort(p.Type)
			if !ok {
				t.fail(p, "unsupported result type")

				continue
			}
			if len(p.Names) == 0 {
				results = append(results, s)
			}
			for _, n := range p.Names {
				results = append(results, s)
				t.id(n, s)
			}
		}
	}
	out := &fnOut{name: fd.Name.Name, line: fset.Position(fd.Pos()).Line}
	out.body = t.block(fd.Body, results)
	var vs []string
	for i := 1; i <= t.next; i++ {
		vs = append(vs, fmt.Sprintf("%d=%s", i, t.names[i]))
	}
	out.vars = strings.Join(vs, " ")

	return out, t.errs
}

func isTypedStoreRecv(fl *ast.FieldList) bool {
	if fl == nil || len(fl.List) != 1 {
		return false
	}
	st, ok := fl.List[0].Type.(*ast.StarExpr)
	if !ok {
		return false
	}
	switch x := st.X.(type) {
	case *ast.IndexListExpr:
		id, ok := x.X.(*ast.Ident)

		return ok && id.Name == "TypedStore"
	case *ast.IndexExpr:
		id, ok := x.X.(*ast.Ident)

		return ok && id.Name == "TypedStore"
	}

	return false
}

// fileFacts: what the translated methods do not cover — the constructor (a single `return &T{field: param, …}`: which
// parameter initialises which field; fields not listed stay zero, so a new object starts with an empty cache), the
// accessor KVStore() (a single `return t.kv`), and the list of all function declarations of the file (a new method shows up).
func fileFacts(f *ast.File, ctorName string) (ctor []string, accessor string, decls []string, errs []string) {
	for _, d := range f.Decls {
		fd, ok := d.(*ast.FuncDecl)
		if !ok {
			continue
		}
		decls = append(decls, fd.Name.Name)
		switch {
		case fd.Recv == nil && fd.Name.Name == ctorName:
			params := map[string]bool{}
			for _, p := range fd.Type.Params.List {
				for _, n := range p.Names {
					params[n.Name] = true
				}
			}
			bad := func() { errs = append(errs, ctorName+": body is not a single `return &T{field: parameter, …}`") }
			if fd.Body == nil || len(fd.Body.List) != 1 {
				bad()

				continue
			}
			rs, ok := fd.Body.List[0].(*ast.ReturnStmt)
			if !ok || len(rs.Results) != 1 {
				bad()

				continue
			}
			u, ok := rs.Results[0].(*ast.UnaryExpr)
			if !ok || u.Op != token.AND {
				bad()

				continue
			}
			cl, ok := u.X.(*ast.CompositeLit)
			if !ok {
				bad()

				continue
			}
			for _, e := range cl.Elts {
				kv, ok := e.(*ast.KeyValueExpr)
				if !ok {
					bad()

					break
				}
				k, ok1 := kv.Key.(*ast.Ident)
				v, ok2 := kv.Value.(*ast.Ident)
				if !ok1 || !ok2 || !params[v.Name] {
					bad()

					break
				}
				ctor = append(ctor, k.Name+"="+v.Name)
			}
		case fd.Recv != nil && fd.Name.Name == "KVStore":
			if fd.Body != nil && len(fd.Body.List) == 1 {
				if rs, ok := fd.Body.List[0].(*ast.ReturnStmt); ok && len(rs.Results) == 1 {
					if s, ok := rs.Results[0].(*ast.SelectorExpr); ok {
						if x, ok := s.X.(*ast.Ident); ok && len(fd.Recv.List) == 1 && len(fd.Recv.List[0].Names) == 1 && x.Name == fd.Recv.List[0].Names[0].Name {
							accessor = s.Sel.Name

							continue
						}
					}
				}
			}
			errs = append(errs, "KVStore(): body is not a single `return t.<field>`")
		}
	}
	if ctor == nil && len(errs) == 0 {
		errs = append(errs, "constructor "+ctorName+" not found")
	}

	return ctor, accessor, decls, errs
}

func leanStrList(xs []string) string {
	q := make([]string, len(xs))
	for i, x := range xs {
		q[i] = strconv.Quote(x)
	}

	return "[" + strings.Join(q, ", ") + "]"
}

func main() {
	if len(os.Args) != 3 {
		fmt.Fprintln(os.Stderr, "usage: xlate_ts typedstore.go OUT.lean")
		os.Exit(2)
	}
	fset := token.NewFileSet()
	f, err := parser.ParseFile(fset, os.Args[1], nil, 0)
	if err != nil {
		fmt.Fprintln(os.Stderr, err)
		os.Exit(1)
	}
	want := []string{"Get", "Has", "Set", "Delete", "DeletePrefix", "Clear", "Iterate", "IterateKeys"}
	got := map[string]*fnOut{}
	var errs []string
	for _, d := range f.Decls {
		fd, ok := d.(*ast.FuncDecl)
		if !ok || fd.Body == nil || !isTypedStoreRecv(fd.Recv) {
			continue
		}
		for _, w := range want {
			if fd.Name.Name == w {
				o, es := translate(fset, fd)
				errs = append(errs, es...)
				if o != nil {
					got[w] = o
				}
			}
		}
	}
	for _, w := range want {
		if got[w] == nil {
			errs = append(errs, "method TypedStore."+w+" not found")
		}
	}
	if len(errs) > 0 {
		for _, e := range errs {
			fmt.Fprintln(os.Stderr, "xlate_ts:", e)
		}
		os.Exit(1)
	}
	ctor, accessor, decls, ferrs := fileFacts(f, "NewTypedStore")
	if len(ferrs) > 0 {
		for _, e := range ferrs {
			fmt.Fprintln(os.Stderr, "xlate_ts:", e)
		}
		os.Exit(1)
	}
	var b strings.Builder
	b.WriteString("import Hive.Model.TypedStoreCode\n/-! GENERATED by harness/c06/xlate_ts from kvstore/typedstore.go — bodies of the point methods of TypedStore as terms of\n`Hive.Typed.SCode.SStmt`; do not edit. -/\nnamespace Hive.Gen.C06StoreCode\nopen Hive.Typed.SCode\n\n")
	for _, w := range want {
		o := got[w]
		fmt.Fprintf(&b, "/-- TypedStore.%s (typedstore.go:%d); variables: %s -/\ndef code_%s : SStmt :=\n %s\n\n", w, o.line, o.vars, w, o.body)
	}
	b.WriteString("def sprog : SProg :=\n  { get := code_Get, has := code_Has, set := code_Set, delete := code_Delete, deletePrefix := code_DeletePrefix, clear := code_Clear, iterate := code_Iterate, iterateKeys := code_IterateKeys }\n\n")
	b.WriteString("/-- NewTypedStore: which parameter initialises which field. -/\ndef ctor : List String := " + leanStrList(ctor) + "\n\n")
	b.WriteString("/-- KVStore() returns this field. -/\ndef accessor : String := " + strconv.Quote(accessor) + "\n\n")
	b.WriteString("/-- Every function declaration of typedstore.go, in source order. -/\ndef decls : List String := " + leanStrList(decls) + "\n\nend Hive.Gen.C06StoreCode\n")
	if err := os.WriteFile(os.Args[2], []byte(b.String()), 0o644); err != nil {
		fmt.Fprintln(os.Stderr, err)
		os.Exit(1)
	}
}
