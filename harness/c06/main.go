// C06 correspondence harness: drives the real kvstore.TypedValue and kvstore.TypedStore over mapdb
// behind a fault-injecting KVStore wrapper and failing codecs, one operation per line, and prints the
// canonical answers (result, trace of store/codec calls, raw store bytes, cache fields) that the Lean
// models (Hive/Model/TypedValue.lean, TypedStore.lean) must reproduce line by line.  The property
// oracle (error <=> a call failed, raw bytes = encoding of the last successful write, cache = store,
// failures leave store and cache unchanged, no fault => the raw key under the codec) is evaluated here
// on the implementation, independently of Lean.  The concurrent part runs real goroutines against one
// TypedValue and prints what they observed; the Lean driver decides it with the trace predicate of
// Hive/Model/TypedConc.lean.
package main

import (
	"crypto/sha256"
	"encoding/binary"
	"errors"
	"fmt"
	"reflect"
	"sort"
	"strconv"
	"strings"
	"sync"
	"unsafe"

	"verifharness/hx"

	"github.com/iotaledger/hive.go/ierrors"
	"github.com/iotaledger/hive.go/kvstore"
	"github.com/iotaledger/hive.go/kvstore/mapdb"
)

var (
	errKV   = errors.New("injected store failure")
	errDec  = errors.New("injected/natural decode failure")
	errEnc  = errors.New("injected/natural encode failure")
	errFn   = errors.New("compute function failure")
	errEncK = errors.New("key encode failure")
	errEncV = errors.New("value encode failure")
	errDecK = errors.New("key decode failure")
	errDecV = errors.New("value decode failure")
)

const maxU64 = ^uint64(0)

var tvKey = []byte("typed")

// ---------------------------------------------------------------------------------------------
// fault-injecting store wrapper (sequential parts)

type faultStore struct {
	kvstore.KVStore
	calls    int          // store calls made by the current operation
	failAt   map[int]bool // 1-based positions of the calls that fail
	kvAfter  int          // Iterate: fail after delivering this many entries (-1: never)
	trace    *[]string
	anyFail  *bool
	letterOf map[string]string
	wrap     int // error flavour of the store: 0 bare sentinels, 1 ierrors.Wrap, 2 fmt.Errorf("%w") twice
	dirty    bool // a failing Set / Delete takes effect before it reports the failure
	dirtyHit bool // ... and that happened in the current operation
	partialHit bool // a bulk deletion (DeletePrefix / Clear) failed part-way in the current operation: kvAfter entries are gone
}

// we returns the error the way this store flavour reports it.  A KVStore may wrap its sentinel errors (callers are
// expected to test with errors.Is / ierrors.Is, as the repository does everywhere); the typed views must behave the
// same over such a store.
func (f *faultStore) we(err error) error {
	if err == nil {
		return nil
	}
	switch f.wrap {
	case 1:
		return ierrors.Wrap(err, "store layer")
	case 2:
		return fmt.Errorf("outer layer: %w", fmt.Errorf("inner layer: %w", err))
	}

	return err
}

func (f *faultStore) setFlavour(name string) string {
	switch name {
	case "plain":
		f.wrap = 0
	case "wrapped":
		f.wrap = 1
	case "fmt":
		f.wrap = 2
	default:
		return "bad-op"
	}

	return "ok"
}

func (f *faultStore) begin(failAt map[int]bool, kvAfter int) {
	f.calls, f.failAt, f.kvAfter = 0, failAt, kvAfter
	f.dirtyHit, f.partialHit = false, false
}

// dirty failures: a failing Set / Delete of this store takes effect before it reports the failure
func (f *faultStore) setFaults(name string) string {
	switch name {
	case "dirty":
		f.dirty = true
	case "atomic":
		f.dirty = false
	default:
		return "bad-op"
	}

	return "ok"
}

func (f *faultStore) hit(letter string) bool {
	f.calls++
	if f.failAt[f.calls] {
		*f.trace = append(*f.trace, letter+"!")
		*f.anyFail = true

		return true
	}

	return false
}

func (f *faultStore) Get(k kvstore.Key) (kvstore.Value, error) {
	if f.hit("G") {
		return nil, f.we(errKV)
	}
	v, err := f.KVStore.Get(k)
	if err != nil {
		*f.trace = append(*f.trace, "G?")
	} else {
		*f.trace = append(*f.trace, "G")
	}

	return v, f.we(err)
}

func (f *faultStore) Has(k kvstore.Key) (bool, error) {
	if f.hit("H") {
		return false, f.we(errKV)
	}
	*f.trace = append(*f.trace, "H")

	h, err := f.KVStore.Has(k)

	return h, f.we(err)
}

func (f *faultStore) Set(k kvstore.Key, v kvstore.Value) error {
	if f.hit("S") {
		if f.dirty {
			f.dirtyHit = true
			f.KVStore.Set(k, v)
			scribble(v)
		}

		return f.we(errKV)
	}
	*f.trace = append(*f.trace, "S")
	err := f.KVStore.Set(k, v)
	// the buffer belongs to the caller again once Set has returned: a store must not keep it
	scribble(v)

	return f.we(err)
}

func scribble(b []byte) {
	for i := range b {
		b[i] = 0xEE
	}
}

func (f *faultStore) IterateKeys(prefix kvstore.KeyPrefix, consumer kvstore.IteratorKeyConsumerFunc, dir ...kvstore.IterDirection) error {
	if f.hit("I") {
		return f.we(errKV)
	}
	delivered, failed := 0, false
	err := f.KVStore.IterateKeys(prefix, func(k kvstore.Key) bool {
		if delivered == f.kvAfter {
			failed = true

			return false
		}
		delivered++

		return consumer(k)
	}, dir...)
	if failed {
		*f.trace = append(*f.trace, "I!")
		*f.anyFail = true

		return f.we(errKV)
	}
	*f.trace = append(*f.trace, "I")

	return f.we(err)
}

// bulk: a bulk deletion over the keys with the given prefix.  With kvAfter = n >= 0 and more than n such keys the store
// fails part-way: the first n of them (in key order) are gone, then the failure is reported.
func (f *faultStore) bulk(letter string, prefix kvstore.KeyPrefix, full func() error) error {
	if f.hit(letter) {
		return f.we(errKV)
	}
	if f.kvAfter >= 0 {
		var keys []string
		f.KVStore.IterateKeys(prefix, func(k kvstore.Key) bool {
			keys = append(keys, string(k))

			return true
		})
		sort.Strings(keys)
		if len(keys) > f.kvAfter {
			for _, k := range keys[:f.kvAfter] {
				f.KVStore.Delete([]byte(k))
			}
			*f.trace = append(*f.trace, letter+"!")
			*f.anyFail = true
			f.partialHit = true

			return f.we(errKV)
		}
	}
	*f.trace = append(*f.trace, letter)

	return f.we(full())
}

func (f *faultStore) DeletePrefix(prefix kvstore.KeyPrefix) error {
	return f.bulk("P", prefix, func() error { return f.KVStore.DeletePrefix(prefix) })
}

func (f *faultStore) Clear() error {
	return f.bulk("Z", kvstore.EmptyPrefix, func() error { return f.KVStore.Clear() })
}

func (f *faultStore) Delete(k kvstore.Key) error {
	if f.hit("X") {
		if f.dirty {
			f.dirtyHit = true
			f.KVStore.Delete(k)
		}

		return f.we(errKV)
	}
	*f.trace = append(*f.trace, "X")

	return f.we(f.KVStore.Delete(k))
}

func (f *faultStore) Iterate(prefix kvstore.KeyPrefix, consumer kvstore.IteratorKeyValueConsumerFunc, dir ...kvstore.IterDirection) error {
	if f.hit("I") {
		return f.we(errKV)
	}
	delivered, failed := 0, false
	err := f.KVStore.Iterate(prefix, func(k kvstore.Key, v kvstore.Value) bool {
		if delivered == f.kvAfter {
			failed = true

			return false
		}
		delivered++

		return consumer(k, v)
	}, dir...)
	if failed {
		*f.trace = append(*f.trace, "I!")
		*f.anyFail = true

		return f.we(errKV)
	}
	*f.trace = append(*f.trace, "I")

	return f.we(err)
}

// ---------------------------------------------------------------------------------------------
// codecs

// codecBufs is the codec flavour of a world: allocating encoders, or allocation-free ones that encode into one
// scratch buffer per codec (reused by the next call and scribbled over after every operation) with decoders that
// treat their input as theirs (they scribble over it after reading).  A store that keeps a slice it was handed, or
// hands out its own, shows up in the raw bytes compared after every step.
type codecBufs struct {
	scratch bool
	varKeys bool // TypedStore keys encode with variable length (see encKeyVar): one key's encoding can be a prefix of another's
	zeroEmpty bool // the value 0 encodes as the empty byte string (and the empty byte string decodes to 0): "present with a zero-length value" is not "absent"
	val     [8]byte
	key     [2]byte
}

func (c *codecBufs) encVal(v uint64) []byte {
	if c.zeroEmpty && v == 0 {
		if c.scratch {
			return c.val[:0]
		}

		return []byte{}
	}
	if !c.scratch {
		return encU64(v)
	}
	binary.BigEndian.PutUint64(c.val[:], v)

	return c.val[:]
}

func (c *codecBufs) encKey(k uint16) ([]byte, bool) {
	b, ok := c.encKeyRaw(k)
	if !ok || !c.scratch {
		return b, ok
	}
	copy(c.key[:], b)

	return c.key[:len(b)], true
}

// encValRaw / decValRaw: the value codec without injection and without buffer games, in the flavour of this world.
func (c *codecBufs) encValRaw(v uint64) []byte {
	if c.zeroEmpty && v == 0 {
		return []byte{}
	}

	return encU64(v)
}

func (c *codecBufs) decValRaw(b []byte) (uint64, bool) {
	if c.zeroEmpty && len(b) == 0 {
		return 0, true
	}

	return decU64(b)
}

func (c *codecBufs) setValues(name string) string {
	switch name {
	case "zempty":
		c.zeroEmpty = true
	case "plain":
		c.zeroEmpty = false
	default:
		return "bad-op"
	}

	return "ok"
}

// encKeyRaw / decKeyRaw: the key codec without injection and without buffer games, in the flavour of this world.
func (c *codecBufs) encKeyRaw(k uint16) ([]byte, bool) {
	if c.varKeys {
		return encKeyVar(k)
	}

	return encU16(k)
}

func (c *codecBufs) decKeyRaw(b []byte) (uint16, bool) {
	if c.varKeys {
		return decKeyVar(b)
	}

	return decU16(b)
}

// consumed: a decoder is done with its input.
func (c *codecBufs) consumed(in []byte) {
	if c.scratch {
		scribble(in)
	}
}

// opDone: the operation returned; whatever it encoded into the scratch buffers is garbage now.
func (c *codecBufs) opDone() {
	if c.scratch {
		scribble(c.val[:])
		scribble(c.key[:])
	}
}

func (c *codecBufs) setFlavour(name string) string {
	switch name {
	case "scratch":
		c.scratch = true
	case "alloc":
		c.scratch = false
	default:
		return "bad-op"
	}

	return "ok"
}

func encU64(v uint64) []byte {
	b := make([]byte, 8)
	binary.BigEndian.PutUint64(b, v)

	return b
}

// decU64 is the codec's decoder without injection: (value, ok).
func decU64(b []byte) (uint64, bool) {
	if len(b) != 8 {
		return 0, false
	}
	v := binary.BigEndian.Uint64(b)

	return v, v != maxU64
}

func encU16(k uint16) ([]byte, bool) {
	if k == 0xffff {
		return nil, false
	}

	return []byte{byte(k >> 8), byte(k)}, true
}

// Variable-length key codec (not prefix-free): keys below 256 encode as one byte, the others as two bytes big-endian;
// 0xFFFF is unencodable.  The encoding of k < 256 is a proper prefix of the encodings of 256*k .. 256*k+255, so a method
// that confuses "this key" with "keys with this prefix" (Delete vs DeletePrefix, Has by iteration) is exposed.
// Decoding accepts only canonical encodings (one byte, or two bytes with a non-zero first byte).
func encKeyVar(k uint16) ([]byte, bool) {
	if k == 0xffff {
		return nil, false
	}
	if k < 256 {
		return []byte{byte(k)}, true
	}

	return []byte{byte(k >> 8), byte(k)}, true
}

func decKeyVar(b []byte) (uint16, bool) {
	switch len(b) {
	case 1:
		return uint16(b[0]), true
	case 2:
		if b[0] == 0 {
			return 0, false
		}
		k := uint16(b[0])<<8 | uint16(b[1])

		return k, k != 0xffff
	}

	return 0, false
}

func decU16(b []byte) (uint16, bool) {
	if len(b) != 2 {
		return 0, false
	}
	k := uint16(b[0])<<8 | uint16(b[1])

	return k, k != 0xffff
}

// ---------------------------------------------------------------------------------------------
// TypedValue world

type tvFaults struct{ kv1, kv2, dec, enc bool }

func parseTVFaults(tok string) (tvFaults, bool) {
	var f tvFaults
	if tok == "-" {
		return f, true
	}
	for _, t := range strings.Split(tok, ",") {
		switch t {
		case "kv1":
			f.kv1 = true
		case "kv2":
			f.kv2 = true
		case "dec":
			f.dec = true
		case "enc":
			f.enc = true
		default:
			return f, false
		}
	}

	return f, true
}

type tvWorld struct {
	base    kvstore.KVStore
	fs      *faultStore
	tv      *kvstore.TypedValue[uint64]
	flt     tvFaults
	trace   []string
	anyFail bool
	// oracle: last successful write of the history (0 none yet, 1 deleted, 2 value)
	lwKind   int
	lwVal    uint64
	initRaw  []byte
	initHas  bool
	fnResult string // what the compute function of the current op answered: "", "ok", "nc", "fail"
	bufs     codecBufs
	stale    bool // the store applied a write it reported as failed: the cache may be behind the store until the next successful write / a fresh object
}

func newTVWorld() *tvWorld {
	w := &tvWorld{base: mapdb.NewMapDB()}
	w.fs = &faultStore{KVStore: w.base, trace: &w.trace, anyFail: &w.anyFail, kvAfter: -1}
	w.open()

	return w
}

func (w *tvWorld) open() {
	w.tv = kvstore.NewTypedValue[uint64](w.fs, tvKey,
		func(v uint64) ([]byte, error) {
			if w.flt.enc || v == maxU64 {
				w.trace = append(w.trace, "E!")
				w.anyFail = true

				return nil, errEnc
			}
			w.trace = append(w.trace, "E")

			return w.bufs.encVal(v), nil
		},
		func(b []byte) (uint64, int, error) {
			v, ok := w.bufs.decValRaw(b)
			w.bufs.consumed(b)
			if w.flt.dec || !ok {
				w.trace = append(w.trace, "D!")
				w.anyFail = true

				return 0, 0, errDec
			}
			w.trace = append(w.trace, "D")

			return v, 8, nil
		})
}

func (w *tvWorld) raw() ([]byte, bool) {
	v, err := w.base.Get(tvKey)
	if err != nil {
		return nil, false
	}

	return v, true
}

func showRaw(b []byte, has bool) string {
	if !has {
		return "none"
	}

	return hx.Hex(b)
}

// cache reads the two unexported cache fields named by the property's anchors.
func (w *tvWorld) cache() (cv *uint64, ch *bool) {
	e := reflect.ValueOf(w.tv).Elem()
	fv, fh := e.FieldByName("valueCached"), e.FieldByName("hasCached")
	if !fv.IsValid() || !fh.IsValid() {
		panic("TypedValue no longer has the fields valueCached/hasCached named by the property anchors")
	}
	if !fv.IsNil() {
		x := fv.Elem().Uint()
		cv = &x
	}
	if !fh.IsNil() {
		x := fh.Elem().Bool()
		ch = &x
	}

	return cv, ch
}

func showCache(cv *uint64, ch *bool) string {
	s := "nil"
	if cv != nil {
		s = strconv.FormatUint(*cv, 10)
	}
	if ch == nil {
		return s + "/nil"
	}

	return s + "/" + strconv.FormatBool(*ch)
}

func errKind(err error) string {
	switch {
	case errors.Is(err, kvstore.ErrKeyNotFound):
		return "notfound"
	case errors.Is(err, errKV):
		return "err:kv"
	case errors.Is(err, errDec):
		return "err:dec"
	case errors.Is(err, errEnc):
		return "err:enc"
	case errors.Is(err, errFn):
		return "err:fn"
	case errors.Is(err, errEncK):
		return "err:enck"
	case errors.Is(err, errEncV):
		return "err:encv"
	case errors.Is(err, errDecK):
		return "err:deck"
	case errors.Is(err, errDecV):
		return "err:decv"
	}

	return "err:other(" + err.Error() + ")"
}

func makeFn(w *tvWorld, name string, n uint64) func(uint64, bool) (uint64, error) {
	res := func(v uint64, kind string) (uint64, error) {
		w.fnResult = kind
		switch kind {
		case "nc":
			w.trace = append(w.trace, "F~")

			return 0, kvstore.ErrTypedValueNotChanged
		case "fail":
			w.trace = append(w.trace, "F!")
			w.anyFail = true

			return 0, errFn
		}
		w.trace = append(w.trace, "F")

		return v, nil
	}

	return func(cur uint64, ex bool) (uint64, error) {
		switch name {
		case "const":
			return res(n, "ok")
		case "add":
			return res(cur+n, "ok")
		case "nc":
			return res(0, "nc")
		case "fail":
			return res(0, "fail")
		case "boom":
			// the function panics: for the object this is a failing function (nothing may change, the lock must be
			// released by the deferred Unlock); the harness recovers the panic
			w.fnResult = "boom"
			w.trace = append(w.trace, "F^")
			w.anyFail = true
			panic(boomValue)
		case "ncx":
			if ex {
				return res(0, "nc")
			}

			return res(n, "ok")
		case "failx":
			if ex {
				return res(0, "fail")
			}

			return res(n, "ok")
		case "incx":
			if ex {
				return res(cur+1, "ok")
			}

			return res(n, "ok")
		case "cap":
			if ex && cur >= n {
				return res(0, "nc")
			}

			return res(cur+1, "ok")
		}
		panic("unknown fn " + name)
	}
}

const boomValue = "verif: the compute function panics"

// lockFree: after a call unwound by a panic, is t.mutex unlocked?  (syncutils.RWMutex is sync.RWMutex in the default build:
// obligation C06_skeleton_type_rwmutex.)  ok=false if the field is not a sync.RWMutex.
func lockFree(tv any) (free, ok bool) {
	defer func() {
		if recover() != nil {
			ok = false
		}
	}()
	m := reflect.ValueOf(tv).Elem().FieldByName("mutex")
	if !m.IsValid() || m.Type() != reflect.TypeOf(sync.RWMutex{}) {
		return false, false
	}
	mu := (*sync.RWMutex)(unsafe.Pointer(m.UnsafeAddr()))
	if !mu.TryLock() {
		return false, true
	}
	mu.Unlock()

	return true, true
}

// specFn is the harness's own evaluation of the named function (for the transparency oracle).
func specFn(name string, n, cur uint64, ex bool) (uint64, string) {
	switch name {
	case "const":
		return n, "ok"
	case "add":
		return cur + n, "ok"
	case "nc":
		return 0, "nc"
	case "fail":
		return 0, "fail"
	case "ncx":
		if ex {
			return 0, "nc"
		}

		return n, "ok"
	case "failx":
		if ex {
			return 0, "fail"
		}

		return n, "ok"
	case "incx":
		if ex {
			return cur + 1, "ok"
		}

		return n, "ok"
	case "cap":
		if ex && cur >= n {
			return 0, "nc"
		}

		return cur + 1, "ok"
	}

	return 0, "?"
}

func traceStr(t []string) string {
	if len(t) == 0 {
		return "-"
	}

	return strings.Join(t, "")
}

func (w *tvWorld) exec(r *hx.Run, f []string) string {
	op := strings.Join(f, " ")
	switch f[0] {
	case "codec":
		return w.bufs.setFlavour(f[1])
	case "store":
		return w.fs.setFlavour(f[1])
	case "values":
		return w.bufs.setValues(f[1])
	case "faults":
		return w.fs.setFaults(f[1])
	case "init":
		w.stale = false
		w.base.Delete(tvKey)
		w.initHas, w.initRaw = false, nil
		if f[1] != "none" {
			w.initRaw, w.initHas = hx.UnHex(f[1]), true
			w.base.Set(tvKey, w.initRaw)
		}
		w.lwKind = 0
		w.open()

		return "ok"
	case "reopen":
		w.open()
		w.stale = false
		raw, has := w.raw()
		cv, ch := w.cache()

		return fmt.Sprintf("ok calls=- raw=%s cache=%s", showRaw(raw, has), showCache(cv, ch))
	}
	flt, ok := parseTVFaults(f[len(f)-1])
	if !ok {
		return "bad-op"
	}
	w.flt = flt
	w.trace = w.trace[:0]
	w.anyFail = false
	w.fnResult = ""
	failAt := map[int]bool{}
	if flt.kv1 {
		failAt[1] = true
	}
	if flt.kv2 {
		failAt[2] = true
	}
	w.fs.begin(failAt, -1)
	rawBefore, hasBefore := w.raw()
	cvBefore, chBefore := w.cache()
	staleBefore := w.stale // the cache this operation starts from may be behind the store (dirty failure earlier)
	curBefore, decodableBefore := uint64(0), false
	if hasBefore {
		curBefore, decodableBefore = w.bufs.decValRaw(rawBefore)
	}

	var out string        // canonical result
	var err error         // error returned by the method
	var wrote int         // 0 nothing, 1 deleted, 2 value (what a successful call wrote)
	var wroteVal uint64   // the value written
	var expect string     // transparency oracle: expected result when no call failed
	var fnName string
	var fnArg uint64
	pan := hx.Safely(func() {
		switch f[0] {
		case "get":
			var v uint64
			v, err = w.tv.Get()
			if err == nil {
				out = fmt.Sprintf("val %d", v)
			}
			if !hasBefore {
				expect = "notfound"
			} else if decodableBefore {
				expect = fmt.Sprintf("val %d", curBefore)
			}
		case "has":
			var h bool
			h, err = w.tv.Has()
			if err == nil {
				out = fmt.Sprintf("has %v", h)
			}
			expect = fmt.Sprintf("has %v", hasBefore)
		case "set":
			v, _ := strconv.ParseUint(f[1], 10, 64)
			err = w.tv.Set(v)
			if err == nil {
				out, wrote, wroteVal = "ok", 2, v
			}
			expect = "ok"
		case "del":
			err = w.tv.Delete()
			if err == nil {
				out, wrote = "ok", 1
			}
			expect = "ok"
		case "compute":
			fnName = f[1]
			if len(f) == 4 {
				fnArg, _ = strconv.ParseUint(f[2], 10, 64)
			}
			var v uint64
			v, err = w.tv.Compute(makeFn(w, fnName, fnArg))
			if err == nil {
				if w.fnResult == "nc" {
					out = fmt.Sprintf("computed %d nc", v)
				} else {
					out, wrote, wroteVal = fmt.Sprintf("computed %d chg", v), 2, v
				}
			}
			if !hasBefore || decodableBefore {
				nv, kind := specFn(fnName, fnArg, curBefore, hasBefore)
				switch kind {
				case "ok":
					expect = fmt.Sprintf("computed %d chg", nv)
				case "nc":
					expect = fmt.Sprintf("computed %d nc", curBefore)
				}
			}
		default:
			out = "bad-op"
		}
	})
	leaked := false
	if pan != "" && w.fnResult == "boom" && strings.Contains(pan, boomValue) {
		// the harness's own function panicked, as asked: not a finding; but the object must have released its lock
		out = "boom"
		pan = ""
		if free, known := lockFree(w.tv); known && !free {
			leaked = true
			r.Fail("failure-atomic", fmt.Sprintf("%s: the compute function panicked and TypedValue.mutex is still locked afterwards: every later call on the object blocks forever", op),
				map[string]string{"oracle": "lock-leaked-by-panic", "api": "TypedValue.compute"})
		}
	} else if pan != "" {
		out = "panic"
		r.Fail("no-panic", fmt.Sprintf("%s panicked: %s", op, pan), map[string]string{"oracle": "panic", "api": "TypedValue." + f[0]})
	} else if err != nil {
		out = errKind(err)
	}
	if out == "bad-op" {
		return out
	}
	w.bufs.opDone()
	rawAfter, hasAfter := w.raw()
	cvAfter, chAfter := w.cache()
	faultTok := f[len(f)-1]
	api := "TypedValue." + f[0]
	if leaked {
		defer w.open() // the rest of the case continues on a fresh object instead of hanging
	}

	// ---- property oracle, on the implementation ----
	isErr := strings.HasPrefix(out, "err:") || out == "boom"
	// (1) every failure is reported: a failed call <=> an error of that call's kind is returned
	if w.anyFail && !isErr {
		last := w.trace[len(w.trace)-1]
		for _, t := range w.trace {
			if strings.HasSuffix(t, "!") {
				last = t
			}
		}
		r.Fail("failure-reported", fmt.Sprintf("%s: call %s failed but the method returned %q; calls=%s", op, last, out, traceStr(w.trace)),
			map[string]string{"oracle": "swallowed-error", "api": api, "failed_call": last})
	}
	if isErr && !w.anyFail && pan == "" {
		r.Fail("failure-reported", fmt.Sprintf("%s: returned %s although no store/codec/function call failed; calls=%s", op, out, traceStr(w.trace)),
			map[string]string{"oracle": "spurious-error", "api": api, "faults": faultTok})
	}
	// (2) a failure leaves store and cache unchanged
	if w.anyFail || isErr {
		// (over a store with dirty failures the raw bytes are the store's business; the cache is the wrapper's)
		if !w.fs.dirtyHit && (hasAfter != hasBefore || string(rawAfter) != string(rawBefore)) {
			r.Fail("failure-atomic", fmt.Sprintf("%s failed (%s) but the raw bytes changed %s -> %s", op, out, showRaw(rawBefore, hasBefore), showRaw(rawAfter, hasAfter)),
				map[string]string{"oracle": "store-changed-on-failure", "api": api, "calls": traceStr(w.trace)})
		}
		if showCache(cvAfter, chAfter) != showCache(cvBefore, chBefore) {
			r.Fail("failure-atomic", fmt.Sprintf("%s failed (%s) but the cache changed %s -> %s", op, out, showCache(cvBefore, chBefore), showCache(cvAfter, chAfter)),
				map[string]string{"oracle": "cache-changed-on-failure", "api": api, "calls": traceStr(w.trace)})
		}
	}
	// NotChanged: no error, current value returned, nothing changes
	if w.fnResult == "nc" && pan == "" {
		if err != nil || hasAfter != hasBefore || string(rawAfter) != string(rawBefore) || showCache(cvAfter, chAfter) != showCache(cvBefore, chBefore) {
			r.Fail("not-changed", fmt.Sprintf("%s: function answered ErrTypedValueNotChanged but result=%s raw %s -> %s cache %s -> %s", op, out,
				showRaw(rawBefore, hasBefore), showRaw(rawAfter, hasAfter), showCache(cvBefore, chBefore), showCache(cvAfter, chAfter)),
				map[string]string{"oracle": "not-changed", "api": api})
		}
	}
	// (3) the stored bytes are the encoding of the last successful write
	if wrote != 0 {
		w.lwKind, w.lwVal = wrote, wroteVal
		w.stale = false // a successful write refreshes store and cache together
	}
	if w.fs.dirtyHit {
		// the store applied a write it reported as failed: from here on the raw bytes it left are the baseline, and the
		// cache (untouched, as it must be) may be behind them
		w.lwKind, w.initRaw, w.initHas = 0, rawAfter, hasAfter
		w.stale = true
		r.Count("tv:dirty-write-failures")
		if !isErr {
			r.Fail("failure-reported", fmt.Sprintf("%s: the store write failed (after taking effect) but the method returned %q", op, out),
				map[string]string{"oracle": "swallowed-error", "api": api, "failed_call": "dirty-write"})
		}
	}
	var wantRaw []byte
	wantHas := false
	switch w.lwKind {
	case 0:
		wantRaw, wantHas = w.initRaw, w.initHas
	case 2:
		wantRaw, wantHas = w.bufs.encValRaw(w.lwVal), true
	}
	if hasAfter != wantHas || string(rawAfter) != string(wantRaw) {
		r.Fail("stored-is-last-written", fmt.Sprintf("after %s (%s): raw=%s but the last successful write makes it %s", op, out, showRaw(rawAfter, hasAfter), showRaw(wantRaw, wantHas)),
			map[string]string{"oracle": "stored-differs", "api": api, "calls": traceStr(w.trace)})
	}
	// (4) cache = store (not claimed while the store is ahead of what it reported)
	if cvAfter != nil && !w.stale {
		v, okd := w.bufs.decValRaw(rawAfter)
		if !hasAfter || !okd || v != *cvAfter {
			r.Fail("cache-coherent", fmt.Sprintf("after %s (%s): valueCached=%d but raw=%s", op, out, *cvAfter, showRaw(rawAfter, hasAfter)),
				map[string]string{"oracle": "cache-value", "api": api, "calls": traceStr(w.trace)})
		}
	}
	if chAfter != nil && *chAfter != hasAfter && !w.stale {
		r.Fail("cache-coherent", fmt.Sprintf("after %s (%s): hasCached=%v but raw=%s", op, out, *chAfter, showRaw(rawAfter, hasAfter)),
			map[string]string{"oracle": "cache-has", "api": api, "calls": traceStr(w.trace)})
	}
	// (5) transparency: no failed call => the result of the raw key under the codec
	if !w.anyFail && !isErr && pan == "" && expect != "" && out != expect && !staleBefore && !w.stale {
		r.Fail("transparent", fmt.Sprintf("%s on raw=%s returned %q, the raw key under the codec gives %q", op, showRaw(rawBefore, hasBefore), out, expect),
			map[string]string{"oracle": "result-differs", "api": api})
	}

	return fmt.Sprintf("%s calls=%s raw=%s cache=%s", out, traceStr(w.trace), showRaw(rawAfter, hasAfter), showCache(cvAfter, chAfter))
}

// ---------------------------------------------------------------------------------------------
// TypedStore world

type tsFaults struct {
	kv1, encK, encV bool
	dec             map[int]bool
	kvAfter         int
}

func parseTSFaults(tok string) (tsFaults, bool) {
	f := tsFaults{dec: map[int]bool{}, kvAfter: -1}
	if tok == "-" {
		return f, true
	}
	for _, t := range strings.Split(tok, ",") {
		switch {
		case t == "kv1":
			f.kv1 = true
		case t == "enck":
			f.encK = true
		case t == "encv":
			f.encV = true
		case strings.HasPrefix(t, "dec@"):
			for _, p := range strings.Split(t[4:], "+") {
				n, err := strconv.Atoi(p)
				if err != nil {
					return f, false
				}
				f.dec[n] = true
			}
		case strings.HasPrefix(t, "kv@"):
			n, err := strconv.Atoi(t[3:])
			if err != nil {
				return f, false
			}
			f.kvAfter = n
		default:
			return f, false
		}
	}

	return f, true
}

type tsWorld struct {
	base     kvstore.KVStore
	fs       *faultStore
	ts       *kvstore.TypedStore[uint16, uint64]
	flt      tsFaults
	decCalls int
	trace    []string
	anyFail  bool
	firstErr string
	mirror   map[string][]byte // the oracle's own idea of the raw store
	bufs     codecBufs
}

func (w *tsWorld) failed(letter, kind string) {
	w.trace = append(w.trace, letter+"!")
	w.anyFail = true
	if w.firstErr == "" {
		w.firstErr = kind
	}
}

func newTSWorld() *tsWorld {
	w := &tsWorld{base: mapdb.NewMapDB(), mirror: map[string][]byte{}}
	w.fs = &faultStore{KVStore: w.base, trace: &w.trace, anyFail: &w.anyFail, kvAfter: -1}
	w.ts = kvstore.NewTypedStore[uint16, uint64](w.fs,
		func(k uint16) ([]byte, error) {
			b, ok := w.bufs.encKey(k)
			if w.flt.encK || !ok {
				w.failed("k", "err:enck")

				return nil, errEncK
			}
			w.trace = append(w.trace, "k")

			return b, nil
		},
		func(b []byte) (uint16, int, error) {
			pos := w.decCalls
			w.decCalls++
			k, ok := w.bufs.decKeyRaw(b)
			n := len(b)
			w.bufs.consumed(b)
			if w.flt.dec[pos] || !ok {
				w.failed("K", "err:deck")

				return 0, 0, errDecK
			}
			w.trace = append(w.trace, "K")

			return k, n, nil
		},
		func(v uint64) ([]byte, error) {
			if w.flt.encV || v == maxU64 {
				w.failed("v", "err:encv")

				return nil, errEncV
			}
			w.trace = append(w.trace, "v")

			return w.bufs.encVal(v), nil
		},
		func(b []byte) (uint64, int, error) {
			pos := w.decCalls
			w.decCalls++
			v, ok := w.bufs.decValRaw(b)
			w.bufs.consumed(b)
			if w.flt.dec[pos] || !ok {
				w.failed("V", "err:decv")

				return 0, 0, errDecV
			}
			w.trace = append(w.trace, "V")

			return v, 8, nil
		})

	return w
}

func (w *tsWorld) dump() string {
	var parts []string
	w.base.Iterate(kvstore.EmptyPrefix, func(k kvstore.Key, v kvstore.Value) bool {
		parts = append(parts, hx.Hex(k)+":"+hx.Hex(v))

		return true
	})

	return "{" + strings.Join(parts, " ") + "}"
}

func (w *tsWorld) mirrorDump() string {
	keys := make([]string, 0, len(w.mirror))
	for k := range w.mirror {
		keys = append(keys, k)
	}
	sort.Strings(keys)
	parts := make([]string, 0, len(keys))
	for _, k := range keys {
		parts = append(parts, hx.Hex([]byte(k))+":"+hx.Hex(w.mirror[k]))
	}

	return "{" + strings.Join(parts, " ") + "}"
}

type pair struct {
	k uint16
	v uint64
}

func showPairs(ps []pair) string {
	parts := make([]string, len(ps))
	for i, p := range ps {
		parts[i] = fmt.Sprintf("%d=%d", p.k, p.v)
	}

	return "[" + strings.Join(parts, " ") + "]"
}

// expectIterate is the oracle's own reading of "iterate the raw entries under the codecs, stop at the
// first decode error and return it".
func (w *tsWorld) expectIterate(prefix []byte, bwd bool, stop int, flt tsFaults) string {
	if flt.kv1 {
		return "iter err:kv []"
	}
	keys := make([]string, 0, len(w.mirror))
	for k := range w.mirror {
		if strings.HasPrefix(k, string(prefix)) {
			keys = append(keys, k)
		}
	}
	sort.Strings(keys)
	if bwd {
		for i, j := 0, len(keys)-1; i < j; i, j = i+1, j-1 {
			keys[i], keys[j] = keys[j], keys[i]
		}
	}
	var got []pair
	for i, k := range keys {
		if i == flt.kvAfter {
			return "iter err:kv " + showPairs(got)
		}
		kd, ok := w.bufs.decKeyRaw([]byte(k))
		if !ok || flt.dec[2*i] {
			return "iter err:deck " + showPairs(got)
		}
		vd, ok := w.bufs.decValRaw(w.mirror[k])
		if !ok || flt.dec[2*i+1] {
			return "iter err:decv " + showPairs(got)
		}
		got = append(got, pair{kd, vd})
		if len(got) == stop {
			break
		}
	}

	return "iter ok " + showPairs(got)
}

// expectIterateKeys: the oracle's own reading of IterateKeys (entry i makes decode call i).
func (w *tsWorld) expectIterateKeys(prefix []byte, bwd bool, stop int, flt tsFaults) string {
	if flt.kv1 {
		return "iterk err:kv []"
	}
	keys := make([]string, 0, len(w.mirror))
	for k := range w.mirror {
		if strings.HasPrefix(k, string(prefix)) {
			keys = append(keys, k)
		}
	}
	sort.Strings(keys)
	if bwd {
		for i, j := 0, len(keys)-1; i < j; i, j = i+1, j-1 {
			keys[i], keys[j] = keys[j], keys[i]
		}
	}
	var got []string
	for i, k := range keys {
		if i == flt.kvAfter {
			return "iterk err:kv [" + strings.Join(got, " ") + "]"
		}
		kd, ok := w.bufs.decKeyRaw([]byte(k))
		if !ok || flt.dec[i] {
			return "iterk err:deck [" + strings.Join(got, " ") + "]"
		}
		got = append(got, strconv.Itoa(int(kd)))
		if len(got) == stop {
			break
		}
	}

	return "iterk ok [" + strings.Join(got, " ") + "]"
}

func (w *tsWorld) exec(r *hx.Run, f []string) string {
	op := strings.Join(f, " ")
	switch f[0] {
	case "codec":
		return w.bufs.setFlavour(f[1])
	case "store":
		return w.fs.setFlavour(f[1])
	case "values":
		return w.bufs.setValues(f[1])
	case "keys":
		switch f[1] {
		case "var":
			w.bufs.varKeys = true
		case "fixed":
			w.bufs.varKeys = false
		default:
			return "bad-op"
		}

		return "ok"
	case "rawset":
		k, v := hx.UnHex(f[1]), hx.UnHex(f[2])
		w.base.Set(k, v)
		w.mirror[string(k)] = v

		return "ok store=" + w.dump()
	case "rawdel":
		k := hx.UnHex(f[1])
		w.base.Delete(k)
		delete(w.mirror, string(k))

		return "ok store=" + w.dump()
	}
	flt, ok := parseTSFaults(f[len(f)-1])
	if !ok {
		return "bad-op"
	}
	w.flt = flt
	w.trace = w.trace[:0]
	w.anyFail, w.firstErr, w.decCalls = false, "", 0
	failAt := map[int]bool{}
	if flt.kv1 {
		failAt[1] = true
	}
	w.fs.begin(failAt, flt.kvAfter)
	before := w.dump()
	var out, expect string
	var err error
	api := "TypedStore." + f[0]
	pan := hx.Safely(func() {
		switch f[0] {
		case "get", "has", "del", "set":
			kn, _ := strconv.ParseUint(f[1], 10, 16)
			k := uint16(kn)
			kb, kok := w.bufs.encKeyRaw(k)
			switch f[0] {
			case "get":
				var v uint64
				v, err = w.ts.Get(k)
				if err == nil {
					out = fmt.Sprintf("val %d", v)
				}
				if kok {
					if raw, has := w.mirror[string(kb)]; !has {
						expect = "notfound"
					} else if d, okd := w.bufs.decValRaw(raw); okd {
						expect = fmt.Sprintf("val %d", d)
					}
				}
			case "has":
				var h bool
				h, err = w.ts.Has(k)
				if err == nil {
					out = fmt.Sprintf("has %v", h)
				}
				if kok {
					_, has := w.mirror[string(kb)]
					expect = fmt.Sprintf("has %v", has)
				}
			case "del":
				err = w.ts.Delete(k)
				if err == nil {
					out = "ok"
					delete(w.mirror, string(kb))
				}
				expect = "ok"
			case "set":
				v, _ := strconv.ParseUint(f[2], 10, 64)
				err = w.ts.Set(k, v)
				if err == nil {
					out = "ok"
					w.mirror[string(kb)] = w.bufs.encValRaw(v)
				}
				expect = "ok"
			}
		case "iter":
			prefix := hx.UnHex(f[1])
			stop, _ := strconv.Atoi(f[3])
			var got []pair
			cb := func(k uint16, v uint64) bool {
				got = append(got, pair{k, v})
				if len(got) == stop {
					w.trace = append(w.trace, "c~")

					return false
				}
				w.trace = append(w.trace, "c")

				return true
			}
			if f[2] == "bwd" {
				err = w.ts.Iterate(prefix, cb, kvstore.IterDirectionBackward)
			} else {
				err = w.ts.Iterate(prefix, cb)
			}
			st := "ok"
			if err != nil {
				st = errKind(err)
			}
			out = fmt.Sprintf("iter %s %s", st, showPairs(got))
			expect = w.expectIterate(prefix, f[2] == "bwd", stop, flt)
			if out != expect {
				r.Fail("store-iterate", fmt.Sprintf("%s on %s returned %q, iterating the raw entries under the codecs up to the first decode error gives %q", op, before, out, expect),
					map[string]string{"oracle": "iterate-differs", "api": api, "faults": f[4]})
			}
		case "iterk":
			prefix := hx.UnHex(f[1])
			stop, _ := strconv.Atoi(f[3])
			var got []string
			cb := func(k uint16) bool {
				got = append(got, strconv.Itoa(int(k)))
				if len(got) == stop {
					w.trace = append(w.trace, "c~")

					return false
				}
				w.trace = append(w.trace, "c")

				return true
			}
			if f[2] == "bwd" {
				err = w.ts.IterateKeys(prefix, cb, kvstore.IterDirectionBackward)
			} else {
				err = w.ts.IterateKeys(prefix, cb)
			}
			st := "ok"
			if err != nil {
				st = errKind(err)
			}
			out = fmt.Sprintf("iterk %s [%s]", st, strings.Join(got, " "))
			expect = w.expectIterateKeys(prefix, f[2] == "bwd", stop, flt)
			if out != expect {
				r.Fail("store-iterate", fmt.Sprintf("%s on %s returned %q, iterating the raw keys under the codec up to the first decode error gives %q", op, before, out, expect),
					map[string]string{"oracle": "iterate-differs", "api": api, "faults": f[4]})
			}
		case "delp", "clear":
			var prefix []byte
			if f[0] == "delp" {
				prefix = hx.UnHex(f[1])
				err = w.ts.DeletePrefix(prefix)
			} else {
				err = w.ts.Clear()
			}
			// the oracle's own reading of a bulk deletion that may fail part-way: with kvAfter = n and more than n keys
			// under the prefix the first n (in key order) are gone and the failure is reported; otherwise all are gone
			var under []string
			for k := range w.mirror {
				if strings.HasPrefix(k, string(prefix)) {
					under = append(under, k)
				}
			}
			sort.Strings(under)
			partial := !flt.kv1 && flt.kvAfter >= 0 && len(under) > flt.kvAfter
			switch {
			case err == nil:
				out = "ok"
				for _, k := range under {
					delete(w.mirror, k)
				}
				if partial {
					r.Fail("failure-reported", fmt.Sprintf("%s: the store's bulk deletion failed after %d of %d entries but the method returned ok", op, flt.kvAfter, len(under)),
						map[string]string{"oracle": "swallowed-error", "api": api, "failed_call": "bulk-partial"})
				}
			case partial:
				for _, k := range under[:flt.kvAfter] {
					delete(w.mirror, k)
				}
			}
			expect = "ok"
		default:
			out = "bad-op"
		}
	})
	if out == "bad-op" {
		return out
	}
	isIter := f[0] == "iter" || f[0] == "iterk"
	if pan != "" {
		out = "panic"
		r.Fail("no-panic", fmt.Sprintf("%s panicked: %s", op, pan), map[string]string{"oracle": "panic", "api": api})
	} else if err != nil && !isIter {
		out = errKind(err)
	}
	w.bufs.opDone()
	after := w.dump()
	isErr := strings.HasPrefix(out, "err:") || strings.HasPrefix(out, "iter err:") || strings.HasPrefix(out, "iterk err:")
	if w.anyFail && !isErr {
		r.Fail("failure-reported", fmt.Sprintf("%s: a call failed (%s) but the method returned %q; calls=%s", op, w.firstErr, out, traceStr(w.trace)),
			map[string]string{"oracle": "swallowed-error", "api": api, "failed_call": w.firstErr})
	}
	if isErr && !w.anyFail && pan == "" {
		r.Fail("failure-reported", fmt.Sprintf("%s: returned %s although no call failed; calls=%s", op, out, traceStr(w.trace)),
			map[string]string{"oracle": "spurious-error", "api": api})
	}
	if w.anyFail && isErr && !isIter && w.firstErr != "" && out != w.firstErr {
		r.Fail("failure-reported", fmt.Sprintf("%s: the failed call was %s but %s was returned", op, w.firstErr, out),
			map[string]string{"oracle": "wrong-error", "api": api})
	}
	if w.fs.partialHit {
		r.Count("ts:bulk-partial-failures")
	}
	if (w.anyFail || isErr) && after != before && !w.fs.partialHit {
		r.Fail("failure-atomic", fmt.Sprintf("%s failed (%s) but the store changed %s -> %s", op, out, before, after),
			map[string]string{"oracle": "store-changed-on-failure", "api": api, "calls": traceStr(w.trace)})
	}
	if after != w.mirrorDump() {
		r.Fail("stored-is-last-written", fmt.Sprintf("after %s (%s): store=%s, the successful writes make it %s", op, out, after, w.mirrorDump()),
			map[string]string{"oracle": "stored-differs", "api": api, "calls": traceStr(w.trace)})
	}
	if !w.anyFail && !isErr && pan == "" && expect != "" && !isIter && out != expect {
		r.Fail("transparent", fmt.Sprintf("%s on %s returned %q, the raw store under the codecs gives %q", op, before, out, expect),
			map[string]string{"oracle": "result-differs", "api": api})
	}

	return fmt.Sprintf("%s calls=%s store=%s", out, traceStr(w.trace), after)
}

// ---------------------------------------------------------------------------------------------
// cases

type world struct {
	tv *tvWorld
	ts *tsWorld
	tp *tpWorld
}

func (w *world) exec(r *hx.Run, line string) string {
	f := strings.Fields(line)
	if len(f) < 2 {
		return "bad-op"
	}
	switch f[0] {
	case "tv":
		if w.tv == nil {
			w.tv = newTVWorld()
		}

		return w.tv.exec(r, f[1:])
	case "tp":
		if w.tp == nil {
			w.tp = newTPWorld()
		}

		return w.tp.exec(r, f[1:])
	case "ts":
		if w.ts == nil {
			w.ts = newTSWorld()
		}

		return w.ts.exec(r, f[1:])
	}

	return "bad-op"
}

// faultTok returns the fault token of an op line with positions stripped ("dec@3+4" -> "dec@").
func faultTok(f []string) (string, bool) {
	switch f[1] {
	case "init", "reopen", "rawset", "rawdel", "mut", "codec", "store":
		return "", false
	}
	ft := f[len(f)-1]
	if ft == "-" {
		return "none", true
	}
	parts := strings.Split(ft, ",")
	for i, p := range parts {
		if j := strings.Index(p, "@"); j >= 0 {
			parts[i] = p[:j+1]
		}
	}

	return strings.Join(parts, ","), true
}

func runCase(r *hx.Run, sub uint64, ops []string) {
	r.Case(sub)
	w := &world{}
	faulted, wrote := 0, 0
	for _, op := range ops {
		if strings.HasPrefix(op, "conc ") {
			// a recorded concurrent observation cannot be re-executed line by line: run the stress again
			f := strings.Fields(op)
			line := runConc(r, f[1], r.Rng)
			r.Line(line, "accept")

			continue
		}
		ans := w.exec(r, op)
		r.Line(op, ans)
		f := strings.Fields(op)
		r.Count("op:" + f[0] + "." + f[1])
		a := strings.Fields(ans)
		r.Count("ans:" + f[0] + "." + a[0] + map[bool]string{true: "." + a[min(1, len(a)-1)], false: ""}[a[0] == "iter"])
		if ft, has := faultTok(f); has {
			r.Count("faults:" + ft)
		}
		if strings.Contains(ans, "!") {
			faulted++
			r.Count("fault-hit")
		}
		if strings.HasPrefix(ans, "ok") || strings.Contains(ans, " chg ") {
			wrote++
		}
	}
	if faulted >= 1 && wrote >= 1 {
		h := sha256.Sum256([]byte(strings.Join(ops, "\n")))
		r.Nontrivial(string(h[:8]))
	}
	r.Sample(r.CaseLines())
}

func main() {
	r := hx.Start()
	r.Rule = "TypedValue/TypedStore histories with fault vectors (every single-fault position per op kind x cache state x raw state enumerated, " +
		"plus random histories with random single and multiple faults); non-trivial = at least one call of the history failed and at least one write succeeded; " +
		"distinct by sha256 of the op lines. Flavours: store errors bare/wrapped, allocating/scratch codecs, variable-length keys, zero-length value encodings, dirty store failures, panicking compute function. " +
		"Concurrent part on one TypedValue: counter and mixed stress, wide values, forced schedules (writer parked in the store, reader parked in its store call, readers pending behind a Compute parked in its callback), free-running timed histories checked for linearizability."
	if lines := r.ReplayLines(); lines != nil {
		runCase(r, 0, lines)
		r.Finish()

		return
	}
	for _, c := range corpus() {
		runCase(r, 0, c)
	}
	for _, c := range exhaustiveTV() {
		runCase(r, 0, c)
	}
	for _, c := range exhaustiveTS() {
		runCase(r, 0, c)
	}
	for _, c := range corpusTP() {
		runCase(r, 0, c)
	}
	for _, c := range exhaustiveTP() {
		runCase(r, 0, c)
	}
	nTV, nTS := 6000*r.Scale, 2500*r.Scale
	for i := 0; i < nTV; i++ {
		rng, sub := r.Rng.Fork()
		runCase(r, sub, genTV(rng))
	}
	for i := 0; i < nTS; i++ {
		rng, sub := r.Rng.Fork()
		runCase(r, sub, genTS(rng))
	}
	for i := 0; i < 2500*r.Scale; i++ {
		rng, sub := r.Rng.Fork()
		runCase(r, sub, genTP(rng))
	}
	concPart(r)
	r.Finish()
}
