package main

import (
	"errors"
	"fmt"
	"runtime"
	"strings"
	"sync"
	"sync/atomic"
	"time"

	"verifharness/hx"

	"github.com/iotaledger/hive.go/kvstore"
	"github.com/iotaledger/hive.go/kvstore/mapdb"
)

// ---------------------------------------------------------------------------------------------
// linearizability of small free-running histories: 3-4 goroutines run 2-3 calls each (every method, Compute also in
// its aborting form) on one TypedValue with a cold or warm cache; every call is stamped with a logical clock before it
// is invoked and after it returned.  Oracle (Wing-Gong search, independent of Lean): there is an order of ALL calls that
// (1) respects real time — a call that returned before another one was invoked comes first —, (2) replays on the raw key
// (every Compute was handed the value of that moment, every Has / Get / aborted Compute answered it) and (3) ends in the
// final raw value.  Unlike the gate schedules nothing is forced here; unlike the mixed workload every call of the
// history is explained, not only the reads.  The Lean driver decides the same history with `linOk`
// (`C06_linearizable_judge`: sound and complete for real-time-respecting serial runs).

type lop struct {
	gop
	inv, ret int64
}

func linSearch(st uint64, ops []lop, done uint32, final uint64, seen map[[2]uint64]bool) bool {
	if int(done) == (1<<len(ops))-1 {
		return st == final
	}
	key := [2]uint64{uint64(done), st}
	if seen[key] {
		return false
	}
	seen[key] = true
	for i, o := range ops {
		if done&(1<<i) != 0 {
			continue
		}
		minimal := true
		for j, p := range ops {
			if j != i && done&(1<<j) == 0 && p.ret < o.inv {
				minimal = false

				break
			}
		}
		if !minimal {
			continue
		}
		next, ok := st, true
		switch o.kind {
		case 0:
			next = 0
		case 1:
			next = o.w
		case 2:
			next, ok = o.w, o.s == st
		case 3:
			ok = (o.s == 1) == (st != 0)
		default: // Get / aborted Compute: answered the value (0: absent)
			ok = o.s == st
		}
		if ok && linSearch(next, ops, done|1<<i, final, seen) {
			return true
		}
	}

	return false
}

func descLops(ops []lop) string {
	var parts []string
	for _, o := range ops {
		var d string
		switch o.kind {
		case 0:
			d = "Delete"
		case 1:
			d = fmt.Sprintf("Set(%d)", o.w)
		case 2:
			d = fmt.Sprintf("Compute(given %d -> %d)", o.s, o.w)
		case 3:
			d = fmt.Sprintf("Has()=%v", o.s == 1)
		case 4:
			d = "Get()=" + showGot(o.s)
		default:
			d = fmt.Sprintf("Compute(given %d, aborts)", o.s)
		}
		parts = append(parts, fmt.Sprintf("%s@[%d,%d]", d, o.inv, o.ret))
	}

	return strings.Join(parts, ", ")
}

func runLin(r *hx.Run, rng *hx.Rng) string {
	if runtime.GOMAXPROCS(0) < 4 {
		runtime.GOMAXPROCS(4)
	}
	base := mapdb.NewMapDB()
	cs := &concStore{KVStore: base}
	init := uint64(0)
	if rng.Chance(2, 3) {
		init = 10
		base.Set(tvKey, encU64(10))
	}
	var decs atomic.Int64
	tv := newConcTV(cs, &decs, 0)
	sig := func(oracle string) map[string]string {
		return map[string]string{"oracle": oracle, "api": "TypedValue", "part": "lin"}
	}
	bad := func(what string) string {
		r.Fail("watchdog", what, sig("watchdog"))

		return "conc lin 0 0 - - - - -"
	}
	switch rng.Intn(4) { // cold cache, presence known, value known
	case 0:
		tv.Has()
	case 1:
		tv.Get()
	}
	goroutines := rng.Range(3, 4)
	var scripts [][]lop
	total := 0
	for g := 0; g < goroutines; g++ {
		n := rng.Range(2, 3)
		if total+n > 9 {
			n = 9 - total
		}
		var sc []lop
		for i := 0; i < n; i++ {
			var o lop
			switch x := rng.Intn(100); {
			case x < 14:
				o.kind = 0
			case x < 26:
				o.kind = 1
			case x < 50:
				o.kind = 2
			case x < 68:
				o.kind = 3
			case x < 88:
				o.kind = 4
			default:
				o.kind = 5
			}
			o.w = uint64(100 + 10*g + i)
			if o.kind == 0 || o.kind >= 3 {
				o.w = 0
			}
			sc = append(sc, o)
		}
		total += n
		scripts = append(scripts, sc)
	}
	var clock atomic.Int64
	var failures atomic.Int64
	var wg sync.WaitGroup
	start := make(chan struct{})
	for g := range scripts {
		sc := scripts[g]
		wg.Add(1)
		go func() {
			defer wg.Done()
			defer catchPanic()
			<-start
			for i := range sc {
				o := &sc[i]
				var err error
				o.inv = clock.Add(1)
				switch o.kind {
				case 0:
					err = tv.Delete()
				case 1:
					err = tv.Set(o.w)
				case 2:
					_, err = tv.Compute(func(cur uint64, ex bool) (uint64, error) {
						o.s = 0
						if ex {
							o.s = cur
						}

						return o.w, nil
					})
				case 3:
					var h bool
					if h, err = tv.Has(); h {
						o.s = 1
					}
				case 4:
					var v uint64
					v, err = tv.Get()
					switch {
					case err == nil:
						o.s = okVal(v)
					case errors.Is(err, kvstore.ErrKeyNotFound):
						o.s, err = 0, nil
					}
				default:
					var given, v uint64
					v, err = tv.Compute(func(cur uint64, ex bool) (uint64, error) {
						if ex {
							given = cur
						}

						return 0, kvstore.ErrTypedValueNotChanged
					})
					o.s = given
					if err == nil && v != given {
						failures.Add(1) // an aborted Compute returns the current value
					}
				}
				o.ret = clock.Add(1)
				if err != nil {
					failures.Add(1)
				}
			}
		}()
	}
	close(start)
	if !waitAll(&wg, 60*time.Second) {
		return bad("lin history: the calls did not return within 60s")
	}
	if failures.Load() != 0 {
		return bad("lin history: a call failed (or an aborted Compute returned something else than the value it was given) although no fault was injected")
	}
	final := uint64(0)
	if raw, err := base.Get(tvKey); err == nil {
		final, _ = decU64(raw)
	}
	var all []lop
	for _, sc := range scripts {
		all = append(all, sc...)
	}
	if !linSearch(init, all, 0, final, map[[2]uint64]bool{}) {
		r.Fail("serialised", fmt.Sprintf("over stored %d (0 = absent): no order of [%s] respects real time (call@[invoked,returned]), explains every answer and ends in the final value %d",
			init, descLops(all), final), sig("not-linearizable"))
	}
	qh, herr := tv.Has()
	gv, gerr := tv.Get()
	if gerr != nil {
		gv = 0
	}
	if herr != nil || qh != (final != 0) || (gerr == nil) != (final != 0) || gv != final {
		r.Fail("cache-coherent", fmt.Sprintf("lin history [%s]: at quiescence Has=(%v,%v) Get=(%d,%v) but the store holds %d (0 = absent)",
			descLops(all), qh, herr, gv, gerr, final), sig("cache-value"))
	}
	n := len(all)
	ks, ws, ss, is, rs := make([]uint64, n), make([]uint64, n), make([]uint64, n), make([]uint64, n), make([]uint64, n)
	for i, o := range all {
		ks[i], ws[i], ss[i], is[i], rs[i] = o.kind, o.w, o.s, uint64(o.inv), uint64(o.ret)
	}
	r.Count("conc:lin-rounds")
	r.CountN("conc:lin-calls", n)
	overlap := 0
	for i := range all {
		for j := range all {
			if i < j && !(all[i].ret < all[j].inv) && !(all[j].ret < all[i].inv) {
				overlap++
			}
		}
	}
	r.CountN("conc:lin-overlapping-pairs", overlap)
	qhn := uint64(0)
	if qh {
		qhn = 1
	}

	return fmt.Sprintf("conc lin %d %d %s %s %s %s %s %d %d", init, final, csv(ks), csv(ws), csv(ss), csv(is), csv(rs), gv, qhn)
}
