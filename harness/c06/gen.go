package main

import (
	"fmt"
	"strings"

	"verifharness/hx"
)

// corpus: hand-written histories that run first (among them the minimised failure of the unrepaired Compute).
func corpus() [][]string {
	return [][]string{
		// Compute with a failing encoder must report the error and change nothing
		{"tv init none", "tv compute const 5 enc", "tv get -", "tv has -", "tv reopen", "tv get -"},
		{"tv init none", "tv set 4 -", "tv compute add 1 enc", "tv get -", "tv reopen", "tv get -"},
		// the unencodable value: natural encoder failure
		{"tv init none", "tv set 7 -", "tv compute const 18446744073709551615 -", "tv get -", "tv set 18446744073709551615 -", "tv get -"},
		// the repository's own test scenario
		{"tv init none", "tv get -", "tv has -", "tv get -", "tv compute incx 1337 -", "tv compute incx 1337 -", "tv compute incx 1337 -",
			"tv get -", "tv has -", "tv del -", "tv get -", "tv has -", "tv set 42 -", "tv get -", "tv reopen", "tv has -", "tv get -"},
		// undecodable raw bytes
		{"tv init 010203", "tv has -", "tv get -", "tv compute add 1 -", "tv set 9 -", "tv get -"},
		{"tv init ffffffffffffffff", "tv get -", "tv compute nc -", "tv del -", "tv get -"},
		// not-changed keeps everything
		{"tv init none", "tv compute nc -", "tv compute ncx 3 -", "tv compute ncx 4 -", "tv get -", "tv compute cap 3 -", "tv compute cap 9 -", "tv get -"},
		// typed store: iteration stops at the first decode error
		{"ts set 1 10 -", "ts set 2 20 -", "ts set 258 30 -", "ts rawset 0001ff aa", "ts iter - fwd 0 -", "ts iter - bwd 0 -", "ts iter 00 fwd 0 -",
			"ts iter 0001 fwd 0 -", "ts iter 01 fwd 0 -", "ts iter - fwd 2 -", "ts rawset 0002 aabb", "ts iter - fwd 0 -", "ts get 2 -", "ts has 2 -"},
		// allocation-free codecs: the store must keep its own copy of what it was handed
		{"ts codec scratch", "ts set 1 10 -", "ts set 2 20 -", "ts get 1 -", "ts iter - fwd 0 -", "ts set 3 30 kv1", "ts get 1 -", "ts get 2 -"},
		{"tv codec scratch", "tv init none", "tv set 2 -", "tv set 700 kv1", "tv get -", "tv reopen", "tv get -", "tv compute add 1 -", "tv compute add 1 kv2", "tv reopen", "tv get -"},
		{"tp codec scratch", "tp init none", "tp set new 5 -", "tp set new 700 kv1", "tp reopen", "tp get -"},
		// key iteration, prefix deletion, clear
		{"ts set 1 10 -", "ts set 2 20 -", "ts set 258 30 -", "ts rawset 0001ff aa", "ts iterk - fwd 0 -", "ts iterk - bwd 0 -", "ts iterk 00 fwd 2 -",
			"ts iterk - fwd 0 dec@1", "ts iterk - fwd 0 kv@2", "ts delp 00 kv1", "ts delp 0001 -", "ts iterk - fwd 0 -", "ts clear kv1", "ts clear -", "ts iter - fwd 0 -"},
		// a store that reports its sentinel errors wrapped (callers must use errors.Is): absent key, then every op kind
		{"tv store wrapped", "tv init none", "tv compute const 5 -", "tv get -", "tv del -", "tv compute incx 7 -", "tv reopen", "tv get -", "tv has -"},
		{"tv store fmt", "tv init none", "tv get -", "tv compute ncx 3 -", "tv get -", "tv del -", "tv get -", "tv compute add 1 kv1", "tv compute add 1 -"},
		{"tv store wrapped", "tv init none", "tv has -", "tv compute const 5 -", "tv reopen", "tv compute add 1 kv2", "tv get -"},
		{"tp store wrapped", "tp init none", "tp compute new 5 -", "tp get -", "tp del -", "tp compute new 6 -", "tp reopen", "tp get -"},
		{"ts store fmt", "ts get 1 -", "ts has 1 -", "ts set 1 10 -", "ts get 1 -", "ts del 1 -", "ts get 1 -", "ts get 1 kv1", "ts iter - fwd 0 kv1"},
		{"ts set 65535 1 -", "ts set 1 18446744073709551615 -", "ts get 65535 -", "ts has 65535 -", "ts del 65535 -", "ts get 1 -", "ts del 1 -"},
		// bulk deletions that fail part-way: the first n entries under the prefix are gone, the error is reported, nothing
		// outside the prefix is touched
		{"ts set 1 10 -", "ts set 2 20 -", "ts set 3 30 -", "ts set 258 40 -", "ts delp 00 kv@1", "ts iter - fwd 0 -", "ts delp 00 kv@2", "ts delp 00 kv@0", "ts iter - fwd 0 -",
			"ts clear kv@1", "ts iter - fwd 0 -", "ts clear kv@5", "ts iter - fwd 0 -"},
		{"ts keys var", "ts set 1 10 -", "ts set 256 20 -", "ts set 257 30 -", "ts set 2 40 -", "ts delp 01 kv@2", "ts iterk - fwd 0 -", "ts get 1 -", "ts get 257 -", "ts clear kv@0", "ts clear kv@1", "ts iter - bwd 0 -"},
		// a store whose failing write took effect all the same: the error is reported, the cache is untouched (and is then
		// behind the store until the next successful write or a fresh object)
		{"tv faults dirty", "tv init none", "tv set 5 -", "tv set 7 kv1", "tv get -", "tv has -", "tv compute add 1 -", "tv get -", "tv reopen", "tv get -"},
		{"tv faults dirty", "tv init none", "tv set 5 -", "tv del kv1", "tv get -", "tv has -", "tv compute incx 9 kv2", "tv get -", "tv reopen", "tv get -", "tv has -"},
		{"tv faults dirty", "tv init 0000000000000003", "tv compute add 1 kv2", "tv get -", "tv compute add 1 kv1", "tv set 8 enc", "tv get -", "tv del kv1", "tv has -", "tv get -", "tv set 1 -", "tv get -"},
		// zero-length encodings: the value 0 is stored as the empty byte string; the key is present all the same
		{"tv values zempty", "tv init none", "tv set 0 -", "tv has -", "tv get -", "tv reopen", "tv has -", "tv get -", "tv compute add 1 -", "tv get -", "tv set 0 -",
			"tv reopen", "tv compute incx 9 -", "tv reopen", "tv compute nc -", "tv del -", "tv get -", "tv has -"},
		{"tv values zempty", "tv init -", "tv get -", "tv has -", "tv compute ncx 5 -", "tv compute cap 0 -", "tv set 0 kv1", "tv set 0 -", "tv compute const 0 -", "tv reopen", "tv get -"},
		{"ts values zempty", "ts set 1 0 -", "ts has 1 -", "ts get 1 -", "ts iter - fwd 0 -", "ts iterk - fwd 0 -", "ts set 2 5 -", "ts set 2 0 -", "ts get 2 -", "ts del 1 -", "ts get 1 -", "ts iter - bwd 0 -"},
		// variable-length key codec: the encoding of key 1 ([01]) is a prefix of the encodings of 256..511 ([01 xx]);
		// Delete / Has / Get / Set of the short key must not touch or see the long ones, and vice versa
		{"ts keys var", "ts set 1 10 -", "ts set 256 20 -", "ts set 257 30 -", "ts set 2 40 -", "ts has 1 -", "ts get 1 -", "ts del 1 -", "ts iter - fwd 0 -",
			"ts has 1 -", "ts get 256 -", "ts has 257 -", "ts set 1 11 -", "ts del 256 -", "ts get 1 -", "ts has 256 -", "ts iter 01 fwd 0 -", "ts iterk 01 bwd 0 -"},
		{"ts keys var", "ts codec scratch", "ts set 256 20 -", "ts has 1 -", "ts get 1 -", "ts del 1 -", "ts get 256 -", "ts del 1 kv1", "ts set 1 5 encv", "ts iter - fwd 0 -",
			"ts rawset 0001 0000000000000007", "ts iter - fwd 0 -", "ts get 0 -", "ts set 0 1 -", "ts delp 00 -", "ts iter - bwd 0 -"},
	}
}

var tvValues = []string{"0", "1", "2", "7", "41", "1000", "18446744073709551614", "18446744073709551615"}

func tvFns() []string {
	return []string{"const 5", "const 18446744073709551615", "add 1", "add 3", "nc", "fail", "ncx 8", "failx 8", "incx 1337", "cap 3", "cap 100", "boom"}
}

// exhaustiveTV: every operation kind x every cache/raw situation x every single-fault position (and none),
// followed by probes that observe store and cache through subsequent reads and through a fresh object.
func exhaustiveTV() [][]string {
	inits := []string{"none", "0000000000000007", "010203", "ffffffffffffffff"}
	preludes := [][]string{
		{},
		{"tv get -"},
		{"tv has -"},
		{"tv get -", "tv has -"},
		{"tv set 9 -"},
		{"tv del -"},
		{"tv set 9 -", "tv reopen", "tv has -"},
		{"tv compute nc -"},
	}
	ops := []string{"get", "has", "set 5", "set 18446744073709551615", "del"}
	for _, f := range tvFns() {
		ops = append(ops, "compute "+f)
	}
	faults := []string{"-", "kv1", "kv2", "dec", "enc", "kv1,kv2", "dec,enc", "kv2,enc"}
	var out [][]string
	for _, in := range inits {
		for _, pre := range preludes {
			for _, op := range ops {
				for _, ft := range faults {
					c := []string{"tv init " + in}
					if fl := len(out) % 3; fl != 0 { // a third of the table per store error flavour
						c = []string{"tv store " + []string{"plain", "wrapped", "fmt"}[fl], "tv init " + in}
					}
					c = append(c, pre...)
					c = append(c, "tv "+op+" "+ft, "tv get -", "tv has -", "tv reopen", "tv get -")
					out = append(out, c)
				}
			}
		}
	}
	// dirty failures of the store write: every writing op x every cache prelude x both store-call positions, then probes
	// through the (possibly stale) cache and through a fresh object
	for _, in := range []string{"none", "0000000000000007"} {
		for _, pre := range preludes {
			for _, op := range []string{"set 5", "del", "compute const 5", "compute add 1", "compute incx 3", "compute nc", "compute fail", "get", "has"} {
				for _, ft := range []string{"kv1", "kv2", "kv1,kv2", "kv2,enc", "-"} {
					c := []string{"tv faults dirty", "tv init " + in}
					c = append(c, pre...)
					c = append(c, "tv "+op+" "+ft, "tv get -", "tv has -", "tv compute add 1 -", "tv get -", "tv reopen", "tv get -", "tv has -")
					out = append(out, c)
				}
			}
		}
	}
	// zero-length encodings: the key holds the empty byte string (= the value 0) or nothing; writes of 0 and of 5
	zops := []string{"get", "has", "set 0", "set 5", "del", "compute const 0", "compute add 1", "compute nc", "compute fail", "compute incx 0", "compute cap 0", "compute boom"}
	for _, in := range []string{"none", "-"} {
		for _, pre := range preludes {
			for _, op := range zops {
				for _, ft := range []string{"-", "kv1", "kv2", "dec", "enc"} {
					c := []string{"tv values zempty", "tv init " + in}
					c = append(c, pre...)
					c = append(c, "tv "+op+" "+ft, "tv get -", "tv has -", "tv reopen", "tv get -", "tv has -")
					out = append(out, c)
				}
			}
		}
	}

	return out
}

// exhaustiveTS: on fixed stores, every operation with every single-fault position, and every decode / store
// fault position of an iteration in both directions with every stop point.
func exhaustiveTS() [][]string {
	stores := [][]string{
		{"ts set 1 10 -", "ts set 2 20 -", "ts set 258 30 -"},
		{"ts set 1 10 -", "ts rawset 0002 aabb", "ts set 3 30 -"},
		{"ts set 1 10 -", "ts rawset 0001ff 0000000000000001", "ts set 3 30 -"},
		{},
	}
	var out [][]string
	// variable-length keys: every point operation on the short key, on a long key it is a prefix of, and on absent ones,
	// with every single fault, over stores that hold the short key only / the long ones only / both
	for _, st := range [][]string{
		{"ts set 1 10 -", "ts set 256 20 -", "ts set 257 30 -", "ts set 2 40 -"},
		{"ts set 256 20 -", "ts set 511 30 -"},
		{"ts set 1 10 -", "ts set 2 40 -"},
		{"ts set 0 5 -", "ts set 1 10 -", "ts rawset 0001 0000000000000007", "ts rawset - 0000000000000008"},
	} {
		for _, op := range []string{"get 1", "get 256", "get 258", "get 0", "has 1", "has 256", "has 258", "has 2", "set 1 11", "set 256 21", "set 258 99", "del 1", "del 256", "del 258", "del 0"} {
			for _, ft := range []string{"-", "kv1", "enck", "dec@0"} {
				c := []string{"ts keys var"}
				c = append(c, st...)
				c = append(c, "ts "+op+" "+ft, "ts iter - fwd 0 -", "ts has 1 -", "ts has 256 -")
				out = append(out, c)
			}
		}
		for _, it := range []string{"iter - fwd 0 -", "iter 01 fwd 0 -", "iter 01 bwd 2 -", "iterk 01 fwd 0 -", "iterk - bwd 0 dec@1", "iter - fwd 0 dec@2", "delp 01 -", "delp 01 kv1", "delp 0100 -"} {
			c := []string{"ts keys var"}
			c = append(c, st...)
			c = append(c, "ts "+it, "ts iter - fwd 0 -")
			out = append(out, c)
		}
	}
	for _, st := range stores {
		for _, op := range []string{"get 1", "get 2", "get 9", "get 65535", "has 1", "has 9", "set 1 11", "set 9 99", "set 9 18446744073709551615", "del 1", "del 9"} {
			for _, ft := range []string{"-", "kv1", "enck", "encv", "dec@0", "dec@1", "kv1,enck", "encv,kv1"} {
				c := append([]string(nil), st...)
				c = append(c, "ts "+op+" "+ft, "ts iter - fwd 0 -")
				out = append(out, c)
			}
		}
		for _, op := range []string{"delp -", "delp 00", "delp 0001", "delp 01", "clear"} {
			for _, ft := range []string{"-", "kv1", "kv@0", "kv@1", "kv@2", "kv@3", "kv@1,kv1"} {
				for _, flavour := range []string{"alloc", "scratch"} {
					c := []string{"ts codec " + flavour}
					c = append(c, st...)
					c = append(c, "ts "+op+" "+ft, "ts iter - fwd 0 -", "ts iterk - bwd 0 -")
					out = append(out, c)
				}
			}
		}
		for _, dir := range []string{"fwd", "bwd"} {
			for stop := 0; stop <= 3; stop++ {
				var fts []string
				fts = append(fts, "-", "kv1")
				for i := 0; i <= 6; i++ {
					fts = append(fts, fmt.Sprintf("dec@%d", i))
				}
				for i := 0; i <= 3; i++ {
					fts = append(fts, fmt.Sprintf("kv@%d", i))
				}
				fts = append(fts, "dec@3,kv@1", "dec@1,kv@1", "dec@2+5")
				for _, ft := range fts {
					for _, pfx := range []string{"-", "00"} {
						c := append([]string(nil), st...)
						c = append(c, fmt.Sprintf("ts iter %s %s %d %s", pfx, dir, stop, ft))
						out = append(out, c)
						ck := append([]string(nil), st...)
						ck = append(ck, fmt.Sprintf("ts iterk %s %s %d %s", pfx, dir, stop, ft))
						out = append(out, ck)
					}
				}
			}
		}
	}

	return out
}

func genTVFaults(rng *hx.Rng) string {
	switch x := rng.Intn(100); {
	case x < 50:
		return "-"
	case x < 88:
		return hx.Pick(rng, []string{"kv1", "kv2", "dec", "enc"})
	default:
		var fs []string
		for _, f := range []string{"kv1", "kv2", "dec", "enc"} {
			if rng.Bool() {
				fs = append(fs, f)
			}
		}
		if len(fs) == 0 {
			return "-"
		}

		return strings.Join(fs, ",")
	}
}

func genTV(rng *hx.Rng) []string {
	var init string
	switch x := rng.Intn(100); {
	case x < 55:
		init = "none"
	case x < 85:
		init = hx.Hex(encU64(uint64(rng.Intn(50))))
	case x < 93:
		init = hx.Pick(rng, []string{"010203", "-", "000000000000000001"})
	default:
		init = "ffffffffffffffff"
	}
	ops := []string{"tv init " + init}
	if rng.Bool() {
		ops = append([]string{"tv codec scratch"}, ops...)
	}
	if rng.Chance(2, 5) {
		ops = append([]string{"tv store " + hx.Pick(rng, []string{"wrapped", "fmt"})}, ops...)
	}
	if rng.Chance(1, 5) {
		ops = append([]string{"tv faults dirty"}, ops...)
	}
	vals := tvValues
	if rng.Chance(1, 4) {
		// the value 0 has a zero-length encoding; make it frequent
		ops = append([]string{"tv values zempty"}, ops...)
		vals = append([]string{"0", "0", "0"}, tvValues...)
	}
	n := rng.Range(6, 22)
	for i := 0; i < n; i++ {
		ft := genTVFaults(rng)
		switch x := rng.Intn(100); {
		case x < 20:
			ops = append(ops, "tv get "+ft)
		case x < 32:
			ops = append(ops, "tv has "+ft)
		case x < 47:
			ops = append(ops, fmt.Sprintf("tv set %s %s", hx.Pick(rng, vals), ft))
		case x < 57:
			ops = append(ops, "tv del "+ft)
		case x < 92:
			ops = append(ops, fmt.Sprintf("tv compute %s %s", hx.Pick(rng, tvFns()), ft))
		default:
			ops = append(ops, "tv reopen")
		}
	}
	ops = append(ops, "tv get -", "tv has -", "tv reopen", "tv get -")

	return ops
}

func genTSFaults(rng *hx.Rng, iter bool) string {
	switch x := rng.Intn(100); {
	case x < 50:
		return "-"
	case x < 85:
		if iter {
			return hx.Pick(rng, []string{"kv1", fmt.Sprintf("dec@%d", rng.Intn(12)), fmt.Sprintf("kv@%d", rng.Intn(6))})
		}

		return hx.Pick(rng, []string{"kv1", "enck", "encv", "dec@0", "dec@1"})
	default:
		if iter {
			return fmt.Sprintf("dec@%d+%d,kv@%d", rng.Intn(10), rng.Intn(10), rng.Intn(6))
		}

		return hx.Pick(rng, []string{"kv1,enck", "encv,kv1", "enck,encv", "kv1,dec@0"})
	}
}

func genTS(rng *hx.Rng) []string {
	keys := []string{"0", "1", "2", "3", "256", "257", "513", "65535"}
	vals := []string{"0", "5", "6", "77", "18446744073709551615"}
	rawKeys := []string{"01", "0001ff", "0002", "ffff", "0100", "-"}
	rawVals := []string{"aa", "0000000000000003", "ffffffffffffffff", "-"}
	var ops []string
	if rng.Bool() {
		ops = append(ops, "ts codec scratch")
	}
	if rng.Chance(2, 5) {
		ops = append(ops, "ts store "+hx.Pick(rng, []string{"wrapped", "fmt"}))
	}
	if rng.Chance(1, 4) {
		ops = append(ops, "ts values zempty") // value 0 is stored with zero length
	}
	if rng.Chance(2, 5) {
		// keys 1, 2 are then prefixes of 256, 257 / 513; rawKeys 01 and 0100 are typed keys, 0001ff and 0002 do not decode
		ops = append(ops, "ts keys var")
	}
	n := rng.Range(8, 24)
	// point reads / deletes prefer keys that were set before (a uniformly drawn key is absent most of the time)
	var setKeys []string
	pickKey := func() string {
		if len(setKeys) > 0 && rng.Chance(3, 5) {
			return hx.Pick(rng, setKeys)
		}

		return hx.Pick(rng, keys)
	}
	for i := 0; i < n; i++ {
		switch x := rng.Intn(110); {
		case x >= 107:
			ops = append(ops, "ts clear "+hx.Pick(rng, []string{"-", "-", "kv1", fmt.Sprintf("kv@%d", rng.Intn(4)), fmt.Sprintf("kv@%d", rng.Intn(4))}))
		case x >= 104:
			ops = append(ops, fmt.Sprintf("ts delp %s %s", hx.Pick(rng, []string{"00", "01", "0001", "02", "-"}),
				hx.Pick(rng, []string{"-", "-", "kv1", fmt.Sprintf("kv@%d", rng.Intn(4)), fmt.Sprintf("kv@%d", rng.Intn(4))})))
		case x >= 100:
			ops = append(ops, fmt.Sprintf("ts iterk %s %s %d %s", hx.Pick(rng, []string{"-", "-", "00", "01", "0001", "02"}),
				hx.Pick(rng, []string{"fwd", "bwd"}), rng.Intn(5), genTSFaults(rng, true)))
		case x < 30:
			k := hx.Pick(rng, keys)
			setKeys = append(setKeys, k)
			ops = append(ops, fmt.Sprintf("ts set %s %s %s", k, hx.Pick(rng, vals), genTSFaults(rng, false)))
		case x < 42:
			ops = append(ops, fmt.Sprintf("ts get %s %s", pickKey(), genTSFaults(rng, false)))
		case x < 50:
			ops = append(ops, fmt.Sprintf("ts has %s %s", pickKey(), genTSFaults(rng, false)))
		case x < 60:
			ops = append(ops, fmt.Sprintf("ts del %s %s", pickKey(), genTSFaults(rng, false)))
		case x < 68:
			rk := hx.Pick(rng, rawKeys)
			ops = append(ops, fmt.Sprintf("ts rawset %s %s", rk, hx.Pick(rng, rawVals)))
			// raw keys that are encodings of typed keys (under one of the two key codecs): later point reads should
			// meet the raw value (often undecodable) through the typed view
			if tk, ok := map[string]string{"0002": "2", "0100": "256", "01": "1"}[rk]; ok {
				setKeys = append(setKeys, tk)
			}
		case x < 72:
			ops = append(ops, "ts rawdel "+hx.Pick(rng, rawKeys))
		default:
			ops = append(ops, fmt.Sprintf("ts iter %s %s %d %s", hx.Pick(rng, []string{"-", "-", "00", "01", "0001", "02"}),
				hx.Pick(rng, []string{"fwd", "bwd"}), rng.Intn(5), genTSFaults(rng, true)))
		}
	}
	ops = append(ops, "ts iter - fwd 0 -")

	return ops
}
