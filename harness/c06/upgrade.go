package main

import (
	"errors"
	"fmt"
	"reflect"
	"runtime"
	"sync"
	"sync/atomic"
	"time"
	"unsafe"

	"verifharness/hx"

	"github.com/iotaledger/hive.go/kvstore"
	"github.com/iotaledger/hive.go/kvstore/mapdb"
)

// ---------------------------------------------------------------------------------------------
// upgrade schedules: the window between the read-locked fast path of Get / Has and their write-locked slow path.
//
// A Compute is parked inside its callback (the harness supplies it), so it holds the write lock over a cold cache.
// 3-6 readers (Has / Get, mixed) and 0-2 writers (Delete / Set / Compute with unique values) are started and the
// harness waits until the readers are counted as pending on the RWMutex (readerCount, read through reflect/unsafe; a
// deadline keeps a loaded machine from turning this into a finding).  The callback then aborts with
// ErrTypedValueNotChanged or fails (the cache stays cold) or writes 20.  sync.RWMutex.Unlock admits ALL pending readers
// at once and no writer before the last of them has left, hence every reader passes the fast path with the same empty
// cache and they then queue for the write lock: the first one fills the cache, every other one runs its slow path
// against a cache that was filled in between — the re-check branch of the slow path, which no sequential history and
// no schedule with a single reader reaches.
//
// Oracle (independent of Lean): some serial order of readers and writers, started from what the parked Compute left,
// explains every answer (Has: presence, Get: value / not found), what every compute function was given and the final
// raw value; at quiescence Get and Has answer what the store holds.

// lockWaiters reads, without synchronising with anybody, how many readers are pending on t.mutex behind a writer and how
// many writers are parked on its inner mutex.  ok=false if the layout is not the one of the Go version this was written
// for (the caller then falls back to sleeping).
func lockWaiters(tv any) (readers, writers int, ok bool) {
	defer func() {
		if recover() != nil {
			ok = false
		}
	}()
	m := reflect.ValueOf(tv).Elem().FieldByName("mutex")
	if !m.IsValid() || m.Kind() != reflect.Struct {
		return 0, 0, false
	}
	rc := m.FieldByName("readerCount")
	w := m.FieldByName("w")
	if !rc.IsValid() || rc.Kind() != reflect.Struct || rc.NumField() == 0 || !w.IsValid() || w.Kind() != reflect.Struct {
		return 0, 0, false
	}
	var rcv reflect.Value
	for i := 0; i < rc.NumField(); i++ {
		if rc.Field(i).Kind() == reflect.Int32 {
			rcv = rc.Field(i)
		}
	}
	st := w.FieldByName("state")
	if !rcv.IsValid() || !st.IsValid() || st.Kind() != reflect.Int32 {
		return 0, 0, false
	}
	n := atomic.LoadInt32((*int32)(unsafe.Pointer(rcv.UnsafeAddr())))
	s := atomic.LoadInt32((*int32)(unsafe.Pointer(st.UnsafeAddr())))
	const maxReaders = 1 << 30
	if n < 0 {
		readers = int(n + maxReaders)
	}

	return readers, int(s >> 3), true
}

func runUpgrade(r *hx.Run, rng *hx.Rng) string {
	if runtime.GOMAXPROCS(0) < 4 {
		runtime.GOMAXPROCS(4)
	}
	base := mapdb.NewMapDB()
	ps := &parkStore{KVStore: base, entered: make(chan struct{}), release: make(chan struct{})} // never armed: only scribbles
	init := uint64(0)
	if rng.Chance(3, 4) {
		init = 10
		base.Set(tvKey, encU64(10)) // raw: the object's cache stays cold
	}
	tv := kvstore.NewTypedValue[uint64](ps, tvKey,
		func(v uint64) ([]byte, error) { return encU64(v), nil },
		func(b []byte) (uint64, int, error) {
			v, ok := decU64(b)
			if !ok {
				return 0, 0, errDec
			}

			return v, 8, nil
		})
	sig := func(oracle, api string) map[string]string {
		return map[string]string{"oracle": oracle, "api": api, "part": "upgrade"}
	}
	bad := func(what string) string {
		r.Fail("watchdog", what, sig("watchdog", "TypedValue"))

		return "conc upgrade 0 0 - - - 0 0"
	}
	// what the parked Compute does when it is released: 0 abort (ErrTypedValueNotChanged), 1 fail, 2 write 20
	mode := 0
	switch x := rng.Intn(10); {
	case x < 5:
		mode = 0
	case x < 8:
		mode = 1
	default:
		mode = 2
	}
	presenceKnown := false
	if rng.Chance(1, 5) {
		// presence cached, value not: the Has callers hit the fast path, the Get callers still have to upgrade
		if h, err := tv.Has(); err != nil || h != (init != 0) {
			return bad("Has on a cold cache failed")
		}
		presenceKnown = true
	}
	var wg sync.WaitGroup
	var failures atomic.Int64
	entered, release, parkedDone := make(chan struct{}), make(chan struct{}), make(chan struct{})
	parkedGiven := uint64(0)
	wg.Add(1)
	go func() {
		defer wg.Done()
		defer close(parkedDone)
		defer catchPanic()
		_, err := tv.Compute(func(cur uint64, ex bool) (uint64, error) {
			if ex {
				parkedGiven = cur
			}
			close(entered)
			<-release
			switch mode {
			case 0:
				return 0, kvstore.ErrTypedValueNotChanged
			case 1:
				return 0, errFn
			}

			return 20, nil
		})
		if (err != nil) != (mode == 1) || (err != nil && !errors.Is(err, errFn)) {
			failures.Add(1)
		}
	}()
	select {
	case <-entered:
	case <-parkedDone:
		return bad("the parked Compute returned without calling its function")
	case <-time.After(10 * time.Second):
		return bad("the parked Compute never called its function")
	}
	nR, nW := rng.Range(3, 6), 0
	if rng.Chance(2, 5) {
		nW = rng.Range(1, 2)
	}
	ops := make([]gop, 0, nR+nW)
	for i := 0; i < nR; i++ {
		k := uint64(3)
		if rng.Chance(2, 5) {
			k = 4
		}
		ops = append(ops, gop{kind: k})
	}
	for i := 0; i < nW; i++ {
		switch x := rng.Intn(10); {
		case x < 4:
			ops = append(ops, gop{kind: 0})
		case x < 6:
			ops = append(ops, gop{kind: 1, w: uint64(100 + i)})
		default:
			ops = append(ops, gop{kind: 2, w: uint64(100 + i)})
		}
	}
	for i := len(ops) - 1; i > 0; i-- { // start order
		j := rng.Intn(i + 1)
		ops[i], ops[j] = ops[j], ops[i]
	}
	for i := range ops {
		o := &ops[i]
		wg.Add(1)
		go func() {
			defer wg.Done()
			defer catchPanic()
			var err error
			switch o.kind {
			case 0:
				err = tv.Delete()
			case 1:
				err = tv.Set(o.w)
			case 2:
				_, err = tv.Compute(func(cur uint64, ex bool) (uint64, error) {
					o.s = 0
					if ex {
						o.s = cur
					}

					return o.w, nil
				})
			case 3:
				var h bool
				if h, err = tv.Has(); h {
					o.s = 1
				}
			default:
				var v uint64
				v, err = tv.Get()
				switch {
				case err == nil:
					o.s = okVal(v)
				case errors.Is(err, kvstore.ErrKeyNotFound):
					o.s, err = 0, nil
				}
			}
			if err != nil {
				failures.Add(1)
			}
		}()
	}
	// wait until every reader is pending behind the parked writer (and the writers are parked on the inner mutex)
	allPending := false
	deadline := time.Now().Add(150 * time.Millisecond)
	for time.Now().Before(deadline) {
		rd, wr, ok := lockWaiters(tv)
		if !ok {
			time.Sleep(time.Duration(rng.Range(300, 2500)) * time.Microsecond)

			break
		}
		if rd >= nR && wr >= nW {
			allPending = true

			break
		}
		time.Sleep(20 * time.Microsecond)
	}
	if rng.Bool() {
		time.Sleep(time.Duration(rng.Range(50, 500)) * time.Microsecond)
	}
	close(release)
	if !waitAll(&wg, 60*time.Second) {
		return bad("upgrade schedule: the calls did not return within 60s")
	}
	if failures.Load() != 0 {
		return bad("upgrade schedule: a call failed although no fault was injected")
	}
	final := uint64(0)
	if raw, err := base.Get(tvKey); err == nil {
		final, _ = decU64(raw)
	}
	st0 := init
	if mode == 2 {
		st0 = 20
	}
	modeName := []string{"aborted with ErrTypedValueNotChanged", "failed", "wrote 20"}[mode]
	// ---- property oracle ----
	if parkedGiven != init {
		r.Fail("serialised", fmt.Sprintf("the parked Compute was given %d instead of the stored %d", parkedGiven, init), sig("not-serialisable", "TypedValue.Compute"))
	}
	if !serialOrderExists(st0, ops, final) {
		r.Fail("serialised", fmt.Sprintf("a Compute over stored %d (0 = absent) parked in its function while [%s] queued behind it, then %s: no serial order of the queued calls explains their answers and the final value %d",
			init, descOps(ops), modeName, final), sig("not-serialisable", "TypedValue"))
	}
	qh, herr := tv.Has()
	gv, gerr := tv.Get()
	if gerr != nil {
		gv = 0
	}
	if herr != nil || qh != (final != 0) {
		r.Fail("cache-coherent", fmt.Sprintf("upgrade schedule [%s]: at quiescence Has=(%v,%v) but the store holds %d (0 = absent)",
			descOps(ops), qh, herr, final), sig("cache-has", "TypedValue.Has"))
	}
	if (gerr == nil) != (final != 0) || gv != final || (gerr != nil && !errors.Is(gerr, kvstore.ErrKeyNotFound)) {
		r.Fail("cache-coherent", fmt.Sprintf("upgrade schedule [%s]: at quiescence Get=(%d,%v) but the store holds %d (0 = absent)",
			descOps(ops), gv, gerr, final), sig("cache-value", "TypedValue.Get"))
	}
	ks, ws, ss := make([]uint64, len(ops)), make([]uint64, len(ops)), make([]uint64, len(ops))
	for i, o := range ops {
		ks[i], ws[i], ss[i] = o.kind, o.w, o.s
	}
	r.Count("conc:upgrade-rounds")
	r.Count("conc:upgrade-parked-" + []string{"abort", "fail", "write"}[mode])
	if allPending {
		r.Count("conc:upgrade-all-readers-pending")
	}
	if presenceKnown {
		r.Count("conc:upgrade-presence-known")
	}
	r.CountN("conc:upgrade-readers", nR)
	r.CountN("conc:upgrade-writers", nW)
	qhn := 0
	if qh {
		qhn = 1
	}

	return fmt.Sprintf("conc upgrade %d %d %s %s %s %d %d", st0, final, csv(ks), csv(ws), csv(ss), gv, qhn)
}
