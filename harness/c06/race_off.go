//go:build !race

package main

const raceEnabled = false
