package main

import (
	"errors"
	"fmt"
	"runtime"
	"strconv"
	"strings"
	"sync"
	"sync/atomic"
	"time"

	"verifharness/hx"

	"github.com/iotaledger/hive.go/kvstore"
	"github.com/iotaledger/hive.go/kvstore/mapdb"
)

// Concurrent part: real goroutines on one shared TypedValue.  Faults are carried by the data (the store
// wrapper cannot know which goroutine's operation is calling it): a value with bit 62 set is unencodable,
// a value with bit 61 set encodes but the store refuses to write it; every n-th store read and every
// m-th decode fails for whoever makes it.

const (
	poisonEnc = uint64(1) << 62
	poisonSet = uint64(1) << 61
)

type concStore struct {
	kvstore.KVStore
	gets      atomic.Int64
	failEvery int64
}

// yield widens the windows between a store call and what the caller does next (cache update, unlock):
// the store wrapper is the one place inside the critical sections where the harness gets control.
func (c *concStore) yield() {
	for i := 0; i < 3; i++ {
		runtime.Gosched()
	}
}

func (c *concStore) Get(k kvstore.Key) (kvstore.Value, error) {
	if n := c.gets.Add(1); c.failEvery > 0 && n%c.failEvery == 0 {
		return nil, errKV
	}
	v, err := c.KVStore.Get(k)
	c.yield()

	return v, err
}

func (c *concStore) Has(k kvstore.Key) (bool, error) {
	h, err := c.KVStore.Has(k)
	c.yield()

	return h, err
}

func (c *concStore) Set(k kvstore.Key, v kvstore.Value) error {
	if len(v) == 8 && v[0]&0x20 != 0 {
		return errKV
	}
	err := c.KVStore.Set(k, v)
	scribble(v)
	c.yield()

	return err
}

func (c *concStore) Delete(k kvstore.Key) error {
	err := c.KVStore.Delete(k)
	c.yield()

	return err
}

type obs struct {
	lo, val, hi uint64
	inv, ret    int64 // logical clock
	kind        string
}

func newConcTV(cs *concStore, decs *atomic.Int64, decEvery int64) *kvstore.TypedValue[uint64] {
	return kvstore.NewTypedValue[uint64](cs, tvKey,
		func(v uint64) ([]byte, error) {
			if v&poisonEnc != 0 {
				return nil, errEnc
			}

			return encU64(v), nil
		},
		func(b []byte) (uint64, int, error) {
			if n := decs.Add(1); decEvery > 0 && n%decEvery == 0 {
				return 0, 0, errDec
			}
			v, ok := decU64(b)
			if !ok {
				return 0, 0, errDec
			}

			return v, 8, nil
		})
}

// okVal: what a Get that returned no error is recorded as.  The observations use 0 for "ErrKeyNotFound" and no workload
// ever writes 0, so a Get that answers (zero value, nil) — e.g. for an absent key — must not be mistaken for a correct
// "not found": it is recorded as a value nobody wrote.
const neverWritten = uint64(1) << 50

func okVal(v uint64) uint64 {
	if v == 0 {
		return neverWritten
	}

	return v
}

func showGot(s uint64) string {
	switch s {
	case 0:
		return "not found"
	case neverWritten:
		return "(zero value, nil)"
	}

	return strconv.FormatUint(s, 10)
}

func waitAll(wg *sync.WaitGroup, d time.Duration) bool {
	ch := make(chan struct{})
	go func() { wg.Wait(); close(ch) }()
	select {
	case <-ch:
		return true
	case <-time.After(d):
		return false
	}
}

func csv(xs []uint64) string {
	if len(xs) == 0 {
		return "-"
	}
	parts := make([]string, len(xs))
	for i, x := range xs {
		parts[i] = strconv.FormatUint(x, 10)
	}

	return strings.Join(parts, ",")
}

// runCounter: several rounds (a fresh TypedValue object over the same store per round, so that readers race
// to fill the cache), G writers incrementing through Compute with per-operation faults, R readers.
func runCounter(r *hx.Run, rng *hx.Rng) string {
	base := mapdb.NewMapDB()
	cs := &concStore{KVStore: base, failEvery: int64(hx.Pick(rng, []int{0, 5, 9, 17}))}
	var decs atomic.Int64
	decEvery := int64(hx.Pick(rng, []int{0, 7, 13}))
	var started, done atomic.Uint64
	var mu sync.Mutex
	var incs, gets []obs
	errsByKind := map[string]int{}
	rounds := rng.Range(2, 4)
	for round := 0; round < rounds; round++ {
		tv := newConcTV(cs, &decs, decEvery)
		writers, readers, per := rng.Range(2, 8), rng.Range(1, 4), rng.Range(5, 40)
		var wg sync.WaitGroup
		var stop atomic.Bool
		for g := 0; g < writers; g++ {
			grng, _ := rng.Fork()
			wg.Add(1)
			go func() {
				defer wg.Done()
				defer catchPanic()
				for i := 0; i < per; i++ {
					mode := 0
					if x := grng.Intn(100); x >= 70 {
						mode = 1 + (x-70)/8 // 1..4
						if mode > 4 {
							mode = 0
						}
					}
					lo := done.Load()
					started.Add(1)
					v, err := tv.Compute(func(cur uint64, ex bool) (uint64, error) {
						next := uint64(1)
						if ex {
							next = cur + 1
						}
						switch mode {
						case 1:
							return 0, errFn
						case 2:
							return 0, kvstore.ErrTypedValueNotChanged
						case 3:
							return next | poisonEnc, nil
						case 4:
							return next | poisonSet, nil
						}

						return next, nil
					})
					hi := started.Load()
					mu.Lock()
					switch {
					case err != nil:
						errsByKind[errKind(err)]++
					case mode == 2:
						gets = append(gets, obs{lo: lo, val: v, hi: hi, kind: "compute-nc"})
					default:
						incs = append(incs, obs{lo: lo, val: v, hi: hi, kind: "inc"})
					}
					mu.Unlock()
					if err == nil && mode != 2 {
						done.Add(1)
					}
				}
			}()
		}
		var rwg sync.WaitGroup
		for g := 0; g < readers; g++ {
			rwg.Add(1)
			go func() {
				defer rwg.Done()
				defer catchPanic()
				var local []obs
				for n := 0; !stop.Load() && n < 20000; n++ {
					lo := done.Load()
					v, err := tv.Get()
					hi := started.Load()
					if err != nil && !errors.Is(err, kvstore.ErrKeyNotFound) {
						continue // an injected read/decode fault hit this reader
					}
					v = okVal(v)
					if err != nil {
						v = 0
					}
					if len(local) < 400 {
						local = append(local, obs{lo: lo, val: v, hi: hi, kind: "get"})
					} else if v < lo || v > hi {
						local = append(local, obs{lo: lo, val: v, hi: hi, kind: "get"})
					}
				}
				mu.Lock()
				gets = append(gets, local...)
				mu.Unlock()
			}()
		}
		if !waitAll(&wg, 60*time.Second) {
			r.Fail("watchdog", "counter writers did not finish within 60s", map[string]string{"oracle": "watchdog", "api": "TypedValue.Compute"})

			return "conc counter 0 - -"
		}
		stop.Store(true)
		if !waitAll(&rwg, 60*time.Second) {
			r.Fail("watchdog", "readers did not finish within 60s", map[string]string{"oracle": "watchdog", "api": "TypedValue.Get"})

			return "conc counter 0 - -"
		}
		// quiescence: cache = store
		raw, err := base.Get(tvKey)
		rawVal, rawHas := uint64(0), err == nil
		if rawHas {
			rawVal, _ = decU64(raw)
		}
		decs.Store(0) // keep the probe below free of injected decode faults
		cs.gets.Store(0)
		if gv, gerr := tv.Get(); (gerr == nil) != rawHas || (gerr == nil && gv != rawVal) {
			r.Fail("cache-coherent", fmt.Sprintf("at quiescence Get=(%d,%v) but raw=%s", gv, gerr, showRaw(raw, rawHas)),
				map[string]string{"oracle": "cache-value", "api": "TypedValue.Get", "part": "concurrent"})
		}
	}
	raw, err := base.Get(tvKey)
	final := uint64(0)
	if err == nil {
		final, _ = decU64(raw)
	}
	// ---- property oracle ----
	seen := map[uint64]int{}
	for _, o := range incs {
		seen[o.val]++
		if !(o.lo < o.val && o.val <= o.hi) {
			r.Fail("no-lost-update", fmt.Sprintf("increment returned %d but %d increments had completed before it started and %d had started when it returned", o.val, o.lo, o.hi),
				map[string]string{"oracle": "increment-out-of-window", "api": "TypedValue.Compute"})
		}
	}
	for v, n := range seen {
		if n > 1 {
			r.Fail("no-lost-update", fmt.Sprintf("%d successful increments returned the same value %d (lost update)", n, v),
				map[string]string{"oracle": "lost-update", "api": "TypedValue.Compute"})

			break
		}
	}
	if final != uint64(len(incs)) {
		r.Fail("no-lost-update", fmt.Sprintf("%d increments succeeded but the stored counter is %d", len(incs), final),
			map[string]string{"oracle": "lost-update", "api": "TypedValue.Compute"})
	}
	for _, o := range gets {
		if o.val < o.lo || o.val > o.hi {
			r.Fail("readers-see-written", fmt.Sprintf("%s returned %d; %d increments had completed before it started, %d had started when it returned", o.kind, o.val, o.lo, o.hi),
				map[string]string{"oracle": "unwritten-value", "api": "TypedValue.Get"})

			break
		}
	}
	r.CountN("conc:increments-ok", len(incs))
	r.CountN("conc:gets", len(gets))
	for k, n := range errsByKind {
		r.CountN("conc:inc-"+k, n)
	}
	iv, gv := make([]uint64, len(incs)), make([]uint64, 0, len(gets))
	for i, o := range incs {
		iv[i] = o.val
	}
	distinct := map[uint64]bool{}
	for _, o := range gets {
		if !distinct[o.val] {
			distinct[o.val] = true
			gv = append(gv, o.val)
		}
	}

	return fmt.Sprintf("conc counter %d %s %s", final, csv(iv), csv(gv))
}

// runMixed: Set / Delete / Compute with unique values against concurrent Get / Has; every value a reader
// sees must have been written, must not come from the future and must not be stale.
func runMixed(r *hx.Run, rng *hx.Rng) string {
	base := mapdb.NewMapDB()
	failEvery := int64(hx.Pick(rng, []int{0, 6, 11}))
	decEvery := int64(hx.Pick(rng, []int{0, 9}))
	cs := &concStore{KVStore: base, failEvery: failEvery}
	var decs atomic.Int64
	tv := newConcTV(cs, &decs, decEvery)
	var clock atomic.Int64
	var mu sync.Mutex
	var writes, reads []obs // writes: val 0 = delete
	var hasObs []obs        // what concurrent Has calls answered (val 1 / 0)
	var qGet, qRaw []uint64 // at every quiescence: what Get returns / what the store holds (0: absent)
	phases := rng.Range(8, 30)
	for phase := 0; phase < phases; phase++ {
		if rng.Chance(1, 6) {
			tv = newConcTV(cs, &decs, decEvery) // a fresh object: readers and writers race to fill the cache
		}
		writers, readers, per := rng.Range(2, 6), rng.Range(0, 3), rng.Range(1, 4)
		var wg, rwg sync.WaitGroup
		var stop atomic.Bool
		cs.failEvery = failEvery
		for g := 0; g < writers; g++ {
			grng, _ := rng.Fork()
			gid := uint64(g + 1)
			wg.Add(1)
			go func() {
				defer wg.Done()
				defer catchPanic()
				for i := 0; i < per; i++ {
					uniq := gid<<40 | uint64(phase)<<16 | uint64(i+1)
					inv := clock.Add(1)
					var err error
					val := uniq
					switch x := grng.Intn(100); {
					case x < 40:
						err = tv.Set(uniq)
					case x < 47:
						err = tv.Set(uniq | poisonSet)
					case x < 60:
						err = tv.Delete()
						val = 0
					case x < 85:
						_, err = tv.Compute(func(uint64, bool) (uint64, error) { return uniq, nil })
					case x < 90:
						_, err = tv.Compute(func(uint64, bool) (uint64, error) { return uniq | poisonEnc, nil })
					case x < 95:
						_, err = tv.Compute(func(uint64, bool) (uint64, error) { return 0, errFn })
					default:
						var cur uint64
						cur, err = tv.Compute(func(uint64, bool) (uint64, error) { return 0, kvstore.ErrTypedValueNotChanged })
						ret := clock.Add(1)
						if err == nil {
							mu.Lock()
							reads = append(reads, obs{val: cur, inv: inv, ret: ret, kind: "compute-nc"})
							mu.Unlock()
						}

						continue
					}
					ret := clock.Add(1)
					if err == nil {
						mu.Lock()
						writes = append(writes, obs{val: val, inv: inv, ret: ret})
						mu.Unlock()
					}
				}
			}()
		}
		for g := 0; g < readers; g++ {
			rwg.Add(1)
			go func() {
				defer rwg.Done()
				defer catchPanic()
				var local, localHas []obs
				for n := 0; !stop.Load() && n < 2000; n++ {
					inv := clock.Add(1)
					v, err := tv.Get()
					ret := clock.Add(1)
					if n%3 == 0 {
						hinv := clock.Add(1)
						h, herr := tv.Has()
						hret := clock.Add(1)
						if herr == nil && (len(localHas) == 0 || (localHas[len(localHas)-1].val == 1) != h || len(localHas) < 50) {
							hv := uint64(0)
							if h {
								hv = 1
							}
							localHas = append(localHas, obs{val: hv, inv: hinv, ret: hret, kind: "has"})
						}
					}
					if err != nil && !errors.Is(err, kvstore.ErrKeyNotFound) {
						continue
					}
					v = okVal(v)
					if err != nil {
						v = 0
					}
					if len(local) == 0 || local[len(local)-1].val != v {
						local = append(local, obs{val: v, inv: inv, ret: ret, kind: "get"})
					}
				}
				mu.Lock()
				reads = append(reads, local...)
				hasObs = append(hasObs, localHas...)
				mu.Unlock()
			}()
		}
		if !waitAll(&wg, 60*time.Second) {
			r.Fail("watchdog", "mixed writers did not finish within 60s", map[string]string{"oracle": "watchdog", "api": "TypedValue"})

			return "conc mixed - - - -"
		}
		stop.Store(true)
		if !waitAll(&rwg, 60*time.Second) {
			r.Fail("watchdog", "readers did not finish within 60s", map[string]string{"oracle": "watchdog", "api": "TypedValue.Get"})

			return "conc mixed - - - -"
		}
		// quiescence after every phase: cache = store (probe without injected faults)
		raw, err := base.Get(tvKey)
		rawHas := err == nil
		rawVal := uint64(0)
		if rawHas {
			rawVal, _ = decU64(raw)
		}
		decs.Store(0)
		cs.gets.Store(0)
		cs.failEvery = 0
		gv, gerr := tv.Get()
		hv, herr := tv.Has()
		if gerr != nil {
			gv = 0
		}
		qGet, qRaw = append(qGet, gv), append(qRaw, rawVal)
		if (gerr == nil) != rawHas || (gerr == nil && gv != rawVal) || herr != nil || hv != rawHas {
			r.Fail("cache-coherent", fmt.Sprintf("at quiescence Get=(%d,%v) Has=(%v,%v) but raw=%s", gv, gerr, hv, herr, showRaw(raw, rawHas)),
				map[string]string{"oracle": "cache-value", "api": "TypedValue.Get", "part": "concurrent"})

			break
		}
	}
	// the initial state (absent) counts as a write of "0" that returned before everything
	all := append([]obs{{val: 0, inv: -1, ret: 0}}, writes...)
	byVal := map[uint64][]obs{}
	for _, w := range all {
		byVal[w.val] = append(byVal[w.val], w)
	}
	for _, g := range reads {
		ws, ok := byVal[g.val]
		if !ok {
			r.Fail("readers-see-written", fmt.Sprintf("%s returned %d which no successful write wrote", g.kind, g.val),
				map[string]string{"oracle": "unwritten-value", "api": "TypedValue.Get"})

			break
		}
		// some write of that value must be a possible source: invoked before the read returned, and not
		// definitely overwritten (by a write that started after it returned and returned before the read started)
		possible := false
		for _, w := range ws {
			if w.inv > g.ret {
				continue
			}
			over := false
			for _, w2 := range all {
				if w2.inv > w.ret && w2.ret < g.inv && !(w2.val == w.val) {
					over = true

					break
				}
			}
			if !over {
				possible = true

				break
			}
		}
		if !possible {
			r.Fail("readers-see-written", fmt.Sprintf("%s [%d,%d] returned %d which was overwritten before the read started or written after it returned", g.kind, g.inv, g.ret, g.val),
				map[string]string{"oracle": "stale-or-future-value", "api": "TypedValue.Get"})

			break
		}
	}
	// Has: the answered presence must be that of some write (or of the initial absence) which was invoked before the Has
	// returned and was not definitely replaced by a write of the opposite presence before the Has was invoked
	for _, g := range hasObs {
		possible := false
		for _, w := range all {
			if (w.val != 0) != (g.val == 1) || w.inv > g.ret {
				continue
			}
			over := false
			for _, w2 := range all {
				if w2.inv > w.ret && w2.ret < g.inv && (w2.val != 0) != (w.val != 0) {
					over = true

					break
				}
			}
			if !over {
				possible = true

				break
			}
		}
		if !possible {
			r.Fail("readers-see-written", fmt.Sprintf("Has [%d,%d] answered %v although every write that left the key in that state was replaced before the call started (or no write ever did)", g.inv, g.ret, g.val == 1),
				map[string]string{"oracle": "stale-or-future-presence", "api": "TypedValue.Has"})

			break
		}
	}
	r.CountN("conc:mixed-has", len(hasObs))
	// at the end the stored value is one that was written
	raw, err := base.Get(tvKey)
	rawHas := err == nil
	rawVal := uint64(0)
	if rawHas {
		rawVal, _ = decU64(raw)
	}
	if _, ok := byVal[rawVal]; !ok {
		r.Fail("stored-is-last-written", fmt.Sprintf("at quiescence raw=%s which no successful write wrote", showRaw(raw, rawHas)),
			map[string]string{"oracle": "stored-differs", "api": "TypedValue", "part": "concurrent"})
	}
	r.CountN("conc:mixed-writes-ok", len(writes))
	r.CountN("conc:mixed-reads", len(reads))
	wv := []uint64{0}
	for _, w := range writes {
		if w.val != 0 {
			wv = append(wv, w.val)
		}
	}
	seen := map[uint64]bool{}
	var gvs []uint64
	for _, g := range reads {
		if !seen[g.val] {
			seen[g.val] = true
			gvs = append(gvs, g.val)
		}
	}
	gvs = append(gvs, rawVal)

	return fmt.Sprintf("conc mixed %s %s %s %s", csv(wv), csv(gvs), csv(qGet), csv(qRaw))
}

// ---------------------------------------------------------------------------------------------
// wide values: a multi-word V makes a torn read observable.  One Compute writer replaces a 4 KiB value whose
// 512 words all carry one generation number; several readers run truly in parallel and check that every
// value Get returns is uniform.  No store/codec/callback call lies inside the window this is about (copying the
// cached value on the fast path vs. updating the cache), so it needs real parallelism and many iterations.

const wideWords = 512

type wide struct{ w [wideWords]uint64 }

func mkWide(g uint64) (v wide) {
	for i := range v.w {
		v.w[i] = g
	}

	return v
}

func runWide(r *hx.Run, rng *hx.Rng) string {
	if runtime.GOMAXPROCS(0) < 4 {
		runtime.GOMAXPROCS(4)
	}
	base := mapdb.NewMapDB()
	tv := kvstore.NewTypedValue[wide](base, tvKey,
		func(v wide) ([]byte, error) { return encU64(v.w[0]), nil },
		func(b []byte) (wide, int, error) {
			g, ok := decU64(b)
			if !ok {
				return wide{}, 0, errDec
			}

			return mkWide(g), 8, nil
		})
	n := uint64(rng.Range(30000, 50000))
	if raceEnabled {
		n /= 8
	}
	readers := rng.Range(3, 6)
	var stop atomic.Bool
	var mu sync.Mutex
	var sampled []uint64 // generations readers saw (sample) ...
	var torn []string    // ... and values that are not one generation
	var wg, rwg sync.WaitGroup
	wg.Add(1)
	go func() {
		defer wg.Done()
		defer catchPanic()
		for i := uint64(0); i < n; i++ {
			tv.Compute(func(cur wide, ex bool) (wide, error) {
				if !ex {
					return mkWide(1), nil
				}

				return mkWide(cur.w[0] + 1), nil
			})
		}
	}()
	for g := 0; g < readers; g++ {
		rwg.Add(1)
		go func() {
			defer rwg.Done()
			defer catchPanic()
			var local []uint64
			var localTorn []string
			last := uint64(0)
			for !stop.Load() {
				v, err := tv.Get()
				if err != nil {
					continue // not found yet
				}
				g0 := v.w[0]
				for i := 1; i < wideWords; i++ {
					if v.w[i] != g0 {
						if len(localTorn) < 5 {
							localTorn = append(localTorn, fmt.Sprintf("word0=%d word%d=%d", g0, i, v.w[i]))
						}
						g0 = ^uint64(0)

						break
					}
				}
				if g0 == ^uint64(0) {
					continue
				}
				if g0 < last && len(localTorn) < 5 {
					localTorn = append(localTorn, fmt.Sprintf("generation %d after %d", g0, last))
				}
				if g0 != last && len(local) < 60 {
					local = append(local, g0)
				}
				last = g0
			}
			mu.Lock()
			sampled = append(sampled, local...)
			torn = append(torn, localTorn...)
			mu.Unlock()
		}()
	}
	if !waitAll(&wg, 120*time.Second) {
		r.Fail("watchdog", "wide writer did not finish within 120s", map[string]string{"oracle": "watchdog", "api": "TypedValue.Compute"})
		stop.Store(true)

		return "conc wide 0 -"
	}
	stop.Store(true)
	if !waitAll(&rwg, 60*time.Second) {
		r.Fail("watchdog", "wide readers did not finish within 60s", map[string]string{"oracle": "watchdog", "api": "TypedValue.Get"})

		return "conc wide 0 -"
	}
	if len(torn) > 0 {
		r.Fail("readers-see-written", fmt.Sprintf("Get returned a value that was never written (512 words, one generation each write): %s", strings.Join(torn, "; ")),
			map[string]string{"oracle": "torn-value", "api": "TypedValue.Get"})
		for range torn {
			sampled = append(sampled, n+1) // not a written generation: the Lean predicate rejects
		}
	}
	final, _ := tv.Get()
	if final.w[0] != n {
		r.Fail("no-lost-update", fmt.Sprintf("%d increments of the wide value but it ends at generation %d", n, final.w[0]),
			map[string]string{"oracle": "lost-update", "api": "TypedValue.Compute", "part": "wide"})
	}
	sampled = append(sampled, final.w[0])
	r.CountN("conc:wide-computes", int(n))
	r.CountN("conc:wide-sampled-gets", len(sampled))

	return fmt.Sprintf("conc wide %d %s", n, csv(sampled))
}

// ---------------------------------------------------------------------------------------------
// gate schedules: one writer is parked inside the store (it holds the write lock), a Delete and several
// Compute/Set calls queue up behind it, then the gate opens and the lock admits them in whatever order it likes
// (waiting readers first, then writers).  Every queued Set/Compute writes a unique value and every Compute reports
// what its function was given; serialisation means that SOME order of the queued calls, started from what the
// parked writer left, explains all reports and the final state.

type gateStore struct {
	kvstore.KVStore
	armed   atomic.Bool
	entered chan struct{}
	release chan struct{}
}

func (g *gateStore) Set(k kvstore.Key, v kvstore.Value) error {
	if g.armed.CompareAndSwap(true, false) {
		close(g.entered)
		<-g.release
	}
	err := g.KVStore.Set(k, v)
	scribble(v)

	return err
}

type gop struct{ kind, w, s uint64 } // kind: 0 Delete, 1 Set, 2 Compute

// serialOrderExists is the Go oracle's own search (the Lean driver has its own, Conc.serialOk).
func serialOrderExists(st uint64, ops []gop, final uint64) bool {
	if len(ops) == 0 {
		return st == final
	}
	for i, o := range ops {
		next, ok := uint64(0), true
		switch o.kind {
		case 0:
			next = 0
		case 1:
			next = o.w
		case 2:
			next, ok = o.w, o.s == st
		case 3: // Has answered o.s (1/0)
			next, ok = st, (o.s == 1) == (st != 0)
		default: // Get returned o.s (0: not found)
			next, ok = st, o.s == st
		}
		if !ok {
			continue
		}
		rest := append(append([]gop(nil), ops[:i]...), ops[i+1:]...)
		if serialOrderExists(next, rest, final) {
			return true
		}
	}

	return false
}

func runGate(r *hx.Run, rng *hx.Rng) string {
	if runtime.GOMAXPROCS(0) < 4 {
		runtime.GOMAXPROCS(4)
	}
	base := mapdb.NewMapDB()
	gs := &gateStore{KVStore: base, entered: make(chan struct{}), release: make(chan struct{})}
	tv := kvstore.NewTypedValue[uint64](gs, tvKey,
		func(v uint64) ([]byte, error) { return encU64(v), nil },
		func(b []byte) (uint64, int, error) {
			v, ok := decU64(b)
			if !ok {
				return 0, 0, errDec
			}

			return v, 8, nil
		})
	bad := func(what string) string {
		r.Fail("watchdog", what, map[string]string{"oracle": "watchdog", "api": "TypedValue", "part": "gate"})

		return "conc gate 0 0 - - -"
	}
	if err := tv.Set(10); err != nil {
		return bad("initial Set failed: " + err.Error())
	}
	if rng.Bool() {
		tv.Get() // warm or cold cache before the schedule
	}
	var wg sync.WaitGroup
	var failures atomic.Int64
	// the parked writer
	parkedSeen, parkedCompute := uint64(0), rng.Bool()
	gs.armed.Store(true)
	parkedDone := make(chan struct{})
	wg.Add(1)
	go func() {
		defer wg.Done()
		defer close(parkedDone)
		defer catchPanic()
		var err error
		if parkedCompute {
			_, err = tv.Compute(func(cur uint64, ex bool) (uint64, error) {
				if ex {
					parkedSeen = cur
				}

				return 20, nil
			})
		} else {
			err = tv.Set(20)
		}
		if err != nil {
			failures.Add(1)
		}
	}()
	select {
	case <-gs.entered:
	case <-parkedDone:
		close(gs.release)

		return bad("the parked writer returned without reaching the store")
	case <-time.After(10 * time.Second):
		close(gs.release)

		return bad("the parked writer never reached the store")
	}
	// the queue behind it
	n := rng.Range(4, 6)
	ops := make([]gop, 0, n+2)
	dels := 1
	if rng.Chance(1, 4) {
		dels = 2
	}
	for i := 0; i < dels; i++ {
		ops = append(ops, gop{kind: 0})
	}
	for i := 0; i < n; i++ {
		k := uint64(2)
		if rng.Chance(1, 5) {
			k = 1
		}
		ops = append(ops, gop{kind: k, w: uint64(100 + i)})
	}
	for i := len(ops) - 1; i > 0; i-- { // start order
		j := rng.Intn(i + 1)
		ops[i], ops[j] = ops[j], ops[i]
	}
	for i := range ops {
		o := &ops[i]
		wg.Add(1)
		go func() {
			defer wg.Done()
			defer catchPanic()
			var err error
			switch o.kind {
			case 0:
				err = tv.Delete()
			case 1:
				err = tv.Set(o.w)
			default:
				_, err = tv.Compute(func(cur uint64, ex bool) (uint64, error) {
					o.s = 0
					if ex {
						o.s = cur
					}

					return o.w, nil
				})
			}
			if err != nil {
				failures.Add(1)
			}
		}()
	}
	// give all of them the time to queue up behind the parked writer
	time.Sleep(time.Duration(rng.Range(300, 2500)) * time.Microsecond)
	close(gs.release)
	if !waitAll(&wg, 60*time.Second) {
		return bad("gate schedule: the calls did not return within 60s")
	}
	if failures.Load() != 0 {
		return bad("gate schedule: a call failed although no fault was injected")
	}
	final := uint64(0)
	raw, err := base.Get(tvKey)
	if err == nil {
		final, _ = decU64(raw)
	}
	// ---- property oracle ----
	if parkedCompute && parkedSeen != 10 {
		r.Fail("no-lost-update", fmt.Sprintf("the parked Compute was given %d instead of the stored 10", parkedSeen),
			map[string]string{"oracle": "not-serialisable", "api": "TypedValue.Compute", "part": "gate"})
	}
	if !serialOrderExists(20, ops, final) {
		var desc []string
		for _, o := range ops {
			switch o.kind {
			case 0:
				desc = append(desc, "Delete")
			case 1:
				desc = append(desc, fmt.Sprintf("Set(%d)", o.w))
			default:
				desc = append(desc, fmt.Sprintf("Compute(given %d -> %d)", o.s, o.w))
			}
		}
		r.Fail("no-lost-update", fmt.Sprintf("after a parked writer left 20, no serial order of [%s] explains what the compute functions were given and the final value %d (0 = absent)",
			strings.Join(desc, ", "), final),
			map[string]string{"oracle": "not-serialisable", "api": "TypedValue.Compute", "part": "gate"})
	}
	gv, gerr := tv.Get()
	if (gerr == nil) != (final != 0) || (gerr == nil && gv != final) {
		r.Fail("cache-coherent", fmt.Sprintf("gate schedule: at quiescence Get=(%d,%v) but the store holds %d (0 = absent)", gv, gerr, final),
			map[string]string{"oracle": "cache-value", "api": "TypedValue.Get", "part": "gate"})
	}
	ks, ws, ss := make([]uint64, len(ops)), make([]uint64, len(ops)), make([]uint64, len(ops))
	for i, o := range ops {
		ks[i], ws[i], ss[i] = o.kind, o.w, o.s
	}
	r.Count("conc:gate-rounds")

	return fmt.Sprintf("conc gate 20 %d %s %s %s", final, csv(ks), csv(ws), csv(ss))
}

// ---------------------------------------------------------------------------------------------
// reader-gate schedules: a reader (Has or Get on a cold cache) is parked inside its store call — right before the
// store is asked, or right after it has answered — while 1-3 writers (Delete / Set / Compute with unique values) are
// started and given time to run.  A correct TypedValue holds the write lock around the store read and the cache
// fill, so the writers wait; an implementation that reads the store outside the lock lets them through and then
// caches what the store said before they ran.  Oracle: some serial order of reader and writers explains the reader's
// answer, what every compute function was given and the final raw value; and at quiescence Get and Has answer what
// the store holds.

type parkStore struct {
	kvstore.KVStore
	pre, post atomic.Bool
	entered   chan struct{}
	release   chan struct{}
}

func (p *parkStore) park(flag *atomic.Bool) {
	if flag.CompareAndSwap(true, false) {
		close(p.entered)
		<-p.release
	}
}

func (p *parkStore) Has(k kvstore.Key) (bool, error) {
	p.park(&p.pre)
	h, err := p.KVStore.Has(k)
	p.park(&p.post)

	return h, err
}

func (p *parkStore) Get(k kvstore.Key) (kvstore.Value, error) {
	p.park(&p.pre)
	v, err := p.KVStore.Get(k)
	p.park(&p.post)

	return v, err
}

func (p *parkStore) Set(k kvstore.Key, v kvstore.Value) error {
	err := p.KVStore.Set(k, v)
	scribble(v)

	return err
}

func descOps(ops []gop) string {
	var desc []string
	for _, o := range ops {
		switch o.kind {
		case 0:
			desc = append(desc, "Delete")
		case 1:
			desc = append(desc, fmt.Sprintf("Set(%d)", o.w))
		case 2:
			desc = append(desc, fmt.Sprintf("Compute(given %d -> %d)", o.s, o.w))
		case 3:
			desc = append(desc, fmt.Sprintf("Has()=%v", o.s == 1))
		default:
			desc = append(desc, "Get()="+showGot(o.s))
		}
	}

	return strings.Join(desc, ", ")
}

func runRGate(r *hx.Run, rng *hx.Rng) string {
	if runtime.GOMAXPROCS(0) < 4 {
		runtime.GOMAXPROCS(4)
	}
	base := mapdb.NewMapDB()
	ps := &parkStore{KVStore: base, entered: make(chan struct{}), release: make(chan struct{})}
	init := uint64(0)
	if rng.Chance(2, 3) {
		init = 10
		base.Set(tvKey, encU64(10)) // raw: the object's cache stays cold
	}
	tv := kvstore.NewTypedValue[uint64](ps, tvKey,
		func(v uint64) ([]byte, error) { return encU64(v), nil },
		func(b []byte) (uint64, int, error) {
			v, ok := decU64(b)
			if !ok {
				return 0, 0, errDec
			}

			return v, 8, nil
		})
	sig := func(oracle, api string) map[string]string {
		return map[string]string{"oracle": oracle, "api": api, "part": "rgate"}
	}
	bad := func(what string) string {
		r.Fail("watchdog", what, sig("watchdog", "TypedValue"))

		return "conc rgate 0 0 - - - 0 0"
	}
	readerGet := rng.Bool()
	if readerGet && init != 0 && rng.Bool() {
		// presence known, value not: Get still has to read the store
		if h, err := tv.Has(); err != nil || !h {
			return bad("Has on a stored key failed")
		}
	}
	where := "post"
	if rng.Chance(1, 3) {
		where = "pre"
		ps.pre.Store(true)
	} else {
		ps.post.Store(true)
	}
	reader := gop{kind: 3}
	if readerGet {
		reader.kind = 4
	}
	var wg sync.WaitGroup
	var failures atomic.Int64
	readerDone := make(chan struct{})
	wg.Add(1)
	go func() {
		defer wg.Done()
		defer close(readerDone)
		defer catchPanic()
		if readerGet {
			v, err := tv.Get()
			switch {
			case err == nil:
				reader.s = okVal(v)
			case errors.Is(err, kvstore.ErrKeyNotFound):
				reader.s = 0
			default:
				failures.Add(1)
			}
		} else {
			h, err := tv.Has()
			if err != nil {
				failures.Add(1)
			}
			if h {
				reader.s = 1
			}
		}
	}()
	select {
	case <-ps.entered:
	case <-readerDone:
		close(ps.release)

		return bad("the reader returned without asking the store although its cache was cold")
	case <-time.After(10 * time.Second):
		close(ps.release)

		return bad("the parked reader never reached the store")
	}
	n := rng.Range(1, 3)
	ops := make([]gop, 0, n+1)
	for i := 0; i < n; i++ {
		switch x := rng.Intn(10); {
		case x < 5:
			ops = append(ops, gop{kind: 0})
		case x < 7:
			ops = append(ops, gop{kind: 1, w: uint64(100 + i)})
		default:
			ops = append(ops, gop{kind: 2, w: uint64(100 + i)})
		}
	}
	for i := range ops {
		o := &ops[i]
		wg.Add(1)
		go func() {
			defer wg.Done()
			defer catchPanic()
			var err error
			switch o.kind {
			case 0:
				err = tv.Delete()
			case 1:
				err = tv.Set(o.w)
			default:
				_, err = tv.Compute(func(cur uint64, ex bool) (uint64, error) {
					o.s = 0
					if ex {
						o.s = cur
					}

					return o.w, nil
				})
			}
			if err != nil {
				failures.Add(1)
			}
		}()
	}
	time.Sleep(time.Duration(rng.Range(300, 2500)) * time.Microsecond)
	close(ps.release)
	if !waitAll(&wg, 60*time.Second) {
		return bad("reader-gate schedule: the calls did not return within 60s")
	}
	if failures.Load() != 0 {
		return bad("reader-gate schedule: a call failed although no fault was injected")
	}
	final := uint64(0)
	if raw, err := base.Get(tvKey); err == nil {
		final, _ = decU64(raw)
	}
	all := append([]gop{reader}, ops...)
	// ---- property oracle ----
	if !serialOrderExists(init, all, final) {
		r.Fail("serialised", fmt.Sprintf("reader parked %s its store call over stored %d (0 = absent): no serial order of [%s] explains the answers and the final value %d",
			where, init, descOps(all), final), sig("not-serialisable", "TypedValue"))
	}
	qh, herr := tv.Has()
	gv, gerr := tv.Get()
	if gerr != nil {
		gv = 0
	}
	if herr != nil || qh != (final != 0) {
		r.Fail("cache-coherent", fmt.Sprintf("reader parked %s its store call over stored %d, then [%s]: at quiescence Has=(%v,%v) but the store holds %d (0 = absent)",
			where, init, descOps(all), qh, herr, final), sig("cache-has", "TypedValue.Has"))
	}
	if (gerr == nil) != (final != 0) || gv != final || (gerr != nil && !errors.Is(gerr, kvstore.ErrKeyNotFound)) {
		r.Fail("cache-coherent", fmt.Sprintf("reader parked %s its store call over stored %d, then [%s]: at quiescence Get=(%d,%v) but the store holds %d (0 = absent)",
			where, init, descOps(all), gv, gerr, final), sig("cache-value", "TypedValue.Get"))
	}
	ks, ws, ss := make([]uint64, len(all)), make([]uint64, len(all)), make([]uint64, len(all))
	for i, o := range all {
		ks[i], ws[i], ss[i] = o.kind, o.w, o.s
	}
	r.Count("conc:rgate-rounds")
	r.Count("conc:rgate-reader-" + map[bool]string{true: "get", false: "has"}[readerGet] + "-" + where)
	qhn := 0
	if qh {
		qhn = 1
	}

	return fmt.Sprintf("conc rgate %d %d %s %s %s %d %d", init, final, csv(ks), csv(ws), csv(ss), gv, qhn)
}

// A panic inside the code under test on one of the stress goroutines must become a finding, not the end of the
// harness process: every goroutine defers catchPanic, runConc reports what was caught.
var (
	panicMu  sync.Mutex
	panicLog []string
)

func catchPanic() {
	if p := recover(); p != nil {
		panicMu.Lock()
		panicLog = append(panicLog, fmt.Sprint(p))
		panicMu.Unlock()
	}
}

func runConc(r *hx.Run, kind string, rng *hx.Rng) string {
	line := runConcKind(r, kind, rng)
	panicMu.Lock()
	caught := panicLog
	panicLog = nil
	panicMu.Unlock()
	if len(caught) > 0 {
		r.Fail("no-panic", fmt.Sprintf("conc %s: %d call(s) panicked on a stress goroutine, first: %s", kind, len(caught), caught[0]),
			map[string]string{"oracle": "panic", "api": "TypedValue", "part": kind})
	}

	return line
}

func runConcKind(r *hx.Run, kind string, rng *hx.Rng) string {
	if kind == "rgate" {
		return runRGate(r, rng)
	}
	if kind == "upgrade" {
		return runUpgrade(r, rng)
	}
	if kind == "lin" {
		return runLin(r, rng)
	}
	if kind == "mixed" {
		return runMixed(r, rng)
	}
	if kind == "wide" {
		return runWide(r, rng)
	}
	if kind == "gate" {
		return runGate(r, rng)
	}

	return runCounter(r, rng)
}

func concPart(r *hx.Run) {
	nc, nm, nwide, ngate, nrgate, nupg := 200*r.Scale, 120*r.Scale, 8*r.Scale, 300*r.Scale, 300*r.Scale, 400*r.Scale
	nlin := 1500 * r.Scale
	slow := map[string]int{}
	for i := 0; i < nc+nm+nwide+ngate+nrgate+nupg+nlin; i++ {
		rng, sub := r.Rng.Fork()
		r.Case(sub)
		kind := "counter"
		if i >= nc {
			kind = "mixed"
		}
		if i >= nc+nm {
			kind = "wide"
		}
		if i >= nc+nm+nwide {
			kind = "gate"
		}
		if i >= nc+nm+nwide+ngate {
			kind = "rgate"
		}
		if i >= nc+nm+nwide+ngate+nrgate {
			kind = "upgrade"
		}
		if i >= nc+nm+nwide+ngate+nrgate+nupg {
			kind = "lin"
		}
		if slow[kind] >= 3 {
			// three rounds of this kind ran into a watchdog: the finding is recorded, do not spend the time limit on more
			r.Count("conc:skipped-after-watchdogs." + kind)

			continue
		}
		t0 := time.Now()
		line := runConc(r, kind, rng)
		if time.Since(t0) > 9*time.Second {
			slow[kind]++
		}
		r.Line(line, "accept")
		r.Count("op:conc." + kind)
		if i < 2 || i == nc || i == nc+nm+nwide+ngate || i == nc+nm+nwide+ngate+nrgate || i == nc+nm+nwide+ngate+nrgate+nupg {
			if len(line) > 300 {
				line = line[:300] + "…"
			}
			r.Sample([]string{line + " => accept"})
		}
	}
}
