// xlate translates the method bodies of kvstore/typedvalue.go (TypedValue.Get/Has/Compute/Set/Delete and
// cachedValue) into terms of the statement language of lean/Hive/Model/TypedCode.lean and writes them as a Lean
// module (Hive/Gen/C06_Code.lean).  The Lean side proves that these terms, run by the language's semantics, equal
// the hand-written model in every state — so the model is re-derived from the working tree on every run.
//
// usage: xlate <repo>/kvstore/typedvalue.go OUT.lean
//
// Supported subset (everything else is a translation failure, exit status 1):
//
//	statements  t.mutex.X() / defer t.mutex.X(); if [init;] cond {..} [else ..]; return e..;
//	            x, y := / = <call>   with <call> one of t.kv.Get/Has/Set/Delete(t.keyBytes[, y]), t.bytesToV(y),
//	            t.vToBytes(v), computeFunc(v, b), t.cachedValue();
//	            b = <bool expr>; t.valueCached = &v | nil; t.hasCached = &b | &truePtr | &falsePtr
//	conditions  && || ! ( ), e != nil, e == nil, t.valueCached ==/!= nil, t.hasCached ==/!= nil, *t.hasCached,
//	            bool variables, true, false, ierrors.Is(e, ErrKeyNotFound | ErrTypedValueNotChanged)
//	results     V variables, *t.valueCached, bool expressions, nil, error variables, the two sentinels,
//	            ierrors.Wrap(e, "msg")
//
// Variables are numbered per declaration (go/parser's resolver: shadowing and if-scoped declarations get their own
// numbers); 0 is the blank identifier.  Pointer facts checked here because the language models the cache pointers by
// their pointees: a variable whose address is stored in a cache field is not assigned afterwards in that function;
// truePtr/falsePtr are package variables initialised to true/false that no file of the package assigns, whose
// address is taken only in `t.hasCached = &…`; nothing stores through a cache pointer; the cache fields are
// written only by the translated methods.
package main

import (
	"fmt"
	"go/ast"
	"go/parser"
	"go/token"
	"os"
	"path/filepath"
	"strconv"
	"strings"
)

type sort string

const (
	sV sort = "v"
	sB sort = "b"
	sY sort = "y"
	sE sort = "e"
)

type fnTr struct {
	fset   *token.FileSet
	name   string
	ids    map[*ast.Object]int
	sorts  map[*ast.Object]sort
	names  map[int]string
	next   int
	errs   []string
	recv   string
	fnName string // name of the func-typed parameter (computeFunc)
	// address-taken variables: object -> position after which no assignment may follow
	addrTaken map[*ast.Object]token.Pos
	assigns   map[*ast.Object][]token.Pos
}

func (t *fnTr) fail(n ast.Node, msg string) {
	t.errs = append(t.errs, fmt.Sprintf("%s: %s: %s", t.fset.Position(n.Pos()), t.name, msg))
}

func (t *fnTr) id(x *ast.Ident, s sort, assign bool) int {
	if x.Name == "_" {
		return 0
	}
	if x.Obj == nil {
		t.fail(x, "unresolved identifier "+x.Name)
		return 0
	}
	n, ok := t.ids[x.Obj]
	if !ok {
		t.next++
		n = t.next
		t.ids[x.Obj] = n
		t.names[n] = x.Name
	}
	if old, ok := t.sorts[x.Obj]; ok && old != s {
		t.fail(x, fmt.Sprintf("variable %s used at sort %s and %s", x.Name, old, s))
	}
	t.sorts[x.Obj] = s
	if assign {
		t.assigns[x.Obj] = append(t.assigns[x.Obj], x.Pos())
	}
	return n
}

func typeSort(e ast.Expr) (sort, bool) {
	if id, ok := e.(*ast.Ident); ok {
		switch id.Name {
		case "V":
			return sV, true
		case "bool":
			return sB, true
		case "error":
			return sE, true
		}
	}
	return "", false
}

// sel matches recv.a.b...
func (t *fnTr) sel(e ast.Expr, path ...string) bool {
	for i := len(path) - 1; i >= 0; i-- {
		s, ok := e.(*ast.SelectorExpr)
		if !ok || s.Sel.Name != path[i] {
			return false
		}
		e = s.X
	}
	id, ok := e.(*ast.Ident)
	return ok && id.Name == t.recv
}

func isNil(e ast.Expr) bool {
	id, ok := e.(*ast.Ident)
	return ok && id.Name == "nil" && id.Obj == nil
}

func sentinel(e ast.Expr) (string, bool) {
	if id, ok := e.(*ast.Ident); ok {
		switch id.Name {
		case "ErrKeyNotFound":
			return ".keyNotFound", true
		case "ErrTypedValueNotChanged":
			return ".notChanged", true
		}
	}
	return "", false
}

func (t *fnTr) bexp(e ast.Expr) string {
	switch e := e.(type) {
	case *ast.ParenExpr:
		return t.bexp(e.X)
	case *ast.UnaryExpr:
		if e.Op == token.NOT {
			return "(.not " + t.bexp(e.X) + ")"
		}
	case *ast.StarExpr:
		if t.sel(e.X, "hasCached") {
			return ".derefCh"
		}
	case *ast.Ident:
		switch {
		case e.Name == "true" && e.Obj == nil:
			return ".tt"
		case e.Name == "false" && e.Obj == nil:
			return ".ff"
		case e.Obj != nil && e.Obj.Kind == ast.Var:
			if s, ok := t.sorts[e.Obj]; ok && s == sB {
				return fmt.Sprintf("(.var %d)", t.id(e, sB, false))
			}
		}
	case *ast.BinaryExpr:
		switch e.Op {
		case token.LAND:
			return "(.and " + t.bexp(e.X) + " " + t.bexp(e.Y) + ")"
		case token.LOR:
			return "(.or " + t.bexp(e.X) + " " + t.bexp(e.Y) + ")"
		case token.EQL, token.NEQ:
			if isNil(e.Y) {
				eq := e.Op == token.EQL
				switch {
				case t.sel(e.X, "valueCached"):
					if eq {
						return ".cvNil"
					}
					return ".cvNotNil"
				case t.sel(e.X, "hasCached"):
					if eq {
						return ".chNil"
					}
					return ".chNotNil"
				}
				if id, ok := e.X.(*ast.Ident); ok && id.Obj != nil && t.sorts[id.Obj] == sE {
					if eq {
						return fmt.Sprintf("(.errEq %d)", t.id(id, sE, false))
					}
					return fmt.Sprintf("(.errNe %d)", t.id(id, sE, false))
				}
			}
		}
	case *ast.CallExpr:
		if s, ok := e.Fun.(*ast.SelectorExpr); ok && s.Sel.Name == "Is" && len(e.Args) == 2 {
			if pk, ok := s.X.(*ast.Ident); ok && (pk.Name == "ierrors" || pk.Name == "errors") {
				if id, ok := e.Args[0].(*ast.Ident); ok && id.Obj != nil && t.sorts[id.Obj] == sE {
					if tg, ok := sentinel(e.Args[1]); ok {
						return fmt.Sprintf("(.errIs %d %s)", t.id(id, sE, false), tg)
					}
				}
			}
		}
	}
	t.fail(e, "unsupported condition")
	return ".ff"
}

func (t *fnTr) vexp(e ast.Expr) string {
	switch e := e.(type) {
	case *ast.Ident:
		if e.Obj != nil && t.sorts[e.Obj] == sV {
			return fmt.Sprintf("(.var %d)", t.id(e, sV, false))
		}
	case *ast.StarExpr:
		if t.sel(e.X, "valueCached") {
			return ".derefCv"
		}
	}
	t.fail(e, "unsupported value expression")
	return "(.var 0)"
}

func (t *fnTr) eexp(e ast.Expr) string {
	if isNil(e) {
		return ".nil"
	}
	if s, ok := sentinel(e); ok {
		return "(.sentinel " + s + ")"
	}
	switch e := e.(type) {
	case *ast.Ident:
		if e.Obj != nil && t.sorts[e.Obj] == sE {
			return fmt.Sprintf("(.var %d)", t.id(e, sE, false))
		}
	case *ast.CallExpr:
		if s, ok := e.Fun.(*ast.SelectorExpr); ok && s.Sel.Name == "Wrap" && len(e.Args) == 2 {
			if pk, ok := s.X.(*ast.Ident); ok && pk.Name == "ierrors" {
				if lit, ok := e.Args[1].(*ast.BasicLit); ok && lit.Kind == token.STRING {
					return "(.wrap " + t.eexp(e.Args[0]) + " " + lit.Value + ")"
				}
			}
		}
	}
	t.fail(e, "unsupported error expression")
	return ".nil"
}

func seq(parts []string) string {
	if len(parts) == 0 {
		return ".skip"
	}
	if len(parts) == 1 {
		return parts[0]
	}
	return "(.seq " + parts[0] + "\n " + seq(parts[1:]) + ")"
}

func (t *fnTr) block(b *ast.BlockStmt, results []sort) string {
	var parts []string
	for _, s := range b.List {
		parts = append(parts, t.stmt(s, results))
	}
	return seq(parts)
}

func (t *fnTr) mutexCall(e ast.Expr) (string, bool) {
	c, ok := e.(*ast.CallExpr)
	if !ok || len(c.Args) != 0 {
		return "", false
	}
	s, ok := c.Fun.(*ast.SelectorExpr)
	if !ok || !t.sel(s.X, "mutex") {
		return "", false
	}
	return s.Sel.Name, true
}

var syncKinds = map[string]string{"RLock": ".rlock", "RUnlock": ".runlock", "Lock": ".lock", "Unlock": ".unlock",
	"defer RUnlock": ".deferRUnlock", "defer Unlock": ".deferUnlock"}

func (t *fnTr) stmt(s ast.Stmt, results []sort) string {
	switch s := s.(type) {
	case *ast.BlockStmt:
		return t.block(s, results)
	case *ast.ExprStmt:
		if m, ok := t.mutexCall(s.X); ok {
			if k, ok := syncKinds[m]; ok {
				return "(.sync " + k + ")"
			}
		}
	case *ast.DeferStmt:
		if m, ok := t.mutexCall(s.Call); ok {
			if k, ok := syncKinds["defer "+m]; ok {
				return "(.sync " + k + ")"
			}
		}
	case *ast.IfStmt:
		var parts []string
		if s.Init != nil {
			parts = append(parts, t.stmt(s.Init, results))
		}
		c := t.bexp(s.Cond)
		a := t.block(s.Body, results)
		b := ".skip"
		if s.Else != nil {
			b = t.stmt(s.Else, results)
		}
		parts = append(parts, "(.ite "+c+"\n "+a+"\n "+b+")")
		return seq(parts)
	case *ast.ReturnStmt:
		if len(s.Results) != len(results) {
			t.fail(s, "return with a different number of values than the signature (naked return?)")
			return "(.ret [])"
		}
		var rs []string
		for i, e := range s.Results {
			switch results[i] {
			case sV:
				rs = append(rs, ".v "+t.vexp(e))
			case sB:
				rs = append(rs, ".b "+t.bexp(e))
			case sE:
				rs = append(rs, ".e "+t.eexp(e))
			}
		}
		return "(.ret [" + strings.Join(rs, ", ") + "])"
	case *ast.AssignStmt:
		return t.assign(s)
	}
	t.fail(s, "unsupported statement")
	return ".skip"
}

func (t *fnTr) lhsIdents(s *ast.AssignStmt, sorts ...sort) ([]int, bool) {
	if len(s.Lhs) != len(sorts) {
		return nil, false
	}
	// resolve sorts first so that a failure leaves no half-registered variables
	for _, l := range s.Lhs {
		if _, ok := l.(*ast.Ident); !ok {
			return nil, false
		}
	}
	out := make([]int, len(sorts))
	for i, l := range s.Lhs {
		id := l.(*ast.Ident)
		if sorts[i] == "" { // ignored result (must be blank)
			if id.Name != "_" {
				return nil, false
			}
			continue
		}
		out[i] = t.id(id, sorts[i], true)
	}
	return out, true
}

func (t *fnTr) argVar(e ast.Expr, s sort) (int, bool) {
	id, ok := e.(*ast.Ident)
	if !ok || id.Obj == nil || t.sorts[id.Obj] != s {
		return 0, false
	}
	return t.id(id, s, false), true
}

func (t *fnTr) assign(s *ast.AssignStmt) string {
	if s.Tok != token.ASSIGN && s.Tok != token.DEFINE {
		t.fail(s, "unsupported assignment operator")
		return ".skip"
	}
	if len(s.Rhs) != 1 {
		t.fail(s, "unsupported parallel assignment")
		return ".skip"
	}
	rhs := s.Rhs[0]
	// field assignments
	if len(s.Lhs) == 1 && s.Tok == token.ASSIGN {
		switch {
		case t.sel(s.Lhs[0], "valueCached"):
			if isNil(rhs) {
				return ".cvNil"
			}
			if u, ok := rhs.(*ast.UnaryExpr); ok && u.Op == token.AND {
				if id, ok := u.X.(*ast.Ident); ok && id.Obj != nil && t.sorts[id.Obj] == sV {
					t.addrTaken[id.Obj] = s.End()
					return fmt.Sprintf("(.cvAddr %d)", t.id(id, sV, false))
				}
			}
			t.fail(s, "unsupported assignment to valueCached")
			return ".skip"
		case t.sel(s.Lhs[0], "hasCached"):
			if u, ok := rhs.(*ast.UnaryExpr); ok && u.Op == token.AND {
				if id, ok := u.X.(*ast.Ident); ok {
					switch {
					case id.Name == "truePtr" && (id.Obj == nil || id.Obj.Kind == ast.Var && t.ids[id.Obj] == 0 && t.sorts[id.Obj] == ""):
						return "(.chAddrGlobal true)"
					case id.Name == "falsePtr" && (id.Obj == nil || id.Obj.Kind == ast.Var && t.ids[id.Obj] == 0 && t.sorts[id.Obj] == ""):
						return "(.chAddrGlobal false)"
					case id.Obj != nil && t.sorts[id.Obj] == sB:
						t.addrTaken[id.Obj] = s.End()
						return fmt.Sprintf("(.chAddr %d)", t.id(id, sB, false))
					}
				}
			}
			t.fail(s, "unsupported assignment to hasCached")
			return ".skip"
		}
	}
	if call, ok := rhs.(*ast.CallExpr); ok {
		switch fun := call.Fun.(type) {
		case *ast.SelectorExpr:
			keyArg := len(call.Args) >= 1 && t.sel(call.Args[0], "keyBytes")
			switch {
			case t.sel(fun.X, "kv") && fun.Sel.Name == "Get" && len(call.Args) == 1 && keyArg:
				if l, ok := t.lhsIdents(s, sY, sE); ok {
					return fmt.Sprintf("(.kvGet %d %d)", l[0], l[1])
				}
			case t.sel(fun.X, "kv") && fun.Sel.Name == "Has" && len(call.Args) == 1 && keyArg:
				if l, ok := t.lhsIdents(s, sB, sE); ok {
					return fmt.Sprintf("(.kvHas %d %d)", l[0], l[1])
				}
			case t.sel(fun.X, "kv") && fun.Sel.Name == "Set" && len(call.Args) == 2 && keyArg:
				if a, ok := t.argVar(call.Args[1], sY); ok {
					if l, ok := t.lhsIdents(s, sE); ok {
						return fmt.Sprintf("(.kvSet %d %d)", a, l[0])
					}
				}
			case t.sel(fun.X, "kv") && fun.Sel.Name == "Delete" && len(call.Args) == 1 && keyArg:
				if l, ok := t.lhsIdents(s, sE); ok {
					return fmt.Sprintf("(.kvDel %d)", l[0])
				}
			case t.sel(call.Fun, "bytesToV") && len(call.Args) == 1:
				if a, ok := t.argVar(call.Args[0], sY); ok {
					if l, ok := t.lhsIdents(s, sV, "", sE); ok {
						return fmt.Sprintf("(.decode %d %d %d)", a, l[0], l[2])
					}
				}
			case t.sel(call.Fun, "vToBytes") && len(call.Args) == 1:
				if a, ok := t.argVar(call.Args[0], sV); ok {
					if l, ok := t.lhsIdents(s, sY, sE); ok {
						return fmt.Sprintf("(.encode %d %d %d)", a, l[0], l[1])
					}
				}
			case t.sel(call.Fun, "cachedValue") && len(call.Args) == 0:
				if l, ok := t.lhsIdents(s, sV, sB); ok {
					return fmt.Sprintf("(.cached %d %d)", l[0], l[1])
				}
			}
		case *ast.Ident:
			if t.fnName != "" && fun.Name == t.fnName && len(call.Args) == 2 {
				a, ok1 := t.argVar(call.Args[0], sV)
				b, ok2 := t.argVar(call.Args[1], sB)
				if ok1 && ok2 {
					if l, ok := t.lhsIdents(s, sV, sE); ok {
						return fmt.Sprintf("(.callFn %d %d %d %d)", a, b, l[0], l[1])
					}
				}
			}
		}
		t.fail(s, "unsupported call assignment")
		return ".skip"
	}
	// b = <bool expr>
	if len(s.Lhs) == 1 {
		if id, ok := s.Lhs[0].(*ast.Ident); ok && id.Obj != nil && t.sorts[id.Obj] == sB && s.Tok == token.ASSIGN {
			x := t.bexp(rhs)
			return fmt.Sprintf("(.setB %d %s)", t.id(id, sB, true), x)
		}
	}
	t.fail(s, "unsupported assignment")
	return ".skip"
}

type fnOut struct {
	name   string
	line   int
	body   string
	params map[string]int
	vars   string
}

func translate(fset *token.FileSet, fd *ast.FuncDecl) (*fnOut, []string) {
	t := &fnTr{fset: fset, name: fd.Name.Name, ids: map[*ast.Object]int{}, sorts: map[*ast.Object]sort{}, names: map[int]string{},
		addrTaken: map[*ast.Object]token.Pos{}, assigns: map[*ast.Object][]token.Pos{}}
	if fd.Recv == nil || len(fd.Recv.List) != 1 || len(fd.Recv.List[0].Names) != 1 {
		return nil, []string{fd.Name.Name + ": no named receiver"}
	}
	t.recv = fd.Recv.List[0].Names[0].Name
	out := &fnOut{name: fd.Name.Name, line: fset.Position(fd.Pos()).Line, params: map[string]int{}}
	for _, p := range fd.Type.Params.List {
		if _, ok := p.Type.(*ast.FuncType); ok && len(p.Names) == 1 {
			t.fnName = p.Names[0].Name
			continue
		}
		s, ok := typeSort(p.Type)
		if !ok {
			t.fail(p, "unsupported parameter type")
			continue
		}
		for _, n := range p.Names {
			out.params[n.Name] = t.id(n, s, false)
		}
	}
	var results []sort
	if fd.Type.Results != nil {
		for _, p := range fd.Type.Results.List {
			s, ok := typeSort(p.Type)
			if !ok {
				t.fail(p, "unsupported result type")
				continue
			}
			if len(p.Names) == 0 {
				results = append(results, s)
			}
			for _, n := range p.Names {
				results = append(results, s)
				t.id(n, s, false)
			}
		}
	}
	out.body = t.block(fd.Body, results)
	for obj, after := range t.addrTaken {
		for _, p := range t.assigns[obj] {
			if p > after {
				t.fail(fd, fmt.Sprintf("variable %s is assigned at %s after its address was stored in a cache field", obj.Name, fset.Position(p)))
			}
		}
	}
	var vs []string
	for i := 1; i <= t.next; i++ {
		vs = append(vs, fmt.Sprintf("%d=%s", i, t.names[i]))
	}
	out.vars = strings.Join(vs, " ")
	return out, t.errs
}

// packageFacts checks what the pointer abstraction relies on, over every non-test file of the package.
func packageFacts(fset *token.FileSet, dir string, translated map[string]bool) []string {
	var errs []string
	pkgs, err := parser.ParseDir(fset, dir, func(fi os.FileInfo) bool { return !strings.HasSuffix(fi.Name(), "_test.go") }, 0)
	if err != nil {
		return []string{err.Error()}
	}
	inits := map[string]string{}
	for _, pkg := range pkgs {
		for fname, f := range pkg.Files {
			for _, d := range f.Decls {
				if g, ok := d.(*ast.GenDecl); ok && g.Tok == token.VAR {
					for _, sp := range g.Specs {
						vs := sp.(*ast.ValueSpec)
						for i, n := range vs.Names {
							if n.Name == "truePtr" || n.Name == "falsePtr" {
								if vs.Type != nil || i >= len(vs.Values) {
									errs = append(errs, fmt.Sprintf("%s: unexpected declaration form of %s", fname, n.Name))
									continue
								}
								if id, ok := vs.Values[i].(*ast.Ident); ok {
									inits[n.Name] = id.Name
								}
							}
						}
					}
				}
			}
			var fn string
			ast.Inspect(f, func(n ast.Node) bool {
				switch n := n.(type) {
				case *ast.FuncDecl:
					fn = n.Name.Name
					if n.Recv == nil || !isTypedValueRecv(n.Recv) {
						fn = "-" + fn
					}
				case *ast.AssignStmt:
					for _, l := range n.Lhs {
						if id, ok := l.(*ast.Ident); ok && (id.Name == "truePtr" || id.Name == "falsePtr") {
							errs = append(errs, fmt.Sprintf("%s: %s is assigned", fset.Position(n.Pos()), id.Name))
						}
						if st, ok := l.(*ast.StarExpr); ok {
							if s, ok := st.X.(*ast.SelectorExpr); ok && (s.Sel.Name == "hasCached" || s.Sel.Name == "valueCached") {
								errs = append(errs, fmt.Sprintf("%s: store through cache pointer %s", fset.Position(n.Pos()), s.Sel.Name))
							}
						}
						if s, ok := l.(*ast.SelectorExpr); ok && (s.Sel.Name == "hasCached" || s.Sel.Name == "valueCached") && !translated[fn] {
							errs = append(errs, fmt.Sprintf("%s: cache field %s written outside the translated methods (in %s)", fset.Position(n.Pos()), s.Sel.Name, fn))
						}
					}
				case *ast.IncDecStmt:
					if st, ok := n.X.(*ast.StarExpr); ok {
						if s, ok := st.X.(*ast.SelectorExpr); ok && (s.Sel.Name == "hasCached" || s.Sel.Name == "valueCached") {
							errs = append(errs, fmt.Sprintf("%s: store through cache pointer %s", fset.Position(n.Pos()), s.Sel.Name))
						}
					}
				case *ast.UnaryExpr:
					if n.Op == token.AND {
						if id, ok := n.X.(*ast.Ident); ok && (id.Name == "truePtr" || id.Name == "falsePtr") && !translated[fn] {
							errs = append(errs, fmt.Sprintf("%s: address of %s taken outside the translated methods", fset.Position(n.Pos()), id.Name))
						}
						if s, ok := n.X.(*ast.SelectorExpr); ok && (s.Sel.Name == "hasCached" || s.Sel.Name == "valueCached") {
							errs = append(errs, fmt.Sprintf("%s: address of cache field %s taken", fset.Position(n.Pos()), s.Sel.Name))
						}
					}
				}
				return true
			})
		}
	}
	if inits["truePtr"] != "true" || inits["falsePtr"] != "false" {
		errs = append(errs, fmt.Sprintf("truePtr/falsePtr are not initialised to true/false: %v", inits))
	}
	return errs
}

func isTypedValueRecv(fl *ast.FieldList) bool {
	if len(fl.List) != 1 {
		return false
	}
	e := fl.List[0].Type
	if s, ok := e.(*ast.StarExpr); ok {
		e = s.X
	}
	if ix, ok := e.(*ast.IndexExpr); ok {
		e = ix.X
	}
	if ix, ok := e.(*ast.IndexListExpr); ok {
		e = ix.X
	}
	id, ok := e.(*ast.Ident)
	return ok && id.Name == "TypedValue"
}

// fileFacts: what the translated methods do not cover — the constructor (a single `return &T{field: param, …}`: which
// parameter initialises which field; fields not listed stay zero, so a new object starts with an empty cache), the
// accessor KVStore() (a single `return t.kv`), and the list of all function declarations of the file (a new method shows up).
func fileFacts(f *ast.File, ctorName string) (ctor []string, accessor string, decls []string, errs []string) {
	for _, d := range f.Decls {
		fd, ok := d.(*ast.FuncDecl)
		if !ok {
			continue
		}
		decls = append(decls, fd.Name.Name)
		switch {
		case fd.Recv == nil && fd.Name.Name == ctorName:
			params := map[string]bool{}
			for _, p := range fd.Type.Params.List {
				for _, n := range p.Names {
					params[n.Name] = true
				}
			}
			bad := func() { errs = append(errs, ctorName+": body is not a single `return &T{field: parameter, …}`") }
			if fd.Body == nil || len(fd.Body.List) != 1 {
				bad()

				continue
			}
			rs, ok := fd.Body.List[0].(*ast.ReturnStmt)
			if !ok || len(rs.Results) != 1 {
				bad()

				continue
			}
			u, ok := rs.Results[0].(*ast.UnaryExpr)
			if !ok || u.Op != token.AND {
				bad()

				continue
			}
			cl, ok := u.X.(*ast.CompositeLit)
			if !ok {
				bad()

				continue
			}
			for _, e := range cl.Elts {
				kv, ok := e.(*ast.KeyValueExpr)
				if !ok {
					bad()

					break
				}
				k, ok1 := kv.Key.(*ast.Ident)
				v, ok2 := kv.Value.(*ast.Ident)
				if !ok1 || !ok2 || !params[v.Name] {
					bad()

					break
				}
				ctor = append(ctor, k.Name+"="+v.Name)
			}
		case fd.Recv != nil && fd.Name.Name == "KVStore":
			if fd.Body != nil && len(fd.Body.List) == 1 {
				if rs, ok := fd.Body.List[0].(*ast.ReturnStmt); ok && len(rs.Results) == 1 {
					if s, ok := rs.Results[0].(*ast.SelectorExpr); ok {
						if x, ok := s.X.(*ast.Ident); ok && len(fd.Recv.List) == 1 && len(fd.Recv.List[0].Names) == 1 && x.Name == fd.Recv.List[0].Names[0].Name {
							accessor = s.Sel.Name

							continue
						}
					}
				}
			}
			errs = append(errs, "KVStore(): body is not a single `return t.<field>`")
		}
	}
	if ctor == nil && len(errs) == 0 {
		errs = append(errs, "constructor "+ctorName+" not found")
	}

	return ctor, accessor, decls, errs
}

func leanStrList(xs []string) string {
	q := make([]string, len(xs))
	for i, x := range xs {
		q[i] = strconv.Quote(x)
	}

	return "[" + strings.Join(q, ", ") + "]"
}

func main() {
	if len(os.Args) != 3 {
		fmt.Fprintln(os.Stderr, "usage: xlate typedvalue.go OUT.lean")
		os.Exit(2)
	}
	src, outPath := os.Args[1], os.Args[2]
	fset := token.NewFileSet()
	f, err := parser.ParseFile(fset, src, nil, parser.ParseComments)
	if err != nil {
		fmt.Fprintln(os.Stderr, err)
		os.Exit(1)
	}
	want := []string{"Get", "Has", "Compute", "Set", "Delete", "cachedValue"}
	wanted := map[string]bool{}
	for _, w := range want {
		wanted[w] = true
	}
	outs := map[string]*fnOut{}
	var errs []string
	for _, d := range f.Decls {
		fd, ok := d.(*ast.FuncDecl)
		if !ok || fd.Recv == nil || !isTypedValueRecv(fd.Recv) || fd.Body == nil {
			continue
		}
		if !wanted[fd.Name.Name] {
			// other methods of TypedValue must not touch the cache (checked by packageFacts); KVStore() is the only one today
			continue
		}
		o, es := translate(fset, fd)
		errs = append(errs, es...)
		if o != nil {
			outs[fd.Name.Name] = o
		}
	}
	for _, w := range want {
		if outs[w] == nil {
			errs = append(errs, "method "+w+" of TypedValue not found in "+src)
		}
	}
	errs = append(errs, packageFacts(token.NewFileSet(), filepath.Dir(src), wanted)...)
	if len(errs) > 0 {
		for _, e := range errs {
			fmt.Fprintln(os.Stderr, "xlate: "+e)
		}
		os.Exit(1)
	}
	ctor, accessor, decls, ferrs := fileFacts(f, "NewTypedValue")
	if len(ferrs) > 0 {
		for _, e := range ferrs {
			fmt.Fprintln(os.Stderr, "xlate: "+e)
		}
		os.Exit(1)
	}
	var b strings.Builder
	b.WriteString("import Hive.Model.TypedCode\n")
	b.WriteString("/-! GENERATED by harness/c06/xlate from kvstore/typedvalue.go — method bodies of TypedValue as terms of\n`Hive.Typed.Code.Stmt`; do not edit. -/\n")
	b.WriteString("namespace Hive.Gen.C06Code\nopen Hive.Typed.Code\n\n")
	for _, w := range want {
		o := outs[w]
		fmt.Fprintf(&b, "/-- TypedValue.%s (typedvalue.go:%d); variables: %s -/\ndef code_%s : Stmt :=\n %s\n\n", w, o.line, o.vars, w, o.body)
	}
	setParam := 0
	for _, n := range outs["Set"].params {
		setParam = n
	}
	if len(outs["Set"].params) != 1 {
		fmt.Fprintln(os.Stderr, "xlate: Set does not have exactly one value parameter")
		os.Exit(1)
	}
	b.WriteString("def prog : Prog :=\n  { get := code_Get, has := code_Has, compute := code_Compute, set := code_Set, setParam := " + strconv.Itoa(setParam) +
		", delete := code_Delete, cachedValue := code_cachedValue }\n\n")
	b.WriteString("/-- NewTypedValue: which parameter initialises which field (all other fields stay zero). -/\ndef ctor : List String := " + leanStrList(ctor) + "\n\n")
	b.WriteString("/-- KVStore() returns this field. -/\ndef accessor : String := " + strconv.Quote(accessor) + "\n\n")
	b.WriteString("/-- Every function declaration of typedvalue.go, in source order. -/\ndef decls : List String := " + leanStrList(decls) + "\n\nend Hive.Gen.C06Code\n")
	if err := os.WriteFile(outPath, []byte(b.String()), 0o644); err != nil {
		fmt.Fprintln(os.Stderr, err)
		os.Exit(1)
	}
}
