// sgen translates the method bodies of kvstore/mapdb/synced_map.go (the Go map under its lock) into a small statement
// language and prints them as a Lean module: one `def src_mapdb_syncedKVMap_<method> : List SStmt` per method
// (Hive/Model/KVSyncSrc.lean defines SStmt and its interpreter).  The map primitives of the C04 model (aget, aset, adel,
// adelPfx, the snapshot / sort / strip / stop pipeline of the iterations) are proved to be the interpretation of these terms
// (Hive/Props/C04.lean, C04_synced_map_model_is_the_source).
//
//	sgen <out.lean> <LeanNamespace> <synced_map.go>
//
// Statement forms (anything else becomes `.other "<source>"`, which no theorem accepts):
//
//	X.Lock() / X.RLock() / X.Unlock() / X.RUnlock()                 -> .lock "X.Lock" ...
//	defer X.Unlock() / X.RUnlock()                                  -> .deferUnlock "X.Unlock"
//	a, b := M[K]                                                    -> .lookup "a,b" M K
//	if C { return r... }   (no call in C)                            -> .ifRet C [r...]
//	return r...                                                     -> .ret [r...]
//	M[K] = V                                                        -> .assignIdx M K V
//	delete(M, K)                                                    -> .deleteKey M K
//	x := e                                                          -> .define x e
//	for vars := range M { if strings.HasPrefix(k, P) { delete(M2, K2) } }   -> .rangeIfPrefixDelete vars M k P M2 K2
//	for vars := range M { if strings.HasPrefix(k, P) { M2[K2] = V2 } }     -> .rangeIfPrefixAssign vars M k P M2 K2 V2
//	for k := range M { S = append(S, k) }                           -> .rangeAppend k M S
//	for _, key := range utils.SortSlice(S, D...) { if !consume(args) { break } } -> .rangeSortedConsume "key" S D [args]
package main

import (
	"bytes"
	"fmt"
	"go/ast"
	"go/parser"
	"go/printer"
	"go/token"
	"os"
	"path/filepath"
	"strings"
)

type tr struct {
	fset   *token.FileSet
	params map[string]int
	recv   string
}

func (t *tr) src(n ast.Node) string {
	var b bytes.Buffer
	printer.Fprint(&b, t.fset, n)

	return strings.Join(strings.Fields(b.String()), " ")
}

func (t *tr) expr(e ast.Expr) string {
	switch x := e.(type) {
	case *ast.Ident:
		if i, ok := t.params[x.Name]; ok {
			return fmt.Sprintf("$%d", i)
		}

		return x.Name
	case *ast.SelectorExpr:
		return t.expr(x.X) + "." + x.Sel.Name
	case *ast.UnaryExpr:
		return x.Op.String() + t.expr(x.X)
	case *ast.IndexExpr:
		return t.expr(x.X) + "[" + t.expr(x.Index) + "]"
	case *ast.SliceExpr:
		s := t.expr(x.X) + "["
		if x.Low != nil {
			s += t.expr(x.Low)
		}
		s += ":"
		if x.High != nil {
			s += t.expr(x.High)
		}

		return s + "]"
	case *ast.CallExpr:
		args := make([]string, len(x.Args))
		for i, a := range x.Args {
			args[i] = t.expr(a)
		}
		if x.Ellipsis.IsValid() && len(args) > 0 {
			args[len(args)-1] += "..."
		}
		fun := ""
		switch f := x.Fun.(type) {
		case *ast.Ident, *ast.SelectorExpr:
			fun = t.expr(f.(ast.Expr))
		default:
			fun = strings.ReplaceAll(t.src(x.Fun), " ", "")
		}

		return fun + "(" + strings.Join(args, ",") + ")"
	}

	return strings.ReplaceAll(t.src(e), " ", "")
}

func lstr(xs []string) string {
	q := make([]string, len(xs))
	for i, x := range xs {
		q[i] = fmt.Sprintf("%q", x)
	}

	return "[" + strings.Join(q, ", ") + "]"
}

func hasCall(e ast.Expr) bool {
	found := false
	ast.Inspect(e, func(n ast.Node) bool {
		if _, ok := n.(*ast.CallExpr); ok {
			found = true
		}

		return !found
	})

	return found
}

func isIdent(e ast.Expr, name string) bool {
	id, ok := e.(*ast.Ident)

	return ok && id.Name == name
}

func (t *tr) exprs(es []ast.Expr) []string {
	out := make([]string, len(es))
	for i, e := range es {
		out[i] = t.expr(e)
	}

	return out
}

func (t *tr) stmts(list []ast.Stmt) []string {
	var out []string
	for _, st := range list {
		out = append(out, t.stmt(st))
	}

	return out
}

func (t *tr) stmt(st ast.Stmt) string {
	other := fmt.Sprintf(".other %q", t.src(st))
	switch s := st.(type) {
	case *ast.ExprStmt:
		c, ok := s.X.(*ast.CallExpr)
		if !ok {
			return other
		}
		if sel, ok := c.Fun.(*ast.SelectorExpr); ok && len(c.Args) == 0 {
			switch sel.Sel.Name {
			case "Lock", "RLock", "Unlock", "RUnlock":
				return fmt.Sprintf(".lock %q", t.expr(sel.X)+"."+sel.Sel.Name)
			}
		}
		if isIdent(c.Fun, "delete") && len(c.Args) == 2 {
			return fmt.Sprintf(".deleteKey %q %q", t.expr(c.Args[0]), t.expr(c.Args[1]))
		}
	case *ast.DeferStmt:
		if sel, ok := s.Call.Fun.(*ast.SelectorExpr); ok && len(s.Call.Args) == 0 && (sel.Sel.Name == "Unlock" || sel.Sel.Name == "RUnlock") {
			return fmt.Sprintf(".deferUnlock %q", t.expr(sel.X)+"."+sel.Sel.Name)
		}
	case *ast.AssignStmt:
		if len(s.Rhs) != 1 {
			return other
		}
		if ix, ok := s.Rhs[0].(*ast.IndexExpr); ok && s.Tok == token.DEFINE && len(s.Lhs) == 2 {
			return fmt.Sprintf(".lookup %q %q %q", strings.Join(t.exprs(s.Lhs), ","), t.expr(ix.X), t.expr(ix.Index))
		}
		if len(s.Lhs) != 1 {
			return other
		}
		switch l := s.Lhs[0].(type) {
		case *ast.IndexExpr:
			if s.Tok == token.ASSIGN {
				return fmt.Sprintf(".assignIdx %q %q %q", t.expr(l.X), t.expr(l.Index), t.expr(s.Rhs[0]))
			}
		case *ast.Ident:
			if s.Tok == token.DEFINE {
				return fmt.Sprintf(".define %q %q", l.Name, t.expr(s.Rhs[0]))
			}
		}
	case *ast.IfStmt:
		if s.Init == nil && s.Else == nil && !hasCall(s.Cond) && len(s.Body.List) == 1 {
			if r, ok := s.Body.List[0].(*ast.ReturnStmt); ok {
				return fmt.Sprintf(".ifRet %q %s", t.expr(s.Cond), lstr(t.exprs(r.Results)))
			}
		}
	case *ast.ReturnStmt:
		return fmt.Sprintf(".ret %s", lstr(t.exprs(s.Results)))
	case *ast.RangeStmt:
		if s.Tok != token.DEFINE || len(s.Body.List) != 1 {
			return other
		}
		vars := t.expr(s.Key)
		if s.Value != nil {
			vars += "," + t.expr(s.Value)
		}
		switch b := s.Body.List[0].(type) {
		case *ast.IfStmt:
			if b.Init != nil || b.Else != nil || len(b.Body.List) != 1 {
				return other
			}
			// if strings.HasPrefix(key, P) { S }
			if c, ok := b.Cond.(*ast.CallExpr); ok && t.expr(c.Fun) == "strings.HasPrefix" && len(c.Args) == 2 {
				// the body: one delete(M, K) or one M[K] = V
				inner := t.stmt(b.Body.List[0])
				switch {
				case strings.HasPrefix(inner, ".deleteKey "):
					return fmt.Sprintf(".rangeIfPrefixDelete %q %q %q %q %s", vars, t.expr(s.X), t.expr(c.Args[0]), t.expr(c.Args[1]), strings.TrimPrefix(inner, ".deleteKey "))
				case strings.HasPrefix(inner, ".assignIdx "):
					return fmt.Sprintf(".rangeIfPrefixAssign %q %q %q %q %s", vars, t.expr(s.X), t.expr(c.Args[0]), t.expr(c.Args[1]), strings.TrimPrefix(inner, ".assignIdx "))
				}

				return other
			}
			// for _, key := range utils.SortSlice(S, D...) { if !consume(args) { break } }
			if u, ok := b.Cond.(*ast.UnaryExpr); ok && u.Op == token.NOT {
				if br, ok := b.Body.List[0].(*ast.BranchStmt); ok && br.Tok == token.BREAK && isIdent(s.Key, "_") && s.Value != nil {
					cons, ok1 := u.X.(*ast.CallExpr)
					srt, ok2 := s.X.(*ast.CallExpr)
					if ok1 && ok2 && t.expr(srt.Fun) == "utils.SortSlice" && len(srt.Args) == 2 && srt.Ellipsis.IsValid() {
						return fmt.Sprintf(".rangeSortedConsume %q %q %q %q %s", t.expr(s.Value), t.expr(srt.Args[0]), t.expr(srt.Args[1]), t.expr(cons.Fun), lstr(t.exprs(cons.Args)))
					}
				}
			}
		case *ast.AssignStmt:
			// S = append(S, k)
			if len(b.Lhs) == 1 && len(b.Rhs) == 1 && b.Tok == token.ASSIGN && s.Value == nil {
				if c, ok := b.Rhs[0].(*ast.CallExpr); ok && isIdent(c.Fun, "append") && len(c.Args) == 2 && t.expr(c.Args[0]) == t.expr(b.Lhs[0]) && t.expr(c.Args[1]) == vars {
					return fmt.Sprintf(".rangeAppend %q %q %q", vars, t.expr(s.X), t.expr(b.Lhs[0]))
				}
			}
		}
	}

	return other
}

func main() {
	if len(os.Args) < 4 {
		fmt.Fprintln(os.Stderr, "usage: sgen <out.lean> <LeanNamespace> <file.go>")
		os.Exit(2)
	}
	var out strings.Builder
	out.WriteString("import Hive.Model.KVSyncSrc\n/-! GENERATED by harness/c04/sgen — the method bodies of kvstore/mapdb/synced_map.go, translated; do not edit. -/\n")
	out.WriteString("namespace " + os.Args[2] + "\nopen Hive.KV.SyncSrc\n")
	for _, path := range os.Args[3:] {
		fset := token.NewFileSet()
		file, err := parser.ParseFile(fset, path, nil, 0)
		if err != nil {
			fmt.Fprintln(os.Stderr, err)
			os.Exit(1)
		}
		pkg := filepath.Base(filepath.Dir(path))
		n := 0
		for _, d := range file.Decls {
			fd, ok := d.(*ast.FuncDecl)
			if !ok || fd.Body == nil || fd.Recv == nil {
				continue
			}
			n++
			t := &tr{fset: fset, params: map[string]int{}}
			idx := 0
			for _, f := range fd.Type.Params.List {
				for _, nm := range f.Names {
					t.params[nm.Name] = idx
					idx++
				}
				if len(f.Names) == 0 {
					idx++
				}
			}
			fmt.Fprintf(&out, "\n/-- %s.syncedKVMap.%s (%s:%d) -/\ndef src_%s_syncedKVMap_%s : List SStmt := [", pkg, fd.Name.Name, filepath.Base(path),
				fset.Position(fd.Pos()).Line, pkg, fd.Name.Name)
			for i, s := range t.stmts(fd.Body.List) {
				if i > 0 {
					out.WriteString(",")
				}
				out.WriteString("\n  " + s)
			}
			out.WriteString("]\n")
		}
		if n == 0 {
			fmt.Fprintln(os.Stderr, "no method in", path)
			os.Exit(1)
		}
	}
	out.WriteString("\nend " + os.Args[2] + "\n")
	if err := os.WriteFile(os.Args[1], []byte(out.String()), 0o644); err != nil {
		fmt.Fprintln(os.Stderr, err)
		os.Exit(1)
	}
}
