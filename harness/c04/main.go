// C04 correspondence harness: drives the real mapdb store through random trees of realm views
// (WithRealm / WithExtendedRealm) and wrapper stacks (flushkv, debug) and prints the canonical answer
// of every call; the Lean model (Hive/Model/KV.lean, proved to refine the ordered-map specification
// Hive/Spec/KV.lean) must reproduce every line.  Independently of Lean, every answer is compared with
// a plain sorted map[string][]byte kept here (the property oracle).  The "private copy" clause is
// exercised by scribbling over every buffer handed to Set / batch Set (the latter once the batch is
// finished) and over every buffer the store returns.
package main

import (
	"crypto/sha256"
	"fmt"
	"os"
	"sort"
	"strconv"
	"strings"
	"time"

	"verifharness/hx"

	"github.com/iotaledger/hive.go/ierrors"
	"github.com/iotaledger/hive.go/kvstore"
	"github.com/iotaledger/hive.go/kvstore/debug"
	"github.com/iotaledger/hive.go/kvstore/flushkv"
	"github.com/iotaledger/hive.go/kvstore/mapdb"
)

// ---------------------------------------------------------------------------------------------
// property oracle: one sorted map keyed by realm||key

type obatch struct {
	realm string
	ops   [][2]string // key, "S"+value | "D"
}

type oracle struct {
	m       map[string]string
	closed  bool
	realms  map[int]string
	batches map[int]*obatch
	stacks  map[int][]wrapCfg // wrapper stack (outermost first) of every view handle
	bstacks map[int][]wrapCfg // ... of every batch handle
	spy     bool
	armed   bool // a Flush that reaches the store below the wrappers (and would succeed) fails
}

// flushFails: a mutation through this stack took effect, but the Flush that flushkv lets follow it fails.
func (o *oracle) flushFails(stack []wrapCfg) bool {
	return o.armed && len(flushes(stack)) > 0
}

func newOracle() *oracle {
	return &oracle{m: map[string]string{}, realms: map[int]string{0: ""}, batches: map[int]*obatch{},
		stacks: map[int][]wrapCfg{0: nil}, bstacks: map[int][]wrapCfg{}}
}

func (o *oracle) rangeOf(fp string, strip int, bwd bool, stop int, keysOnly bool) string {
	var ks []string
	for k := range o.m {
		if strings.HasPrefix(k, fp) {
			ks = append(ks, k)
		}
	}
	sort.Strings(ks)
	if bwd {
		for i, j := 0, len(ks)-1; i < j; i, j = i+1, j-1 {
			ks[i], ks[j] = ks[j], ks[i]
		}
	}
	if stop > 0 && len(ks) > stop {
		ks = ks[:stop]
	}
	var sb strings.Builder
	if keysOnly {
		sb.WriteString("keys")
	} else {
		sb.WriteString("kvs")
	}
	for _, k := range ks {
		sb.WriteByte(' ')
		sb.WriteString(hx.Hex([]byte(k[strip:])))
		if !keysOnly {
			sb.WriteByte(':')
			sb.WriteString(hx.Hex([]byte(o.m[k])))
		}
	}

	return sb.String()
}

func (o *oracle) delPrefix(fp string) {
	for k := range o.m {
		if strings.HasPrefix(k, fp) {
			delete(o.m, k)
		}
	}
}

// expect returns what the contract says the answer to op must be.
func (o *oracle) expect(f []string) string {
	num := func(i int) int { n, _ := strconv.Atoi(f[i]); return n }
	bs := func(i int) string { return string(unhexTok(f[i])) }
	switch f[0] {
	case "spy":
		o.spy = true

		return "ok"
	case "arm", "disarm":
		if !o.spy {
			return "bad-op"
		}
		o.armed = f[0] == "arm"

		return "ok"
	case "view":
		pr, ok := o.realms[num(2)]
		if !ok {
			return "bad-handle"
		}
		if o.closed {
			return "closed"
		}
		o.stacks[num(1)] = o.stacks[num(2)]
		if f[4] == "ext" {
			o.realms[num(1)] = pr + bs(3)
		} else {
			o.realms[num(1)] = bs(3)
		}

		return "ok"
	case "wrap":
		pr, ok := o.realms[num(2)]
		if !ok {
			return "bad-handle"
		}
		o.realms[num(1)] = pr
		o.stacks[num(1)] = append([]wrapCfg{parseCfg(f[3])}, o.stacks[num(2)]...)

		return "ok"
	case "batch":
		r, ok := o.realms[num(2)]
		if !ok {
			return "bad-handle"
		}
		if o.closed {
			return "closed"
		}
		o.batches[num(1)] = &obatch{realm: r}
		o.bstacks[num(1)] = o.stacks[num(2)]

		return "ok"
	case "bset", "bdel", "commit", "commitf", "cancel":
		b, ok := o.batches[num(1)]
		if !ok {
			return "bad-handle"
		}
		bst := o.bstacks[num(1)]
		switch f[0] {
		case "bset":
			b.ops = append(b.ops, [2]string{bs(2), "S" + bs(3)})
		case "bdel":
			b.ops = append(b.ops, [2]string{bs(2), "D"})
		case "cancel":
			b.ops = nil
		default:
			if f[0] == "commitf" {
				delete(o.batches, num(1))
				delete(o.bstacks, num(1))
			}
			if o.closed {
				return "closed"
			}
			for _, w := range b.ops { // in call order: the last operation per key wins
				if w[1] == "D" {
					delete(o.m, b.realm+w[0])
				} else {
					o.m[b.realm+w[0]] = w[1][1:]
				}
			}
			if o.flushFails(bst) {
				return "notfound"
			}
		}

		return "ok"
	}
	r, ok := o.realms[num(1)]
	if !ok {
		return "bad-handle"
	}
	switch f[0] {
	case "realm":
		return "realm " + hx.Hex([]byte(r))
	case "close":
		o.closed = true

		return "ok"
	}
	if o.closed {
		if f[0] == "iterc" {
			return "closed | none"
		}

		return "closed"
	}
	switch f[0] {
	case "get":
		v, ok := o.m[r+bs(2)]
		if !ok {
			return "notfound"
		}

		return "val " + hx.Hex([]byte(v))
	case "has":
		_, ok := o.m[r+bs(2)]

		return strconv.FormatBool(ok)
	case "set":
		o.m[r+bs(2)] = bs(3)
	case "del":
		delete(o.m, r+bs(2))
	case "delp":
		o.delPrefix(r + bs(2))
	case "clear":
		o.delPrefix(r)
	case "flush":
		if o.armed {
			return "notfound"
		}
	case "iter", "iterk", "iterc":
		if strings.HasPrefix(f[3], "x") { // unknown direction: GetIterDirection panics (after the closed check), nothing changes
			return "panic"
		}
		ans := o.rangeOf(r+bs(2), len(r), f[3] == "bwd", num(4), f[0] == "iterk")
		if f[0] == "iterc" {
			if ans == "kvs" {
				return ans + " | none"
			}
			o.delPrefix(r)
			if o.flushFails(o.stacks[num(1)]) {
				return ans + " | notfound"
			}

			return ans + " | ok"
		}

		return ans
	default:
		return "bad-op"
	}
	switch f[0] {
	case "set", "del", "delp", "clear":
		if o.flushFails(o.stacks[num(1)]) { // the mutation took effect, the Flush behind it failed
			return "notfound"
		}
	}

	return "ok"
}

// ---------------------------------------------------------------------------------------------
// the real code

type batchRec struct {
	bm    kvstore.BatchedMutations
	bufs  [][]byte
	stack string
}

type world struct {
	views   map[int]kvstore.KVStore
	stacks  map[int]string // wrapper stack of every view handle, outermost first ("" = bare mapdb, "fd" = flushkv∘debug∘mapdb)
	batches map[int]*batchRec
	cbCalls int
	armed   bool     // the recording store fails every Flush that would have succeeded (with ErrKeyNotFound)
	spy     bool     // the recording store sits between the wrappers and mapdb
	events  []string // what it and the debug callbacks recorded during the current request
	counts  map[string]int
	// consumers that retained the slices they were handed found them changed afterwards
	retainedFails []string
	// the callee wrote behind the end of a slice the caller passed
	bufFails []string
}

func newWorld() *world {
	return &world{views: map[int]kvstore.KVStore{0: mapdb.NewMapDB()}, stacks: map[int]string{0: ""}, batches: map[int]*batchRec{},
		counts: map[string]int{}}
}

// retained compares the slices a consumer kept (without copying) with what it saw during the calls: after the iteration
// returned they must still hold exactly the reported keys / values, and writing into one of them must not change the others.
// It returns the answer as the retained slices tell it, then scribbles over all of them.
func (w *world) retained(f []string, during []string, keptK, keptV [][]byte) string {
	render := func(i int) string {
		if keptV == nil {
			return hx.Hex(keptK[i])
		}

		return hx.Hex(keptK[i]) + ":" + hx.Hex(keptV[i])
	}
	var sb strings.Builder
	differ := ""
	for i := range keptK {
		sb.WriteString(" " + render(i))
		if render(i) != during[i] && differ == "" {
			differ = fmt.Sprintf("call %d reported %s, the retained slices say %s after the iteration returned", i+1, during[i], render(i))
		}
	}
	if len(keptK) > 1 && differ == "" {
		scribble(keptK[0])
		if keptV != nil {
			scribble(keptV[0])
		}
		for i := 1; i < len(keptK); i++ {
			if render(i) != during[i] {
				differ = fmt.Sprintf("writing into the slices of call 1 changed those of call %d: %s became %s", i+1, during[i], render(i))

				break
			}
		}
	}
	if differ != "" {
		w.retainedFails = append(w.retainedFails, strings.Join(f, " ")+": "+differ)
	}
	for i := range keptK {
		scribble(keptK[i])
		if keptV != nil {
			scribble(keptV[i])
		}
	}
	w.counts[fmt.Sprintf("retained-slices-compared:%s:%s", f[0], f[3])]++
	w.counts[fmt.Sprintf("retained-slices-compared:stack=%s.", w.stacks[atoi(f[1])])]++

	return sb.String()
}

func scribble(b []byte) {
	for i := range b {
		b[i] ^= 0xa5
	}
}

func errAns(err error) string {
	switch {
	case err == nil:
		return "ok"
	case ierrors.Is(err, kvstore.ErrStoreClosed):
		return "closed"
	case ierrors.Is(err, kvstore.ErrKeyNotFound):
		return "notfound"
	default:
		return "err"
	}
}

func dirArgs(s string) []kvstore.IterDirection {
	switch s {
	case "fwd":
		return []kvstore.IterDirection{kvstore.IterDirectionForward}
	case "bwd":
		return []kvstore.IterDirection{kvstore.IterDirectionBackward}
	default:
		if strings.HasPrefix(s, "x") { // an unknown direction value
			return []kvstore.IterDirection{kvstore.IterDirection(atoi(s[1:]))}
		}

		return nil
	}
}

func (w *world) exec(f []string) string {
	num := func(i int) int { n, _ := strconv.Atoi(f[i]); return n }
	// a fresh buffer per call, with spare capacity behind it (filled with a sentinel): code that appends to a caller's slice
	// instead of copying it writes into memory it shares with the caller (and with whoever else appended to the same slice)
	var handed [][]byte
	buf := func(i int) []byte {
		if f[i] == "~" { // a nil slice: what `var k []byte` / a missing argument gives the callee
			w.counts["nil-argument:"+f[0]+fmt.Sprintf(":arg%d", i)]++

			return nil
		}
		if f[i] == "-" {
			w.counts["empty-non-nil-argument:"+f[0]+fmt.Sprintf(":arg%d", i)]++
		}
		b := withSpare(unhexTok(f[i]), 8)
		handed = append(handed, b)

		return b
	}
	defer func() {
		for _, b := range handed {
			if !spareIntact(b) {
				w.bufFails = append(w.bufFails, strings.Join(f, " ")+": the spare capacity of a buffer passed by the caller was written")

				break
			}
		}
	}()
	switch f[0] {
	case "spy": // first request of a tree: install the recording store right above mapdb
		w.views[0] = &spyStore{inner: w.views[0], w: w}
		w.spy = true

		return "ok"
	case "arm", "disarm":
		if !w.spy {
			return "bad-op"
		}
		w.armed = f[0] == "arm"

		return "ok"
	case "view":
		p, ok := w.views[num(2)]
		if !ok {
			return "bad-handle"
		}
		var nv kvstore.KVStore
		var err error
		if f[4] == "ext" {
			nv, err = p.WithExtendedRealm(buf(3))
		} else {
			nv, err = p.WithRealm(buf(3))
		}
		if err != nil {
			return errAns(err)
		}
		w.views[num(1)] = nv
		w.stacks[num(1)] = w.stacks[num(2)]

		return "ok"
	case "wrap":
		p, ok := w.views[num(2)]
		if !ok {
			return "bad-handle"
		}
		w.stacks[num(1)] = f[3][:1] + w.stacks[num(2)]
		if f[3] == "f" {
			w.views[num(1)] = flushkv.New(p)
		} else {
			w.views[num(1)] = w.newDebug(p, parseCfg(f[3]))
			switch cfg := parseCfg(f[3]); {
			case !cfg.cb:
				w.counts["debug.New:nil-callback"]++
			case cfg.given == nil:
				w.counts["debug.New:no-filter-argument"]++
			case cfg.filter == 0:
				w.counts["debug.New:filter=0"]++
			default:
				w.counts[fmt.Sprintf("debug.New:filter-arguments=%d", len(cfg.given))]++
			}
		}

		return "ok"
	case "batch":
		v, ok := w.views[num(2)]
		if !ok {
			return "bad-handle"
		}
		bm, err := v.Batched()
		if err != nil {
			return errAns(err)
		}
		w.batches[num(1)] = &batchRec{bm: bm, stack: w.stacks[num(2)]}

		return "ok"
	case "bset", "bdel", "commit", "commitf", "cancel":
		b, ok := w.batches[num(1)]
		if !ok {
			return "bad-handle"
		}
		switch f[0] {
		case "bset":
			k, v := buf(2), buf(3)
			err := b.bm.Set(k, v)
			scribble(k)
			b.bufs = append(b.bufs, v)

			return errAns(err)
		case "bdel":
			k := buf(2)
			err := b.bm.Delete(k)
			scribble(k)

			return errAns(err)
		case "cancel":
			b.bm.Cancel()
			for _, x := range b.bufs { // nothing of the cancelled batch may be referenced any more
				scribble(x)
			}
			b.bufs = nil

			return "ok"
		case "commit":
			return errAns(b.bm.Commit())
		default:
			err := b.bm.Commit()
			// the batch is finished: mutating the caller's buffers after Commit returned must not matter
			for _, x := range b.bufs {
				scribble(x)
			}
			if err == nil && len(b.bufs) > 0 {
				w.counts["commit-then-scribble:stack="+b.stack+"."]++
			}
			delete(w.batches, num(1))

			return errAns(err)
		}
	}
	v, ok := w.views[num(1)]
	if !ok {
		return "bad-handle"
	}
	switch f[0] {
	case "realm":
		r := v.Realm()
		ans := "realm " + hx.Hex(r)
		scribble(r)

		return ans
	case "close":
		return errAns(v.Close())
	case "get":
		k := buf(2)
		val, err := v.Get(k)
		scribble(k)
		if err != nil {
			return errAns(err)
		}
		ans := "val " + hx.Hex(val)
		scribble(val)

		return ans
	case "has":
		k := buf(2)
		has, err := v.Has(k)
		scribble(k)
		if err != nil {
			return errAns(err)
		}

		return strconv.FormatBool(has)
	case "set":
		k, val := buf(2), buf(3)
		err := v.Set(k, val)
		scribble(k)
		scribble(val)

		return errAns(err)
	case "del":
		k := buf(2)
		err := v.Delete(k)
		scribble(k)

		return errAns(err)
	case "delp":
		p := buf(2)
		err := v.DeletePrefix(p)
		scribble(p)

		return errAns(err)
	case "clear":
		return errAns(v.Clear())
	case "flush":
		return errAns(v.Flush())
	case "iter", "iterc":
		// the consumer RETAINS every key and value slice it is handed (no copy), and notes what it saw during the call
		stop, calls := num(4), 0
		var keptK, keptV [][]byte
		var during []string
		nested := "none"
		p := buf(2)
		err := v.Iterate(p, func(k kvstore.Key, val kvstore.Value) bool {
			calls++
			keptK, keptV = append(keptK, k), append(keptV, val)
			during = append(during, hx.Hex(k)+":"+hx.Hex(val))
			if calls == 1 && f[0] == "iterc" { // the consumer mutates the store: the iteration runs on its snapshot
				nested = errAns(v.Clear())
			}

			return calls != stop
		}, dirArgs(f[3])...)
		scribble(p)
		ans := "kvs" + w.retained(f, during, keptK, keptV)
		if err != nil {
			ans = errAns(err)
		}
		if f[0] == "iterc" {
			return ans + " | " + nested
		}

		return ans
	case "iterk":
		stop, calls := num(4), 0
		var keptK [][]byte
		var during []string
		p := buf(2)
		err := v.IterateKeys(p, func(k kvstore.Key) bool {
			calls++
			keptK = append(keptK, k)
			during = append(during, hx.Hex(k))

			return calls != stop
		}, dirArgs(f[3])...)
		scribble(p)
		ans := "keys" + w.retained(f, during, keptK, nil)
		if err != nil {
			return errAns(err)
		}

		return ans
	}

	return "bad-op"
}

// ---------------------------------------------------------------------------------------------
// generator

var alphabet = []byte{0x00, 0x01, 0x7f, 0xff}
var valAlphabet = []byte{0x00, 0x01, 0x7f, 0xff, 0xa5, 0x5a, 0x10}

// unhexTok decodes a byte-string token of an op line: hex, `-` = empty (non-nil), `~` = nil.
func unhexTok(s string) []byte {
	if s == "~" {
		return nil
	}

	return hx.UnHex(s)
}

// nilify turns about half of the empty byte-string arguments of a generated history (keys, prefixes, realms, values - of the
// direct calls and of the batch calls alike) into nil slices: the contract does not distinguish nil from empty, the code
// must not either (a nil value as a deletion marker, `m[k] != nil` as the membership test, ...).
func nilify(rng *hx.Rng, ops []string) []string {
	for i, op := range ops {
		if !strings.Contains(op, " -") || strings.HasPrefix(op, "copy") {
			continue
		}
		f := strings.Fields(op)
		for j := range f {
			if f[j] == "-" && rng.Bool() {
				f[j] = "~"
			}
		}
		ops[i] = strings.Join(f, " ")
	}

	return ops
}

func genBytes(rng *hx.Rng, maxLen int, alpha []byte) string {
	n := rng.Intn(maxLen + 1)
	b := make([]byte, n)
	for i := range b {
		b[i] = hx.Pick(rng, alpha)
	}

	return hx.Hex(b)
}

type genState struct {
	realm     map[int]string // realm of every live view / batch handle (generator-side bookkeeping)
	pool      []string       // full keys written so far (they may have been deleted since)
	views     []int
	depth     map[int]int
	wrapDepth map[int]int
	batches   []int
	bkeys     map[int][]string // keys a batch was already called with (so that Set/Delete of one key alternate)
	next      int
	closed    bool
}

func genCase(rng *hx.Rng, n int) []string {
	g := &genState{views: []int{0}, depth: map[int]int{0: 0}, wrapDepth: map[int]int{0: 0}, next: 1, realm: map[int]string{0: ""}, bkeys: map[int][]string{}}
	var ops []string
	// values: mostly 0..4 bytes, now and then a long one (a store that keeps only so many bytes, a fixed-size buffer, ...)
	genVal := func() string {
		if rng.Chance(1, 40) {
			b := make([]byte, rng.Range(17, 90))
			for i := range b {
				b[i] = byte(rng.Intn(256))
			}

			return hx.Hex(b)
		}

		return genBytes(rng, 4, valAlphabet)
	}
	newHandle := func() int { g.next++; return g.next - 1 }
	addView := func(parent int, line string, h int, isWrap bool) {
		ops = append(ops, line)
		if g.closed && !isWrap {
			return
		}
		f := strings.Fields(line)
		switch {
		case isWrap:
			g.realm[h] = g.realm[parent]
		case f[4] == "ext":
			g.realm[h] = g.realm[parent] + string(hx.UnHex(f[3]))
		default:
			g.realm[h] = string(hx.UnHex(f[3]))
		}
		g.views = append(g.views, h)
		g.depth[h] = g.depth[parent]
		g.wrapDepth[h] = g.wrapDepth[parent]
		if isWrap {
			g.wrapDepth[h]++
		} else {
			g.depth[h]++
		}
	}
	// two of three trees have the recording store between the wrappers and mapdb: their lines carry the forwarded calls
	spy := rng.Chance(2, 3)
	if spy {
		ops = append(ops, "spy")
	}
	// a debug layer: debug.New(s, cb) | debug.New(s, nil) | debug.New(s, cb, commands...) (Set|Iterate, ShutdownCommand only, random bits)
	genDbg := func() string {
		switch rng.Intn(8) {
		case 0, 1, 2:
			return "d"
		case 3:
			return "dn"
		case 4:
			return "d16,1"
		case 5:
			return "d0"
		case 6:
			return fmt.Sprintf("d%d", rng.Intn(256))
		default:
			return fmt.Sprintf("d%d,%d", 1<<rng.Intn(8), 1<<rng.Intn(8))
		}
	}
	// wrapper stack at the root: mapdb, flushkv∘mapdb, debug∘mapdb, flushkv∘debug∘mapdb, debug∘flushkv∘mapdb
	switch rng.Intn(6) {
	case 1:
		h := newHandle()
		addView(0, fmt.Sprintf("wrap %d 0 f", h), h, true)
	case 2:
		h := newHandle()
		addView(0, fmt.Sprintf("wrap %d 0 %s", h, genDbg()), h, true)
	case 3:
		h := newHandle()
		addView(0, fmt.Sprintf("wrap %d 0 %s", h, genDbg()), h, true)
		h2 := newHandle()
		addView(h, fmt.Sprintf("wrap %d %d f", h2, h), h2, true)
	case 4:
		h := newHandle()
		addView(0, fmt.Sprintf("wrap %d 0 f", h), h, true)
		h2 := newHandle()
		addView(h, fmt.Sprintf("wrap %d %d %s", h2, h, genDbg()), h2, true)
	}
	pickView := func() int {
		// prefer recent views (deeper in the tree / more wrapped), but keep using all of them
		if rng.Chance(1, 2) {
			return g.views[len(g.views)-1-rng.Intn(min(3, len(g.views)))]
		}

		return hx.Pick(rng, g.views)
	}
	dirs := []string{"fwd", "fwd", "bwd", "bwd", "def"}
	// pickDir: now and then an unknown direction value (GetIterDirection panics; the store must stay usable)
	pickDir := func() string {
		if rng.Chance(1, 40) {
			return fmt.Sprintf("x%d", hx.Pick(rng, []int{2, 3, 7, 255}))
		}

		return hx.Pick(rng, dirs)
	}
	// keyFor: a key for a request on a handle with realm `realm`: mostly one that addresses an entry written
	// earlier (possibly through another view), otherwise a fresh random one
	keyFor := func(realm string) string {
		if len(g.pool) > 0 && rng.Chance(3, 5) {
			for try := 0; try < 4; try++ {
				fk := hx.Pick(rng, g.pool)
				if strings.HasPrefix(fk, realm) {
					k := []byte(fk[len(realm):])
					// now and then a NEIGHBOUR of a written key: the key cut by its last byte / extended by one byte, so that keys
					// which are prefixes of one another (down to the zero-length key) meet in one view
					switch rng.Intn(12) {
					case 0:
						if len(k) > 0 {
							k = k[:len(k)-1]
						}
					case 1:
						k = append(append([]byte{}, k...), hx.Pick(rng, alphabet))
					}

					return hx.Hex(k)
				}
			}
		}

		if rng.Chance(1, 60) { // a long key
			b := make([]byte, rng.Range(9, 40))
			for i := range b {
				b[i] = hx.Pick(rng, bulkAlphabet)
			}

			return hx.Hex(b)
		}

		return genBytes(rng, 3, alphabet)
	}
	prefixFor := func(realm string) string {
		k := hx.UnHex(keyFor(realm))
		if len(k) > 2 {
			k = k[:2]
		}

		return hx.Hex(k[:rng.Intn(len(k)+1)])
	}
	for len(ops) < n {
		v := pickView()
		key := keyFor(g.realm[v])
		switch x := rng.Intn(1000); {
		case x < 280:
			ops = append(ops, fmt.Sprintf("set %d %s %s", v, key, genVal()))
			g.pool = append(g.pool, g.realm[v]+string(hx.UnHex(key)))
		case x < 370:
			ops = append(ops, fmt.Sprintf("get %d %s", v, key))
		case x < 410:
			ops = append(ops, fmt.Sprintf("has %d %s", v, key))
		case x < 460:
			ops = append(ops, fmt.Sprintf("del %d %s", v, key))
		case x < 485:
			ops = append(ops, fmt.Sprintf("delp %d %s", v, prefixFor(g.realm[v])))
		case x < 490:
			ops = append(ops, fmt.Sprintf("clear %d", v))
		case x < 610:
			stop := 0
			if rng.Chance(2, 5) {
				stop = rng.Range(1, 4)
			}
			ops = append(ops, fmt.Sprintf("iter %d %s %s %d", v, prefixFor(g.realm[v]), pickDir(), stop))
		case x < 670:
			stop := 0
			if rng.Chance(2, 5) {
				stop = rng.Range(1, 4)
			}
			ops = append(ops, fmt.Sprintf("iterk %d %s %s %d", v, prefixFor(g.realm[v]), pickDir(), stop))
		case x < 680:
			ops = append(ops, fmt.Sprintf("iterc %d %s %s %d", v, genBytes(rng, 1, alphabet), hx.Pick(rng, dirs), rng.Intn(3)))
		case x < 775:
			if g.depth[v] >= 3 {
				continue
			}
			h := newHandle()
			mode := "ext"
			if rng.Chance(1, 3) {
				mode = "abs"
			}
			addView(v, fmt.Sprintf("view %d %d %s %s", h, v, genBytes(rng, 3, alphabet), mode), h, false)
		case x < 790:
			if g.wrapDepth[v] >= 3 {
				continue
			}
			h := newHandle()
			wt := "f"
			if rng.Bool() {
				wt = genDbg()
			}
			addView(v, fmt.Sprintf("wrap %d %d %s", h, v, wt), h, true)
		case x < 810:
			ops = append(ops, fmt.Sprintf("realm %d", v))
		case x < 825:
			ops = append(ops, fmt.Sprintf("flush %d", v))
		case x < 865:
			h := newHandle()
			ops = append(ops, fmt.Sprintf("batch %d %d", h, v))
			if !g.closed {
				g.batches = append(g.batches, h)
				g.realm[h] = g.realm[v]
			}
		case x < 877:
			// cancel scenario: fill a batch, cancel it, maybe refill, commit, look at the result
			if g.closed {
				continue
			}
			h := newHandle()
			g.realm[h] = g.realm[v]
			k1, k2 := keyFor(g.realm[v]), keyFor(g.realm[v])
			ops = append(ops, fmt.Sprintf("batch %d %d", h, v), fmt.Sprintf("bset %d %s %s", h, k1, genVal()),
				fmt.Sprintf("bdel %d %s", h, k2), fmt.Sprintf("cancel %d", h))
			if rng.Bool() {
				ops = append(ops, fmt.Sprintf("bset %d %s %s", h, keyFor(g.realm[v]), genVal()))
			}
			ops = append(ops, fmt.Sprintf("commit %d", h), fmt.Sprintf("iter %d - fwd 0", v))
			g.batches = append(g.batches, h)
		case x < 895:
			// finished-handle scenario: a batch handle that has been committed (or cancelled) is used again - Cancel (the usual
			// `defer b.Cancel()`), more Set/Delete, a second Commit - while ANOTHER batch, created afterwards on the same or
			// another view / wrapper stack, is being filled: the two handles must not influence each other
			if g.closed {
				continue
			}
			h1, h2 := newHandle(), newHandle()
			v2 := pickView()
			g.realm[h1], g.realm[h2] = g.realm[v], g.realm[v2]
			k1, k2 := keyFor(g.realm[v]), keyFor(g.realm[v2])
			ops = append(ops, fmt.Sprintf("batch %d %d", h1, v), fmt.Sprintf("bset %d %s %s", h1, k1, genVal()))
			if rng.Chance(3, 4) {
				ops = append(ops, fmt.Sprintf("commit %d", h1))
			} else {
				ops = append(ops, fmt.Sprintf("cancel %d", h1))
			}
			ops = append(ops, fmt.Sprintf("batch %d %d", h2, v2), fmt.Sprintf("bset %d %s %s", h2, k2, genVal()))
			switch rng.Intn(5) {
			case 0, 1:
				ops = append(ops, fmt.Sprintf("cancel %d", h1))
			case 2:
				ops = append(ops, fmt.Sprintf("bset %d %s %s", h1, keyFor(g.realm[v]), genVal()))
			case 3:
				ops = append(ops, fmt.Sprintf("bdel %d %s", h1, hx.Hex(hx.UnHex(k2))))
			default:
				ops = append(ops, fmt.Sprintf("commit %d", h1))
			}
			ops = append(ops, fmt.Sprintf("commit %d", h2), fmt.Sprintf("get %d %s", v2, k2), "iter 0 - fwd 0")
			if rng.Bool() {
				ops = append(ops, fmt.Sprintf("commit %d", h1), "iter 0 - fwd 0")
			}
			g.batches = append(g.batches, h1, h2)
		case x < 985:
			if len(g.batches) == 0 {
				continue
			}
			bi := rng.Intn(len(g.batches))
			b := g.batches[bi]
			key = keyFor(g.realm[b])
			if ks := g.bkeys[b]; len(ks) > 0 && rng.Chance(1, 2) {
				key = hx.Pick(rng, ks)
			}
			g.bkeys[b] = append(g.bkeys[b], key)
			switch y := rng.Intn(125); {
			case y < 60:
				ops = append(ops, fmt.Sprintf("bset %d %s %s", b, key, genVal()))
				g.pool = append(g.pool, g.realm[b]+string(hx.UnHex(key)))
			case y < 85:
				ops = append(ops, fmt.Sprintf("bdel %d %s", b, key))
			case y < 95:
				ops = append(ops, fmt.Sprintf("commit %d", b))
			case y < 117:
				ops = append(ops, fmt.Sprintf("commitf %d", b))
				g.batches = append(g.batches[:bi], g.batches[bi+1:]...)
			default:
				ops = append(ops, fmt.Sprintf("cancel %d", b))
			}
		case x < 990:
			// arm / disarm the injected Flush failure (error paths of flushkv, Copy, CopyBatched)
			if !spy {
				continue
			}
			if rng.Chance(3, 5) {
				ops = append(ops, "arm")
			} else {
				ops = append(ops, "disarm")
			}
		default:
			// Close: rare, and more likely late, so that most of a history runs on an open store
			if len(ops) > 2*n/3 || rng.Chance(1, 8) {
				ops = append(ops, fmt.Sprintf("close %d", v))
				g.closed = true
			}
		}
	}

	return ops
}

var bulkAlphabet = []byte{0x00, 0x01, 0x02, 0x10, 0x20, 0x3f, 0x40, 0x55, 0x7e, 0x7f, 0x80, 0xa5, 0xc3, 0xf0, 0xfe, 0xff}

// genBulkCase: a store with a few hundred entries (written directly and through one big batch, through a view and the root,
// below a random wrapper), then iterations in both directions with and without prefix and stop, DeletePrefix, Clear: whatever
// depends on the NUMBER of entries (a sort that changes its algorithm with the size, a capped snapshot, a batch that spills)
// or on long values.
func genBulkCase(rng *hx.Rng) []string {
	var ops []string
	top := 0
	if rng.Bool() {
		ops = append(ops, "wrap 1 0 "+hx.Pick(rng, []string{"f", "d", "dn"}))
		top = 1
	}
	realm := genBytes(rng, 2, bulkAlphabet)
	ops = append(ops, fmt.Sprintf("view 2 %d %s %s", top, realm, hx.Pick(rng, []string{"abs", "ext"})), "batch 9 2")
	n := rng.Range(120, 400)
	key := func() string {
		b := make([]byte, rng.Range(1, 3))
		for i := range b {
			b[i] = hx.Pick(rng, bulkAlphabet)
		}

		return hx.Hex(b)
	}
	val := func() string {
		if rng.Chance(1, 10) {
			b := make([]byte, rng.Range(20, 90))
			for i := range b {
				b[i] = byte(rng.Intn(256))
			}

			return hx.Hex(b)
		}

		return genBytes(rng, 4, valAlphabet)
	}
	for i := 0; i < n; i++ {
		switch rng.Intn(8) {
		case 0, 1:
			ops = append(ops, fmt.Sprintf("set 2 %s %s", key(), val()))
		case 2:
			ops = append(ops, fmt.Sprintf("set %d %s%s %s", top, strings.TrimPrefix(realm, "-"), strings.TrimPrefix(key(), "-"), val()))
		case 3:
			ops = append(ops, fmt.Sprintf("bdel 9 %s", key()))
		default:
			ops = append(ops, fmt.Sprintf("bset 9 %s %s", key(), val()))
		}
	}
	p1 := hx.Hex([]byte{hx.Pick(rng, bulkAlphabet)})
	ops = append(ops, "iterk 0 - fwd 0", "commit 9", "iter 0 - fwd 0", "iter 0 - bwd 0", "iterk 2 - bwd 0", fmt.Sprintf("iter 2 %s fwd 0", p1),
		fmt.Sprintf("iterk %d %s bwd %d", top, strings.TrimPrefix(realm, "-")+strings.TrimPrefix(p1, "-"), rng.Range(1, 40)),
		fmt.Sprintf("iter 0 - def %d", rng.Range(10, 100)), fmt.Sprintf("delp 2 %s", p1), "iterk 0 - fwd 0", "commit 9", "iterk 2 - def 0",
		"clear 2", "iter 0 - fwd 0", "commitf 9", "iter 0 - bwd 0")

	return ops
}

// ---------------------------------------------------------------------------------------------

func kind(ans string) string {
	return strings.Fields(ans)[0]
}

// ---------------------------------------------------------------------------------------------
// a case = simulate (real code + oracle, nothing written) -> [minimise a new kind of failure] -> emit

type failure struct {
	oracle, detail string
	sig            map[string]string
	at             int // index of the request at which it was observed
}

func (f failure) key() string {
	ks := make([]string, 0, len(f.sig))
	for k, v := range f.sig {
		ks = append(ks, k+"="+v)
	}
	sort.Strings(ks)

	return f.oracle + "|" + strings.Join(ks, ";")
}

type opOut struct {
	f        []string // the request without its tree prefix
	full     string   // the answer line (with the trace if the tree is traced)
	ans      string
	traced   bool
	nEvents  int
	realm    string // view: the realm of the new view
	copySize int    // copy / copyb answered ok: entries of the source view
	copyOK   bool
}

type caseResult struct {
	outs    []opOut
	fails   []failure
	cbCalls int
	counts  map[string]int
	hung    bool
}

// opTimeout: a single request takes microseconds; a request that has not returned by then hangs (a lock that is still held, ...).
// Very generous because the machine is shared (a stalled process must not be taken for a hang); once a hang has been seen
// the following ones are given less time.
var opTimeout = 60 * time.Second

// guarded runs fn with a watchdog; false = it did not return in time (its goroutine is abandoned).
func guarded(fn func()) bool {
	done := make(chan struct{})
	go func() {
		defer close(done)
		fn()
	}()
	select {
	case <-done:
		return true
	default:
	}
	t := time.NewTimer(opTimeout)
	defer t.Stop()
	select {
	case <-done:
		return true
	case <-t.C:
		return false
	}
}

func simulate(ops []string) *caseResult {
	res := &caseResult{counts: map[string]int{}}
	ws := [2]*world{newWorld(), newWorld()}
	orcs := [2]*oracle{newOracle(), newOracle()}
	for at, op := range ops {
		f := strings.Fields(op)
		if len(f) == 0 { // an empty line (hand-made replay): the model answers bad-op, too
			res.outs = append(res.outs, opOut{f: []string{"bad-op"}, ans: "bad-op", full: "bad-op"})

			continue
		}
		tree := 0
		if f[0] == "2" && len(f) > 1 {
			tree, f = 1, f[1:]
		}
		w, o := ws[tree], orcs[tree]
		out := opOut{f: f}
		var ans string
		want := "bad-op"
		var wantTr []string
		fail := func(oracle, detail string, sig map[string]string) {
			res.fails = append(res.fails, failure{oracle: oracle, detail: detail, sig: sig, at: at})
		}
		returned := true
		cpSuffix := ""
		if f[0] == "copy" || f[0] == "copyb" {
			returned = guarded(func() {
				if p := hx.Safely(func() { ans = execCopy(ws, f) }); p != "" {
					ans = "panic"
				}
			})
			if returned {
				srcT, dstT := treeOf(f[1]), treeOf(f[3])
				wantKinds := expectCopyCalls(orcs, f) // before expectCopy changes the oracle's state
				want, out.copySize = expectCopy(orcs, f)
				out.copyOK = want == "ok"
				// what the recording stores saw: the source tree's events, the target tree's (one list if it is the same tree)
				if ws[srcT].spy {
					cpSuffix += " ;s" + joinEvents(ws[srcT].events)
				}
				if dstT != srcT && ws[dstT].spy {
					cpSuffix += " ;d" + joinEvents(ws[dstT].events)
				}
				if wantKinds != nil && ws[dstT].spy {
					if got := callKinds(ws[dstT].events); strings.Join(got, " ") != strings.Join(wantKinds, " ") {
						fail("copy-batching", fmt.Sprintf("%q: the target saw [%s], expected [%s] (Batched, then per entry bSet and - at every "+
							"multiple of the batch size - bCommit, its Flushes, Batched; finally bCommit, its Flushes, Flush)", op,
							strings.Join(got, " "), strings.Join(wantKinds, " ")), map[string]string{"op": f[0], "oracle": "copy-batching"})
					}
				}
				ws[0].events, ws[1].events = nil, nil
			}
		} else {
			out.traced = w.spy
			if p := hx.Safely(func() { wantTr = o.expectTrace(f) }); p != "" {
				wantTr = []string{"bad-op"}
			}
			returned = guarded(func() {
				if p := hx.Safely(func() { ans = w.exec(f) }); p != "" {
					ans = "panic"
				}
			})
			if returned {
				if p := hx.Safely(func() { want = o.expect(f) }); p != "" {
					want = "bad-op"
				}
			}
		}
		if !returned {
			// the request never returned: report, and give the case up (its stores may be locked for ever)
			fail("hang", fmt.Sprintf("%q did not return within %v", op, opTimeout), map[string]string{"op": f[0], "oracle": "hang"})
			out.ans, out.full = "hang", "hang"
			res.outs = append(res.outs, out)
			res.hung = true

			break
		}
		out.ans, out.full = ans, ans+cpSuffix
		if out.traced {
			// what reached the store below the wrappers and the debug callbacks, in order
			out.full = strings.Join(append([]string{ans, ";"}, w.events...), " ")
			out.nEvents = len(w.events)
			if got, wantS := strings.Join(w.events, " "), strings.Join(wantTr, " "); got != wantS {
				fail("wrapper-forwarding", fmt.Sprintf("%q through the stack %q: forwarded calls / callbacks [%s], expected [%s] (callbacks of the "+
					"debug layers whose filter has the command, outermost first; the call; one Flush per flushkv layer after a mutation that "+
					"succeeded)", op, w.stackOf(f), got, wantS), map[string]string{"op": f[0], "oracle": "wrapper-forwarding"})
			}
		}
		w.events = nil
		for _, d := range w.retainedFails {
			fail("retained-keys-differ", d, map[string]string{"op": f[0], "oracle": "retained-keys-differ"})
		}
		w.retainedFails = nil
		for _, d := range w.bufFails {
			fail("caller-buffer-written", d, map[string]string{"op": f[0], "oracle": "caller-buffer-written"})
		}
		w.bufFails = nil
		if want != ans {
			fail("ordered-map-contract", fmt.Sprintf("%q answered %q, a single ordered map keyed by realm||key answers %q", op, ans, want),
				map[string]string{"op": f[0], "want": kind(want), "got": kind(ans)})
		}
		if f[0] == "view" && ans == "ok" {
			out.realm = o.realms[atoi(f[1])]
		}
		res.outs = append(res.outs, out)
	}
	res.cbCalls = ws[0].cbCalls + ws[1].cbCalls
	for _, w := range ws {
		for k, n := range w.counts {
			res.counts[k] += n
		}
	}

	return res
}

// minimise: delta debugging on the request list - the smallest history found (within the budget) on which the real code
// still fails with the same oracle and signature.
func minimise(ops []string, key string, budget int) []string {
	failsWith := func(cand []string) bool {
		budget--
		for _, f := range simulate(cand).fails {
			if f.key() == key {
				return true
			}
		}

		return false
	}
	cur := ops
	n := 2
	for len(cur) >= 2 && budget > 0 {
		chunk := (len(cur) + n - 1) / n
		reduced := false
		for i := 0; i < len(cur) && budget > 0; i += chunk {
			cand := append(append([]string{}, cur[:i]...), cur[min(i+chunk, len(cur)):]...)
			if failsWith(cand) {
				cur, reduced = cand, true
				n = max(n-1, 2)

				break
			}
		}
		if !reduced {
			if chunk == 1 {
				break
			}
			n = min(n*2, len(cur))
		}
	}

	return cur
}

var minimisedKeys = map[string]bool{}
var replaying bool

func runCase(r *hx.Run, sub uint64, ops []string) {
	res := simulate(ops)
	// a kind of failure seen for the first time: minimise its history and run the minimised history as a case of its own
	// FIRST, so that the finding the check reports (and its replay file) carries the small failing input
	if !replaying {
		for _, f := range res.fails {
			k := f.key()
			if minimisedKeys[k] || len(minimisedKeys) >= 8 || f.oracle == "hang" {
				continue
			}
			minimisedKeys[k] = true
			small := minimise(ops[:f.at+1], k, 600)
			r.Count("minimised-failing-histories")
			r.Count(fmt.Sprintf("minimised:%d->%d-requests", len(ops), len(small)))
			emitCase(r, 0, small, simulate(small))
		}
	}
	emitCase(r, sub, ops, res)
}

// hangs: cases given up because a request did not return.  The second one ends the run (every further one would cost
// another opTimeout, and the goroutines left behind keep their stores locked): the findings so far are written out.
var hangs int

func emitCase(r *hx.Run, sub uint64, ops []string, res *caseResult) {
	defer func() {
		if res.hung {
			opTimeout = 15 * time.Second
			if hangs++; hangs >= 2 {
				r.Count("run-ended-after-two-hangs")
				r.Finish()
				os.Exit(0)
			}
		}
	}()
	r.Case(sub)
	bigIter, mutations, closedAnswers := 0, 0, 0
	realms := map[string]struct{}{}
	nf := 0
	for i, out := range res.outs {
		f, ans := out.f, out.ans
		r.Line(ops[i], out.full)
		for ; nf < len(res.fails) && res.fails[nf].at == i; nf++ {
			fl := res.fails[nf]
			r.Fail(fl.oracle, fl.detail+fmt.Sprintf("; history (%d requests): %v", i+1, r.CaseLines()), fl.sig)
		}
		if out.traced {
			r.CountN("traced-events", out.nEvents)
			r.Count(fmt.Sprintf("trace-len:%d", min(out.nEvents, 6)))
		}
		if out.copyOK {
			if f[0] == "copyb" {
				if atoi(f[5]) < 0 {
					r.Count("copyb:batch-size:negative")
				}
				switch n, size := effBatch(f[5]), out.copySize; {
				case n == 0:
					r.Count("copyb:batch-size:none")
				case n < size-1:
					r.Count("copyb:batch-size:<size-1")
				case n == size-1:
					r.Count("copyb:batch-size:=size-1")
				case n == size:
					r.Count("copyb:batch-size:=size")
				case n == size+1:
					r.Count("copyb:batch-size:=size+1")
				default:
					r.Count("copyb:batch-size:>size+1")
				}
			}
			r.Count(fmt.Sprintf("copy:trees:%s->%s", f[1], f[3]))
		}
		r.Count("op:" + f[0])
		r.Count("ans:" + kind(ans))
		switch f[0] {
		case "iter", "iterk", "iterc":
			n := len(strings.Fields(ans))
			r.Count(fmt.Sprintf("iter-calls:%d", min(n-1, 6)))
			if n >= 3 {
				bigIter++
			}
		case "set", "del", "delp", "clear", "commit", "commitf", "copy", "copyb":
			if ans == "ok" {
				mutations++
			}
		case "view":
			if ans == "ok" {
				realms[out.realm] = struct{}{}
				r.Count(fmt.Sprintf("realm-len:%d", len(out.realm)))
			}
		}
		if ans == "closed" {
			closedAnswers++
		}
	}
	if closedAnswers > 0 {
		r.Count("case:saw-closed")
	}
	if res.hung {
		r.Count("case:gave-up-after-hang")
	}
	r.CountN("debug-callbacks", res.cbCalls)
	for k, n := range res.counts {
		r.CountN(k, n)
	}
	if len(realms) >= 2 && bigIter >= 1 && mutations >= 3 {
		h := sha256.Sum256([]byte(strings.Join(ops, "\n")))
		r.Nontrivial(string(h[:8]))
	}
	r.Sample(r.CaseLines())
}

func atoi(s string) int { n, _ := strconv.Atoi(s); return n }

// stackOf: the wrapper stack of the handle request f addresses (for messages).
func (w *world) stackOf(f []string) string {
	switch f[0] {
	case "bset", "bdel", "commit", "commitf", "cancel":
		if b, ok := w.batches[atoi(f[1])]; ok {
			return b.stack
		}

		return ""
	case "view", "batch", "wrap":
		return w.stacks[atoi(f[2])]
	}
	if len(f) < 2 {
		return ""
	}

	return w.stacks[atoi(f[1])]
}

var corpus = [][]string{
	// realms that are prefixes of one another; a prefix that straddles the realm boundary
	{"view 1 0 01 abs", "view 2 1 ff ext", "view 3 0 01ff abs", "set 1 ff00 0a", "get 2 00", "get 3 00", "set 2 - 0b",
		"iter 1 ff fwd 0", "iter 0 01 bwd 0", "iterk 3 - def 0", "delp 1 ff00", "iter 0 - fwd 0", "clear 2", "iter 0 - fwd 0"},
	// 0xff-terminated realm and keys; empty realm; empty key and value
	{"view 1 0 ff abs", "view 2 0 ffff abs", "set 1 ff 01", "set 2 - -", "set 0 ff 02", "set 0 - 7f", "get 2 -", "has 1 ff",
		"iter 1 - bwd 0", "iter 0 ff fwd 2", "delp 0 ffff", "iter 0 - bwd 0", "get 0 -", "clear 0", "iter 0 - fwd 0"},
	// nil vs empty (`~` = nil slice, `-` = empty non-nil slice) for keys, prefixes, realms and values, on the direct calls and in
	// batches, through a wrapper stack: an entry with a zero-length value exists (Has, Get, Iterate, IterateKeys agree), a
	// zero-length key is a key, a batch Set of a nil value is a Set, keys that are prefixes of one another stay apart
	{"wrap 1 0 f", "wrap 2 1 d", "view 3 2 ~ ext", "view 4 3 - abs", "view 5 4 01 ext", "set 3 ~ ~", "has 3 -", "get 4 ~", "iterk 0 ~ fwd 0",
		"set 5 - -", "has 5 ~", "get 5 -", "set 5 01 ~", "set 5 0101 -", "has 5 01", "has 5 0101", "has 5 010101", "iter 5 ~ bwd 0",
		"iter 0 01 fwd 0", "batch 9 5", "bset 9 ~ 05", "bset 9 01 ~", "bset 9 02 ~", "bdel 9 0101", "bset 9 03 -", "bdel 9 03", "bset 9 03 ~",
		"commit 9", "has 5 02", "get 5 02", "has 5 03", "get 5 ~", "has 5 0101", "iter 0 - fwd 0", "iterk 5 01 bwd 0", "bdel 9 ~", "bset 9 - ~",
		"commitf 9", "has 5 -", "get 5 ~", "del 4 ~", "has 3 ~", "iter 0 ~ fwd 0", "delp 5 ~", "iter 0 - fwd 0", "batch 8 0", "bset 8 ~ ~",
		"commitf 8", "has 0 ~", "iterk 0 ~ def 0", "delp 0 ~", "has 0 -", "iterk 0 - def 0"},
	// batch mixing Set and Delete of one key across realms; re-commit; cancel
	{"view 1 0 01 abs", "view 2 1 7f ext", "set 0 017f00 aa", "batch 9 1", "bset 9 7f00 01", "bdel 9 7f00", "bset 9 7f01 02",
		"bdel 9 00", "bset 9 00 03", "iter 0 - fwd 0", "commit 9", "iter 0 - fwd 0", "set 2 00 ee", "commit 9", "iter 0 - fwd 0",
		"cancel 9", "set 2 00 ee", "commit 9", "get 2 00", "bset 9 - 10", "commitf 9", "iter 2 - bwd 0", "bset 9 - 11"},
	// a committed handle is cancelled / reused while another batch is being filled (TestMapDB_Batched cancels after Commit, too)
	{"view 1 0 01 abs", "batch 8 1", "bset 8 00 aa", "commit 8", "batch 9 0", "bset 9 0101 bb", "cancel 8", "commit 9", "get 0 0101",
		"batch 7 1", "bset 7 02 cc", "bset 8 03 dd", "commit 7", "iter 0 - fwd 0", "commit 8", "iter 0 - fwd 0", "cancel 7", "commit 7",
		"iter 0 - fwd 0"},
	// Copy / CopyBatched between trees and within one tree, batch boundaries, closed source / target
	{"view 1 0 01 abs", "set 1 aa 01", "set 1 bb 02", "set 1 cc 03", "set 0 05 09", "2 wrap 1 0 f", "2 view 2 1 07 abs", "2 set 2 aa ff",
		"copy 1 1 2 2", "2 iter 0 - fwd 0", "copyb 1 1 2 0 1", "copyb 1 1 2 1 2", "copyb 1 1 2 2 3", "copyb 1 1 2 0 4", "copyb 1 0 2 0 0",
		"2 iter 0 - bwd 0", "copy 1 1 1 0", "copyb 1 0 1 1 2", "iter 0 - fwd 0", "copy 2 9 1 0", "2 close 0", "copy 1 1 2 2", "copyb 1 1 2 2 2",
		"copy 2 0 1 0", "copyb 2 2 1 1 1", "iter 0 - fwd 0", "close 0", "copy 1 0 2 0", "copyb 1 0 1 1 0"},
	// close: every call on every view fails afterwards
	{"wrap 1 0 f", "wrap 2 1 d", "view 3 2 01 ext", "set 3 00 01", "batch 8 3", "bset 8 01 02", "close 3", "get 0 0100", "has 1 00",
		"set 2 00 00", "del 3 00", "delp 0 -", "clear 1", "iter 2 - fwd 0", "iterk 3 - bwd 0", "view 4 0 00 abs", "view 5 3 00 ext",
		"batch 7 0", "flush 0", "flush 1", "commit 8", "bset 8 00 00", "cancel 8", "commitf 8", "realm 3", "close 0", "wrap 6 3 f", "get 6 00"},
	// what the wrappers forward: flushkv lets Flush follow every successful mutation (once per layer), debug reports to its
	// callback according to its filter, WithExtendedRealm of a wrapper = Realm + WithRealm; closed store: no Flush
	{"spy", "wrap 1 0 f", "wrap 2 1 d", "wrap 3 2 f", "wrap 4 3 d16,1", "wrap 5 4 dn", "wrap 6 5 d0", "view 7 6 01 ext", "view 8 7 02 ext",
		"view 9 0 03 ext", "view 10 6 04 abs", "set 8 aa 01", "get 8 aa", "has 8 aa", "del 8 aa", "delp 8 -", "clear 8", "flush 8", "realm 8",
		"iter 8 - bwd 0", "iterk 8 - def 1", "batch 20 8", "bset 20 aa 01", "bdel 20 bb", "commit 20", "cancel 20", "commitf 20", "set 0 00 01",
		"iterc 8 - fwd 0", "set 8 aa 01", "iterc 8 - fwd 0", "iter 8 - x7 0", "iterk 1 - x2 0", "get 8 aa", "batch 21 3", "bset 21 00 00",
		"close 8", "set 8 aa 01", "set 3 aa 01", "commit 21", "iter 8 - x7 0", "view 11 8 01 ext", "flush 3", "clear 3", "get 99 00", "bset 99 00 00"},
	// the error paths: a Flush that fails (not with ErrStoreClosed).  flushkv mutators apply the mutation and return the error
	// (one Flush only: the layers above see an error); Flush itself fails through every stack; bare / debug views are not
	// affected; Copy into a flushkv target stops after the first Set, CopyBatched after the first Commit (the rest is not
	// written), into a bare target everything is written and the final Flush fails; closed store: ErrStoreClosed wins
	{"spy", "2 spy", "wrap 1 0 f", "wrap 2 1 d", "wrap 3 2 f", "view 4 3 01 ext", "set 4 aa 01", "arm", "set 4 bb 02", "get 4 bb", "del 4 aa",
		"delp 4 bb", "set 0 01cc 03", "clear 4", "iter 0 - fwd 0", "flush 0", "flush 4", "batch 9 4", "bset 9 dd 04", "commit 9", "get 4 dd",
		"batch 8 0", "bset 8 ee 05", "commitf 8", "set 4 d1 06", "set 4 d2 07", "iterc 4 - fwd 0", "iter 0 - fwd 0", "set 0 0a 01", "set 0 0b 02",
		"set 0 0c 03", "2 wrap 1 0 f", "2 arm", "copy 1 0 2 1", "2 iter 0 - fwd 0", "copyb 1 0 2 1 2", "2 iter 0 - fwd 0", "copyb 1 0 2 1 0",
		"2 iter 0 - fwd 0", "2 clear 0", "copy 1 0 2 0", "2 iter 0 - fwd 0", "copyb 1 0 2 0 1", "2 view 2 1 09 abs", "copyb 1 4 2 2 3",
		"2 iter 0 - fwd 0", "2 disarm", "copy 1 0 2 1", "disarm", "set 4 aa 01", "arm", "close 0", "set 4 aa 01", "flush 4", "2 arm", "2 close 0",
		"copy 1 0 2 1", "copyb 1 0 2 1 1"},
	// wrappers and a consumer that clears the view while iterating
	{"wrap 1 0 d", "wrap 2 1 f", "view 3 2 7f ext", "set 3 00 01", "set 3 01 02", "set 0 7f 03", "set 0 00 04", "iterc 3 - bwd 0",
		"iter 0 - fwd 0", "iterc 2 - fwd 1", "iter 0 - fwd 0", "iterc 0 - fwd 0"},
}

// probeAliasing records (in the evidence, not as a verdict: the statement does not speak about these buffers) which of the
// caller's buffers the store keeps by reference: the realm passed to WithRealm, and a value passed to a batch's Set until
// the batch is committed.
func probeAliasing(r *hx.Run) {
	root := mapdb.NewMapDB()
	realm := []byte{0x01}
	v, _ := root.WithRealm(realm)
	realm[0] = 0x02
	r.Extra["observation_WithRealm_keeps_callers_realm_slice"] = v.Realm()[0] == 0x02
	realm2 := []byte{0x03}
	v2, _ := v.WithExtendedRealm(realm2)
	realm2[0] = 0x04
	r.Extra["observation_WithExtendedRealm_keeps_callers_realm_slice"] = v2.Realm()[len(v2.Realm())-1] == 0x04
	b, _ := root.Batched()
	val := []byte{0x07}
	_ = b.Set([]byte{0x00}, val)
	val[0] = 0x08
	_ = b.Commit()
	got, _ := root.Get([]byte{0x00})
	r.Extra["observation_batch_Set_keeps_callers_value_slice_until_Commit"] = len(got) == 1 && got[0] == 0x08
	val[0] = 0x09 // after Commit returned: this one IS covered by the statement (and by the histories)
	got, _ = root.Get([]byte{0x00})
	if len(got) != 1 || got[0] != 0x08 {
		r.Fail("ordered-map-contract", "mutating a batch Set buffer after Commit returned changed stored data",
			map[string]string{"op": "commit", "want": "val", "got": "val", "probe": "buffer-after-commit"})
	}
}

// probeCopyErrorPaths: the error paths of kvstore.Copy / kvstore.CopyBatched that no history reaches over mapdb (whose only
// error is ErrStoreClosed, and a store that is closed before the copy makes the first call fail).  Here the target is closed
// DURING the copy, by the callback of a debug wrapper on the target (the first Set / batch Set it reports closes the store).
// Copy stops at the first failing Set and returns ErrStoreClosed.  CopyBatched with a batch size: the Commit of the first
// batch fails, so does the `target.Batched()` that follows it - and the function then calls Cancel on the nil interface it
// got back.  Nothing of this is in the statement (which speaks of the calls on views and batches: each of them does fail with
// ErrStoreClosed); it is recorded as an observation.
func probeCopyErrorPaths(r *hx.Run) {
	mk := func() (kvstore.KVStore, kvstore.KVStore) {
		src := mapdb.NewMapDB()
		for i := byte(0); i < 3; i++ {
			_ = src.Set([]byte{i}, []byte{i})
		}
		bare := mapdb.NewMapDB()
		closed := false

		return src, debug.New(bare, func(cmd debug.Command, _ ...[]byte) {
			if cmd == debug.SetCommand && !closed {
				closed = true
				_ = bare.Close()
			}
		})
	}
	src, dst := mk()
	var err error
	p := hx.Safely(func() { err = kvstore.Copy(src, dst) })
	r.Extra["observation_Copy_target_closed_during_copy"] = map[string]any{"panic": p, "answer": errAns(err)}
	if p != "" || errAns(err) != "closed" {
		r.Fail("ordered-map-contract", fmt.Sprintf("Copy into a target that is closed by the first Set: panic %q, answer %s, want closed", p, errAns(err)),
			map[string]string{"op": "copy", "want": "closed", "got": errAns(err), "probe": "closed-during-copy"})
	}
	src, dst = mk()
	err = nil
	p = hx.Safely(func() { err = kvstore.CopyBatched(src, dst) })
	r.Extra["observation_CopyBatched_one_batch_target_closed_during_copy"] = map[string]any{"panic": p, "answer": errAns(err)}
	if p != "" || errAns(err) != "closed" {
		r.Fail("ordered-map-contract", fmt.Sprintf("CopyBatched (one batch) into a target that is closed by the first Set: panic %q, answer %s, want closed", p, errAns(err)),
			map[string]string{"op": "copyb", "want": "closed", "got": errAns(err), "probe": "closed-during-copy"})
	}
	src, dst = mk()
	err = nil
	p = hx.Safely(func() { err = kvstore.CopyBatched(src, dst, 1) })
	r.Extra["observation_CopyBatched_batch_size_1_target_closed_during_copy_panics"] = p != ""
	r.Extra["observation_CopyBatched_batch_size_1_target_closed_during_copy"] = map[string]any{"panic": p, "answer": errAns(err)}
}

func main() {
	r := hx.Start()
	probeAliasing(r)
	probeCopyErrorPaths(r)
	r.Rule = "pure-helper stream (KeyPrefixUpperBound over all prefixes of length <= 4 over {00,01,7f,fe,ff}, ConcatBytes, CopyBytes, " +
		"GetIterDirection) + random histories (40 ops; every second one over TWO store trees with Copy/CopyBatched between and within them) over view trees of depth <= 3 and wrapper stacks of depth <= 3, keys/prefixes/realms over " +
		"{00,01,7f,ff} of length 0..3, values of length 0..4, both directions + default; non-trivial = at least two distinct " +
		"realms created, one iteration reporting >= 2 entries and three successful mutations; distinct by sha256 of the op lines; zero-length " +
		"arguments are nil slices half of the time, 1 in 40 values is 17..90 bytes long; + 12 bulk histories (120..400 entries, long values); + memory stream (600 histories of ~80 requests in which every byte slice is a numbered buffer " +
		"the caller holds, overwrites and reuses at any time, over a random wrapper stack; non-trivial = at least three caller writes and one " +
		"iteration handing out >= 2 entries)"
	if lines := r.ReplayLines(); lines != nil {
		replaying = true
		if strings.HasPrefix(lines[0], "m ") {
			runMemCase(r, 0, nil, lines)
			r.Finish()

			return
		}
		runCase(r, 0, lines)
		r.Finish()

		return
	}
	runPure(r)
	for _, c := range corpus {
		runCase(r, 0, c)
	}
	// the memory stream: buffers are first-class, the caller overwrites and reuses them at any time (Hive/Model/KVMem.lean)
	for _, c := range memCorpus {
		runMemCase(r, 0, nil, c)
	}
	for i := 0; i < 600*r.Scale; i++ {
		rng, sub := r.Rng.Fork()
		runMemCase(r, sub, rng, nil)
	}
	// a few big stores (hundreds of entries, long values)
	for i := 0; i < 12*r.Scale; i++ {
		rng, sub := r.Rng.Fork()
		runCase(r, sub, nilify(rng, genBulkCase(rng)))
		r.Count("bulk-cases")
	}
	n := 4000 * r.Scale
	if r.Tier == "thorough" {
		n *= 3 // 240 000 histories
	}
	for i := 0; i < n; i++ {
		rng, sub := r.Rng.Fork()
		if i%2 == 1 {
			runCase(r, sub, nilify(rng, genPairCase(rng))) // two store trees with Copy / CopyBatched between them
		} else {
			runCase(r, sub, nilify(rng, genCase(rng, 40)))
		}
	}
	r.Finish()
}
