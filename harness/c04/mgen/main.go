// mgen translates the method bodies of kvstore/mapdb/mapdb.go into a small statement language and prints them as a Lean
// module: one `def src_mapdb_<Recv>_<Method> : List MStmt` per method (Hive/Model/KVMapSrc.lean defines MStmt and its
// interpreter).  The value model of the C04 check (Hive/Model/KV.lean: dbGet, dbSet, ..., dbCommit, the batch bookkeeping) is
// proved to be the interpretation of these terms (Hive/Props/C04.lean, C04_mapdb_model_is_the_source*), so the model of the
// views and batches is derived from the working tree on every run.  syncedKVMap's methods (the Go map primitives under its
// own lock) stay primitives of the interpreter.
//
//	mgen <out.lean> <LeanNamespace> <mapdb.go>
//
// Statement forms (anything else becomes `.other "<source>"`, which no theorem accepts):
//
//	if F.Load() { return r..., kvstore.ErrStoreClosed }                     -> .closedCheck F [r...]
//	if F.Swap(true) { return nil }                                          -> .swapRetNil F
//	X.Lock() / X.RLock()                                                    -> .lock "X.Lock" / "X.RLock"
//	defer X.Unlock() / X.RUnlock()                                          -> .deferUnlock "X.Unlock" / "X.RUnlock"
//	s.m.M(args)                                                             -> .mapDo M [args]
//	v, c := s.m.get(args); if !c { return nil, kvstore.ErrKeyNotFound }; return v, nil -> .mapGetOrNotFound [args]
//	c := s.m.has(args); return c, nil                                       -> .mapHas [args]
//	x := e                                                                  -> .bind x e
//	delete(b.F, k)                                                          -> .bmapDelete F k
//	b.F[k] = v                                                              -> .bmapSet F k v
//	b.F = make(...)                                                         -> .bmapReset F
//	for key[, value] := range b.F { err := b.kvStore.M(args); if err != nil { return err } } -> .rangeApply F M [args]
//	return nil                                                              -> .retNil
//	return R.m(args)   (R the receiver itself)                              -> .retSelf m [args]   (.retExtend for the WithExtendedRealm form)
//	return e                                                                -> .retExpr e
//	return &T{f: e, ...}, nil                                               -> .retNew T [(f, e), ...]
package main

import (
	"bytes"
	"fmt"
	"go/ast"
	"go/parser"
	"go/printer"
	"go/token"
	"os"
	"path/filepath"
	"strings"
)

type tr struct {
	fset   *token.FileSet
	params map[string]int
	recv   string
}

func (t *tr) src(n ast.Node) string {
	var b bytes.Buffer
	printer.Fprint(&b, t.fset, n)

	return strings.Join(strings.Fields(b.String()), " ")
}

func (t *tr) expr(e ast.Expr) string {
	switch x := e.(type) {
	case *ast.Ident:
		if i, ok := t.params[x.Name]; ok {
			return fmt.Sprintf("$%d", i)
		}

		return x.Name
	case *ast.SelectorExpr:
		return t.expr(x.X) + "." + x.Sel.Name
	case *ast.CallExpr:
		args := make([]string, len(x.Args))
		for i, a := range x.Args {
			args[i] = t.expr(a)
		}
		if x.Ellipsis.IsValid() && len(args) > 0 {
			args[len(args)-1] += "..."
		}
		fun := ""
		switch f := x.Fun.(type) {
		case *ast.Ident, *ast.SelectorExpr:
			fun = t.expr(f.(ast.Expr))
		default:
			fun = strings.ReplaceAll(t.src(x.Fun), " ", "")
		}

		return fun + "(" + strings.Join(args, ",") + ")"
	}

	return strings.ReplaceAll(t.src(e), " ", "")
}

func (t *tr) args(c *ast.CallExpr) []string {
	args := make([]string, len(c.Args))
	for i, a := range c.Args {
		args[i] = t.expr(a)
	}
	if c.Ellipsis.IsValid() && len(args) > 0 {
		args[len(args)-1] += "..."
	}

	return args
}

func lstr(xs []string) string {
	q := make([]string, len(xs))
	for i, x := range xs {
		q[i] = fmt.Sprintf("%q", x)
	}

	return "[" + strings.Join(q, ", ") + "]"
}

// X.M(args) -> (X, M, call)
func (t *tr) sel(e ast.Expr) (string, string, *ast.CallExpr, bool) {
	c, ok := e.(*ast.CallExpr)
	if !ok {
		return "", "", nil, false
	}
	s, ok := c.Fun.(*ast.SelectorExpr)
	if !ok {
		return "", "", nil, false
	}

	return t.expr(s.X), s.Sel.Name, c, true
}

func singleReturn(b *ast.BlockStmt) (*ast.ReturnStmt, bool) {
	if len(b.List) != 1 {
		return nil, false
	}
	r, ok := b.List[0].(*ast.ReturnStmt)

	return r, ok
}

func isIdent(e ast.Expr, name string) bool {
	id, ok := e.(*ast.Ident)

	return ok && id.Name == name
}

func (t *tr) stmts(list []ast.Stmt) []string {
	var out []string
	other := func(s ast.Stmt) { out = append(out, fmt.Sprintf(".other %q", t.src(s))) }
	for i := 0; i < len(list); i++ {
		switch s := list[i].(type) {
		case *ast.IfStmt:
			if s.Init != nil || s.Else != nil {
				other(s)

				continue
			}
			x, m, c, ok := t.sel(s.Cond)
			r, ok2 := singleReturn(s.Body)
			switch {
			case ok && ok2 && m == "Load" && len(c.Args) == 0 && len(r.Results) >= 1 && t.expr(r.Results[len(r.Results)-1]) == "kvstore.ErrStoreClosed":
				var rs []string
				for _, e := range r.Results[:len(r.Results)-1] {
					rs = append(rs, t.expr(e))
				}
				out = append(out, fmt.Sprintf(".closedCheck %q %s", x, lstr(rs)))
			case ok && ok2 && m == "Swap" && len(c.Args) == 1 && t.expr(c.Args[0]) == "true" && len(r.Results) == 1 && isIdent(r.Results[0], "nil"):
				out = append(out, fmt.Sprintf(".swapRetNil %q", x))
			default:
				other(s)
			}
		case *ast.DeferStmt:
			if x, m, c, ok := t.sel(s.Call); ok && len(c.Args) == 0 && (m == "Unlock" || m == "RUnlock") {
				out = append(out, fmt.Sprintf(".deferUnlock %q", x+"."+m))

				continue
			}
			other(s)
		case *ast.ExprStmt:
			if x, m, c, ok := t.sel(s.X); ok {
				switch {
				case len(c.Args) == 0 && (m == "Lock" || m == "RLock"):
					out = append(out, fmt.Sprintf(".lock %q", x+"."+m))
				case x == t.recv+".m":
					out = append(out, fmt.Sprintf(".mapDo %q %s", m, lstr(t.args(c))))
				default:
					other(s)
				}

				continue
			}
			if c, ok := s.X.(*ast.CallExpr); ok && isIdent(c.Fun, "delete") && len(c.Args) == 2 {
				if f := t.expr(c.Args[0]); strings.HasPrefix(f, t.recv+".") {
					out = append(out, fmt.Sprintf(".bmapDelete %q %q", strings.TrimPrefix(f, t.recv+"."), t.expr(c.Args[1])))

					continue
				}
			}
			other(s)
		case *ast.AssignStmt:
			// v, c := s.m.get(args); if !c { return nil, kvstore.ErrKeyNotFound }; return v, nil
			if s.Tok == token.DEFINE && len(s.Lhs) == 2 && len(s.Rhs) == 1 && i+2 < len(list) {
				if x, m, c, ok := t.sel(s.Rhs[0]); ok && x == t.recv+".m" && m == "get" {
					v, cn := t.expr(s.Lhs[0]), t.expr(s.Lhs[1])
					nf, ok1 := list[i+1].(*ast.IfStmt)
					rt, ok2 := list[i+2].(*ast.ReturnStmt)
					if ok1 && ok2 && nf.Init == nil && nf.Else == nil && t.expr(nf.Cond) == "!"+cn && len(rt.Results) == 2 && t.expr(rt.Results[0]) == v && isIdent(rt.Results[1], "nil") {
						if r, ok := singleReturn(nf.Body); ok && len(r.Results) == 2 && isIdent(r.Results[0], "nil") && t.expr(r.Results[1]) == "kvstore.ErrKeyNotFound" {
							out = append(out, fmt.Sprintf(".mapGetOrNotFound %s", lstr(t.args(c))))
							i += 2

							continue
						}
					}
				}
			}
			// c := s.m.has(args); return c, nil
			if s.Tok == token.DEFINE && len(s.Lhs) == 1 && len(s.Rhs) == 1 && i+1 < len(list) {
				if x, m, c, ok := t.sel(s.Rhs[0]); ok && x == t.recv+".m" && m == "has" {
					if rt, ok := list[i+1].(*ast.ReturnStmt); ok && len(rt.Results) == 2 && t.expr(rt.Results[0]) == t.expr(s.Lhs[0]) && isIdent(rt.Results[1], "nil") {
						out = append(out, fmt.Sprintf(".mapHas %s", lstr(t.args(c))))
						i++

						continue
					}
				}
			}
			if len(s.Lhs) == 1 && len(s.Rhs) == 1 {
				switch l := s.Lhs[0].(type) {
				case *ast.Ident:
					if s.Tok == token.DEFINE {
						out = append(out, fmt.Sprintf(".bind %q %q", l.Name, t.expr(s.Rhs[0])))

						continue
					}
				case *ast.IndexExpr:
					if f := t.expr(l.X); s.Tok == token.ASSIGN && strings.HasPrefix(f, t.recv+".") {
						out = append(out, fmt.Sprintf(".bmapSet %q %q %q", strings.TrimPrefix(f, t.recv+"."), t.expr(l.Index), t.expr(s.Rhs[0])))

						continue
					}
				case *ast.SelectorExpr:
					if c, ok := s.Rhs[0].(*ast.CallExpr); ok && s.Tok == token.ASSIGN && isIdent(c.Fun, "make") && t.expr(l.X) == t.recv {
						out = append(out, fmt.Sprintf(".bmapReset %q", l.Sel.Name))

						continue
					}
				}
			}
			other(s)
		case *ast.RangeStmt:
			// for key[, value] := range b.F { err := b.kvStore.M(args); if err != nil { return err } }
			f := t.expr(s.X)
			if strings.HasPrefix(f, t.recv+".") && s.Tok == token.DEFINE && len(s.Body.List) == 2 {
				as, ok1 := s.Body.List[0].(*ast.AssignStmt)
				ck, ok2 := s.Body.List[1].(*ast.IfStmt)
				if ok1 && ok2 && as.Tok == token.DEFINE && len(as.Lhs) == 1 && isIdent(as.Lhs[0], "err") && len(as.Rhs) == 1 &&
					ck.Init == nil && ck.Else == nil && t.expr(ck.Cond) == "err!=nil" {
					if r, ok := singleReturn(ck.Body); ok && len(r.Results) == 1 && isIdent(r.Results[0], "err") {
						if x, m, c, ok := t.sel(as.Rhs[0]); ok && x == t.recv+".kvStore" {
							vars := t.expr(s.Key)
							if s.Value != nil {
								vars += "," + t.expr(s.Value)
							}
							out = append(out, fmt.Sprintf(".rangeApply %q %q %q %s", strings.TrimPrefix(f, t.recv+"."), vars, m, lstr(t.args(c))))

							continue
						}
					}
				}
			}
			other(s)
		case *ast.ReturnStmt:
			out = append(out, t.ret(s))
		default:
			other(s)
		}
	}

	return out
}

func (t *tr) ret(s *ast.ReturnStmt) string {
	other := fmt.Sprintf(".other %q", t.src(s))
	switch len(s.Results) {
	case 1:
		if isIdent(s.Results[0], "nil") {
			return ".retNil"
		}
		if x, m, c, ok := t.sel(s.Results[0]); ok && x == t.recv {
			args := t.args(c)
			if m == "WithRealm" && len(args) == 1 && args[0] == "byteutils.ConcatBytes("+t.recv+".Realm(),$0)" {
				return ".retExtend"
			}

			return fmt.Sprintf(".retSelf %q %s", m, lstr(args))
		}

		return fmt.Sprintf(".retExpr %q", t.expr(s.Results[0]))
	case 2:
		u, ok := s.Results[0].(*ast.UnaryExpr)
		if !ok || !isIdent(s.Results[1], "nil") || u.Op != token.AND {
			return other
		}
		cl, ok := u.X.(*ast.CompositeLit)
		if !ok {
			return other
		}
		var fields []string
		for _, el := range cl.Elts {
			kv, ok := el.(*ast.KeyValueExpr)
			if !ok {
				return other
			}
			key := t.expr(kv.Key)
			if id, ok := kv.Key.(*ast.Ident); ok {
				key = id.Name // a field name, also when a parameter has the same name
			}
			fields = append(fields, fmt.Sprintf("(%q, %q)", key, t.expr(kv.Value)))
		}

		return fmt.Sprintf(".retNew %q [%s]", t.expr(cl.Type), strings.Join(fields, ", "))
	}

	return other
}

func recvOf(fd *ast.FuncDecl) (typ, name string) {
	if fd.Recv == nil || len(fd.Recv.List) == 0 {
		return "", ""
	}
	f := fd.Recv.List[0]
	ty := f.Type
	if s, ok := ty.(*ast.StarExpr); ok {
		ty = s.X
	}
	if id, ok := ty.(*ast.Ident); ok {
		typ = id.Name
	}
	if len(f.Names) > 0 {
		name = f.Names[0].Name
	}

	return typ, name
}

func main() {
	if len(os.Args) < 4 {
		fmt.Fprintln(os.Stderr, "usage: mgen <out.lean> <LeanNamespace> <file.go> ...")
		os.Exit(2)
	}
	var out strings.Builder
	out.WriteString("import Hive.Model.KVMapSrc\n/-! GENERATED by harness/c04/mgen — the method bodies of kvstore/mapdb/mapdb.go, translated; do not edit. -/\n")
	out.WriteString("namespace " + os.Args[2] + "\nopen Hive.KV.MapSrc\n")
	for _, path := range os.Args[3:] {
		fset := token.NewFileSet()
		file, err := parser.ParseFile(fset, path, nil, 0)
		if err != nil {
			fmt.Fprintln(os.Stderr, err)
			os.Exit(1)
		}
		pkg := filepath.Base(filepath.Dir(path))
		n := 0
		for _, d := range file.Decls {
			fd, ok := d.(*ast.FuncDecl)
			if !ok || fd.Body == nil {
				continue
			}
			n++
			typ, rname := recvOf(fd)
			t := &tr{fset: fset, params: map[string]int{}, recv: rname}
			idx := 0
			for _, f := range fd.Type.Params.List {
				for _, nm := range f.Names {
					t.params[nm.Name] = idx
					idx++
				}
				if len(f.Names) == 0 {
					idx++
				}
			}
			if typ == "" {
				fmt.Fprintf(&out, "\n/-- %s.%s (%s:%d), source text -/\ndef text_%s_%s : String :=\n  %q\n", pkg, fd.Name.Name, filepath.Base(path),
					fset.Position(fd.Pos()).Line, pkg, fd.Name.Name, t.src(fd.Body))

				continue
			}
			fmt.Fprintf(&out, "\n/-- %s.%s.%s (%s:%d) -/\ndef src_%s_%s_%s : List MStmt := [", pkg, typ, fd.Name.Name, filepath.Base(path),
				fset.Position(fd.Pos()).Line, pkg, typ, fd.Name.Name)
			for i, s := range t.stmts(fd.Body.List) {
				if i > 0 {
					out.WriteString(",")
				}
				out.WriteString("\n  " + s)
			}
			out.WriteString("]\n")
		}
		if n == 0 {
			fmt.Fprintln(os.Stderr, "no function in", path)
			os.Exit(1)
		}
	}
	out.WriteString("\nend " + os.Args[2] + "\n")
	if err := os.WriteFile(os.Args[1], []byte(out.String()), 0o644); err != nil {
		fmt.Fprintln(os.Stderr, err)
		os.Exit(1)
	}
}
