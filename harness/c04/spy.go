package main

// What the wrappers forward.  A recording store (spyStore) installed between the wrappers and mapdb notes every call that
// reaches it, with its arguments, in order; the debug wrappers get recording callbacks.  The trace of every request is
// printed behind its answer (` ; ev ev …`) and must be reproduced by the Lean model Hive/Model/KVTrace.lean (which mirrors the
// wrappers' code recursively); independently of Lean it is compared with the normal form computed by traceOracle:
// callbacks of the debug layers that have a callback and the command's bit, outermost first, then the call itself, then -
// for a mutation that succeeded - one Flush per flushkv layer.

import (
	"strconv"
	"strings"

	"verifharness/hx"

	"github.com/iotaledger/hive.go/kvstore"
	"github.com/iotaledger/hive.go/kvstore/debug"
)

// wrapCfg is one layer of a wrapper stack: flushkv.New, or debug.New with its filter and callback.
type wrapCfg struct {
	flush  bool
	filter int
	cb     bool
	given  []int // the filter arguments of debug.New (nil: none)
}

const allCommands = 255

// parseCfg: "f" | "d" (debug.New(s, cb)) | "dn" (debug.New(s, nil)) | "dN1,N2,…" (debug.New(s, cb, N1, N2, …)).
func parseCfg(tok string) wrapCfg {
	switch {
	case tok == "f":
		return wrapCfg{flush: true}
	case tok == "d":
		return wrapCfg{filter: allCommands, cb: true}
	case tok == "dn":
		return wrapCfg{filter: allCommands}
	}
	c := wrapCfg{cb: true, given: []int{}}
	for _, n := range strings.Split(tok[1:], ",") {
		c.given = append(c.given, atoi(n))
		c.filter |= atoi(n)
	}

	return c
}

var commandNames = map[debug.Command]string{}

func init() {
	for c, n := range debug.CommandNames {
		commandNames[c] = n
	}
}

func evString(name string, args ...[]byte) string {
	var sb strings.Builder
	sb.WriteString(name)
	for _, a := range args {
		sb.WriteByte(':')
		sb.WriteString(hx.Hex(a))
	}

	return sb.String()
}

func dirString(dirs []kvstore.IterDirection) string {
	toks := make([]string, len(dirs))
	for i, d := range dirs {
		toks[i] = strconv.Itoa(int(d))
	}

	return ":d" + strings.Join(toks, ",")
}

// newDebug wraps p in a debug store configured by c whose callback records into w.
func (w *world) newDebug(p kvstore.KVStore, c wrapCfg) kvstore.KVStore {
	var cb debug.AccessCallback
	if c.cb {
		cb = func(cmd debug.Command, params ...[]byte) {
			w.cbCalls++
			name, ok := commandNames[cmd]
			if !ok {
				name = "cmd" + strconv.Itoa(int(cmd))
			}
			w.events = append(w.events, evString("cb"+strconv.Itoa(c.filter)+":"+name, params...))
		}
	}
	if c.given == nil {
		return debug.New(p, cb)
	}
	filter := make([]debug.Command, len(c.given))
	for i, n := range c.given {
		filter[i] = debug.Command(n)
	}

	return debug.New(p, cb, filter...)
}

// ---------------------------------------------------------------------------------------------
// the recording store: forwards everything unchanged (the very same slices)

type spyStore struct {
	inner kvstore.KVStore
	w     *world
}

func (s *spyStore) ev(name string, args ...[]byte) { s.w.events = append(s.w.events, evString(name, args...)) }

func (s *spyStore) WithRealm(realm kvstore.Realm) (kvstore.KVStore, error) {
	s.ev("WithRealm", realm)
	in, err := s.inner.WithRealm(realm)
	if err != nil {
		return nil, err
	}

	return &spyStore{inner: in, w: s.w}, nil
}

func (s *spyStore) WithExtendedRealm(realm kvstore.Realm) (kvstore.KVStore, error) {
	s.ev("WithExtendedRealm", realm)
	in, err := s.inner.WithExtendedRealm(realm)
	if err != nil {
		return nil, err
	}

	return &spyStore{inner: in, w: s.w}, nil
}

func (s *spyStore) Realm() kvstore.Realm {
	s.ev("Realm")

	return s.inner.Realm()
}

func (s *spyStore) Iterate(prefix kvstore.KeyPrefix, c kvstore.IteratorKeyValueConsumerFunc, dirs ...kvstore.IterDirection) error {
	s.w.events = append(s.w.events, evString("Iterate", prefix)+dirString(dirs))

	return s.inner.Iterate(prefix, c, dirs...)
}

func (s *spyStore) IterateKeys(prefix kvstore.KeyPrefix, c kvstore.IteratorKeyConsumerFunc, dirs ...kvstore.IterDirection) error {
	s.w.events = append(s.w.events, evString("IterateKeys", prefix)+dirString(dirs))

	return s.inner.IterateKeys(prefix, c, dirs...)
}

func (s *spyStore) Clear() error {
	s.ev("Clear")

	return s.inner.Clear()
}

func (s *spyStore) Get(key kvstore.Key) (kvstore.Value, error) {
	s.ev("Get", key)

	return s.inner.Get(key)
}

func (s *spyStore) Set(key kvstore.Key, value kvstore.Value) error {
	s.ev("Set", key, value)

	return s.inner.Set(key, value)
}

func (s *spyStore) Has(key kvstore.Key) (bool, error) {
	s.ev("Has", key)

	return s.inner.Has(key)
}

func (s *spyStore) Delete(key kvstore.Key) error {
	s.ev("Delete", key)

	return s.inner.Delete(key)
}

func (s *spyStore) DeletePrefix(prefix kvstore.KeyPrefix) error {
	s.ev("DeletePrefix", prefix)

	return s.inner.DeletePrefix(prefix)
}

// Flush forwards; while the fault is armed, a Flush that succeeded is reported as failed with an error that is not
// ErrStoreClosed (kvstore.ErrKeyNotFound, printed "notfound").
func (s *spyStore) Flush() error {
	s.ev("Flush")
	err := s.inner.Flush()
	if err == nil && s.w.armed {
		return kvstore.ErrKeyNotFound
	}

	return err
}

func (s *spyStore) Close() error {
	s.ev("Close")

	return s.inner.Close()
}

func (s *spyStore) Batched() (kvstore.BatchedMutations, error) {
	s.ev("Batched")
	b, err := s.inner.Batched()
	if err != nil {
		return nil, err
	}

	return &spyBatch{inner: b, w: s.w}, nil
}

type spyBatch struct {
	inner kvstore.BatchedMutations
	w     *world
}

func (b *spyBatch) Set(key kvstore.Key, value kvstore.Value) error {
	b.w.events = append(b.w.events, evString("bSet", key, value))

	return b.inner.Set(key, value)
}

func (b *spyBatch) Delete(key kvstore.Key) error {
	b.w.events = append(b.w.events, evString("bDelete", key))

	return b.inner.Delete(key)
}

func (b *spyBatch) Cancel() {
	b.w.events = append(b.w.events, "bCancel")
	b.inner.Cancel()
}

func (b *spyBatch) Commit() error {
	b.w.events = append(b.w.events, "bCommit")

	return b.inner.Commit()
}

var _ kvstore.KVStore = &spyStore{}
var _ kvstore.BatchedMutations = &spyBatch{}

// ---------------------------------------------------------------------------------------------
// the oracle's side: the normal form of a trace

const (
	cmdIterate = 1 << iota
	cmdIterateKeys
	cmdClear
	cmdGet
	cmdSet
	cmdHas
	cmdDelete
	cmdDeletePrefix
)

func cbsOf(stack []wrapCfg, cmd int, name string, args ...[]byte) []string {
	var out []string
	for _, c := range stack {
		if !c.flush && c.cb && c.filter&cmd != 0 {
			out = append(out, evString("cb"+strconv.Itoa(c.filter)+":"+name, args...))
		}
	}

	return out
}

func flushes(stack []wrapCfg) []string {
	var out []string
	for _, c := range stack {
		if c.flush {
			out = append(out, "Flush")
		}
	}

	return out
}

// flushesOf: the Flush calls behind a mutation that succeeded - one per flushkv layer; with the fault armed the first one
// fails, and the layers above it see an error and do not flush.
func (o *oracle) flushesOf(stack []wrapCfg) []string {
	fl := flushes(stack)
	if o.armed && len(fl) > 1 {
		return fl[:1]
	}

	return fl
}

// expectTrace: what must have been forwarded for request f, given the oracle's state BEFORE the request.
func (o *oracle) expectTrace(f []string) []string {
	num := func(i int) int { n, _ := strconv.Atoi(f[i]); return n }
	bs := func(i int) []byte { return unhexTok(f[i]) }
	switch f[0] {
	case "spy", "wrap", "arm", "disarm":
		return nil
	case "view":
		st, ok := o.stacks[num(2)]
		if !ok {
			return nil
		}
		switch {
		case f[4] != "ext":
			return []string{evString("WithRealm", bs(3))}
		case len(st) == 0:
			return []string{evString("WithExtendedRealm", bs(3))}
		default:
			return []string{"Realm", evString("WithRealm", append([]byte(o.realms[num(2)]), bs(3)...))}
		}
	case "bset", "bdel", "commit", "commitf", "cancel":
		st, ok := o.bstacks[num(1)]
		if !ok {
			return nil
		}
		switch f[0] {
		case "bset":
			return append(cbsOf(st, cmdSet, "Set", bs(2), bs(3)), evString("bSet", bs(2), bs(3)))
		case "bdel":
			return append(cbsOf(st, cmdDelete, "Delete", bs(2)), evString("bDelete", bs(2)))
		case "cancel":
			return []string{"bCancel"}
		default:
			if o.closed {
				return []string{"bCommit"}
			}

			return append([]string{"bCommit"}, o.flushesOf(st)...)
		}
	}
	hIdx := 1
	if f[0] == "batch" {
		hIdx = 2
	}
	st, ok := o.stacks[num(hIdx)]
	if !ok {
		return nil
	}
	mut := func(cmd int, name string, args ...[]byte) []string {
		out := append(cbsOf(st, cmd, name, args...), evString(name, args...))
		if !o.closed {
			out = append(out, o.flushesOf(st)...)
		}

		return out
	}
	switch f[0] {
	case "batch":
		return []string{"Batched"}
	case "realm":
		return []string{"Realm"}
	case "flush":
		return []string{"Flush"}
	case "close":
		return []string{"Close"}
	case "get":
		return append(cbsOf(st, cmdGet, "Get", bs(2)), evString("Get", bs(2)))
	case "has":
		return append(cbsOf(st, cmdHas, "Has", bs(2)), evString("Has", bs(2)))
	case "set":
		return mut(cmdSet, "Set", bs(2), bs(3))
	case "del":
		return mut(cmdDelete, "Delete", bs(2))
	case "delp":
		return mut(cmdDeletePrefix, "DeletePrefix", bs(2))
	case "clear":
		return mut(cmdClear, "Clear")
	case "iter", "iterc":
		out := append(cbsOf(st, cmdIterate, "Iterate", bs(2)), evString("Iterate", bs(2))+dirString(dirArgs(f[3])))
		if f[0] == "iterc" && !o.closed && o.rangeOf(o.realms[num(1)]+string(bs(2)), 0, false, 0, true) != "keys" {
			out = append(out, mut(cmdClear, "Clear")...)
		}

		return out
	case "iterk":
		return append(cbsOf(st, cmdIterateKeys, "IterateKeys", bs(2)), evString("IterateKeys", bs(2))+dirString(dirArgs(f[3])))
	}

	return nil
}

func joinEvents(evs []string) string {
	var sb strings.Builder
	for _, e := range evs {
		sb.WriteString(" " + e)
	}

	return sb.String()
}

var batchingCalls = map[string]bool{"Batched": true, "bSet": true, "bCommit": true, "bCancel": true, "Flush": true, "Set": true}

// callKinds: the names of the calls that matter for the structure of a copy, in order (callbacks, reads and arguments dropped).
func callKinds(evs []string) []string {
	var out []string
	for _, e := range evs {
		name := e
		if i := strings.IndexByte(e, ':'); i >= 0 {
			name = e[:i]
		}
		if batchingCalls[name] {
			out = append(out, name)
		}
	}

	return out
}

// expectCopyCalls: the calls a Copy / CopyBatched makes on its target (see callKinds) when the handles exist and no fault is
// armed - open stores and the early returns on a closed source / target; nil otherwise (compared with the Lean trace model only).
func expectCopyCalls(o [2]*oracle, f []string) []string {
	so, do := o[treeOf(f[1])], o[treeOf(f[3])]
	rs, ok1 := so.realms[atoi(f[2])]
	_, ok2 := do.realms[atoi(f[4])]
	if !ok1 || !ok2 || do.armed {
		return nil
	}
	size := 0
	for k := range so.m {
		if strings.HasPrefix(k, rs) {
			size++
		}
	}
	switch {
	case do.closed && f[0] == "copyb":
		return []string{"Batched"} // refused: nothing else happens, the source is not even iterated
	case so.closed && f[0] == "copyb":
		return []string{"Batched", "bCancel"}
	case so.closed:
		return []string{} // Iterate fails: no Set, no Flush
	case do.closed && size > 0:
		return []string{"Set"} // the first Set is refused: no further Set, no Flush
	case do.closed:
		return []string{"Flush"}
	}
	fl := flushes(do.stacks[atoi(f[4])])
	var out []string
	if f[0] == "copy" {
		for i := 0; i < size; i++ {
			out = append(append(out, "Set"), fl...)
		}

		return append(out, "Flush")
	}
	n := effBatch(f[5])
	out = append(out, "Batched")
	for i := 1; i <= size; i++ {
		out = append(out, "bSet")
		if n != 0 && i%n == 0 {
			out = append(append(append(out, "bCommit"), fl...), "Batched")
		}
	}

	return append(append(append(out, "bCommit"), fl...), "Flush")
}
