// The memory stream of the C04 harness: `m …` requests.  The caller's byte slices are first-class here: every slice that
// is passed to the store (key, prefix, realm, value) is a numbered BUFFER the harness holds, every slice the store hands
// out (Get, Realm, the key and value slices of Iterate / IterateKeys) becomes a numbered buffer, too, and the harness
// overwrites buffers at any time (`m write N HEX`) - between batch Set and Commit, after WithRealm, after a read - and
// reuses one buffer for many calls.  The Lean model Hive/Model/KVMem.lean (mapdb with references: which slices are kept,
// which are copied) must reproduce every answer, including the places where the code keeps the caller's slice (the realm of
// WithRealm, the value slices of a batch until Commit).  Independently of Lean, the oracle checks the stated clause:
//   - a caller's write never changes the stored data (dump before = dump after);
//   - no buffer the caller holds ever changes except by the caller's own write (so: the store does not write into caller
//     buffers, and no two buffers it handed out share memory), spare capacity included;
//   - a batch applies, on Commit, the last operation per key with the keys AS THEY READ WHEN Set / Delete WAS CALLED.
package main

import (
	"bytes"
	"crypto/sha256"
	"fmt"
	"sort"
	"strconv"
	"strings"

	"verifharness/hx"

	"github.com/iotaledger/hive.go/kvstore"
	"github.com/iotaledger/hive.go/kvstore/debug"
	"github.com/iotaledger/hive.go/kvstore/flushkv"
	"github.com/iotaledger/hive.go/kvstore/mapdb"
)

type memBatch struct {
	bm   kvstore.BatchedMutations
	view int
	last map[string]memLast // key bytes at call time -> the last call for that key
}

type memLast struct {
	buf    int    // buffer number of the value of a Set, -1 = Delete
	atCall []byte // what the value buffer read when Set was called
}

type memFail struct{ oracle, detail, op string }

type memWorld struct {
	root    kvstore.KVStore // bare mapdb: the oracle's own window onto the stored data
	views   map[int]kvstore.KVStore
	batches map[int]*memBatch
	bufs    [][]byte
	shadow  [][]byte
	passed  map[int]bool // buffers that were passed to the store at least once
	own     map[int]bool // buffers the harness made itself (with sentinel-filled spare capacity)
	asRealm map[int]bool // buffers passed to WithRealm (the view keeps the slice)
	asBKey  map[int]bool // buffers passed as the key of a batch Set / Delete that is still pending
	asBVal  map[int]bool // buffers passed as the value of a batch Set that is still pending
	fails   []memFail
	counts  map[string]int
	writes  int
	bigIter bool
}

func newMemWorld(stack string) *memWorld {
	root := mapdb.NewMapDB()
	top := root
	for i := len(stack) - 1; i >= 0; i-- {
		switch stack[i] {
		case 'f':
			top = flushkv.New(top)
		case 'd':
			top = debug.New(top, func(debug.Command, ...[]byte) {})
		case 'n':
			top = debug.New(top, nil)
		}
	}

	return &memWorld{root: root, views: map[int]kvstore.KVStore{0: top}, batches: map[int]*memBatch{}, passed: map[int]bool{}, own: map[int]bool{}, asRealm: map[int]bool{}, asBKey: map[int]bool{}, asBVal: map[int]bool{}, counts: map[string]int{}}
}

func (w *memWorld) hold(b []byte) int {
	w.bufs = append(w.bufs, b)
	w.shadow = append(w.shadow, append([]byte{}, b...))

	return len(w.bufs) - 1
}

// dump reads the stored data through the bare root store (the buffers it gets are forgotten).
func (w *memWorld) dump() string {
	type kv struct{ k, s string }
	var l []kv
	_ = w.root.Iterate(kvstore.EmptyPrefix, func(k kvstore.Key, v kvstore.Value) bool {
		l = append(l, kv{string(k), hx.Hex(k) + ":" + hx.Hex(v)})

		return true
	})
	sort.Slice(l, func(i, j int) bool { return l[i].k < l[j].k })
	var sb strings.Builder
	sb.WriteString("dump")
	for _, e := range l {
		sb.WriteString(" " + e.s)
	}

	return sb.String()
}

// checkShadows: every buffer the caller holds reads what the caller last put there / what it read when it was handed out.
func (w *memWorld) checkShadows(op string) {
	for i, b := range w.bufs {
		if !bytes.Equal(b, w.shadow[i]) {
			w.fails = append(w.fails, memFail{"caller-buffer-changed", fmt.Sprintf("after `%s` buffer %d reads %s, the caller left it as %s",
				op, i, hx.Hex(b), hx.Hex(w.shadow[i])), strings.Fields(op)[1]})
			w.shadow[i] = append([]byte{}, b...)
		}
		if w.own[i] && b != nil && !spareIntact(b) {
			w.fails = append(w.fails, memFail{"caller-buffer-changed", fmt.Sprintf("after `%s` the spare capacity of buffer %d was written", op, i), strings.Fields(op)[1]})
			full := b[:cap(b)]
			for j := len(b); j < len(full); j++ {
				full[j] = 0xc3
			}
		}
	}
}

func (w *memWorld) exec(line string) string {
	f := strings.Fields(line)[1:]
	num := func(i int) int { n, _ := strconv.Atoi(f[i]); return n }
	bad := false
	arg := func(i int) []byte {
		n := num(i)
		if n < 0 || n >= len(w.bufs) {
			bad = true

			return nil
		}
		w.passed[n] = true

		return w.bufs[n]
	}
	ans := func() string {
		switch f[0] {
		case "alloc":
			var b []byte
			if f[1] != "~" {
				b = withSpare(hx.UnHex(f[1]), 4)
			}
			n := w.hold(b)
			w.own[n] = true

			return fmt.Sprintf("buf %d %s", n, hx.Hex(b))
		case "write":
			b := arg(1)
			nb := hx.UnHex(f[2])
			if bad || len(nb) != len(b) {
				return "bad-op"
			}
			switch n := num(1); {
			case w.asRealm[n]:
				w.counts["mem-write:realm-buffer-kept-by-a-WithRealm-view"]++
			case w.asBVal[n]:
				w.counts["mem-write:value-buffer-of-a-pending-batch-Set"]++
			case w.asBKey[n]:
				w.counts["mem-write:key-buffer-of-a-pending-batch-call"]++
			case !w.own[n]:
				w.counts["mem-write:buffer-handed-out-by-the-store"]++
			case w.passed[n]:
				w.counts["mem-write:buffer-passed-to-the-store-before"]++
			default:
				w.counts["mem-write:other"]++
			}
			before := w.dump()
			copy(b, nb)
			copy(w.shadow[num(1)], nb)
			w.writes++
			if after := w.dump(); after != before {
				w.fails = append(w.fails, memFail{"caller-write-changed-stored-data", fmt.Sprintf("`%s`: stored data before: %s, after: %s", line, before, after), "write"})
			}

			return "ok"
		case "peek":
			b := arg(1)
			if bad {
				return "bad-op"
			}

			return "bytes " + hx.Hex(b)
		case "dump":
			return w.dump()
		case "view":
			p, ok := w.views[num(2)]
			r := arg(3)
			if !ok || bad {
				return "bad"
			}
			var nv kvstore.KVStore
			var err error
			if f[4] == "ext" {
				nv, err = p.WithExtendedRealm(r)
			} else {
				nv, err = p.WithRealm(r)
				w.asRealm[num(3)] = true
			}
			if err != nil {
				return errAns(err)
			}
			w.views[num(1)] = nv

			return "ok"
		case "batch":
			v, ok := w.views[num(2)]
			if !ok {
				return "bad"
			}
			bm, err := v.Batched()
			if err != nil {
				return errAns(err)
			}
			w.batches[num(1)] = &memBatch{bm: bm, view: num(2), last: map[string]memLast{}}

			return "ok"
		case "bset", "bdel", "commit", "cancel":
			b, ok := w.batches[num(1)]
			if !ok {
				return "bad"
			}
			switch f[0] {
			case "bset":
				k, v := arg(2), arg(3)
				if bad {
					return "bad"
				}
				b.last[string(k)] = memLast{num(3), append([]byte{}, v...)}
				w.asBKey[num(2)], w.asBVal[num(3)] = true, true

				return errAns(b.bm.Set(k, v))
			case "bdel":
				k := arg(2)
				if bad {
					return "bad"
				}
				b.last[string(k)] = memLast{buf: -1}
				w.asBKey[num(2)] = true

				return errAns(b.bm.Delete(k))
			case "cancel":
				b.bm.Cancel()
				b.last = map[string]memLast{}

				return "ok"
			default:
				// what the batch has to write: per key as it read when Set / Delete was called, the last call; the values as their
				// buffers read now (the batch keeps the caller's value slices until Commit - not a stated matter), under the realm the
				// view reports now
				realm := w.views[b.view].Realm()
				type want struct {
					fk       string
					val, alt []byte
					del      bool
				}
				var wants []want
				for k, n := range b.last {
					if n.buf < 0 {
						wants = append(wants, want{fk: string(realm) + k, del: true})
					} else {
						wants = append(wants, want{fk: string(realm) + k, val: append([]byte{}, w.bufs[n.buf]...), alt: n.atCall})
					}
				}
				err := b.bm.Commit()
				if err == nil {
					for _, x := range wants {
						got, gerr := w.root.Get([]byte(x.fk))
						switch {
						case x.del && gerr == nil:
							w.fails = append(w.fails, memFail{"batch-commit-contract", fmt.Sprintf("`%s`: the last call for key %s was Delete, the key is there after Commit", line, hx.Hex([]byte(x.fk))), "commit"})
						case !x.del && (gerr != nil || (!bytes.Equal(got, x.val) && !bytes.Equal(got, x.alt))):
							w.fails = append(w.fails, memFail{"batch-commit-contract", fmt.Sprintf("`%s`: the last call for key %s was Set(%s), after Commit Get gives %s / %v",
								line, hx.Hex([]byte(x.fk)), hx.Hex(x.val), hx.Hex(got), gerr), "commit"})
						}
					}
				}

				return errAns(err)
			}
		}
		v, ok := w.views[num(1)]
		if !ok {
			return "bad"
		}
		switch f[0] {
		case "realm":
			r := v.Realm()

			return fmt.Sprintf("buf %d %s", w.hold(r), hx.Hex(r))
		case "get":
			k := arg(2)
			if bad {
				return "bad"
			}
			val, err := v.Get(k)
			if err != nil {
				return errAns(err)
			}

			return fmt.Sprintf("buf %d %s", w.hold(val), hx.Hex(val))
		case "has":
			k := arg(2)
			if bad {
				return "bad"
			}
			has, err := v.Has(k)
			if err != nil {
				return errAns(err)
			}

			return strconv.FormatBool(has)
		case "set":
			k, val := arg(2), arg(3)
			if bad {
				return "bad"
			}

			return errAns(v.Set(k, val))
		case "del":
			k := arg(2)
			if bad {
				return "bad"
			}

			return errAns(v.Delete(k))
		case "delp":
			p := arg(2)
			if bad {
				return "bad"
			}

			return errAns(v.DeletePrefix(p))
		case "iter":
			p := arg(2)
			if bad {
				return "bad"
			}
			first := len(w.bufs)
			var sb strings.Builder
			n := 0
			err := v.Iterate(p, func(k kvstore.Key, val kvstore.Value) bool {
				w.hold(k)
				w.hold(val)
				n++
				sb.WriteString(" " + hx.Hex(k) + ":" + hx.Hex(val))

				return true
			}, dirArgs(f[3])...)
			if err != nil {
				return errAns(err)
			}
			w.bigIter = w.bigIter || n >= 2

			return fmt.Sprintf("kvs@%d%s", first, sb.String())
		case "iterk":
			p := arg(2)
			if bad {
				return "bad"
			}
			first := len(w.bufs)
			var sb strings.Builder
			err := v.IterateKeys(p, func(k kvstore.Key) bool {
				w.hold(k)
				sb.WriteString(" " + hx.Hex(k))

				return true
			}, dirArgs(f[3])...)
			if err != nil {
				return errAns(err)
			}

			return fmt.Sprintf("keys@%d%s", first, sb.String())
		}

		return "bad-op"
	}()
	w.checkShadows(line)

	return ans
}

// gen produces the next request from the world's present state (the number and the lengths of the buffers held).
func (w *memWorld) gen(rng *hx.Rng, nextHandle *int) string {
	content := func(maxLen int, alpha []byte) string {
		// half of the time the bytes of a buffer that exists already: equal keys in distinct buffers
		if len(w.bufs) > 0 && rng.Bool() {
			if b := w.bufs[rng.Intn(len(w.bufs))]; len(b) <= maxLen {
				if b == nil && rng.Bool() {
					return "~"
				}

				return hx.Hex(b)
			}
		}
		s := genBytes(rng, maxLen, alpha)
		if s == "-" && rng.Chance(1, 3) {
			return "~"
		}

		return s
	}
	if len(w.bufs) < 2 {
		return "m alloc " + content(2, alphabet)
	}
	buf := func() int { // prefer the recent buffers; any buffer may serve as any argument
		if rng.Chance(2, 3) {
			return len(w.bufs) - 1 - rng.Intn(min(6, len(w.bufs)))
		}

		return rng.Intn(len(w.bufs))
	}
	keyBuf := func() int { // a short buffer (keys, prefixes, realms)
		for try := 0; try < 6; try++ {
			if n := buf(); len(w.bufs[n]) <= 3 {
				return n
			}
		}

		return buf()
	}
	handles := func(m map[int]kvstore.KVStore) []int {
		var hs []int
		for h := range m {
			hs = append(hs, h)
		}
		sort.Ints(hs)

		return hs
	}
	view := func() int { return hx.Pick(rng, handles(w.views)) }
	var bhs []int
	for h := range w.batches {
		bhs = append(bhs, h)
	}
	sort.Ints(bhs)
	dir := func() string { return hx.Pick(rng, []string{"fwd", "bwd"}) }
	switch x := rng.Intn(1000); {
	case x < 170:
		if rng.Chance(1, 3) {
			return "m alloc " + content(4, valAlphabet)
		}

		return "m alloc " + content(3, alphabet)
	case x < 330:
		// overwrite a buffer: mostly one that was passed to the store or came from it
		for try := 0; try < 8; try++ {
			n := buf()
			if len(w.bufs[n]) == 0 || (try < 4 && !w.passed[n] && rng.Bool()) {
				continue
			}
			nb := make([]byte, len(w.bufs[n]))
			for i := range nb {
				nb[i] = hx.Pick(rng, alphabet)
			}
			// or the bytes of another buffer of the same length (so that a reused key buffer spells an existing key)
			if o := buf(); len(w.bufs[o]) == len(nb) && rng.Bool() {
				copy(nb, w.bufs[o])
			}

			return fmt.Sprintf("m write %d %s", n, hx.Hex(nb))
		}

		return "m alloc " + content(3, alphabet)
	case x < 390:
		if len(w.views) >= 5 {
			return fmt.Sprintf("m realm %d", view())
		}
		*nextHandle++
		mode := "ext"
		if rng.Bool() {
			mode = "abs"
		}

		return fmt.Sprintf("m view %d %d %d %s", *nextHandle, view(), keyBuf(), mode)
	case x < 410:
		return fmt.Sprintf("m realm %d", view())
	case x < 530:
		return fmt.Sprintf("m set %d %d %d", view(), keyBuf(), buf())
	case x < 590:
		return fmt.Sprintf("m get %d %d", view(), keyBuf())
	case x < 620:
		return fmt.Sprintf("m has %d %d", view(), keyBuf())
	case x < 650:
		return fmt.Sprintf("m del %d %d", view(), keyBuf())
	case x < 665:
		return fmt.Sprintf("m delp %d %d", view(), keyBuf())
	case x < 730:
		return fmt.Sprintf("m iter %d %d %s", view(), keyBuf(), dir())
	case x < 780:
		return fmt.Sprintf("m iterk %d %d %s", view(), keyBuf(), dir())
	case x < 815:
		if len(bhs) >= 3 {
			return fmt.Sprintf("m commit %d", hx.Pick(rng, bhs))
		}
		*nextHandle++

		return fmt.Sprintf("m batch %d %d", *nextHandle, view())
	case x < 960:
		if len(bhs) == 0 {
			*nextHandle++

			return fmt.Sprintf("m batch %d %d", *nextHandle, view())
		}
		b := hx.Pick(rng, bhs)
		switch y := rng.Intn(100); {
		case y < 50:
			return fmt.Sprintf("m bset %d %d %d", b, keyBuf(), buf())
		case y < 70:
			return fmt.Sprintf("m bdel %d %d", b, keyBuf())
		case y < 93:
			return fmt.Sprintf("m commit %d", b)
		default:
			return fmt.Sprintf("m cancel %d", b)
		}
	case x < 980:
		return fmt.Sprintf("m peek %d", buf())
	default:
		return "m dump"
	}
}

var memStacks = []string{"", "", "f", "d", "fd", "df", "n", "fn"}

// runMemCase: a generated history of the memory stream (lines == nil) or a replay of recorded lines.  The wrapper stack over
// the root is the first line (`m stack STACK`, answered `ok` by both sides: the memory model is mapdb's, the wrappers forward
// the very same slices).
func runMemCase(r *hx.Run, sub uint64, rng *hx.Rng, lines []string) {
	r.Case(sub)
	stack := ""
	if lines != nil {
		if f := strings.Fields(lines[0]); len(f) == 3 && f[1] == "stack" {
			stack = strings.Trim(f[2], ".")
		}
	} else {
		stack = hx.Pick(rng, memStacks)
	}
	w := newMemWorld(stack)
	reported := 0
	emit := func(line string) {
		var ans string
		if strings.HasPrefix(line, "m stack") {
			ans = "ok"
		} else if p := hx.Safely(func() { ans = w.exec(line) }); p != "" {
			ans = "panic"
			w.fails = append(w.fails, memFail{"panic", line + ": " + p, strings.Fields(line)[1]})
		}
		r.Line(line, ans)
		r.Count("mem-op:" + strings.Fields(line)[1])
		for ; reported < len(w.fails); reported++ {
			fl := w.fails[reported]
			r.Fail(fl.oracle, fl.detail+fmt.Sprintf("; history: %v", r.CaseLines()), map[string]string{"stream": "memory", "oracle": fl.oracle, "op": fl.op})
		}
	}
	if lines != nil {
		for _, l := range lines {
			emit(l)
		}
	} else {
		emit("m stack " + stack + ".")
		next := 0
		for i := 0; i < 70; i++ {
			emit(w.gen(rng, &next))
		}
		emit("m dump")
		for i := range w.bufs {
			if i%3 == 0 {
				emit(fmt.Sprintf("m peek %d", i))
			}
		}
	}
	for k, n := range w.counts {
		r.CountN(k, n)
	}
	r.Count("mem-case:stack=" + stack + ".")
	r.CountN("mem-buffers-held", len(w.bufs))
	r.CountN("mem-caller-writes", w.writes)
	if w.writes >= 3 && w.bigIter {
		h := sha256.Sum256([]byte(strings.Join(r.CaseLines(), "\n")))
		r.Nontrivial("mem:" + hx.Hex(h[:8]))
	}
	r.Sample(r.CaseLines())
}

// memCorpus: hand-written histories of the memory stream.
var memCorpus = [][]string{
	// one key buffer reused for every call of a batch (the usual loop): the batch keeps private copies of its keys
	{"m stack .", "m alloc 6b30", "m alloc 01", "m batch 1 0", "m bset 1 0 1", "m write 0 6b31", "m bset 1 0 1", "m write 0 6b32", "m bdel 1 0",
		"m write 0 ffff", "m commit 1", "m dump", "m write 1 02", "m dump", "m commit 1", "m dump"},
	// WithRealm keeps the caller's realm slice (the view moves when the buffer is overwritten), WithExtendedRealm and Realm() copy
	{"m stack fd.", "m alloc 01", "m alloc aa", "m alloc 07", "m view 1 0 0 abs", "m view 2 1 0 ext", "m set 1 1 2", "m set 2 1 2", "m dump",
		"m write 0 02", "m realm 1", "m realm 2", "m set 1 1 2", "m set 2 1 2", "m dump", "m get 1 1", "m write 5 ff", "m get 1 1", "m iter 0 0 fwd",
		"m iterk 0 0 bwd", "m write 7 ffff", "m write 8 ee", "m dump", "m peek 9", "m peek 0"},
	// keys and values handed out by the iterations are buffers of their own: overwriting one changes neither the store nor the others
	{"m stack .", "m alloc ~", "m alloc 0101", "m alloc 01", "m alloc 0a0b", "m set 0 1 3", "m set 0 2 3", "m set 0 0 0", "m iter 0 0 fwd",
		"m write 6 ff", "m write 8 fefe", "m write 9 dddd", "m peek 6", "m peek 8", "m peek 9", "m iterk 0 2 bwd", "m write 10 00ff", "m peek 11", "m dump",
		"m batch 1 0", "m bset 1 6 9", "m write 9 1111", "m commit 1", "m write 9 2222", "m dump", "m delp 0 2", "m dump"},
}
