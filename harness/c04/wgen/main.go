// wgen translates the bodies of the methods of the kvstore wrappers (flushkv.go, debug.go) into a small statement language
// and prints them as a Lean module: one `def src_<pkg>_<Recv>_<Method> : List WStmt` per method (Hive/Model/KVWrapSrc.lean
// defines WStmt and its interpreter).  The wrapper model of the C04 check (Hive/Model/KVTrace.lean) is proved to be the
// interpretation of these terms (Hive/Props/C04.lean, C04_wrapper_model_is_the_source_*), so the model of the wrappers is
// derived from the working tree on every run.
//
//	wgen <out.lean> <LeanNamespace> <file.go> ...
//
// Statement forms (anything else becomes `.other "<source>"`, which no theorem accepts):
//
//	if R.accessCallback != nil && R.accessCallbackCommandsFilter.HasBits(C) { R.accessCallback(C, args...) }  -> .guardCb R C [args]
//	if err := R.M(args); err != nil { return err }                                                            -> .tryCall "" R M [args]
//	x, err := R.M(args); if err != nil { return nil, err }                                                    -> .tryCall "x" R M [args]
//	return R.M(args)                                                                                          -> .retCall R M [args]
//	return s.WithRealm(byteutils.ConcatBytes(s.Realm(), p))                                                   -> .retExtend
//	R.M(args)                                                                                                 -> .call R M [args]
//	return flushAfterMutation(X)                                                                              -> .retFlushAfter X
//	return &T{f: e, ...}, nil                                                                                 -> .retNew T [(f, e), ...]
//
// Parameters are rendered by position (`$0`, `$1`, `$2...`), other expressions as source text without white space.
// Functions (no receiver) are printed as their normalised source text (`def text_<pkg>_<Func> : String`).
package main

import (
	"bytes"
	"fmt"
	"go/ast"
	"go/parser"
	"go/printer"
	"go/token"
	"os"
	"path/filepath"
	"strings"
)

type tr struct {
	fset   *token.FileSet
	params map[string]int
	recv   string
}

func (t *tr) src(n ast.Node) string {
	var b bytes.Buffer
	printer.Fprint(&b, t.fset, n)

	return strings.Join(strings.Fields(b.String()), " ")
}

func (t *tr) expr(e ast.Expr) string {
	switch x := e.(type) {
	case *ast.Ident:
		if i, ok := t.params[x.Name]; ok {
			return fmt.Sprintf("$%d", i)
		}

		return x.Name
	case *ast.SelectorExpr:
		return t.expr(x.X) + "." + x.Sel.Name
	case *ast.CallExpr:
		f, args := t.callParts(x)

		return f + "(" + strings.Join(args, ",") + ")"
	}

	return strings.ReplaceAll(t.src(e), " ", "")
}

func (t *tr) callParts(c *ast.CallExpr) (string, []string) {
	args := make([]string, len(c.Args))
	for i, a := range c.Args {
		args[i] = t.expr(a)
	}
	if c.Ellipsis.IsValid() && len(args) > 0 {
		args[len(args)-1] += "..."
	}

	return t.expr(c.Fun), args
}

func lstr(xs []string) string {
	q := make([]string, len(xs))
	for i, x := range xs {
		q[i] = fmt.Sprintf("%q", x)
	}

	return "[" + strings.Join(q, ", ") + "]"
}

// method call R.M(args) -> (R, M, args)
func (t *tr) methodCall(e ast.Expr) (string, string, []string, bool) {
	c, ok := e.(*ast.CallExpr)
	if !ok {
		return "", "", nil, false
	}
	sel, ok := c.Fun.(*ast.SelectorExpr)
	if !ok {
		return "", "", nil, false
	}
	_, args := t.callParts(c)

	return t.expr(sel.X), sel.Sel.Name, args, true
}

func isErrNotNil(e ast.Expr) bool {
	b, ok := e.(*ast.BinaryExpr)
	if !ok || b.Op != token.NEQ {
		return false
	}
	x, ok1 := b.X.(*ast.Ident)
	y, ok2 := b.Y.(*ast.Ident)

	return ok1 && ok2 && x.Name == "err" && y.Name == "nil"
}

// returns exactly `err` (n == 1) or `nil, err` (n == 2)
func returnsErr(body *ast.BlockStmt, n int) bool {
	if len(body.List) != 1 {
		return false
	}
	r, ok := body.List[0].(*ast.ReturnStmt)
	if !ok || len(r.Results) != n {
		return false
	}
	last, ok := r.Results[n-1].(*ast.Ident)
	if !ok || last.Name != "err" {
		return false
	}
	if n == 2 {
		first, ok := r.Results[0].(*ast.Ident)

		return ok && first.Name == "nil"
	}

	return true
}

func (t *tr) stmts(list []ast.Stmt) []string {
	var out []string
	other := func(s ast.Stmt) { out = append(out, fmt.Sprintf(".other %q", t.src(s))) }
	for i := 0; i < len(list); i++ {
		switch s := list[i].(type) {
		case *ast.IfStmt:
			if s.Else != nil {
				other(s)

				continue
			}
			// if err := R.M(args); err != nil { return err }
			if as, ok := s.Init.(*ast.AssignStmt); ok && as.Tok == token.DEFINE && len(as.Lhs) == 1 && len(as.Rhs) == 1 && isErrNotNil(s.Cond) && returnsErr(s.Body, 1) {
				if id, ok := as.Lhs[0].(*ast.Ident); ok && id.Name == "err" {
					if r, m, args, ok := t.methodCall(as.Rhs[0]); ok {
						out = append(out, fmt.Sprintf(".tryCall \"\" %q %q %s", r, m, lstr(args)))

						continue
					}
				}
			}
			// the debug callback guard
			if s.Init == nil {
				if g, ok := t.guard(s); ok {
					out = append(out, g)

					continue
				}
			}
			other(s)
		case *ast.AssignStmt:
			// x, err := R.M(args) followed by if err != nil { return nil, err }
			if s.Tok == token.DEFINE && len(s.Lhs) == 2 && len(s.Rhs) == 1 && i+1 < len(list) {
				x, ok1 := s.Lhs[0].(*ast.Ident)
				e, ok2 := s.Lhs[1].(*ast.Ident)
				nx, ok3 := list[i+1].(*ast.IfStmt)
				if ok1 && ok2 && ok3 && e.Name == "err" && nx.Init == nil && nx.Else == nil && isErrNotNil(nx.Cond) && returnsErr(nx.Body, 2) {
					if r, m, args, ok := t.methodCall(s.Rhs[0]); ok {
						out = append(out, fmt.Sprintf(".tryCall %q %q %q %s", x.Name, r, m, lstr(args)))
						i++

						continue
					}
				}
			}
			other(s)
		case *ast.ExprStmt:
			if r, m, args, ok := t.methodCall(s.X); ok {
				out = append(out, fmt.Sprintf(".call %q %q %s", r, m, lstr(args)))

				continue
			}
			other(s)
		case *ast.ReturnStmt:
			out = append(out, t.ret(s))
		default:
			other(s)
		}
	}

	return out
}

func (t *tr) guard(s *ast.IfStmt) (string, bool) {
	b, ok := s.Cond.(*ast.BinaryExpr)
	if !ok || b.Op != token.LAND || len(s.Body.List) != 1 {
		return "", false
	}
	l, ok := b.X.(*ast.BinaryExpr)
	if !ok || l.Op != token.NEQ || t.expr(l.Y) != "nil" {
		return "", false
	}
	recv := strings.TrimSuffix(t.expr(l.X), ".accessCallback")
	if recv == t.expr(l.X) {
		return "", false
	}
	hr, hm, hargs, ok := t.methodCall(b.Y)
	if !ok || hr != recv+".accessCallbackCommandsFilter" || hm != "HasBits" || len(hargs) != 1 {
		return "", false
	}
	es, ok := s.Body.List[0].(*ast.ExprStmt)
	if !ok {
		return "", false
	}
	cr, cm, cargs, ok := t.methodCall(es.X)
	if !ok || cr != recv || cm != "accessCallback" || len(cargs) < 1 || cargs[0] != hargs[0] {
		return "", false
	}

	return fmt.Sprintf(".guardCb %q %q %s", recv, hargs[0], lstr(cargs[1:])), true
}

func (t *tr) ret(s *ast.ReturnStmt) string {
	other := fmt.Sprintf(".other %q", t.src(s))
	switch len(s.Results) {
	case 1:
		c, ok := s.Results[0].(*ast.CallExpr)
		if !ok {
			return other
		}
		if id, ok := c.Fun.(*ast.Ident); ok && id.Name == "flushAfterMutation" && len(c.Args) == 1 {
			return fmt.Sprintf(".retFlushAfter %q", t.expr(c.Args[0]))
		}
		r, m, args, ok := t.methodCall(c)
		if !ok {
			return other
		}
		if r == t.recv && m == "WithRealm" && len(args) == 1 && args[0] == "byteutils.ConcatBytes("+t.recv+".Realm(),$0)" {
			return ".retExtend"
		}

		return fmt.Sprintf(".retCall %q %q %s", r, m, lstr(args))
	case 2:
		nilId, ok := s.Results[1].(*ast.Ident)
		u, ok2 := s.Results[0].(*ast.UnaryExpr)
		if !ok || !ok2 || nilId.Name != "nil" || u.Op != token.AND {
			return other
		}
		cl, ok := u.X.(*ast.CompositeLit)
		if !ok {
			return other
		}
		var fields []string
		for _, el := range cl.Elts {
			kv, ok := el.(*ast.KeyValueExpr)
			if !ok {
				return other
			}
			fields = append(fields, fmt.Sprintf("(%q, %q)", t.expr(kv.Key), t.expr(kv.Value)))
		}

		return fmt.Sprintf(".retNew %q [%s]", t.expr(cl.Type), strings.Join(fields, ", "))
	}

	return other
}

func recvOf(fd *ast.FuncDecl) (typ, name string) {
	if fd.Recv == nil || len(fd.Recv.List) == 0 {
		return "", ""
	}
	f := fd.Recv.List[0]
	ty := f.Type
	if s, ok := ty.(*ast.StarExpr); ok {
		ty = s.X
	}
	if id, ok := ty.(*ast.Ident); ok {
		typ = id.Name
	}
	if len(f.Names) > 0 {
		name = f.Names[0].Name
	}

	return typ, name
}

func main() {
	if len(os.Args) < 4 {
		fmt.Fprintln(os.Stderr, "usage: wgen <out.lean> <LeanNamespace> <file.go> ...")
		os.Exit(2)
	}
	var out strings.Builder
	out.WriteString("import Hive.Model.KVWrapSrc\n/-! GENERATED by harness/c04/wgen — the method bodies of the kvstore wrappers, translated; do not edit. -/\n")
	out.WriteString("namespace " + os.Args[2] + "\nopen Hive.KV.WrapSrc\n")
	for _, path := range os.Args[3:] {
		fset := token.NewFileSet()
		file, err := parser.ParseFile(fset, path, nil, 0)
		if err != nil {
			fmt.Fprintln(os.Stderr, err)
			os.Exit(1)
		}
		pkg := filepath.Base(filepath.Dir(path))
		n := 0
		for _, d := range file.Decls {
			fd, ok := d.(*ast.FuncDecl)
			if !ok || fd.Body == nil {
				continue
			}
			n++
			typ, rname := recvOf(fd)
			t := &tr{fset: fset, params: map[string]int{}, recv: rname}
			idx := 0
			for _, f := range fd.Type.Params.List {
				for _, nm := range f.Names {
					t.params[nm.Name] = idx
					idx++
				}
				if len(f.Names) == 0 {
					idx++
				}
			}
			if typ == "" {
				fmt.Fprintf(&out, "\n/-- %s.%s (%s:%d), source text -/\ndef text_%s_%s : String :=\n  %q\n", pkg, fd.Name.Name, filepath.Base(path),
					fset.Position(fd.Pos()).Line, pkg, fd.Name.Name, t.src(fd.Body))

				continue
			}
			fmt.Fprintf(&out, "\n/-- %s.%s.%s (%s:%d) -/\ndef src_%s_%s_%s : List WStmt := [", pkg, typ, fd.Name.Name, filepath.Base(path),
				fset.Position(fd.Pos()).Line, pkg, typ, fd.Name.Name)
			for i, s := range t.stmts(fd.Body.List) {
				if i > 0 {
					out.WriteString(",")
				}
				out.WriteString("\n  " + s)
			}
			out.WriteString("]\n")
		}
		if n == 0 {
			fmt.Fprintln(os.Stderr, "no function in", path)
			os.Exit(1)
		}
	}
	out.WriteString("\nend " + os.Args[2] + "\n")
	if err := os.WriteFile(os.Args[1], []byte(out.String()), 0o644); err != nil {
		fmt.Fprintln(os.Stderr, err)
		os.Exit(1)
	}
}
