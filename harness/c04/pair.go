package main

// Two store trees, kvstore.Copy / kvstore.CopyBatched between their views, and the pure helpers of the anchored files
// (utils.KeyPrefixUpperBound, utils.CopyBytes, byteutils.ConcatBytes / ConcatBytesToString, kvstore.GetIterDirection).

import (
	"bytes"
	"fmt"
	"sort"
	"strconv"
	"strings"

	"verifharness/hx"

	"github.com/iotaledger/hive.go/kvstore"
	"github.com/iotaledger/hive.go/kvstore/debug"
	"github.com/iotaledger/hive.go/kvstore/utils"
	"github.com/iotaledger/hive.go/serializer/v2/byteutils"
)

func treeOf(s string) int {
	if s == "2" {
		return 1
	}

	return 0
}

// execCopy: `copy S V D W` / `copyb S V D W N` on the real code.
// effBatch: what a batch-size argument means to CopyBatched: `currentBatchSize >= batchSize` holds after every entry for a
// negative size, so a negative size commits every entry on its own - like size 1.
func effBatch(tok string) int {
	if n := atoi(tok); n >= 0 {
		return n
	}

	return 1
}

func execCopy(w [2]*world, f []string) string {
	src, ok1 := w[treeOf(f[1])].views[atoi(f[2])]
	dst, ok2 := w[treeOf(f[3])].views[atoi(f[4])]
	if !ok1 || !ok2 {
		return "bad-handle"
	}
	if f[0] == "copy" {
		return errAns(kvstore.Copy(src, dst))
	}
	if n := atoi(f[5]); n != 0 {
		return errAns(kvstore.CopyBatched(src, dst, n))
	}

	return errAns(kvstore.CopyBatched(src, dst)) // no batch size: everything in one batch
}

// expectCopy: what the contract says (oracle: two plain maps); also returns the number of entries of the source view.
func expectCopy(o [2]*oracle, f []string) (string, int) {
	so, do := o[treeOf(f[1])], o[treeOf(f[3])]
	rs, ok1 := so.realms[atoi(f[2])]
	rd, ok2 := do.realms[atoi(f[4])]
	if !ok1 || !ok2 {
		return "bad-handle", 0
	}
	if so.closed || do.closed {
		return "closed", 0
	}
	snap := map[string]string{}
	var keys []string
	for k, v := range so.m {
		if strings.HasPrefix(k, rs) {
			snap[k[len(rs):]] = v
			keys = append(keys, k[len(rs):])
		}
	}
	sort.Strings(keys) // the source is iterated forward
	write := func(ks []string) {
		for _, k := range ks {
			do.m[rd+k] = snap[k]
		}
	}
	if do.flushFails(do.stacks[atoi(f[4])]) {
		// the target is a flushkv stack whose Flush fails: the first Set (Copy) / the first Commit (CopyBatched) takes effect
		// and returns the error, which ends the copy
		switch {
		case f[0] == "copy" && len(keys) > 0:
			write(keys[:1])
		case f[0] == "copy":
		case effBatch(f[5]) != 0 && effBatch(f[5]) <= len(keys):
			write(keys[:effBatch(f[5])])
		default:
			write(keys) // one batch, committed at the end
		}

		return "notfound", len(snap)
	}
	write(keys)
	if do.armed { // everything is written, the final target.Flush() fails
		return "notfound", len(snap)
	}

	return "ok", len(snap)
}

// viewHandles lists the view handles of a tree created by the given (already prefixed) op lines.
func viewHandles(lines []string, tree int) []int {
	hs := []int{0}
	for _, l := range lines {
		f := strings.Fields(l)
		if (f[0] == "2") != (tree == 1) {
			continue
		}
		if f[0] == "2" {
			f = f[1:]
		}
		if f[0] == "view" || f[0] == "wrap" {
			hs = append(hs, atoi(f[1]))
		}
	}

	return hs
}

func treePrefix(tree int) string {
	if tree == 1 {
		return "2 "
	}

	return ""
}

// spied: the tree has the recording store installed (its first request was `spy`).
func spied(lines []string, tree int) bool {
	for _, l := range lines {
		if l == treePrefix(tree)+"spy" {
			return true
		}
	}

	return false
}

// genPairCase: a history over two store trees with copies between (and within) them.
func genPairCase(rng *hx.Rng) []string {
	a := genCase(rng, 34)
	b := genCase(rng, 12)
	var ops []string
	i, j := 0, 0
	for i < len(a) || j < len(b) {
		if j >= len(b) || (i < len(a) && rng.Chance(3, 4)) {
			ops = append(ops, a[i])
			i++
		} else {
			ops = append(ops, "2 "+b[j])
			j++
		}
		if len(ops) > 8 && rng.Chance(1, 9) {
			s, d := rng.Intn(2), rng.Intn(2)
			if rng.Chance(2, 3) {
				d = 1 - s
			}
			v := hx.Pick(rng, viewHandles(ops, s))
			w := hx.Pick(rng, viewHandles(ops, d))
			// now and then the copy runs into a target whose Flush fails (only a traced tree can inject the fault): the error
			// paths of Copy / CopyBatched - first Set / first Commit of a flushkv target, the final Flush of any other
			armed := false
			if spied(ops, d) && rng.Chance(1, 4) {
				armed = true
				ops = append(ops, treePrefix(d)+"arm")
			}
			if rng.Chance(2, 5) {
				ops = append(ops, fmt.Sprintf("copy %d %d %d %d", s+1, v, d+1, w))
			} else {
				n := rng.Intn(6)
				if rng.Chance(1, 12) { // an unusual option value: a negative batch size (every entry is its own batch)
					n = -rng.Range(1, 3)
				}
				ops = append(ops, fmt.Sprintf("copyb %d %d %d %d %d", s+1, v, d+1, w, n))
			}
			ops = append(ops, "iter 0 - fwd 0", "2 iter 0 - bwd 0")
			if armed && rng.Chance(3, 4) {
				ops = append(ops, treePrefix(d)+"disarm")
			}
		}
	}

	return ops
}

// ---------------------------------------------------------------------------------------------
// pure helpers

var pureAlphabet = []byte{0x00, 0x01, 0x7f, 0xfe, 0xff}

func allStrings(maxLen int) [][]byte {
	out := [][]byte{{}}
	level := [][]byte{{}}
	for l := 1; l <= maxLen; l++ {
		var next [][]byte
		for _, s := range level {
			for _, c := range pureAlphabet {
				next = append(next, append(append([]byte{}, s...), c))
			}
		}
		out = append(out, next...)
		level = next
	}

	return out
}

// withSpare returns a copy of b that has spare capacity filled with a sentinel.
func withSpare(b []byte, spare int) []byte {
	buf := make([]byte, len(b)+spare)
	copy(buf, b)
	for i := len(b); i < len(buf); i++ {
		buf[i] = 0xc3
	}

	return buf[:len(b)]
}

func spareIntact(b []byte) bool {
	full := b[:cap(b)]
	for i := len(b); i < len(full); i++ {
		if full[i] != 0xc3 {
			return false
		}
	}

	return true
}

func runPure(r *hx.Run) {
	r.Case(0)
	probes := allStrings(3)
	// KeyPrefixUpperBound: all prefixes over {00,01,7f,fe,ff} up to length 4 (empty, all-0xff, trailing 0xff with carry)
	for _, p := range allStrings(4) {
		arg := append([]byte{}, p...)
		ub := utils.KeyPrefixUpperBound(arg)
		ans := "nobound"
		if ub != nil {
			ans = "bytes " + hx.Hex(ub)
		}
		r.Line("fn ub "+hx.Hex(p), ans)
		r.Count("fn:ub")
		if !bytes.Equal(arg, p) {
			r.Fail("pure-helpers", "KeyPrefixUpperBound modified its argument "+hx.Hex(p), map[string]string{"fn": "KeyPrefixUpperBound", "what": "argument-modified"})
		}
		allFF := true
		for _, c := range p {
			allFF = allFF && c == 0xff
		}
		if (ub == nil) != allFF {
			r.Fail("pure-helpers", fmt.Sprintf("KeyPrefixUpperBound(%s) = %s: a bound is missing exactly for the empty / all-0xff prefix", hx.Hex(p), ans),
				map[string]string{"fn": "KeyPrefixUpperBound", "what": "bound-existence"})
		}
		for _, k := range probes { // k has prefix p  <=>  p <= k < ub
			in := bytes.Compare(p, k) <= 0 && (ub == nil || bytes.Compare(k, ub) < 0)
			if in != bytes.HasPrefix(k, p) {
				r.Fail("pure-helpers", fmt.Sprintf("KeyPrefixUpperBound(%s) = %s: key %s has the prefix: %v, lies in [p, bound): %v",
					hx.Hex(p), ans, hx.Hex(k), bytes.HasPrefix(k, p), in), map[string]string{"fn": "KeyPrefixUpperBound", "what": "range"})

				break
			}
		}
	}
	// ConcatBytes / ConcatBytesToString: the concatenation, in a fresh backing array
	small := allStrings(2)
	for n := 0; n < 600; n++ {
		k := r.Rng.Intn(4)
		parts := make([][]byte, k)
		orig := make([][]byte, k)
		toks := make([]string, k)
		for i := range parts {
			orig[i] = hx.Pick(r.Rng, small)
			parts[i] = withSpare(orig[i], r.Rng.Intn(3)*8)
			toks[i] = hx.Hex(orig[i])
		}
		res := byteutils.ConcatBytes(parts...)
		str := byteutils.ConcatBytesToString(parts...)
		r.Line(strings.TrimSpace("fn concat "+strings.Join(toks, " ")), "bytes "+hx.Hex(res))
		r.Count("fn:concat")
		if str != string(res) || !bytes.Equal(res, bytes.Join(orig, nil)) {
			r.Fail("pure-helpers", fmt.Sprintf("ConcatBytes(%v) = %s, ConcatBytesToString = %s", toks, hx.Hex(res), hx.Hex([]byte(str))),
				map[string]string{"fn": "ConcatBytes", "what": "value"})
		}
		// no memory shared with the arguments: growing and overwriting the result leaves them (and their spare capacity) alone
		grown := append(res, 0xee, 0xee, 0xee, 0xee)
		for i := range grown {
			grown[i] = 0xdd
		}
		for i := range res {
			res[i] = 0xdd
		}
		for i := range parts {
			if !bytes.Equal(parts[i], orig[i]) || !spareIntact(parts[i]) {
				r.Fail("pure-helpers", fmt.Sprintf("writing into / appending to ConcatBytes(%v) changed argument %d or its spare capacity", toks, i),
					map[string]string{"fn": "ConcatBytes", "what": "aliasing"})

				break
			}
		}
	}
	// CopyBytes
	for n := 0; n < 300; n++ {
		src := hx.Pick(r.Rng, small)
		arg := withSpare(src, 8)
		var res []byte
		tok := "-"
		want := append([]byte{}, src...)
		if r.Rng.Bool() {
			size := r.Rng.Intn(5)
			tok = strconv.Itoa(size)
			res = utils.CopyBytes(arg, size)
			want = make([]byte, size)
			copy(want, src)
		} else {
			res = utils.CopyBytes(arg)
		}
		r.Line("fn copybytes "+hx.Hex(src)+" "+tok, "bytes "+hx.Hex(res))
		r.Count("fn:copybytes")
		ok := bytes.Equal(res, want)
		for i := range res {
			res[i] = 0xdd
		}
		if !ok || !bytes.Equal(arg, src) || !spareIntact(arg) {
			r.Fail("pure-helpers", fmt.Sprintf("CopyBytes(%s, %s): wrong result or result shares memory with the source", hx.Hex(src), tok),
				map[string]string{"fn": "CopyBytes", "what": "value-or-aliasing"})
		}
	}
	// utils.SortSlice: sort.StringSlice order or its reverse, in place; unknown direction panics
	for n := 0; n < 200; n++ {
		k := r.Rng.Intn(6)
		keys := make([]string, k)
		toks := make([]string, k)
		for i := range keys {
			keys[i] = string(hx.Pick(r.Rng, probes))
			toks[i] = hx.Hex([]byte(keys[i]))
		}
		dirTok, dirs := "def", []kvstore.IterDirection(nil)
		switch r.Rng.Intn(8) {
		case 0, 1, 2:
			dirTok, dirs = "0", []kvstore.IterDirection{kvstore.IterDirectionForward}
		case 3, 4, 5:
			dirTok, dirs = "1", []kvstore.IterDirection{kvstore.IterDirectionBackward}
		case 6:
			dirTok, dirs = "9", []kvstore.IterDirection{9}
		}
		want := append([]string{}, keys...)
		sort.Strings(want)
		if dirTok == "1" {
			for i, j := 0, len(want)-1; i < j; i, j = i+1, j-1 {
				want[i], want[j] = want[j], want[i]
			}
		}
		ans := "keys"
		if p := hx.Safely(func() {
			for _, x := range utils.SortSlice(keys, dirs...) {
				ans += " " + hx.Hex([]byte(x))
			}
		}); p != "" {
			ans = "panic"
		}
		wantAns := "keys"
		for _, x := range want {
			wantAns += " " + hx.Hex([]byte(x))
		}
		if dirTok == "9" {
			wantAns = "panic"
		}
		r.Line(strings.TrimSpace("fn sort "+dirTok+" "+strings.Join(toks, " ")), ans)
		r.Count("fn:sort")
		if ans != wantAns {
			r.Fail("pure-helpers", fmt.Sprintf("SortSlice(%v, %s) = %s, want %s", toks, dirTok, ans, wantAns), map[string]string{"fn": "SortSlice", "what": "value"})
		}
	}
	// byteutils.ReadAvailableBytesToBuffer with offsets inside the slices
	for n := 0; n < 200; n++ {
		target := append([]byte{}, hx.Pick(r.Rng, allStrings(4))...)
		source := hx.Pick(r.Rng, allStrings(4))
		tOff := r.Rng.Intn(len(target) + 1)
		sLen := r.Rng.Intn(len(source) + 1)
		sOff := r.Rng.Intn(sLen + 1)
		orig := append([]byte{}, target...)
		srcCopy := append([]byte{}, source...)
		got := byteutils.ReadAvailableBytesToBuffer(target, tOff, srcCopy, sOff, sLen)
		r.Line(fmt.Sprintf("fn readavail %s %d %s %d %d", hx.Hex(orig), tOff, hx.Hex(source), sOff, sLen), fmt.Sprintf("bytes %s %d", hx.Hex(target), got))
		r.Count("fn:readavail")
		wantN := min(sLen-sOff, len(orig)-tOff)
		wantT := append([]byte{}, orig...)
		copy(wantT[tOff:], source[sOff:sOff+wantN])
		if got != wantN || !bytes.Equal(target, wantT) || !bytes.Equal(srcCopy, source) {
			r.Fail("pure-helpers", fmt.Sprintf("ReadAvailableBytesToBuffer(%s, %d, %s, %d, %d) = %d, target %s", hx.Hex(orig), tOff, hx.Hex(source), sOff, sLen, got, hx.Hex(target)),
				map[string]string{"fn": "ReadAvailableBytesToBuffer", "what": "value"})
		}
	}
	// the constants of debug.go: command bits in declaration order with their names, AllCommands, ShutdownCommand
	{
		cmds := []debug.Command{debug.IterateCommand, debug.IterateKeysCommand, debug.ClearCommand, debug.GetCommand, debug.SetCommand,
			debug.HasCommand, debug.DeleteCommand, debug.DeletePrefixCommand}
		wantNames := []string{"Iterate", "IterateKeys", "Clear", "Get", "Set", "Has", "Delete", "DeletePrefix"}
		var toks []string
		okConst := debug.ShutdownCommand == 0 && debug.CommandNames[debug.ShutdownCommand] == "Shutdown" && len(debug.CommandNames) == 9
		for i, c := range cmds {
			toks = append(toks, fmt.Sprintf("%s=%d", debug.CommandNames[c], int(c)))
			okConst = okConst && int(c) == 1<<i && debug.CommandNames[c] == wantNames[i] && debug.AllCommands.HasBits(c)
		}
		toks = append(toks, fmt.Sprintf("AllCommands=%d", int(debug.AllCommands)))
		r.Line("fn dbg", strings.Join(toks, " "))
		r.Count("fn:dbg")
		if !okConst || int(debug.AllCommands) != 255 {
			r.Fail("pure-helpers", "debug.go constants: "+strings.Join(toks, " "), map[string]string{"fn": "debug.Command", "what": "constants"})
		}
	}
	// GetIterDirection
	for _, args := range [][]kvstore.IterDirection{nil, {0}, {1}, {2}, {7}, {1, 0}, {0, 1}, {255}} {
		toks := make([]string, len(args))
		for i, a := range args {
			toks[i] = strconv.Itoa(int(a))
		}
		ans := ""
		if p := hx.Safely(func() {
			if kvstore.GetIterDirection(args...) == kvstore.IterDirectionBackward {
				ans = "bwd"
			} else {
				ans = "fwd"
			}
		}); p != "" {
			ans = "panic"
		}
		r.Line(strings.TrimSpace("fn dir "+strings.Join(toks, " ")), ans)
		r.Count("fn:dir")
		want := "fwd"
		if len(args) > 0 && args[0] == 1 {
			want = "bwd"
		} else if len(args) > 0 && args[0] != 0 {
			want = "panic"
		}
		if ans != want {
			r.Fail("pure-helpers", fmt.Sprintf("GetIterDirection(%v) = %s, want %s", toks, ans, want), map[string]string{"fn": "GetIterDirection", "what": "value"})
		}
	}
}
