package main

// Second output of srcgen: the functions of sequence.go as terms of the small imperative language of
// lean/Hive/Model/SeqGo.lean (`Hive.Seq.Go.S`), which Lean *interprets* (uint64 arithmetic wraps, early returns, the tagless
// switch, store calls that can fail); Hive/Props/C07d.lean proves that the interpreted functions compute exactly the steps of
// the hand-written model.  Anything the translator does not recognise becomes `.unsupported "<text>"`, and the obligation
// `C07_generated_supported` fails.

import (
	"fmt"
	"go/ast"
	"go/token"
	"strings"
)

type fnTr struct {
	recv   string         // receiver name ("seq")
	locals map[string]int // local variable / parameter -> index
}

func (t *fnTr) loc(name string) int {
	if i, ok := t.locals[name]; ok {
		return i
	}
	i := len(t.locals)
	t.locals[name] = i

	return i
}

var fields = map[string]bool{"interval": true, "next": true, "reserved": true}

func (t *fnTr) isRecvField(e ast.Expr) (string, bool) {
	if s, ok := e.(*ast.SelectorExpr); ok {
		if id, ok := s.X.(*ast.Ident); ok && id.Name == t.recv {
			return s.Sel.Name, true
		}
	}

	return "", false
}

func q(s string) string { return leanStr(s) }

func (t *fnTr) expr(e ast.Expr) string {
	switch e := e.(type) {
	case *ast.ParenExpr:
		return t.expr(e.X)
	case *ast.BasicLit:
		if e.Kind == token.INT {
			return "(.lit " + e.Value + ")"
		}
	case *ast.Ident:
		switch e.Name {
		case "nil":
			return ".nilE"
		case "ErrSequenceExhausted":
			return ".errExhausted"
		case t.recv:
			return ".self"
		}
		if _, ok := t.locals[e.Name]; ok {
			return fmt.Sprintf("(.loc %d)", t.loc(e.Name))
		}
	case *ast.SelectorExpr:
		if f, ok := t.isRecvField(e); ok && fields[f] {
			return "(.fld ." + f + ")"
		}
		if text(e) == "math.MaxUint64" {
			return ".maxU64"
		}
	case *ast.BinaryExpr:
		switch e.Op {
		case token.ADD:
			return "(.add " + t.expr(e.X) + " " + t.expr(e.Y) + ")"
		case token.SUB:
			return "(.sub " + t.expr(e.X) + " " + t.expr(e.Y) + ")"
		}
	}

	return "(.unsupported " + q(text(e)) + ")"
}

func isNil(e ast.Expr) bool {
	id, ok := e.(*ast.Ident)

	return ok && id.Name == "nil"
}

func (t *fnTr) cond(e ast.Expr) string {
	switch e := e.(type) {
	case *ast.ParenExpr:
		return t.cond(e.X)
	case *ast.CallExpr:
		if text(e.Fun) == "ierrors.Is" && len(e.Args) == 2 && text(e.Args[1]) == "ErrKeyNotFound" {
			if id, ok := e.Args[0].(*ast.Ident); ok {
				if _, ok := t.locals[id.Name]; ok {
					return fmt.Sprintf("(.isNotFound %d)", t.loc(id.Name))
				}
			}
		}
	case *ast.BinaryExpr:
		if id, ok := e.X.(*ast.Ident); ok && isNil(e.Y) {
			if _, known := t.locals[id.Name]; known {
				switch e.Op {
				case token.EQL:
					return fmt.Sprintf("(.isNil %d)", t.loc(id.Name))
				case token.NEQ:
					return fmt.Sprintf("(.notNil %d)", t.loc(id.Name))
				}
			}
		}
		ops := map[token.Token]string{token.GEQ: "ge", token.GTR: "gt", token.LSS: "lt", token.LEQ: "le", token.EQL: "eq", token.NEQ: "ne"}
		if o, ok := ops[e.Op]; ok && !isNil(e.X) && !isNil(e.Y) {
			return "(." + o + " " + t.expr(e.X) + " " + t.expr(e.Y) + ")"
		}
	}

	return "(.unsupported " + q(text(e)) + ")"
}

func (t *fnTr) block(b *ast.BlockStmt) string {
	if b == nil {
		return "[]"
	}

	return t.stmts(b.List)
}

func (t *fnTr) stmts(l []ast.Stmt) string {
	parts := make([]string, 0, len(l))
	for _, s := range l {
		parts = append(parts, t.stmt(s)...)
	}

	return "[" + strings.Join(parts, ",\n    ") + "]"
}

// isBufSlice: `buf[:]` of a local
func (t *fnTr) isBufSlice(e ast.Expr) (int, bool) {
	if s, ok := e.(*ast.SliceExpr); ok && s.Low == nil && s.High == nil {
		if id, ok := s.X.(*ast.Ident); ok {
			if _, known := t.locals[id.Name]; known {
				return t.loc(id.Name), true
			}
		}
	}

	return 0, false
}

func (t *fnTr) storeCall(e ast.Expr, method string, nargs int) (*ast.CallExpr, bool) {
	c, ok := e.(*ast.CallExpr)
	if !ok || text(c.Fun) != t.recv+".store."+method || len(c.Args) != nargs || text(c.Args[0]) != t.recv+".key" {
		return nil, false
	}

	return c, true
}

func (t *fnTr) stmt(s ast.Stmt) []string {
	un := []string{"(.unsupported " + q(text(s)) + ")"}
	switch s := s.(type) {
	case *ast.ExprStmt:
		c, ok := s.X.(*ast.CallExpr)
		if !ok {
			return un
		}
		switch text(c.Fun) {
		case t.recv + ".Lock":
			if len(c.Args) == 0 {
				return []string{".lock"}
			}
		case "panic":
			return []string{".panic"}
		case "binary.BigEndian.PutUint64":
			if len(c.Args) == 2 {
				if ib, ok := t.isBufSlice(c.Args[0]); ok {
					return []string{fmt.Sprintf("(.put %d %s)", ib, t.expr(c.Args[1]))}
				}
			}
		}
	case *ast.DeferStmt:
		if text(s.Call.Fun) == t.recv+".Unlock" && len(s.Call.Args) == 0 {
			return []string{".deferUnlock"}
		}
	case *ast.DeclStmt:
		if text(s) == "var buf [8]byte" {
			return []string{fmt.Sprintf("(.varBuf %d)", t.loc("buf"))}
		}
	case *ast.IncDecStmt:
		if f, ok := t.isRecvField(s.X); ok && fields[f] && s.Tok == token.INC {
			return []string{"(.incFld ." + f + ")"}
		}
	case *ast.AssignStmt:
		if s.Tok != token.ASSIGN && s.Tok != token.DEFINE {
			return un
		}
		if len(s.Lhs) == 2 && len(s.Rhs) == 1 {
			if _, ok := t.storeCall(s.Rhs[0], "Get", 1); ok {
				v, vok := s.Lhs[0].(*ast.Ident)
				e, eok := s.Lhs[1].(*ast.Ident)
				if vok && eok {
					return []string{fmt.Sprintf("(.get %d %d)", t.loc(v.Name), t.loc(e.Name))}
				}
			}
		}
		if len(s.Lhs) != 1 || len(s.Rhs) != 1 {
			return un
		}
		if id, ok := s.Lhs[0].(*ast.Ident); ok {
			if c, ok := t.storeCall(s.Rhs[0], "Set", 2); ok {
				if ib, ok := t.isBufSlice(c.Args[1]); ok {
					return []string{fmt.Sprintf("(.set %d %d)", t.loc(id.Name), ib)}
				}
			}
			if c, ok := s.Rhs[0].(*ast.CallExpr); ok {
				switch {
				case text(c.Fun) == t.recv+".update" && len(c.Args) == 0:
					return []string{fmt.Sprintf("(.update %d)", t.loc(id.Name))}
				case text(c.Fun) == "binary.BigEndian.Uint64" && len(c.Args) == 1:
					if a, ok := c.Args[0].(*ast.Ident); ok {
						if _, known := t.locals[a.Name]; known {
							return []string{fmt.Sprintf("(.decode %d %d)", t.loc(id.Name), t.loc(a.Name))}
						}
					}
				}

				return un
			}
			if u, ok := s.Rhs[0].(*ast.UnaryExpr); ok && u.Op == token.AND && id.Name == t.recv {
				// seq := &Sequence{...}: the fields of the fresh object, in the order of the literal
				cl, ok := u.X.(*ast.CompositeLit)
				if !ok || text(cl.Type) != "Sequence" {
					return un
				}
				var out []string
				for _, el := range cl.Elts {
					kv, ok := el.(*ast.KeyValueExpr)
					if !ok {
						return un
					}
					k := text(kv.Key)
					switch {
					case fields[k]:
						out = append(out, "(.setFld ."+k+" "+t.expr(kv.Value)+")")
					case (k == "store" || k == "key") && text(kv.Value) == k:
					default:
						return un
					}
				}

				return out
			}
			e := t.expr(s.Rhs[0]) // before the variable is declared: `x := x + 1` must not see the new x
			return []string{fmt.Sprintf("(.setLoc %d %s)", t.loc(id.Name), e)}
		}
		if f, ok := t.isRecvField(s.Lhs[0]); ok && fields[f] && s.Tok == token.ASSIGN {
			return []string{"(.setFld ." + f + " " + t.expr(s.Rhs[0]) + ")"}
		}
	case *ast.IfStmt:
		pre := "[]"
		if s.Init != nil {
			pre = "[" + strings.Join(t.stmt(s.Init), ", ") + "]"
		}
		els := "[]"
		switch e := s.Else.(type) {
		case nil:
		case *ast.BlockStmt:
			els = t.block(e)
		default:
			els = "[" + strings.Join(t.stmt(e), ", ") + "]"
		}

		return []string{"(.ite " + pre + " " + t.cond(s.Cond) + "\n    " + t.block(s.Body) + "\n    " + els + ")"}
	case *ast.SwitchStmt:
		if s.Init != nil || s.Tag != nil {
			return un
		}
		var cases []string
		for i, c := range s.Body.List {
			cc := c.(*ast.CaseClause)
			var cond string
			switch {
			case cc.List == nil && i == len(s.Body.List)-1:
				cond = ".tt"
			case len(cc.List) == 1:
				cond = t.cond(cc.List[0])
			default:
				return un
			}
			cases = append(cases, "("+cond+", "+t.stmts(cc.Body)+")")
		}

		return []string{"(.sw [" + strings.Join(cases, ",\n    ") + "])"}
	case *ast.ReturnStmt:
		parts := make([]string, len(s.Results))
		for i, r := range s.Results {
			parts[i] = t.expr(r)
		}

		return []string{"(.ret [" + strings.Join(parts, ", ") + "])"}
	}

	return un
}

func astModule(f *ast.File, ns string) string {
	var out strings.Builder
	out.WriteString("import Hive.Model.SeqGo\n/-! GENERATED by harness/c07/srcgen — the functions of kvstore/sequence.go as terms of `Hive.Seq.Go.S`; do not edit. -/\n")
	out.WriteString("namespace " + ns + "\nopen Hive.Seq.Go\n\n")
	for _, d := range f.Decls {
		fd, ok := d.(*ast.FuncDecl)
		if !ok || fd.Body == nil {
			continue
		}
		t := &fnTr{locals: map[string]int{}}
		name := fd.Name.Name
		if fd.Recv != nil && len(fd.Recv.List) == 1 {
			if len(fd.Recv.List[0].Names) == 1 {
				t.recv = fd.Recv.List[0].Names[0].Name
			}
			ty := fd.Recv.List[0].Type
			if st, ok := ty.(*ast.StarExpr); ok {
				ty = st.X
			}
			name = text(ty) + "_" + name
		} else {
			t.recv = "seq" // the constructor builds `seq`
		}
		var params []string
		for _, p := range fd.Type.Params.List {
			for _, n := range p.Names {
				params = append(params, fmt.Sprintf("%s=%d", n.Name, t.loc(n.Name)))
			}
		}
		sig := *fd
		sig.Body, sig.Doc = nil, nil
		body := t.block(fd.Body)
		fmt.Fprintf(&out, "/-- %s; parameters: %s -/\ndef fn_%s : List S :=\n   %s\n\n", text(&sig), strings.Join(params, " "), name, body)
	}
	out.WriteString("end " + ns + "\n")

	return out.String()
}
