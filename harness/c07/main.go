// C07 correspondence harness: drives the real kvstore.Sequence over mapdb through histories of
// restart / Next / Release / crash-at-a-store-boundary and prints the canonical answers that the
// Lean model (Hive/Model/Seq.lean) must reproduce line by line.  The property oracle (numbers
// strictly increasing, waste bounds) is evaluated here on the implementation, independently of Lean.
package main

import (
	"crypto/sha256"
	"encoding/binary"
	"fmt"
	"sort"
	"strconv"
	"strings"
	"sync"
	"sync/atomic"
	"time"

	"verifharness/hx"

	"github.com/iotaledger/hive.go/ierrors"
	"github.com/iotaledger/hive.go/kvstore"
	"github.com/iotaledger/hive.go/kvstore/mapdb"
)

type crashSignal struct{}

// crashStore panics once `armed` store calls have completed (crash *after* the k-th call returned).
type crashStore struct {
	kvstore.KVStore
	armed   int // -1: disarmed; k>=0: crash when the (k+1)-th call is about to return... see after()
	calls   int
	failAt  int  // >0: the failAt-th store call of the current operation returns errInjected (and is not executed)
	slowSet atomic.Bool // widen the window around store writes (concurrent scenarios)
}

var errInjected = ierrors.New("injected store error")

func (c *crashStore) fail() bool {
	if c.failAt > 0 && c.calls+1 == c.failAt {
		c.calls++
		c.failAt = 0

		return true
	}

	return false
}

func (c *crashStore) after() {
	c.calls++
	if c.armed >= 0 && c.calls == c.armed {
		c.armed = -1
		panic(crashSignal{})
	}
}

func (c *crashStore) Get(k kvstore.Key) (kvstore.Value, error) {
	if c.fail() {
		return nil, errInjected
	}
	v, err := c.KVStore.Get(k)
	c.after()

	return v, err
}

func (c *crashStore) Set(k kvstore.Key, v kvstore.Value) error {
	if c.fail() {
		return errInjected
	}
	if c.slowSet.Load() {
		time.Sleep(40 * time.Microsecond)
	}
	err := c.KVStore.Set(k, v)
	c.after()

	return err
}

type world struct {
	root     kvstore.KVStore // the database
	parent   kvstore.KVStore // a non-root view of it; the sequence lives in a sub-view, siblings are opened next to it
	view     kvstore.KVStore // the handle the Sequence uses (under the crash wrapper)
	cs       *crashStore
	seq      *kvstore.Sequence
	interval uint64
	// oracle state
	have     bool   // a number was handed out
	last     uint64 // last number handed out (if have)
	count    uint64 // numbers handed out so far
	budget   uint64 // sum of the intervals of all abandoned objects, saturating at MaxUint64
	clean    bool   // since the last hand-out only Release and restarts of released objects happened
	released bool   // the live object released its lease after its last hand-out
	trail    []string
}

var key = []byte("seq")

var (
	parentRealm = []byte("store")
	seqRealm    = []byte("s")
	otherKey    = []byte("other")
)

// The sequence lives in a sub-view of a non-root view of the database (realm "store" ++ "s"); sibling sub-views
// ("store" ++ x) are opened and written while it is in use, and another key of the same view is read by foreign
// goroutines: none of that may disturb the numbers.
func newWorld() *world {
	root := mapdb.NewMapDB()
	parent, err := root.WithExtendedRealm(parentRealm)
	if err != nil {
		panic(err)
	}
	view, err := parent.WithExtendedRealm(seqRealm)
	if err != nil {
		panic(err)
	}
	if err := view.Set(otherKey, make([]byte, 8)); err != nil {
		panic(err)
	}

	return &world{root: root, parent: parent, view: view, cs: &crashStore{KVStore: view, armed: -1}, clean: true}
}

// storedMark reads the mark through an independent view built from literal realm bytes.
func (w *world) storedMark() (uint64, bool, error) {
	v, err := w.root.Get(append(append(append([]byte{}, parentRealm...), seqRealm...), key...))
	if ierrors.Is(err, kvstore.ErrKeyNotFound) {
		return 0, false, nil
	}
	if err != nil {
		return 0, false, err
	}

	return binary.BigEndian.Uint64(v), true, nil
}

func satAdd(a, b uint64) uint64 {
	if a+b < a {
		return ^uint64(0)
	}

	return a + b
}

func (w *world) handOut(r *hx.Run, n uint64) {
	if w.have && n <= w.last {
		r.Fail("strictly-increasing", fmt.Sprintf("number %d handed out after %d; trail=%v", n, w.last, w.trail),
			map[string]string{"oracle": "reuse", "after": trailKinds(w.trail)})
	} else {
		gap := n
		if w.have {
			gap = n - (w.last + 1)
		}
		if w.clean && gap != 0 {
			r.Fail("release-wastes-none", fmt.Sprintf("gap %d before %d although only clean releases/restarts happened; trail=%v", gap, n, w.trail),
				map[string]string{"oracle": "waste-clean", "after": trailKinds(w.trail)})
		}
		// all numbers so far are distinct and below n+1: skipped = n+1-(count+1)
		if n-w.count > w.budget {
			r.Fail("waste-bound", fmt.Sprintf("%d numbers skipped below %d but abandoned intervals sum to %d; trail=%v", n-w.count, n, w.budget, w.trail),
				map[string]string{"oracle": "waste", "after": trailKinds(w.trail)})
		}
	}
	if n == ^uint64(0) {
		r.Fail("strictly-increasing", "MaxUint64 handed out: the next increment wraps around", map[string]string{"oracle": "wrap", "after": trailKinds(w.trail)})
	}
	w.last, w.have = n, true
	w.count++
	w.clean = true
	w.released = false
	w.trail = w.trail[:0]
}

func trailKinds(t []string) string { return strings.Join(t, ",") }

func (w *world) abandon(cleanly bool) {
	if w.seq != nil {
		w.budget = satAdd(w.budget, w.interval)
		w.seq = nil
		if !(cleanly && w.released) {
			w.clean = false
		}
	}
}

func (w *world) exec(r *hx.Run, op string) string {
	f := strings.Fields(op)
	switch f[0] {
	case "new":
		iv, _ := strconv.ParseUint(f[1], 10, 64)
		if w.seq != nil {
			// a released object that is replaced wastes nothing; an unreleased one wastes up to its interval
			w.abandon(true)
		}
		s, err := kvstore.NewSequence(w.cs, key, iv)
		if err != nil {
			return "err"
		}
		w.seq, w.interval = s, iv
		w.trail = append(w.trail, "new")

		return "ok"
	case "next":
		if w.seq == nil {
			return "noobj"
		}
		n, err := w.seq.Next()
		if err != nil {
			w.checkExhausted(r, err, "next")

			return "err"
		}
		w.handOut(r, n)

		return fmt.Sprintf("num %d", n)
	case "sibling":
		// open a sibling sub-view next to the sequence's view and write into it
		sv, err := w.parent.WithExtendedRealm([]byte(f[1]))
		if err != nil {
			return "err"
		}
		if err := sv.Set(key, []byte{0, 0, 0, 0, 0, 0, 0, 1}); err != nil {
			return "err"
		}
		if v, err := w.view.Get(otherKey); err != nil || len(v) != 8 {
			r.Fail("store-intact", fmt.Sprintf("the other key of the sequence's view reads %x, %v after a sibling view was opened", v, err),
				map[string]string{"oracle": "view-disturbed", "after": "sibling"})
		}

		return "ok"
	case "release":
		if w.seq == nil {
			return "noobj"
		}
		if err := w.seq.Release(); err != nil {
			return "err"
		}
		// oracle for "a clean Release wastes none": the stored mark must equal last+1 if a number was handed
		// out by this object since its creation; checked through the next hand-out (gap must be 0):
		w.released = true
		w.trail = append(w.trail, "release")

		return "ok"
	case "crash":
		if w.seq == nil {
			return "noobj"
		}
		w.trail = append(w.trail, "crash-"+f[1])
		seq := w.seq
		switch f[1] {
		case "idle":
			w.abandon(false)

			return "crashed"
		case "read", "write":
			w.cs.calls = 0
			w.cs.armed = 1
			if f[1] == "write" {
				w.cs.armed = 2
			}
			var n uint64
			var err error
			crashed := runCrashing(func() { n, err = seq.Next() })
			w.cs.armed = -1
			if crashed {
				w.abandon(false)

				return "crashed"
			}
			if err != nil {
				w.checkExhausted(r, err, "crash-"+f[1])

				return "err"
			}
			// Next was served from memory
			tr := append([]string(nil), w.trail...)
			w.handOut(r, n)
			w.trail = tr
			w.abandon(false)

			return fmt.Sprintf("num %d", n)
		case "relwrite":
			w.cs.calls = 0
			w.cs.armed = 1
			var err error
			crashed := runCrashing(func() { err = seq.Release() })
			w.cs.armed = -1
			if crashed {
				// the store write happened: nothing is wasted
				w.released = true
				w.abandon(true)

				return "crashed"
			}
			if err != nil {
				return "err"
			}
			w.released = true
			w.abandon(true)

			return "ok"
		}
	case "fnext", "frelease":
		if w.seq == nil {
			return "noobj"
		}
		w.trail = append(w.trail, strings.Join(f, "-"))
		w.cs.calls = 0
		if f[0] == "frelease" {
			w.cs.failAt = 1
			err := w.seq.Release()
			fired := w.cs.failAt == 0
			w.cs.failAt = 0
			if err != nil {
				if !fired {
					r.Fail("error-faithful", "Release returned an error although no store call failed", map[string]string{"oracle": "spurious-error", "after": "frelease"})
				}

				return "err"
			}
			if fired {
				r.Fail("error-faithful", "Release swallowed a store error", map[string]string{"oracle": "swallowed-error", "after": "frelease"})
			}
			w.released = true

			return "ok"
		}
		w.cs.failAt = 1
		if f[1] == "set" {
			w.cs.failAt = 2
		}
		n, err := w.seq.Next()
		fired := w.cs.failAt == 0
		w.cs.failAt = 0
		if err != nil {
			if !fired {
				w.checkExhausted(r, err, "fnext")
			}

			return "err"
		}
		if fired {
			r.Fail("error-faithful", "Next swallowed a store error", map[string]string{"oracle": "swallowed-error", "after": "fnext"})
		}
		tr := append([]string(nil), w.trail...)
		w.handOut(r, n)
		w.trail = tr

		return fmt.Sprintf("num %d", n)
	case "parrel":
		// G goroutines x K Next calls racing one goroutine that keeps calling Release, with slow store writes; then the
		// object is abandoned and a fresh object must continue above everything handed out. Judged here only.
		if w.seq == nil {
			return "ok"
		}
		g, _ := strconv.Atoi(f[1])
		k, _ := strconv.Atoi(f[2])
		seq := w.seq
		w.cs.slowSet.Store(true)
		var mu sync.Mutex
		seen := map[uint64]int{}
		var maxN uint64
		record := func(n uint64, who string) {
			mu.Lock()
			defer mu.Unlock()
			seen[n]++
			if seen[n] == 2 {
				r.Fail("strictly-increasing", fmt.Sprintf("number %d handed out twice (%s, Next racing Release)", n, who),
					map[string]string{"oracle": "reuse", "after": "parrel"})
			}
			if n > maxN {
				maxN = n
			}
		}
		var wg sync.WaitGroup
		stop := make(chan struct{})
		wg.Add(1)
		go func() {
			defer wg.Done()
			for {
				select {
				case <-stop:
					return
				default:
					_ = seq.Release()
				}
			}
		}()
		var nwg sync.WaitGroup
		for i := 0; i < g; i++ {
			nwg.Add(1)
			go func() {
				defer nwg.Done()
				last, have := uint64(0), false
				for j := 0; j < k; j++ {
					n, err := seq.Next()
					if err != nil {
						continue
					}
					if have && n <= last {
						r.Fail("strictly-increasing", fmt.Sprintf("one caller got %d after %d (Next racing Release)", n, last),
							map[string]string{"oracle": "reuse", "after": "parrel"})
					}
					last, have = n, true
					record(n, "same object")
				}
			}()
		}
		nwg.Wait()
		close(stop)
		wg.Wait()
		w.cs.slowSet.Store(false)
		for n := range seen {
			if w.have && n <= w.last {
				r.Fail("strictly-increasing", fmt.Sprintf("number %d handed out although %d had been handed out before", n, w.last),
					map[string]string{"oracle": "reuse", "after": "parrel"})
			}
		}
		// abandon and restart: the fresh object must continue above everything handed out
		fresh, err := kvstore.NewSequence(w.cs, key, 3)
		if err == nil {
			for i := 0; i < 8; i++ {
				n, err := fresh.Next()
				if err == nil {
					record(n, "fresh object after restart")
				}
			}
		}
		w.seq = nil

		return "ok"
	case "mark":
		m, ok, err := w.storedMark()
		if err != nil {
			return "err"
		}
		if !ok {
			return "none"
		}

		return strconv.FormatUint(m, 10)
	case "par", "parfr":
		// G goroutines x K Next calls on the live object; answer: the sorted results as a range if contiguous
		if w.seq == nil {
			return "noobj"
		}
		g, _ := strconv.Atoi(f[1])
		k, _ := strconv.Atoi(f[2])
		var mu sync.Mutex
		var all []uint64
		var wg sync.WaitGroup
		stopFr := make(chan struct{})
		var frwg sync.WaitGroup
		if f[0] == "parfr" {
			// foreign goroutines read ANOTHER key through the very handle the Sequence uses
			for i := 0; i < 2; i++ {
				frwg.Add(1)
				go func(i int) {
					defer frwg.Done()
					for {
						select {
						case <-stopFr:
							return
						default:
						}
						if i == 0 {
							if v, err := w.view.Get(otherKey); err != nil || len(v) != 8 || binary.BigEndian.Uint64(v) != 0 {
								r.Fail("store-intact", fmt.Sprintf("foreign reader got %x, %v for the other key", v, err),
									map[string]string{"oracle": "view-disturbed", "after": "parfr"})

								return
							}
						} else if ok, err := w.view.Has(otherKey); err != nil || !ok {
							r.Fail("store-intact", fmt.Sprintf("foreign reader: Has(other key) = %v, %v", ok, err),
								map[string]string{"oracle": "view-disturbed", "after": "parfr"})

							return
						}
					}
				}(i)
			}
		}
		for i := 0; i < g; i++ {
			wg.Add(1)
			go func() {
				defer wg.Done()
				for j := 0; j < k; j++ {
					n, err := w.seq.Next()
					if err == nil {
						mu.Lock()
						all = append(all, n)
						mu.Unlock()
					}
				}
			}()
		}
		wg.Wait()
		close(stopFr)
		frwg.Wait()
		sort.Slice(all, func(i, j int) bool { return all[i] < all[j] })
		for i := 1; i < len(all); i++ {
			if all[i] == all[i-1] {
				r.Fail("strictly-increasing", fmt.Sprintf("concurrent Next returned %d twice", all[i]),
					map[string]string{"oracle": "reuse", "after": f[0]})
			}
		}
		for _, n := range all {
			w.handOut(r, n)
		}
		contiguous := len(all) == g*k
		for i := 1; i < len(all); i++ {
			if all[i] != all[i-1]+1 {
				contiguous = false
			}
		}
		if !contiguous {
			return fmt.Sprintf("par-noncontiguous %v", all)
		}

		return fmt.Sprintf("range %d %d", all[0], all[len(all)-1])
	}

	return "bad-op"
}

// execHist runs the request `chist G K IV2 M`: G goroutines x K Next calls on the live object racing one goroutine that
// keeps calling Release (slow store writes), every goroutine recording what it received in completion order; then the
// object is abandoned between calls and a fresh object (interval IV2) hands out M numbers.  The recorded history is
// appended to the request line (`… h <goroutine 0> <goroutine 1> … f <fresh>`, lists comma-separated, `-` = empty) and
// judged by the Lean driver with the trace predicate of the C07_concurrent_* theorems (Hive/Model/SeqConc.lean,
// histWhy); the implementation column is the constant `accept`.  Always the last request of a case.  On replay only
// the fields before `h` are used: the scenario is executed again.
func (w *world) execHist(r *hx.Run, op string) (string, string) {
	f := strings.Fields(op)
	spec := f
	for i, t := range f {
		if t == "h" {
			spec = f[:i]

			break
		}
	}
	if len(spec) != 5 {
		return op, "bad-op"
	}
	head := strings.Join(spec, " ")
	if w.seq == nil {
		return head, "noobj"
	}
	g, _ := strconv.Atoi(spec[1])
	k, _ := strconv.Atoi(spec[2])
	iv2, _ := strconv.ParseUint(spec[3], 10, 64)
	m, _ := strconv.Atoi(spec[4])
	seq := w.seq
	w.cs.slowSet.Store(true)
	perG := make([][]uint64, g)
	errs := make([]int, g)
	stop := make(chan struct{})
	var rwg, nwg sync.WaitGroup
	rwg.Add(1)
	go func() {
		defer rwg.Done()
		for {
			select {
			case <-stop:
				return
			default:
				_ = seq.Release()
			}
		}
	}()
	for i := 0; i < g; i++ {
		nwg.Add(1)
		go func(i int) {
			defer nwg.Done()
			for j := 0; j < k; j++ {
				n, err := seq.Next()
				if err != nil {
					errs[i]++

					continue
				}
				perG[i] = append(perG[i], n)
			}
		}(i)
	}
	done := make(chan struct{})
	go func() { nwg.Wait(); close(stop); rwg.Wait(); close(done) }()
	select {
	case <-done:
	case <-time.After(60 * time.Second):
		r.Fail("progress", "concurrent Next/Release did not finish within 60 s", map[string]string{"oracle": "stuck", "after": "chist"})

		return head, "stuck"
	}
	w.cs.slowSet.Store(false)
	sig := func(o string) map[string]string { return map[string]string{"oracle": o, "after": "chist"} }
	// independent oracle on the implementation
	var all []uint64
	for i, l := range perG {
		if errs[i] != 0 {
			r.Fail("error-faithful", "Next returned an error although no store call failed", sig("spurious-error"))
		}
		for j := 1; j < len(l); j++ {
			if l[j] <= l[j-1] {
				r.Fail("strictly-increasing", fmt.Sprintf("one caller got %d after %d (Next racing Release)", l[j], l[j-1]), sig("reuse"))
			}
		}
		all = append(all, l...)
	}
	sort.Slice(all, func(i, j int) bool { return all[i] < all[j] })
	for i := range all {
		if i > 0 && all[i] == all[i-1] {
			r.Fail("strictly-increasing", fmt.Sprintf("number %d handed out twice (Next racing Release)", all[i]), sig("reuse"))
		} else if i > 0 && all[i] != all[i-1]+1 {
			r.Fail("release-wastes-none", fmt.Sprintf("gap between %d and %d although no crash happened (Next racing Release)", all[i-1], all[i]), sig("waste-clean"))
		}
		if w.have && all[i] <= w.last {
			r.Fail("strictly-increasing", fmt.Sprintf("number %d handed out although %d had been handed out before", all[i], w.last), sig("reuse"))
		}
	}
	// abandon between calls and restart
	oldIv := w.interval
	w.seq = nil
	var freshNums []uint64
	fresh, err := kvstore.NewSequence(w.cs, key, iv2)
	if err == nil {
		for i := 0; i < m; i++ {
			n, err := fresh.Next()
			if err != nil {
				r.Fail("error-faithful", "Next of the fresh object returned an error although no store call failed", sig("spurious-error"))

				continue
			}
			if len(all) > 0 && n <= all[len(all)-1] {
				r.Fail("strictly-increasing", fmt.Sprintf("fresh object after restart handed out %d although %d had been handed out", n, all[len(all)-1]), sig("reuse"))
			}
			if len(freshNums) > 0 && n != freshNums[len(freshNums)-1]+1 {
				r.Fail("strictly-increasing", fmt.Sprintf("fresh object handed out %d after %d", n, freshNums[len(freshNums)-1]), sig("reuse"))
			}
			if len(freshNums) == 0 && len(all) > 0 && n > all[len(all)-1] && n-(all[len(all)-1]+1) > oldIv {
				r.Fail("waste-bound", fmt.Sprintf("crash skipped %d numbers, interval of the abandoned object is %d", n-(all[len(all)-1]+1), oldIv), sig("waste"))
			}
			freshNums = append(freshNums, n)
		}
	}
	csv := func(l []uint64) string {
		if len(l) == 0 {
			return "-"
		}
		p := make([]string, len(l))
		for i, n := range l {
			p[i] = strconv.FormatUint(n, 10)
		}

		return strings.Join(p, ",")
	}
	line := head + " h"
	for _, l := range perG {
		line += " " + csv(l)
	}
	line += " f " + csv(freshNums)
	r.Count("chist:numbers")

	return line, "accept"
}

// checkExhausted: a Next that fails although no store call failed may only report ErrSequenceExhausted, and only when
// the stored mark stands at the end of the number space.
func (w *world) checkExhausted(r *hx.Run, err error, after string) {
	m, ok, merr := w.storedMark()
	// matched by its text so that the harness also builds against a tree without the exported error value
	if !strings.Contains(err.Error(), "sequence exhausted") || merr != nil || !ok || m != ^uint64(0) {
		r.Fail("error-faithful", fmt.Sprintf("Next returned %v although no store call failed; stored mark %d (present %v)", err, m, ok),
			map[string]string{"oracle": "spurious-error", "after": after})
	}
}

func runCrashing(f func()) (crashed bool) {
	defer func() {
		if e := recover(); e != nil {
			if _, ok := e.(crashSignal); ok {
				crashed = true

				return
			}
			panic(e)
		}
	}()
	f()

	return false
}

// genExtreme: histories at the end of the number space: huge intervals (a lease is cut off at MaxUint64, then Next
// reports exhaustion), no concurrent requests.
func genExtreme(rng *hx.Rng, n int) []string {
	intervals := []uint64{1, 5, 1 << 32, 1 << 62, 1 << 63, 1<<63 + 1, ^uint64(0) - 1, ^uint64(0), ^uint64(0)}
	ops := []string{fmt.Sprintf("new %d", hx.Pick(rng, intervals))}
	for i := 0; i < n; i++ {
		switch x := rng.Intn(100); {
		case x < 40:
			ops = append(ops, "next")
		case x < 55:
			ops = append(ops, "release")
		case x < 65:
			ops = append(ops, fmt.Sprintf("new %d", hx.Pick(rng, intervals)))
		case x < 70:
			ops = append(ops, "crash idle", fmt.Sprintf("new %d", hx.Pick(rng, intervals)))
		case x < 76:
			ops = append(ops, "crash read", fmt.Sprintf("new %d", hx.Pick(rng, intervals)))
		case x < 84:
			ops = append(ops, "crash write", fmt.Sprintf("new %d", hx.Pick(rng, intervals)))
		case x < 88:
			ops = append(ops, "crash relwrite", fmt.Sprintf("new %d", hx.Pick(rng, intervals)))
		case x < 93:
			ops = append(ops, "mark")
		case x < 95:
			ops = append(ops, "fnext get")
		case x < 97:
			ops = append(ops, "fnext set")
		case x < 98:
			ops = append(ops, "frelease")
		default:
			ops = append(ops, "sibling t")
		}
	}

	return ops
}

func genCase(rng *hx.Rng, n int) []string {
	intervals := []int{1, 1, 2, 3, 5, 1 << 32}
	ops := []string{fmt.Sprintf("new %d", hx.Pick(rng, intervals))}
	for i := 0; i < n; i++ {
		switch x := rng.Intn(100); {
		case x < 45:
			ops = append(ops, "next")
		case x < 55:
			ops = append(ops, "release")
		case x < 65:
			ops = append(ops, fmt.Sprintf("new %d", hx.Pick(rng, intervals)))
		case x < 70:
			ops = append(ops, "crash idle", fmt.Sprintf("new %d", hx.Pick(rng, intervals)))
		case x < 77:
			ops = append(ops, "crash read", fmt.Sprintf("new %d", hx.Pick(rng, intervals)))
		case x < 86:
			ops = append(ops, "crash write", fmt.Sprintf("new %d", hx.Pick(rng, intervals)))
		case x < 91:
			ops = append(ops, "crash relwrite", fmt.Sprintf("new %d", hx.Pick(rng, intervals)))
		case x < 93:
			ops = append(ops, "mark")
		case x < 94:
			ops = append(ops, "sibling "+hx.Pick(rng, []string{"t", "s2", "r", "u"}))
		case x < 95:
			ops = append(ops, "fnext get")
		case x < 97:
			ops = append(ops, "fnext set")
		case x < 98:
			ops = append(ops, "frelease")
		default:
			ops = append(ops, fmt.Sprintf("par %d %d", rng.Range(2, 4), rng.Range(1, 5)))
		}
	}
	if rng.Chance(1, 40) { // concurrent Next with foreign readers of another key on the same handle
		ops = append(ops, "new 1", fmt.Sprintf("parfr 4 %d", rng.Range(300, 1200)))
	}
	if rng.Chance(1, 12) { // concurrent Next vs Release: always the last request of a case
		ops = append(ops, fmt.Sprintf("parrel %d %d", rng.Range(2, 4), rng.Range(20, 60)))
	} else if rng.Chance(1, 10) { // recorded concurrent history, judged by the Lean trace predicate: also last
		ops = append(ops, fmt.Sprintf("chist %d %d %d %d", rng.Range(2, 4), rng.Range(5, 40), hx.Pick(rng, intervals), rng.Range(0, 4)))
	}

	return ops
}

func runCase(r *hx.Run, sub uint64, ops []string) {
	r.Case(sub)
	w := newWorld()
	crashes, nums := 0, 0
	for _, op := range ops {
		var ans string
		if strings.HasPrefix(op, "chist") {
			op, ans = w.execHist(r, op)
		} else {
			ans = w.exec(r, op)
		}
		r.Line(op, ans)
		k := strings.Fields(op)[0]
		if k == "crash" {
			k = op
		}
		r.Count("op:" + k)
		r.Count("ans:" + strings.Fields(ans)[0])
		if strings.HasPrefix(op, "crash") || strings.HasPrefix(op, "new") {
			crashes++
		}
		if strings.HasPrefix(ans, "num") {
			nums++
		}
	}
	if crashes >= 2 && nums >= 2 {
		h := sha256.Sum256([]byte(strings.Join(ops, "\n")))
		r.Nontrivial(string(h[:8]))
	}
	r.Sample(r.CaseLines())
}

func main() {
	r := hx.Start()
	r.Rule = "random histories of new/next/release/crash(idle|read|write|relwrite)/fnext(get|set)/frelease (injected store errors)/mark/par/parrel (Next racing Release, slow store writes)/chist (recorded concurrent history of Next racing Release + restart, judged by the Lean trace predicate of C07_concurrent_*) over intervals {1,2,3,5,2^32}; every fifth case at the end of the number space (intervals up to 2^64-1: leases cut off at MaxUint64, exhaustion errors); the sequence lives in a sub-view of a non-root mapdb view, 'sibling' opens and writes sibling views, 'parfr' runs concurrent Next with foreign readers of another key on the same handle; " +
		"non-trivial = at least two restarts/crashes and two numbers handed out; distinct by sha256 of the op lines"
	if lines := r.ReplayLines(); lines != nil {
		runCase(r, 0, lines)
		r.Finish()

		return
	}
	// corpus: minimised past failures run first
	corpus := [][]string{
		{"new 1", "next", "new 1", "release", "new 1", "next"},
		{"new 3", "next", "release", "release", "new 2", "next", "crash write", "new 5", "next"},
		{"new 2", "next", "crash relwrite", "new 2", "next", "next", "next"},
		{"new 3", "next", "next", "next", "fnext get", "next", "fnext set", "next", "release", "new 3", "next"},
		{"new 5", "next", "frelease", "release", "new 2", "next"},
		{"new 10", "next", "next", "parrel 3 40"},
		{"new 5", "next", "next", "chist 3 30 2 3"},
		{"new 1", "chist 4 20 3 2"},
		{"new 3", "next", "release", "crash write", "new 4294967296", "next", "chist 2 40 1 4"},
		// wrap-around of next+interval (repaired in /repo: "fix: Sequence.update must not let next+interval wrap ...")
		{"new 18446744073709551615", "next", "release", "new 18446744073709551615", "next", "next", "mark"},
		{"new 9223372036854775808", "next", "crash idle", "new 9223372036854775808", "next", "crash idle", "new 9223372036854775808", "next", "next", "mark"},
		{"new 18446744073709551615", "next", "crash idle", "new 5", "next", "next", "crash write", "release", "fnext set", "mark"},
		{"new 9223372036854775807", "next", "crash idle", "new 1", "next", "next", "next", "crash write", "new 9223372036854775807", "next", "next"},
		// the sequence's view has siblings opened while it is in use; foreign readers share its handle
		{"new 2", "next", "sibling t", "next", "next", "sibling s2", "crash idle", "new 3", "next", "mark"},
		{"new 1", "next", "parfr 4 1500", "next", "mark"},
	}
	for _, c := range corpus {
		runCase(r, 0, c)
	}
	n := 5000 * r.Scale
	for i := 0; i < n; i++ {
		rng, sub := r.Rng.Fork()
		if i%5 == 4 {
			runCase(r, sub, genExtreme(rng, 25))
		} else {
			runCase(r, sub, genCase(rng, 30))
		}
	}
	r.Finish()
}
