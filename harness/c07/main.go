// C07 correspondence harness: drives the real kvstore.Sequence over mapdb through histories of
// restart / Next / Release / crash-at-a-store-boundary and prints the canonical answers that the
// Lean model (Hive/Model/Seq.lean) must reproduce line by line.  The property oracle (numbers
// strictly increasing, waste bounds) is evaluated here on the implementation, independently of Lean.
package main

import (
	"crypto/sha256"
	"encoding/binary"
	"encoding/hex"
	"fmt"
	"os"
	"path/filepath"
	"reflect"
	"runtime"
	"sort"
	"strconv"
	"strings"
	"sync"
	"sync/atomic"
	"time"
	"unsafe"

	"verifharness/hx"

	"github.com/iotaledger/hive.go/ierrors"
	"github.com/iotaledger/hive.go/kvstore"
	"github.com/iotaledger/hive.go/kvstore/debug"
	"github.com/iotaledger/hive.go/kvstore/flushkv"
	"github.com/iotaledger/hive.go/kvstore/mapdb"
)

type crashSignal struct{}

// crashStore panics once `armed` store calls have completed (crash *after* the k-th call returned).
type crashStore struct {
	kvstore.KVStore
	armed   int // -1: disarmed; k>=0: crash when the (k+1)-th call is about to return... see after()
	calls   int
	failAt  int  // >0: the failAt-th store call of the current operation returns errInjected (and is not executed)
	trace   []byte // store calls of the current sequential operation: G/S returned, g/s failed with the injected error
	tracing bool
	wrapNF  bool // a missing key is reported by an error that only wraps ErrKeyNotFound
	wraps   int
	closeAt int  // >=0: the database below the wrappers is closed once closeAt store calls of the current operation have completed
	dsk     *disk
	w       *world // the store contract oracles (acked / nacked / read) live there
	slow    *atomic.Bool // shared by the lanes: widen the window around store writes (concurrent scenarios)
}

// disk: the database below every wrapper. Its content survives Close (it can be opened again: a restart of the process that
// owns an on-disk database); while it is closed every access answers kvstore.ErrStoreClosed, as the stores of the module do.
type disk struct {
	kvstore.KVStore
	*diskState
}

// diskState is shared by every view of the database (WithRealm / WithExtendedRealm of a wrapper stack end here).
type diskState struct {
	closed  atomic.Bool
	refused atomic.Int64 // accesses answered with ErrStoreClosed
	// real: shutting down means Close() of the mapdb itself (its own closed flag, its own ErrStoreClosed paths); opening it
	// again (a process that reopens its on-disk database) resets that flag through reflection
	real       bool
	realClosed atomic.Bool
	root       kvstore.KVStore
	views      []kvstore.KVStore // the views of the database this layer and its realm views were put on (made at cfg time)
	// armed: the database is shut down right after it took the next write (the write happened; what follows it inside the
	// wrappers - the Flush of flushkv - meets a closed store)
	closeAfterSet atomic.Bool
}

func newDisk(s kvstore.KVStore) *disk { return &disk{KVStore: s, diskState: &diskState{views: []kvstore.KVStore{s}}} }

func (d *diskState) shut() {
	if d.real {
		_ = d.root.Close()
		d.realClosed.Store(true)
		// closing the database closes its views; where it does not (another design of Close is no concern of C07) the
		// harness-level layer refuses instead, so that the fault still happens
		for _, v := range d.views {
			if _, err := v.Has(otherKey); err == nil || !ierrors.Is(err, kvstore.ErrStoreClosed) {
				d.closed.Store(true)
			}
		}

		return
	}
	d.closed.Store(true)
}

func (d *diskState) open() {
	if d.realClosed.Load() {
		reopenMapDB(d.root)
		d.realClosed.Store(false)
	}
	d.closed.Store(false)
}

func (d *diskState) isShut() bool { return d.closed.Load() || d.realClosed.Load() }

// seen: an answer of the database below; counts the refusals of a database that was really closed.
func (d *diskState) seen(err error) error {
	if err != nil && d.realClosed.Load() && ierrors.Is(err, kvstore.ErrStoreClosed) {
		d.refused.Add(1)
	}

	return err
}

// mapdbClosedFlag finds the closed flag of a mapdb handle (shared by all its views).
func mapdbClosedFlag(s kvstore.KVStore) *atomic.Bool {
	v := reflect.ValueOf(s)
	if v.Kind() != reflect.Ptr || v.IsNil() || v.Elem().Kind() != reflect.Struct {
		return nil
	}
	f := v.Elem().FieldByName("closed")
	if !f.IsValid() || f.Kind() != reflect.Ptr || f.IsNil() || f.Type().Elem() != reflect.TypeOf(atomic.Bool{}) {
		return nil
	}

	return (*atomic.Bool)(unsafe.Pointer(f.Pointer()))
}

func reopenMapDB(s kvstore.KVStore) {
	if p := mapdbClosedFlag(s); p != nil {
		p.Store(false)
	}
}

func (d *disk) WithRealm(realm kvstore.Realm) (kvstore.KVStore, error) {
	if d.refuse() {
		return nil, kvstore.ErrStoreClosed
	}
	s, err := d.KVStore.WithRealm(realm)
	if err != nil {
		return nil, err
	}
	d.views = append(d.views, s)

	return &disk{KVStore: s, diskState: d.diskState}, nil
}

func (d *disk) WithExtendedRealm(realm kvstore.Realm) (kvstore.KVStore, error) {
	if d.refuse() {
		return nil, kvstore.ErrStoreClosed
	}
	s, err := d.KVStore.WithExtendedRealm(realm)
	if err != nil {
		return nil, err
	}
	d.views = append(d.views, s)

	return &disk{KVStore: s, diskState: d.diskState}, nil
}

func (d *disk) refuse() bool {
	if d.closed.Load() {
		d.refused.Add(1)

		return true
	}

	return false
}

func (d *disk) Get(k kvstore.Key) (kvstore.Value, error) {
	if d.refuse() {
		return nil, kvstore.ErrStoreClosed
	}

	v, err := d.KVStore.Get(k)

	return v, d.seen(err)
}

func (d *disk) Set(k kvstore.Key, v kvstore.Value) error {
	if d.refuse() {
		return kvstore.ErrStoreClosed
	}

	err := d.seen(d.KVStore.Set(k, v))
	if err == nil && d.closeAfterSet.CompareAndSwap(true, false) {
		d.shut()
	}

	return err
}

func (d *disk) Has(k kvstore.Key) (bool, error) {
	if d.refuse() {
		return false, kvstore.ErrStoreClosed
	}

	return d.KVStore.Has(k)
}

func (d *disk) Delete(k kvstore.Key) error {
	if d.refuse() {
		return kvstore.ErrStoreClosed
	}

	return d.seen(d.KVStore.Delete(k))
}

func (d *disk) Flush() error {
	if d.refuse() {
		return kvstore.ErrStoreClosed
	}

	return d.seen(d.KVStore.Flush())
}

func (d *disk) Batched() (kvstore.BatchedMutations, error) {
	if d.refuse() {
		return nil, kvstore.ErrStoreClosed
	}

	return d.KVStore.Batched()
}

func (d *disk) Close() error {
	d.closed.Store(true)

	return nil
}

func (c *crashStore) maybeClose() {
	if c.closeAt >= 0 && c.calls == c.closeAt && c.dsk != nil {
		c.closeAt = -1
		c.dsk.shut()
	}
}

func (c *crashStore) note(b byte) {
	if c.tracing {
		c.trace = append(c.trace, b)
	}
}

var errInjected = ierrors.New("injected store error")

func (c *crashStore) fail() bool {
	if c.failAt > 0 && c.calls+1 == c.failAt {
		c.calls++
		c.failAt = 0

		return true
	}

	return false
}

func (c *crashStore) after() {
	c.calls++
	if c.armed >= 0 && c.calls == c.armed {
		c.armed = -1
		panic(crashSignal{})
	}
}

func (c *crashStore) Get(k kvstore.Key) (kvstore.Value, error) {
	if c.fail() {
		c.note('g')

		return nil, errInjected
	}
	c.w.fireHook('G', k, false)
	c.maybeClose()
	v, err := c.KVStore.Get(k)
	if err != nil && !ierrors.Is(err, kvstore.ErrKeyNotFound) {
		c.note('g')
	} else {
		c.note('G')
		c.w.readAnswered(k, v, err)
	}
	if c.wrapNF && err != nil && ierrors.Is(err, kvstore.ErrKeyNotFound) {
		// one, two or three levels deep, by Wrap / Wrapf / Errorf("%w") / Join with another error
		c.wraps++
		switch c.wraps % 4 {
		case 0:
			err = ierrors.Wrap(err, "sequence key")
		case 1:
			err = ierrors.Wrapf(ierrors.Wrap(err, "sequence key"), "store %d", 1)
		case 2:
			err = ierrors.Errorf("get: %w", ierrors.Wrap(err, "sequence key"))
		default:
			err = ierrors.Wrap(ierrors.Join(ierrors.New("view"), err), "sequence key")
		}
	}
	c.after()

	return v, err
}

func (c *crashStore) Set(k kvstore.Key, v kvstore.Value) error {
	if c.fail() {
		c.note('s')

		return errInjected
	}
	// what the caller asked to be written, as it stood when the call was made: the bytes may not change while the call
	// is under way (a buffer that somebody else writes into) - the database must hold exactly these afterwards
	want := append([]byte(nil), v...)
	before, beforeErr := c.w.rawGet(k)
	c.w.fireHook('S', k, false)
	if c.slow.Load() {
		// widen the window around the store write: let the other goroutines run (no timer: a sleep costs 0.1..1 ms on a
		// loaded machine and dominated the run time)
		for i := 0; i < 30; i++ {
			runtime.Gosched()
		}
	}
	c.maybeClose()
	err := c.KVStore.Set(k, v)
	if err != nil {
		c.note('s')
		c.w.writeRefused(k, before, beforeErr)
	} else {
		c.note('S')
		c.w.writeAcked(k, want)
	}
	c.after()

	return err
}

const nLanes = 4

type world struct {
	root    kvstore.KVStore // the database
	parent  kvstore.KVStore // a non-root view of it; the sequence lives in a sub-view, siblings are opened next to it
	view    kvstore.KVStore // the sub-view the store stack of the Sequence is built on
	stack   kvstore.KVStore // the handle the Sequences use (under the per-lane crash wrapper): ONE store for all lanes
	backend string          // view (default) | root | flush | debug | stack:<layers>
	realm   []byte          // the realm the stack's handle works in (what the raw reader prefixes keys with)
	dsk     *disk
	hung    bool   // a request did not return: the process is of no further use
	faultBy string // how fnext/frelease make a store call fail: "" = injected error on top of the wrappers, "close" = the database below them is closed
	r       *hx.Run
	slow    *atomic.Bool
	*lane          // the lane the current request works on
	lanes   *[nLanes]*lane
	sh      *shared
}

// shared: what the store-contract oracles and the store-call hooks keep across the lanes (and across the per-lane
// copies of `world`); guarded by mu.
type shared struct {
	mu    sync.Mutex
	hooks []*hook
	// the last value of every key that the database is known to hold (after an acknowledged write / observed at a
	// refused one): the stored cell may not change between store calls
	cell      map[string][]byte
	nestFired int // nest / nestg requests whose store-call window was reached
	dbgCalls [3]atomic.Int64 // access callbacks of debug layers: Get, Set, other
}

// hook: run `f` once, inside the next store call of the given kind (G/S) for the given key - on top of the stack (in the
// crash wrapper) or, `deep`, inside the access callback of a debug layer of the stack.
type hook struct {
	kind  byte
	key   string
	deep  bool
	f     func()
	fired bool
}

func (w *world) addHook(h *hook) {
	w.sh.mu.Lock()
	w.sh.hooks = append(w.sh.hooks, h)
	w.sh.mu.Unlock()
}

// dropHook removes the hook and reports whether it had fired.
func (w *world) dropHook(h *hook) bool {
	w.sh.mu.Lock()
	defer w.sh.mu.Unlock()
	for i, x := range w.sh.hooks {
		if x == h {
			w.sh.hooks = append(w.sh.hooks[:i], w.sh.hooks[i+1:]...)
		}
	}

	return h.fired
}

func (w *world) fireHook(kind byte, k []byte, deep bool) {
	w.sh.mu.Lock()
	var run *hook
	for _, h := range w.sh.hooks {
		if !h.fired && h.kind == kind && h.deep == deep && h.key == string(k) {
			h.fired, run = true, h

			break
		}
	}
	w.sh.mu.Unlock()
	if run != nil {
		run.f()
	}
}

// lane: one sequence key with its live object and its oracle state. Lanes 1.. (`k2 <op>`, `k3 <op>`, `k4 <op>`) are further
// sequences under other keys of the same store handle: they must not disturb each other.
type lane struct {
	idx      int
	key      []byte
	seq      *kvstore.Sequence
	cs       *crashStore // the crash / fault wrapper of this lane (thin; the stack below it is shared)
	interval uint64
	// oracle state
	have     bool   // a number was handed out
	last     uint64 // last number handed out (if have)
	count    uint64 // numbers handed out so far
	budget   uint64 // sum of the intervals of all abandoned objects, saturating at MaxUint64
	clean    bool   // since the last hand-out only Release and restarts of released objects happened
	released bool   // the live object released its lease after its last hand-out
	trail    []string
}

var key = []byte("seq")
var key2 = []byte("seq2")
var key3 = []byte("t")
var key4 = []byte("seq\x00")

var (
	parentRealm = []byte("store")
	seqRealm    = []byte("s")
	otherKey    = []byte("other")
)

// on: the same world seen from another lane (the requests of that lane run on it; also concurrently).
func (w *world) on(i int) *world {
	c := *w
	c.lane = w.lanes[i]

	return &c
}

// The sequence lives in a sub-view of a non-root view of the database (realm "store" ++ "s"); sibling sub-views
// ("store" ++ x) are opened and written while it is in use, and another key of the same view is read by foreign
// goroutines: none of that may disturb the numbers.
func newWorld(r *hx.Run) *world {
	root := mapdb.NewMapDB()
	parent, err := root.WithExtendedRealm(parentRealm)
	if err != nil {
		panic(err)
	}
	view, err := parent.WithExtendedRealm(seqRealm)
	if err != nil {
		panic(err)
	}
	if err := view.Set(otherKey, make([]byte, 8)); err != nil {
		panic(err)
	}

	w := &world{root: root, parent: parent, view: view, slow: &atomic.Bool{}, sh: &shared{cell: map[string][]byte{}}, r: r}
	w.lanes = &[nLanes]*lane{}
	for i, k := range [][]byte{key, key2, key3, key4} {
		w.lanes[i] = &lane{idx: i, key: k, clean: true, cs: &crashStore{armed: -1, closeAt: -1, w: w, slow: w.slow}}
	}
	w.lane = w.lanes[0]
	w.setBackend("view")

	return w
}

// The obligation the Sequence has on the store layer, tested on every wrapper stack, at every store call: a write that
// answered nil is in the database (it survives a restart) - with the bytes the caller handed over when it made the call -,
// a write that answered an error changed nothing, a read answers what the database holds, and the stored cell does not
// change between store calls.
func (w *world) writeAcked(k, want []byte) {
	raw, err := w.rawGet(k)
	if err != nil || string(raw) != string(want) {
		w.r.Fail("store-contract", fmt.Sprintf("Set(%x, %x) answered nil but the database holds %x (%v): the write would not survive a restart", k, want, raw, err),
			map[string]string{"oracle": "acked-write-lost", "after": w.backend})
	}
	w.sh.mu.Lock()
	w.sh.cell[string(k)] = append([]byte(nil), raw...)
	w.sh.mu.Unlock()
}

func (w *world) writeRefused(k, before []byte, beforeErr error) {
	raw, err := w.rawGet(k)
	if (err == nil) != (beforeErr == nil) || string(raw) != string(before) {
		w.r.Fail("store-contract", fmt.Sprintf("Set(%x) answered an error but the database holds %x (%v) instead of %x (%v)", k, raw, err, before, beforeErr),
			map[string]string{"oracle": "failed-write-applied", "after": w.backend})
	}
}

func (w *world) readAnswered(k, v []byte, e error) {
	raw, err := w.rawGet(k)
	if (e == nil) != (err == nil) || string(raw) != string(v) {
		w.r.Fail("store-contract", fmt.Sprintf("Get(%x) answered %x, %v but the database holds %x (%v)", k, v, e, raw, err),
			map[string]string{"oracle": "stale-read", "after": w.backend})
	}
	w.cellUnchanged(k, raw, "get")
}

// cellUnchanged: the database holds under k what the last acknowledged write put there (nothing, if there was none).
func (w *world) cellUnchanged(k, raw []byte, after string) {
	w.sh.mu.Lock()
	known, ok := w.sh.cell[string(k)]
	if !ok {
		// first look at this cell
		w.sh.cell[string(k)] = append([]byte(nil), raw...)
	}
	w.sh.mu.Unlock()
	if ok && string(known) != string(raw) {
		w.r.Fail("store-contract", fmt.Sprintf("the database holds %x under %x, the last acknowledged write was %x: the stored value changed without a store call", raw, k, known),
			map[string]string{"oracle": "phantom-write", "after": after})
	}
}

// rawMark reads the stored bytes through an independent path built from literal realm bytes.
func (w *world) rawMark() ([]byte, error) { return w.rawGet(w.key) }

// rawGet reads the database itself (not through the closable disk layer or any wrapper).
func (w *world) rawGet(k []byte) ([]byte, error) {
	if w.dsk != nil && w.dsk.realClosed.Load() {
		// the database is really closed (fault mode closedb): look at what it holds all the same
		reopenMapDB(w.root)
		defer func() { _ = w.root.Close() }()
	}

	return w.root.Get(append(append([]byte{}, w.realm...), k...))
}

func fieldStr(v reflect.Value, name string) string {
	f := v.FieldByName(name)
	if !f.IsValid() || !f.CanUint() {
		return "?"
	}

	return strconv.FormatUint(f.Uint(), 10)
}

// obs: what is observed after every sequential request besides the answer: the private fields of the live object and the
// raw stored bytes. The crash-safety invariants are judged here on the implementation, independently of Lean: a lease held
// in memory is covered by the stored mark, and the stored mark is above every number handed out.
func (w *world) obs(r *hx.Run, after string) string {
	o := "-"
	raw, err := w.rawMark()
	if err == nil || ierrors.Is(err, kvstore.ErrKeyNotFound) {
		w.cellUnchanged(w.key, raw, after)
	}
	m := "none"
	var mv uint64
	present := false
	switch {
	case err == nil && len(raw) == 8:
		m, mv, present = hex.EncodeToString(raw), binary.BigEndian.Uint64(raw), true
	case err == nil:
		m = "x" + hex.EncodeToString(raw)
		r.Fail("store-format", fmt.Sprintf("the stored mark is %d bytes long: %x", len(raw), raw), map[string]string{"oracle": "mark-format", "after": after})
	case !ierrors.Is(err, kvstore.ErrKeyNotFound):
		m = "err"
	}
	if w.seq != nil {
		v := reflect.ValueOf(w.seq).Elem()
		o = fieldStr(v, "interval") + "/" + fieldStr(v, "next") + "/" + fieldStr(v, "reserved")
		nx, e1 := strconv.ParseUint(fieldStr(v, "next"), 10, 64)
		rs, e2 := strconv.ParseUint(fieldStr(v, "reserved"), 10, 64)
		if e1 == nil && e2 == nil && nx < rs {
			if !present || rs > mv {
				r.Fail("crash-safe", fmt.Sprintf("the object can serve [%d,%d) from memory but the store holds %s", nx, rs, m),
					map[string]string{"oracle": "uncovered-lease", "after": after})
			}
			if w.have && nx <= w.last {
				r.Fail("strictly-increasing", fmt.Sprintf("the object will hand out %d next although %d was handed out", nx, w.last),
					map[string]string{"oracle": "reuse-pending", "after": after})
			}
		}
	}
	if w.have && (!present || mv <= w.last) {
		r.Fail("crash-safe", fmt.Sprintf("%d was handed out but the store holds %s: a restart would hand it out again", w.last, m),
			map[string]string{"oracle": "mark-behind", "after": after})
	}

	return "o=" + o + " m=" + m
}

// storedMark reads the mark through an independent view built from literal realm bytes.
func (w *world) storedMark() (uint64, bool, error) {
	v, err := w.rawMark()
	if ierrors.Is(err, kvstore.ErrKeyNotFound) {
		return 0, false, nil
	}
	if err != nil {
		return 0, false, err
	}

	return binary.BigEndian.Uint64(v), true, nil
}

func satAdd(a, b uint64) uint64 {
	if a+b < a {
		return ^uint64(0)
	}

	return a + b
}

func (w *world) handOut(r *hx.Run, n uint64) {
	if w.have && n <= w.last {
		r.Fail("strictly-increasing", fmt.Sprintf("number %d handed out after %d; trail=%v", n, w.last, w.trail),
			map[string]string{"oracle": "reuse", "after": trailKinds(w.trail)})
	} else {
		gap := n
		if w.have {
			gap = n - (w.last + 1)
		}
		if w.clean && gap != 0 {
			r.Fail("release-wastes-none", fmt.Sprintf("gap %d before %d although only clean releases/restarts happened; trail=%v", gap, n, w.trail),
				map[string]string{"oracle": "waste-clean", "after": trailKinds(w.trail)})
		}
		// all numbers so far are distinct and below n+1: skipped = n+1-(count+1)
		if n-w.count > w.budget {
			r.Fail("waste-bound", fmt.Sprintf("%d numbers skipped below %d but abandoned intervals sum to %d; trail=%v", n-w.count, n, w.budget, w.trail),
				map[string]string{"oracle": "waste", "after": trailKinds(w.trail)})
		}
	}
	if n == ^uint64(0) {
		r.Fail("strictly-increasing", "MaxUint64 handed out: the next increment wraps around", map[string]string{"oracle": "wrap", "after": trailKinds(w.trail)})
	}
	w.last, w.have = n, true
	w.count++
	w.clean = true
	w.released = false
	w.trail = w.trail[:0]
}

func trailKinds(t []string) string { return strings.Join(t, ",") }

func (w *world) abandon(cleanly bool) {
	if w.seq != nil {
		w.budget = satAdd(w.budget, w.interval)
		w.seq = nil
		if !(cleanly && w.released) {
			w.clean = false
		}
	}
}

// isSeqOp mirrors parseOp of the Lean model: the requests that are operations of the sequential machine.
func isSeqOp(f []string) bool {
	switch strings.Join(f, " ") {
	case "next", "release", "crash idle", "crash read", "crash write", "crash relwrite", "fnext get", "fnext set", "frelease", "cnext", "crelease":
		return true
	}
	if len(f) == 2 && f[0] == "new" {
		_, err := strconv.ParseUint(f[1], 10, 64)

		return err == nil
	}

	return false
}

// exec runs one request and appends what is observed besides the answer: the object's private fields and the raw stored
// bytes after it, and (for operations of the sequential machine) the store calls it made.
func (w *world) exec(r *hx.Run, op string) string {
	f := strings.Fields(op)
	if i := laneOf(f[0]); i > 0 && len(f) > 1 {
		c := w.on(i)
		out := c.exec(r, strings.Join(f[1:], " "))
		w.hung = w.hung || c.hung

		return out
	}
	switch f[0] {
	case "nest", "nestg":
		return w.execNest(r, f)
	case "parm":
		return w.execParm(r, f)
	}
	if f[0] == "parrel" {
		ans, hung := w.guarded(r, op)
		if hung {
			r.Fail("progress", fmt.Sprintf("%q did not return within %v", op, opTimeout), map[string]string{"oracle": "hang", "after": f[0]})
			w.hung = true
		}

		return ans
	}
	isOp := isSeqOp(f)
	w.cs.trace = w.cs.trace[:0]
	w.cs.tracing = isOp
	ans, hung := w.guarded(r, op)
	w.cs.tracing = false
	if hung {
		// the call never returned (it still holds whatever it holds): nothing more can be observed in this process
		r.Fail("progress", fmt.Sprintf("%q did not return within %v", op, opTimeout), map[string]string{"oracle": "hang", "after": f[0]})
		w.hung = true

		return "hang"
	}
	out := ans + " | " + w.obs(r, f[0])
	if isOp {
		out += " c=" + string(w.cs.trace)
	}

	return out
}

// panicFinding (deferred in every goroutine that calls the code under test): a panic is a finding with the case's op lines,
// not the death of the harness.
func panicFinding(r *hx.Run, after string) {
	if e := recover(); e != nil {
		r.Fail("no-panic", fmt.Sprintf("the code under test panicked: %v", e), map[string]string{"oracle": "panic", "after": after})
	}
}

var opTimeout = 30 * time.Second

// nest / nestg: how long the requests that run while another request is parked in a store call may take before the parked
// one is let go (they then finish after it); once that happened no request is parked any more (nestBlocked).
var (
	nestGrace   = 5 * time.Second
	nestBlocked atomic.Bool
)

// guarded runs one request under a watchdog; a panic of the code under test (other than the injected crash, which is
// recovered where it is injected) is a finding, not the death of the harness.
func (w *world) guarded(r *hx.Run, op string) (ans string, hung bool) {
	done := make(chan string, 1)
	go func() {
		defer func() {
			if e := recover(); e != nil {
				r.Fail("no-panic", fmt.Sprintf("%q panicked: %v", op, e), map[string]string{"oracle": "panic", "after": strings.Fields(op)[0]})
				// the request was torn down in the middle: disarm every pending fault
				w.cs.armed, w.cs.failAt, w.cs.closeAt = -1, 0, -1
				w.dsk.open()
				done <- "panic"
			}
		}()
		done <- w.execCore(r, op)
	}()
	t := time.NewTimer(opTimeout)
	defer t.Stop()
	select {
	case a := <-done:
		return a, false
	case <-t.C:
		return "hang", true
	}
}

// setBackend builds the ONE store handle all lanes use. Besides the four named stacks, `stack:<layer>,<layer>,…` (innermost
// first, over the closable database) composes every legal configuration of every wrapper of the module:
//
//	root | view        the database itself / the sub-view (first layer; default view)
//	flush              flushkv.New(s)
//	dbg                debug.New(s, callback)                      (all commands reported)
//	dbgnil             debug.New(s, nil)                           (no callback)
//	dbgf:<mask>        debug.New(s, callback, <commands of mask>…)  (mask 0: debug.ShutdownCommand only, i.e. nothing)
//	dbgnilf:<mask>     debug.New(s, nil, <commands of mask>…)
//	realm:<hex>        s.WithExtendedRealm(hex)                    (through the WithRealm of the wrappers below)
func (w *world) setBackend(b string) bool {
	var top kvstore.KVStore
	realm := append(append([]byte{}, parentRealm...), seqRealm...)
	ok := true
	switch {
	case b == "root":
		w.dsk = newDisk(w.root)
		top, realm = w.dsk, nil
	case b == "flush":
		w.dsk = newDisk(w.view)
		top = flushkv.New(w.dsk)
	case b == "debug":
		// the access-callback wrapper, over the flushing wrapper
		w.dsk = newDisk(w.view)
		top = debug.New(flushkv.New(w.dsk), w.dbgCallback)
	case strings.HasPrefix(b, "stack:"):
		layers := strings.Split(strings.TrimPrefix(b, "stack:"), ",")
		w.dsk = newDisk(w.view)
		if layers[0] == "root" {
			w.dsk, realm = newDisk(w.root), nil
		}
		top = w.dsk
		for i, l := range layers {
			name, arg, _ := strings.Cut(l, ":")
			cmds := func() []debug.Command {
				mask, err := strconv.ParseUint(arg, 10, 8)
				if err != nil {
					ok = false
				}
				var out []debug.Command
				for i := 0; i < 8; i++ {
					if mask&(1<<i) != 0 {
						out = append(out, debug.Command(1<<i))
					}
				}
				if len(out) == 0 {
					out = append(out, debug.ShutdownCommand)
				}

				return out
			}
			switch name {
			case "root", "view":
				if i != 0 {
					ok = false
				}
			case "flush":
				top = flushkv.New(top)
			case "dbg":
				top = debug.New(top, w.dbgCallback)
			case "dbgnil":
				top = debug.New(top, nil)
			case "dbgf":
				top = debug.New(top, w.dbgCallback, cmds()...)
			case "dbgnilf":
				top = debug.New(top, nil, cmds()...)
			case "realm":
				ext := hx.UnHex(arg)
				s, err := top.WithExtendedRealm(ext)
				if err != nil || len(ext) == 0 {
					ok = false

					break
				}
				top, realm = s, append(realm, ext...)
			default:
				ok = false
			}
		}
	default:
		b = "view"
		w.dsk = newDisk(w.view)
		top = w.dsk
	}
	if !ok {
		return w.setBackend("view") && false
	}
	w.stack, w.realm, w.backend = top, realm, b
	w.sh.mu.Lock()
	w.sh.cell = map[string][]byte{} // another handle, another realm: nothing is known about its cells yet
	w.sh.mu.Unlock()
	for _, l := range w.lanes {
		l.cs.KVStore, l.cs.dsk = top, w.dsk
	}
	if err := top.Set(otherKey, make([]byte, 8)); err != nil {
		panic(err)
	}

	return true
}

// dbgCallback is the access callback of the debug layers of the stack: it counts, lets other goroutines run (a logging
// callback takes time), and is the place where `deep` store-call hooks fire: inside the stack, after the Sequence encoded
// the value and before the database copies it.
func (w *world) dbgCallback(cmd debug.Command, params ...[]byte) {
	switch cmd {
	case debug.GetCommand:
		w.sh.dbgCalls[0].Add(1)
		if len(params) > 0 {
			w.fireHook('G', params[0], true)
		}
	case debug.SetCommand:
		w.sh.dbgCalls[1].Add(1)
		if len(params) > 0 {
			w.fireHook('S', params[0], true)
		}
		if w.slow.Load() {
			runtime.Gosched()
		}
	default:
		w.sh.dbgCalls[2].Add(1)
	}
}

func (w *world) execCore(r *hx.Run, op string) string {
	f := strings.Fields(op)
	switch f[0] {
	case "cfg":
		// harness configuration, before the first `new` of a case; invisible to the model
		switch {
		case len(f) == 2 && f[1] == "wrapnf":
			for _, l := range w.lanes {
				l.cs.wrapNF = true
			}
		case len(f) == 3 && (f[1] == "backend" || f[1] == "stack"):
			b := f[2]
			if f[1] == "stack" {
				b = "stack:" + b
			}
			if !w.setBackend(b) {
				return "bad-op"
			}
		case len(f) == 3 && f[1] == "fault":
			w.faultBy = f[2]
		case len(f) == 3 && f[1] == "key":
			w.lanes[0].key = hx.UnHex(f[2])
		case len(f) == 3 && len(f[1]) == 4 && strings.HasPrefix(f[1], "key") && laneOf("k"+f[1][3:]) > 0:
			w.lanes[laneOf("k"+f[1][3:])].key = hx.UnHex(f[2])
		}

		return "ok"
	case "new":
		iv, _ := strconv.ParseUint(f[1], 10, 64)
		if w.seq != nil {
			// a released object that is replaced wastes nothing; an unreleased one wastes up to its interval
			w.abandon(true)
		}
		s, err := kvstore.NewSequence(w.cs, w.key, iv)
		if err != nil {
			return "err"
		}
		w.seq, w.interval = s, iv
		w.trail = append(w.trail, "new")

		return "ok"
	case "next":
		if w.seq == nil {
			return "noobj"
		}
		n, err := w.seq.Next()
		if err != nil {
			w.checkExhausted(r, err, "next")

			return "err"
		}
		w.handOut(r, n)

		return fmt.Sprintf("num %d", n)
	case "sibling":
		// open a sibling sub-view next to the sequence's view and write into it
		sv, err := w.parent.WithExtendedRealm([]byte(f[1]))
		if err != nil {
			return "err"
		}
		if err := sv.Set(key, []byte{0, 0, 0, 0, 0, 0, 0, 1}); err != nil {
			return "err"
		}
		if v, err := w.cs.KVStore.Get(otherKey); err != nil || len(v) != 8 {
			r.Fail("store-intact", fmt.Sprintf("the other key of the sequence's view reads %x, %v after a sibling view was opened", v, err),
				map[string]string{"oracle": "view-disturbed", "after": "sibling"})
		}

		return "ok"
	case "foreign":
		if len(f) != 2 {
			return "bad-op"
		}
		w.foreign(f[1], 0)
		// none of that may touch any sequence key
		for i := range w.lanes {
			if i != w.idx {
				w.on(i).obs(r, "foreign")
			}
		}

		return "ok"
	case "release":
		if w.seq == nil {
			return "noobj"
		}
		if err := w.seq.Release(); err != nil {
			return "err"
		}
		// oracle for "a clean Release wastes none": the stored mark must equal last+1 if a number was handed
		// out by this object since its creation; checked through the next hand-out (gap must be 0):
		w.released = true
		w.trail = append(w.trail, "release")

		return "ok"
	case "crash":
		if w.seq == nil {
			return "noobj"
		}
		w.trail = append(w.trail, "crash-"+f[1])
		seq := w.seq
		switch f[1] {
		case "idle":
			w.abandon(false)

			return "crashed"
		case "read", "write":
			w.cs.calls = 0
			w.cs.armed = 1
			if f[1] == "write" {
				w.cs.armed = 2
			}
			var n uint64
			var err error
			crashed := runCrashing(func() { n, err = seq.Next() })
			w.cs.armed = -1
			if crashed {
				w.abandon(false)

				return "crashed"
			}
			if err != nil {
				w.checkExhausted(r, err, "crash-"+f[1])

				return "err"
			}
			// Next was served from memory
			tr := append([]string(nil), w.trail...)
			w.handOut(r, n)
			w.trail = tr
			w.abandon(false)

			return fmt.Sprintf("num %d", n)
		case "relwrite":
			w.cs.calls = 0
			w.cs.armed = 1
			var err error
			crashed := runCrashing(func() { err = seq.Release() })
			w.cs.armed = -1
			if crashed {
				// the store write happened: nothing is wasted
				w.released = true
				w.abandon(true)

				return "crashed"
			}
			if err != nil {
				return "err"
			}
			w.released = true
			w.abandon(true)

			return "ok"
		}
	case "cnext", "crelease":
		// the database is shut down right after it took the write of this call and is opened again after the call: the write
		// happened, the call must succeed (what the wrappers do after the write - flushkv's Flush - meets a closed store)
		if w.seq == nil {
			return "noobj"
		}
		w.dsk.real, w.dsk.root = w.faultBy == "closedb" && mapdbClosedFlag(w.root) != nil, w.root
		w.dsk.closeAfterSet.Store(true)
		var n uint64
		var err error
		if f[0] == "cnext" {
			n, err = w.seq.Next()
		} else {
			err = w.seq.Release()
		}
		w.dsk.closeAfterSet.Store(false)
		w.dsk.open()
		if err != nil {
			if f[0] == "cnext" {
				w.checkExhausted(r, err, "cnext")
			} else {
				r.Fail("error-faithful", fmt.Sprintf("Release returned %v although its store write took effect", err), map[string]string{"oracle": "spurious-error", "after": "crelease"})
			}

			return "err"
		}
		if f[0] == "crelease" {
			w.released = true
			w.trail = append(w.trail, "release")

			return "ok"
		}
		w.handOut(r, n)

		return fmt.Sprintf("num %d", n)
	case "fnext", "frelease":
		if w.seq == nil {
			return "noobj"
		}
		w.trail = append(w.trail, strings.Join(f, "-"))
		w.cs.calls = 0
		byClose := w.faultBy == "close" || w.faultBy == "closedb"
	w.dsk.real, w.dsk.root = w.faultBy == "closedb" && mapdbClosedFlag(w.root) != nil, w.root
		refused0 := w.dsk.refused.Load()
		// arm: the k-th store call of the operation fails (k = 1, 2) - by the injected error, or because the database was
		// shut down after k-1 calls; disarm: the database is opened again, report whether a store call failed
		arm := func(k int) {
			if byClose {
				w.cs.closeAt = k - 1
			} else {
				w.cs.failAt = k
			}
		}
		disarm := func() bool {
			if byClose {
				w.cs.closeAt = -1
				w.dsk.open()

				return w.dsk.refused.Load() != refused0
			}
			fired := w.cs.failAt == 0
			w.cs.failAt = 0

			return fired
		}
		if f[0] == "frelease" {
			arm(1)
			err := w.seq.Release()
			fired := disarm()
			if err != nil {
				if !fired {
					r.Fail("error-faithful", "Release returned an error although no store call failed", map[string]string{"oracle": "spurious-error", "after": "frelease"})
				}

				return "err"
			}
			if fired {
				r.Fail("error-faithful", "Release swallowed a store error", map[string]string{"oracle": "swallowed-error", "after": "frelease"})
			}
			w.released = true

			return "ok"
		}
		if f[1] == "set" {
			arm(2)
		} else {
			arm(1)
		}
		n, err := w.seq.Next()
		fired := disarm()
		if err != nil {
			if !fired {
				w.checkExhausted(r, err, "fnext")
			}

			return "err"
		}
		if fired {
			r.Fail("error-faithful", "Next swallowed a store error", map[string]string{"oracle": "swallowed-error", "after": "fnext"})
		}
		tr := append([]string(nil), w.trail...)
		w.handOut(r, n)
		w.trail = tr

		return fmt.Sprintf("num %d", n)
	case "parrel":
		// G goroutines x K Next calls racing one goroutine that keeps calling Release, with slow store writes; then the
		// object is abandoned and a fresh object must continue above everything handed out. Judged here only.
		if w.seq == nil {
			return "ok"
		}
		g, _ := strconv.Atoi(f[1])
		k, _ := strconv.Atoi(f[2])
		seq := w.seq
		w.slow.Store(true)
		var mu sync.Mutex
		seen := map[uint64]int{}
		var maxN uint64
		record := func(n uint64, who string) {
			mu.Lock()
			defer mu.Unlock()
			seen[n]++
			if seen[n] == 2 {
				r.Fail("strictly-increasing", fmt.Sprintf("number %d handed out twice (%s, Next racing Release)", n, who),
					map[string]string{"oracle": "reuse", "after": "parrel"})
			}
			if n > maxN {
				maxN = n
			}
		}
		var wg sync.WaitGroup
		stop := make(chan struct{})
		wg.Add(1)
		go func() {
			defer panicFinding(r, "parrel")
			defer wg.Done()
			for {
				select {
				case <-stop:
					return
				default:
					_ = seq.Release()
				}
			}
		}()
		var nwg sync.WaitGroup
		for i := 0; i < g; i++ {
			nwg.Add(1)
			go func() {
				defer panicFinding(r, "parrel")
				defer nwg.Done()
				last, have := uint64(0), false
				for j := 0; j < k; j++ {
					n, err := seq.Next()
					if err != nil {
						continue
					}
					if have && n <= last {
						r.Fail("strictly-increasing", fmt.Sprintf("one caller got %d after %d (Next racing Release)", n, last),
							map[string]string{"oracle": "reuse", "after": "parrel"})
					}
					last, have = n, true
					record(n, "same object")
				}
			}()
		}
		nwg.Wait()
		close(stop)
		wg.Wait()
		w.slow.Store(false)
		for n := range seen {
			if w.have && n <= w.last {
				r.Fail("strictly-increasing", fmt.Sprintf("number %d handed out although %d had been handed out before", n, w.last),
					map[string]string{"oracle": "reuse", "after": "parrel"})
			}
		}
		// abandon and restart: the fresh object must continue above everything handed out
		fresh, err := kvstore.NewSequence(w.cs, w.key, 3)
		if err == nil {
			for i := 0; i < 8; i++ {
				n, err := fresh.Next()
				if err == nil {
					record(n, "fresh object after restart")
				}
			}
		}
		w.seq = nil

		return "ok"
	case "mark":
		m, ok, err := w.storedMark()
		if err != nil {
			return "err"
		}
		if !ok {
			return "none"
		}

		return strconv.FormatUint(m, 10)
	case "par", "parfr":
		// G goroutines x K Next calls on the live object; answer: the sorted results as a range if contiguous
		if w.seq == nil {
			return "noobj"
		}
		g, _ := strconv.Atoi(f[1])
		k, _ := strconv.Atoi(f[2])
		var mu sync.Mutex
		var all []uint64
		var wg sync.WaitGroup
		stopFr := make(chan struct{})
		var frwg sync.WaitGroup
		if f[0] == "parfr" {
			// foreign goroutines read ANOTHER key through the very handle the Sequence uses
			for i := 0; i < 3; i++ {
				frwg.Add(1)
				go func(i int) {
					defer panicFinding(r, "parfr")
					defer frwg.Done()
					for round := 0; ; round++ {
						select {
						case <-stopFr:
							return
						default:
						}
						if i == 2 {
							// a foreign WRITER: other keys of the same view through the same handle, sibling views
							w.foreign([]string{"own", "batch", "iter", "sib", "parent", "near"}[round%6], round)

							continue
						}
						if i == 0 {
							if v, err := w.cs.KVStore.Get(otherKey); err != nil || len(v) != 8 || binary.BigEndian.Uint64(v) != 0 {
								r.Fail("store-intact", fmt.Sprintf("foreign reader got %x, %v for the other key", v, err),
									map[string]string{"oracle": "view-disturbed", "after": "parfr"})

								return
							}
						} else if ok, err := w.cs.KVStore.Has(otherKey); err != nil || !ok {
							r.Fail("store-intact", fmt.Sprintf("foreign reader: Has(other key) = %v, %v", ok, err),
								map[string]string{"oracle": "view-disturbed", "after": "parfr"})

							return
						}
					}
				}(i)
			}
		}
		for i := 0; i < g; i++ {
			wg.Add(1)
			go func() {
				defer panicFinding(r, "par")
				defer wg.Done()
				for j := 0; j < k; j++ {
					n, err := w.seq.Next()
					if err == nil {
						mu.Lock()
						all = append(all, n)
						mu.Unlock()
					}
				}
			}()
		}
		wg.Wait()
		close(stopFr)
		frwg.Wait()
		sort.Slice(all, func(i, j int) bool { return all[i] < all[j] })
		for i := 1; i < len(all); i++ {
			if all[i] == all[i-1] {
				r.Fail("strictly-increasing", fmt.Sprintf("concurrent Next returned %d twice", all[i]),
					map[string]string{"oracle": "reuse", "after": f[0]})
			}
		}
		for _, n := range all {
			w.handOut(r, n)
		}
		contiguous := len(all) == g*k
		for i := 1; i < len(all); i++ {
			if all[i] != all[i-1]+1 {
				contiguous = false
			}
		}
		if !contiguous {
			return fmt.Sprintf("par-noncontiguous %v", all)
		}

		return fmt.Sprintf("range %d %d", all[0], all[len(all)-1])
	}

	return "bad-op"
}

var (
	otherKey2 = []byte("other2")
	otherKey3 = []byte("o3")
)

// foreign: what OTHER users of the same store do - to other keys of the very view the sequences live in (through the same
// handle), to the parent view, to sibling sub-views (also one whose realm extends the sequences' realm bytes, and with the
// very key bytes the sequences use): Set / Delete / DeletePrefix / Clear / Batched Set+Delete+Commit|Cancel / Iterate /
// IterateKeys / Has. Nothing of it addresses a sequence key, so nothing of it may change a stored mark (the oracles
// phantom-write / mark-behind / uncovered-lease look at every lane afterwards). Errors of these calls are not judged here.
func (w *world) foreign(kind string, round int) {
	st := w.stack
	val := []byte{0xff, 0xff, 0xff, 0xff, 0xff, 0xff, 0xff, byte(round)}
	// keys next to the sequence keys: one byte shorter, one byte longer - other keys all the same
	var near [][]byte
	longer := map[int]bool{} // near[i] extends a sequence key: as a prefix it matches no sequence key ...
	for _, l := range w.lanes {
		for j, k := range [][]byte{l.key[:len(l.key)-1], append(append([]byte{}, l.key...), 0), append(append([]byte{}, l.key...), 'x')} {
			taken := len(k) == 0
			for _, l2 := range w.lanes {
				// ... unless it is a prefix of another lane's key
				taken = taken || string(l2.key) == string(k) || (j > 0 && strings.HasPrefix(string(l2.key), string(k)))
			}
			if !taken {
				longer[len(near)] = j > 0
				near = append(near, k)
			}
		}
	}
	switch kind {
	case "near":
		for _, k := range near {
			_ = st.Set(k, val)
		}
		for i, k := range near {
			switch i % 3 {
			case 0:
				_ = st.Delete(k)
			case 1:
				if b, err := st.Batched(); err == nil {
					_ = b.Delete(k)
					_ = b.Commit()
				}
			default:
				if longer[i] {
					_ = st.DeletePrefix(k) // longer than the sequence key it was made from: cannot match it
				} else {
					_ = st.Delete(k)
				}
			}
		}
		for _, k := range near {
			_ = st.Delete(k)
		}
	case "own":
		_ = st.Set(otherKey2, val)
		_ = st.Set(otherKey3, val)
		_, _ = st.Has(otherKey3)
		_ = st.Delete(otherKey2)
		_ = st.DeletePrefix(otherKey3[:2])
		_ = st.Delete([]byte("o-absent"))
	case "batch":
		if b, err := st.Batched(); err == nil {
			_ = b.Set(otherKey2, val)
			_ = b.Set(otherKey3, val)
			_ = b.Delete(otherKey2)
			if round%2 == 0 {
				_ = b.Commit()
			} else {
				b.Cancel()
			}
		}
	case "iter":
		n := 0
		_ = st.Iterate(kvstore.EmptyPrefix, func(k kvstore.Key, v kvstore.Value) bool {
			n += len(k) + len(v)

			return true
		})
		_ = st.IterateKeys(kvstore.EmptyPrefix, func(k kvstore.Key) bool {
			n += len(k)

			return n >= 0
		})
		_ = st.Iterate([]byte("o"), func(k kvstore.Key, v kvstore.Value) bool { return false }, kvstore.IterDirectionBackward)
	case "parent":
		_ = w.parent.Set([]byte("x1"), val)
		_ = w.parent.Set([]byte("x2"), val)
		_ = w.parent.Delete([]byte("x1"))
		_ = w.parent.DeletePrefix([]byte("x"))
	case "sib":
		for _, ext := range []string{"t", "s2", "u"} {
			sv, err := w.parent.WithExtendedRealm([]byte(ext))
			if err != nil {
				continue
			}
			for _, l := range w.lanes {
				_ = sv.Set(l.key, val)
			}
			_ = sv.Delete(w.lanes[0].key)
			_ = sv.DeletePrefix(w.lanes[1].key[:1])
			if b, err := sv.Batched(); err == nil {
				_ = b.Set(w.lanes[2].key, val)
				_ = b.Delete(w.lanes[3].key)
				_ = b.Commit()
			}
			_ = sv.Clear()
		}
	}
}

// laneOf: `k2` / `k3` / `k4` address lanes 1 / 2 / 3 (0: not a lane prefix).
func laneOf(tok string) int {
	switch tok {
	case "k2":
		return 1
	case "k3":
		return 2
	case "k4":
		return 3
	}

	return 0
}

func laneSplit(f []string) (int, []string) {
	if len(f) > 1 && laneOf(f[0]) > 0 {
		return laneOf(f[0]), f[1:]
	}

	return 0, f
}

// execNest runs `nest <pt> <request A> / <request B> / …` and `nestg …`: the requests B (of OTHER lanes: other sequence keys
// of the same store) run while request A is inside its next store call of kind <pt> for its key - get | set: on top of the
// store stack; dget | dset: inside the access callback of a debug layer of the stack (after the Sequence encoded the value
// and handed it over, before the database copies it). The goroutine of A parks in the store call and the requests B run in
// another goroutine meanwhile; `nest`: with GOMAXPROCS(1) (a deterministic rendering of "A is descheduled there, B runs to
// completion on the same P"), `nestg`: with all Ps. If A makes no such store call the requests
// B run after it. Sequences of different keys are independent (Hive/Model/SeqMulti.lean): the answers are those of the
// requests made one after the other.
func (w *world) execNest(r *hx.Run, f []string) string {
	if len(f) < 4 {
		return "bad-op"
	}
	var segs [][]string
	cur := []string{}
	for _, t := range f[2:] {
		if t == "/" {
			segs = append(segs, cur)
			cur = []string{}
		} else {
			cur = append(cur, t)
		}
	}
	segs = append(segs, cur)
	var kind byte
	switch f[1] {
	case "get", "dget":
		kind = 'G'
	case "set", "dset":
		kind = 'S'
	default:
		return "bad-op"
	}
	aLane, aReq := laneSplit(segs[0])
	if !isSeqOp(aReq) || len(segs) < 2 || aReq[0] == "cnext" || aReq[0] == "crelease" {
		// (cnext / crelease arm a shutdown after the NEXT write the database takes, whoever makes it: not as the parked request)
		return "bad-op"
	}
	for _, sg := range segs[1:] {
		bl, breq := laneSplit(sg)
		if bl == aLane || !(isSeqOp(breq) || (len(breq) == 1 && breq[0] == "mark") || (len(breq) == 2 && breq[0] == "foreign")) {
			return "bad-op"
		}
	}
	var bAns []string
	ran := false
	runB := func() {
		ran = true
		for _, sg := range segs[1:] {
			bl, breq := laneSplit(sg)
			c := w.on(bl)
			bAns = append(bAns, c.exec(r, strings.Join(breq, " ")))
			w.hung = w.hung || c.hung
		}
	}
	h := &hook{kind: kind, key: string(w.lanes[aLane].key), deep: f[1][0] == 'd'}
	aw := w.on(aLane)
	var aAns string
	if f[0] == "nest" {
		// one P: whatever per-P state the code keeps (sync.Pool) is shared by the goroutine parked in the store call and the
		// goroutine that runs meanwhile - the deterministic rendering of "descheduled there, the other runs on the same P"
		prev := runtime.GOMAXPROCS(1)
		defer runtime.GOMAXPROCS(prev)
	}
	entered, resume := make(chan struct{}), make(chan struct{})
	h.f = func() {
		// a database that request A's fault has shut down is shut down for everybody (an event of the environment, not of
		// one key): the requests B then run after A
		if w.dsk.isShut() || nestBlocked.Load() {
			return
		}
		entered <- struct{}{}
		select {
		case <-resume:
		case <-time.After(2 * opTimeout):
		}
	}
	w.addHook(h)
	done := make(chan string, 1)
	go func() { done <- aw.exec(r, strings.Join(aReq, " ")) }()
	select {
	case <-entered:
		bdone := make(chan struct{})
		go func() { runB(); close(bdone) }()
		select {
		case <-bdone:
			w.sh.mu.Lock()
			w.sh.nestFired++
			w.sh.mu.Unlock()
		case <-time.After(nestGrace):
			// the requests B wait for something request A holds (a lock shared by the sequences would do that): not a
			// finding - A goes on, B finishes after it, and no request is parked in a store call any more in this run
			nestBlocked.Store(true)
		}
		close(resume)
		aAns = <-done
		select {
		case <-bdone:
		case <-time.After(opTimeout):
			r.Fail("progress", fmt.Sprintf("%q did not return within %v", strings.Join(f, " "), opTimeout), map[string]string{"oracle": "hang", "after": f[0]})
			w.hung = true

			return "hang"
		}
	case aAns = <-done:
	}
	w.dropHook(h)
	w.hung = w.hung || aw.hung
	if !ran && !w.hung {
		runB()
	}

	return aAns + " // " + strings.Join(bAns, " // ")
}

// execParm runs `parm G K`: on EVERY lane that has a live object, G goroutines x K Next calls, all lanes at the same time
// over the one store (slow store writes: the window between a Sequence handing its value to the store and the database
// copying it is wide). Answer: per live lane what `par G K` answers, and the lane's state afterwards.
func (w *world) execParm(r *hx.Run, f []string) string {
	if len(f) != 3 {
		return "bad-op"
	}
	var live []*world
	for i := range w.lanes {
		if w.lanes[i].seq != nil {
			live = append(live, w.on(i))
		}
	}
	if len(live) == 0 {
		return "noobj"
	}
	w.slow.Store(true)
	ans := make([]string, len(live))
	hung := make([]bool, len(live))
	var wg sync.WaitGroup
	// another user of the store writes, deletes (also by prefix, in batches) and iterates other keys and realms meanwhile
	stopFr := make(chan struct{})
	var frwg sync.WaitGroup
	frwg.Add(1)
	go func() {
		defer panicFinding(r, "parm")
		defer frwg.Done()
		for round := 0; ; round++ {
			select {
			case <-stopFr:
				return
			default:
			}
			w.foreign([]string{"own", "batch", "iter", "sib", "parent", "near"}[round%6], round)
			runtime.Gosched()
		}
	}()
	for i, c := range live {
		wg.Add(1)
		go func(i int, c *world) {
			defer wg.Done()
			ans[i], hung[i] = c.guarded(r, "par "+f[1]+" "+f[2])
		}(i, c)
	}
	wg.Wait()
	close(stopFr)
	frwg.Wait()
	w.slow.Store(false)
	for i, c := range live {
		if hung[i] {
			r.Fail("progress", fmt.Sprintf("%q did not return within %v", strings.Join(f, " "), opTimeout), map[string]string{"oracle": "hang", "after": "parm"})
			w.hung = true

			return "hang"
		}
		ans[i] += " | " + c.obs(r, "parm")
	}

	return strings.Join(ans, " ; ")
}

// execHist runs the request `chist G K IV2 M`: G goroutines x K Next calls on the live object racing one goroutine that
// keeps calling Release (slow store writes), every goroutine recording what it received in completion order; then the
// object is abandoned between calls and a fresh object (interval IV2) hands out M numbers.  The recorded history is
// appended to the request line (`… h <goroutine 0> <goroutine 1> … f <fresh>`, lists comma-separated, `-` = empty) and
// judged by the Lean driver with the trace predicate of the C07_concurrent_* theorems (Hive/Model/SeqConc.lean,
// histWhy); the implementation column is the constant `accept`.  Always the last request of a case.  On replay only
// the fields before `h` are used: the scenario is executed again.
func (w *world) execHist(r *hx.Run, op string) (line string, ans string) {
	defer func() {
		if e := recover(); e != nil {
			r.Fail("no-panic", fmt.Sprintf("%q panicked: %v", op, e), map[string]string{"oracle": "panic", "after": "chist"})
			line, ans = op, "panic"
		}
	}()
	f := strings.Fields(op)
	spec := f
	for i, t := range f {
		if t == "h" {
			spec = f[:i]

			break
		}
	}
	if len(spec) != 5 {
		return op, "bad-op"
	}
	head := strings.Join(spec, " ")
	if w.seq == nil {
		return head, "noobj"
	}
	g, _ := strconv.Atoi(spec[1])
	k, _ := strconv.Atoi(spec[2])
	iv2, _ := strconv.ParseUint(spec[3], 10, 64)
	m, _ := strconv.Atoi(spec[4])
	seq := w.seq
	w.slow.Store(true)
	perG := make([][]uint64, g)
	errs := make([]int, g)
	stop := make(chan struct{})
	var rwg, nwg sync.WaitGroup
	rwg.Add(1)
	go func() {
		defer panicFinding(r, "chist")
		defer rwg.Done()
		for {
			select {
			case <-stop:
				return
			default:
				_ = seq.Release()
			}
		}
	}()
	for i := 0; i < g; i++ {
		nwg.Add(1)
		go func(i int) {
			defer panicFinding(r, "chist")
			defer nwg.Done()
			for j := 0; j < k; j++ {
				n, err := seq.Next()
				if err != nil {
					errs[i]++

					continue
				}
				perG[i] = append(perG[i], n)
			}
		}(i)
	}
	done := make(chan struct{})
	go func() { nwg.Wait(); close(stop); rwg.Wait(); close(done) }()
	select {
	case <-done:
	case <-time.After(60 * time.Second):
		r.Fail("progress", "concurrent Next/Release did not finish within 60 s", map[string]string{"oracle": "stuck", "after": "chist"})

		return head, "stuck"
	}
	w.slow.Store(false)
	sig := func(o string) map[string]string { return map[string]string{"oracle": o, "after": "chist"} }
	// independent oracle on the implementation
	var all []uint64
	for i, l := range perG {
		if errs[i] != 0 {
			r.Fail("error-faithful", "Next returned an error although no store call failed", sig("spurious-error"))
		}
		for j := 1; j < len(l); j++ {
			if l[j] <= l[j-1] {
				r.Fail("strictly-increasing", fmt.Sprintf("one caller got %d after %d (Next racing Release)", l[j], l[j-1]), sig("reuse"))
			}
		}
		all = append(all, l...)
	}
	sort.Slice(all, func(i, j int) bool { return all[i] < all[j] })
	for i := range all {
		if i > 0 && all[i] == all[i-1] {
			r.Fail("strictly-increasing", fmt.Sprintf("number %d handed out twice (Next racing Release)", all[i]), sig("reuse"))
		} else if i > 0 && all[i] != all[i-1]+1 {
			r.Fail("release-wastes-none", fmt.Sprintf("gap between %d and %d although no crash happened (Next racing Release)", all[i-1], all[i]), sig("waste-clean"))
		}
		if w.have && all[i] <= w.last {
			r.Fail("strictly-increasing", fmt.Sprintf("number %d handed out although %d had been handed out before", all[i], w.last), sig("reuse"))
		}
	}
	// abandon between calls and restart
	oldIv := w.interval
	w.seq = nil
	var freshNums []uint64
	fresh, err := kvstore.NewSequence(w.cs, w.key, iv2)
	if err == nil {
		for i := 0; i < m; i++ {
			n, err := fresh.Next()
			if err != nil {
				r.Fail("error-faithful", "Next of the fresh object returned an error although no store call failed", sig("spurious-error"))

				continue
			}
			if len(all) > 0 && n <= all[len(all)-1] {
				r.Fail("strictly-increasing", fmt.Sprintf("fresh object after restart handed out %d although %d had been handed out", n, all[len(all)-1]), sig("reuse"))
			}
			if len(freshNums) > 0 && n != freshNums[len(freshNums)-1]+1 {
				r.Fail("strictly-increasing", fmt.Sprintf("fresh object handed out %d after %d", n, freshNums[len(freshNums)-1]), sig("reuse"))
			}
			if len(freshNums) == 0 && len(all) > 0 && n > all[len(all)-1] && n-(all[len(all)-1]+1) > oldIv {
				r.Fail("waste-bound", fmt.Sprintf("crash skipped %d numbers, interval of the abandoned object is %d", n-(all[len(all)-1]+1), oldIv), sig("waste"))
			}
			freshNums = append(freshNums, n)
		}
	}
	csv := func(l []uint64) string {
		if len(l) == 0 {
			return "-"
		}
		p := make([]string, len(l))
		for i, n := range l {
			p[i] = strconv.FormatUint(n, 10)
		}

		return strings.Join(p, ",")
	}
	line = head + " h"
	for _, l := range perG {
		line += " " + csv(l)
	}
	line += " f " + csv(freshNums)
	r.Count("chist:numbers")

	return line, "accept"
}

// checkExhausted: a Next that fails although no store call failed may only report ErrSequenceExhausted, and only when
// the stored mark stands at the end of the number space.
func (w *world) checkExhausted(r *hx.Run, err error, after string) {
	m, ok, merr := w.storedMark()
	// matched by its text so that the harness also builds against a tree without the exported error value
	if !strings.Contains(err.Error(), "sequence exhausted") || merr != nil || !ok || m != ^uint64(0) {
		r.Fail("error-faithful", fmt.Sprintf("Next returned %v although no store call failed; stored mark %d (present %v)", err, m, ok),
			map[string]string{"oracle": "spurious-error", "after": after})
	}
}

func runCrashing(f func()) (crashed bool) {
	defer func() {
		if e := recover(); e != nil {
			if _, ok := e.(crashSignal); ok {
				crashed = true

				return
			}
			panic(e)
		}
	}()
	f()

	return false
}

// genExtreme: histories at the end of the number space: huge intervals (a lease is cut off at MaxUint64, then Next
// reports exhaustion), no concurrent requests.
func genExtreme(rng *hx.Rng, n int) []string {
	intervals := []uint64{1, 5, 1 << 32, 1 << 62, 1 << 63, 1<<63 + 1, ^uint64(0) - 1, ^uint64(0), ^uint64(0)}
	ops := append(genCfg(rng), fmt.Sprintf("new %d", hx.Pick(rng, intervals)))
	for i := 0; i < n; i++ {
		switch x := rng.Intn(100); {
		case x < 40:
			ops = append(ops, "next")
		case x < 55:
			ops = append(ops, "release")
		case x < 65:
			ops = append(ops, fmt.Sprintf("new %d", hx.Pick(rng, intervals)))
		case x < 70:
			ops = append(ops, "crash idle", fmt.Sprintf("new %d", hx.Pick(rng, intervals)))
		case x < 76:
			ops = append(ops, "crash read", fmt.Sprintf("new %d", hx.Pick(rng, intervals)))
		case x < 84:
			ops = append(ops, "crash write", fmt.Sprintf("new %d", hx.Pick(rng, intervals)))
		case x < 88:
			ops = append(ops, "crash relwrite", fmt.Sprintf("new %d", hx.Pick(rng, intervals)))
		case x < 93:
			ops = append(ops, "mark")
		case x < 95:
			ops = append(ops, "fnext get")
		case x < 97:
			ops = append(ops, hx.Pick(rng, []string{"fnext set", "cnext"}))
		case x < 98:
			ops = append(ops, hx.Pick(rng, []string{"frelease", "crelease"}))
		default:
			ops = append(ops, hx.Pick(rng, []string{"sibling t", "foreign own", "foreign batch", "foreign sib", "foreign parent", "foreign iter"}))
		}
	}

	return ops
}

// genStack: a random legal configuration of the wrappers of the module, innermost first (see setBackend).
func genStack(rng *hx.Rng) string {
	layers := []string{hx.Pick(rng, []string{"view", "view", "root"})}
	masks := []int{0, 8, 16, 24, 255 - 16, 255 - 8, 255, 1 + 2 + 4 + 32 + 64 + 128}
	n := rng.Range(1, 3)
	for i := 0; i < n; i++ {
		switch x := rng.Intn(100); {
		case x < 15:
			layers = append(layers, "flush")
		case x < 27:
			layers = append(layers, "dbg")
		case x < 45:
			layers = append(layers, "dbgnil")
		case x < 70:
			m := hx.Pick(rng, masks)
			if rng.Chance(1, 3) {
				m = rng.Intn(256)
			}
			layers = append(layers, fmt.Sprintf("dbgf:%d", m))
		case x < 82:
			layers = append(layers, fmt.Sprintf("dbgnilf:%d", hx.Pick(rng, masks)))
		default:
			layers = append(layers, "realm:"+hx.Pick(rng, []string{"7a", "00", "73", "736571", "ff00ff"}))
		}
	}

	return strings.Join(layers, ",")
}

// stackReports: does a debug layer of the stack report the command (8 = Get, 16 = Set) to a callback?
func stackReports(cfg []string, bit int) bool {
	for _, c := range cfg {
		f := strings.Fields(c)
		if len(f) != 3 || f[0] != "cfg" {
			continue
		}
		if f[1] == "backend" && f[2] == "debug" {
			return true
		}
		if f[1] != "stack" {
			continue
		}
		for _, l := range strings.Split(f[2], ",") {
			if l == "dbg" {
				return true
			}
			if name, arg, _ := strings.Cut(l, ":"); name == "dbgf" {
				if m, err := strconv.Atoi(arg); err == nil && m&bit != 0 {
					return true
				}
			}
		}
	}

	return false
}

// genCfg: the harness configuration of a case (invisible to the model): the sequence key(s), the store the handle is
// made of, and whether a missing key is reported by an error that only wraps ErrKeyNotFound.
func genCfg(rng *hx.Rng) []string {
	var ops []string
	if rng.Chance(1, 3) {
		ops = append(ops, "cfg wrapnf")
	}
	switch x := rng.Intn(100); {
	case x < 25:
		ops = append(ops, "cfg backend "+hx.Pick(rng, []string{"root", "flush", "flush", "debug"}))
	case x < 60:
		ops = append(ops, "cfg stack "+genStack(rng))
	}
	if rng.Chance(1, 2) {
		// store errors are not injected on top of the wrappers: the database below them is shut down at that point of the
		// call and opened again afterwards
		ops = append(ops, "cfg fault "+hx.Pick(rng, []string{"close", "closedb"}))
	}
	if rng.Chance(1, 4) {
		// short, binary, long (40 and 100 bytes), equal to the realm bytes, prefix-related to the second lane's key
		keys := []string{"73", "00", "ff", "ffffffffffffffffff", "73746f7265", "7365", "736571", strings.Repeat("ab", 40), strings.Repeat("ab", 100)}
		ops = append(ops, "cfg key "+hx.Pick(rng, keys))
		if rng.Chance(1, 2) {
			// … prefix-related to / sharing a long prefix with the first lane's key (40 / 100 bytes long, all but the last byte in common)
			ops = append(ops, "cfg key2 "+hx.Pick(rng, []string{"7366", "73657132", "0000", "ff00", "73746f726573", strings.Repeat("ab", 39) + "ac", strings.Repeat("ab", 41), strings.Repeat("ab", 99) + "ac", strings.Repeat("ab", 99) + "ac"}))
		}
		if rng.Chance(1, 3) {
			ops = append(ops, "cfg key3 "+hx.Pick(rng, []string{"01", "736572", "fe", "7374"}))
		}
	}
	return ops
}

var lanePrefix = [nLanes]string{"", "k2 ", "k3 ", "k4 "}

func genCase(rng *hx.Rng, n int) []string {
	intervals := []int{1, 1, 2, 3, 5, 1 << 32}
	cfg := genCfg(rng)
	ops := append(cfg, fmt.Sprintf("new %d", hx.Pick(rng, intervals)))
	// 40% of the cases run further sequences under other keys of the same store handle (`k2 <op>`, `k3 <op>`, `k4 <op>`)
	nl := hx.Pick(rng, []int{1, 1, 1, 1, 1, 1, 2, 2, 3, 4})
	for l := 1; l < nl; l++ {
		ops = append(ops, fmt.Sprintf("%snew %d", lanePrefix[l], hx.Pick(rng, intervals)))
	}
	emit := func(unit ...string) {
		if nl > 1 && rng.Chance(1, 2) {
			l := rng.Range(1, nl-1)
			for i := range unit {
				unit[i] = lanePrefix[l] + unit[i]
			}
		}
		ops = append(ops, unit...)
	}
	// a request of one lane with requests of other lanes inside one of its store calls
	nest := func() {
		a := rng.Intn(nl)
		pts := []string{"set", "set", "get"}
		if stackReports(cfg, 16) {
			pts = append(pts, "dset", "dset", "dset")
		}
		if stackReports(cfg, 8) {
			pts = append(pts, "dget")
		}
		aop := hx.Pick(rng, []string{"next", "next", "next", "release", "crash write", "crash relwrite", "crash read", "fnext set", "frelease"})
		if (aop == "next" || strings.HasPrefix(aop, "crash")) && rng.Chance(2, 3) {
			// make sure the request renews its lease (a store read and a store write)
			ops = append(ops, lanePrefix[a]+"release")
		}
		line := hx.Pick(rng, []string{"nestg", "nestg", "nestg", "nestg", "nestg", "nest"}) + " " + hx.Pick(rng, pts) + " " + lanePrefix[a] + aop
		crashed := []int{}
		for j, m := 0, rng.Range(1, 3); j < m; j++ {
			b := rng.Intn(nl)
			if b == a {
				b = (a + 1) % nl
			}
			bop := hx.Pick(rng, []string{"next", "next", "release", "release", "next", fmt.Sprintf("new %d", hx.Pick(rng, intervals)), "crash write", "mark", "fnext set",
				"foreign " + hx.Pick(rng, []string{"own", "batch", "sib", "parent", "iter", "near"})})
			if bop == "crash write" {
				crashed = append(crashed, b)
			}
			line += " / " + lanePrefix[b] + bop
		}
		ops = append(ops, line)
		if strings.HasPrefix(aop, "crash") {
			crashed = append(crashed, a)
		}
		for _, l := range crashed {
			ops = append(ops, fmt.Sprintf("%snew %d", lanePrefix[l], hx.Pick(rng, intervals)))
		}
	}
	for i := 0; i < n; i++ {
		if nl > 1 {
			if x := rng.Intn(100); x < 8 {
				nest()

				continue
			} else if x < 10 {
				ops = append(ops, fmt.Sprintf("parm %d %d", rng.Range(2, 3), rng.Range(3, 25)))

				continue
			}
		}
		switch x := rng.Intn(100); {
		case x < 45:
			emit("next")
		case x < 55:
			emit("release")
		case x < 65:
			emit(fmt.Sprintf("new %d", hx.Pick(rng, intervals)))
		case x < 70:
			emit("crash idle", fmt.Sprintf("new %d", hx.Pick(rng, intervals)))
		case x < 77:
			emit("crash read", fmt.Sprintf("new %d", hx.Pick(rng, intervals)))
		case x < 86:
			emit("crash write", fmt.Sprintf("new %d", hx.Pick(rng, intervals)))
		case x < 91:
			emit("crash relwrite", fmt.Sprintf("new %d", hx.Pick(rng, intervals)))
		case x < 93:
			emit("mark")
		case x < 94:
			if rng.Chance(1, 3) {
				ops = append(ops, "sibling "+hx.Pick(rng, []string{"t", "s2", "r", "u"}))
			} else {
				ops = append(ops, "foreign "+hx.Pick(rng, []string{"own", "batch", "iter", "parent", "sib", "near", "near"}))
			}
		case x < 95:
			emit("fnext get")
		case x < 97:
			emit(hx.Pick(rng, []string{"fnext set", "fnext set", "cnext"}))
		case x < 98:
			emit(hx.Pick(rng, []string{"frelease", "frelease", "crelease"}))
		default:
			ops = append(ops, fmt.Sprintf("par %d %d", rng.Range(2, 4), rng.Range(1, 5)))
		}
	}
	if rng.Chance(1, 40) { // concurrent Next with foreign readers of another key on the same handle
		ops = append(ops, hx.Pick(rng, []string{"new 1", "new 4294967296"}), fmt.Sprintf("parfr 4 %d", rng.Range(300, 1200)))
	}
	if rng.Chance(1, 12) { // concurrent Next vs Release: always the last request of a case
		ops = append(ops, fmt.Sprintf("parrel %d %d", rng.Range(2, 4), rng.Range(20, 60)))
	} else if rng.Chance(1, 10) { // recorded concurrent history, judged by the Lean trace predicate: also last
		ops = append(ops, fmt.Sprintf("chist %d %d %d %d", rng.Range(2, 4), rng.Range(5, 40), hx.Pick(rng, intervals), rng.Range(0, 4)))
	}

	return ops
}

func runCase(r *hx.Run, sub uint64, ops []string) {
	r.Case(sub)
	w := newWorld(r)
	crashes, nums := 0, 0
	for _, op := range ops {
		var ans string
		if strings.HasPrefix(op, "chist") {
			op, ans = w.execHist(r, op)
		} else {
			ans = w.exec(r, op)
		}
		r.Line(op, ans)
		if w.hung {
			r.Finish()
			os.Exit(0)
		}
		bare := op
		if ff := strings.Fields(op); len(ff) > 1 && laneOf(ff[0]) > 0 {
			bare = strings.Join(ff[1:], " ")
			r.Count("lane:" + ff[0])
		}
		k := strings.Fields(bare)[0]
		if k == "crash" || k == "cfg" {
			k = strings.Join(strings.Fields(bare)[:2], " ")
			if k == "cfg fault" {
				k = bare
			}
		}
		r.Count("op:" + k)
		if k == "mark" {
			r.Count("ans:mark")
		} else {
			r.Count("ans:" + strings.Fields(ans)[0])
		}
		for _, part := range strings.Split(ans, " // ") {
			if i := strings.Index(part, " c="); i >= 0 {
				r.Count("calls:" + part[i+3:])
			}
		}
		if strings.HasPrefix(bare, "crash") || strings.HasPrefix(bare, "new") {
			crashes++
		}
		if strings.HasPrefix(ans, "num") {
			nums++
		}
	}
	r.CountN("nest:store-call-window-reached", w.sh.nestFired)
	r.CountN("dbg-callback:get", int(w.sh.dbgCalls[0].Load()))
	r.CountN("dbg-callback:set", int(w.sh.dbgCalls[1].Load()))
	if strings.HasPrefix(w.backend, "stack:") {
		for _, l := range strings.Split(strings.TrimPrefix(w.backend, "stack:"), ",") {
			name, _, _ := strings.Cut(l, ":")
			r.Count("stack-layer:" + name)
		}
	}
	if crashes >= 2 && nums >= 2 {
		h := sha256.Sum256([]byte(strings.Join(ops, "\n")))
		r.Nontrivial(string(h[:8]))
	}
	r.Sample(r.CaseLines())
}

// dry executes a case on a fresh world without emitting protocol lines and reports which property oracles failed.
type dryRunner struct {
	r    *hx.Run
	hung bool // a request hung in a dry run: no more dry runs (each would cost the watchdog time), the case is run for the record
}

func newDry(outDir string) *dryRunner {
	d := filepath.Join(outDir, "shrink")
	_ = os.MkdirAll(d, 0o755)

	return &dryRunner{r: &hx.Run{Hist: map[string]int{}, OutDir: d, Extra: map[string]any{}}}
}

func (d *dryRunner) fails(ops []string) map[string]bool {
	before := map[string]int{}
	for k, v := range d.r.Hist {
		before[k] = v
	}
	w := newWorld(d.r)
	for _, op := range ops {
		if strings.HasPrefix(op, "chist") {
			w.execHist(d.r, op)
		} else {
			w.exec(d.r, op)
		}
		if w.hung {
			d.hung = true

			break
		}
	}
	out := map[string]bool{}
	for k, v := range d.r.Hist {
		if strings.HasPrefix(k, "finding:") && v > before[k] {
			out[strings.TrimPrefix(k, "finding:")] = true
		}
	}

	return out
}

// shrink removes requests (greedily, to a fixpoint) as long as the oracle `want` still fails: the failing input that is
// reported is a short one. A restart that follows a crash is removed together with it or kept.
func (d *dryRunner) shrink(ops []string, want string) []string {
	cur := append([]string(nil), ops...)
	for changed, rounds := true, 0; changed && rounds < 8; rounds++ {
		changed = false
		for i := len(cur) - 1; i >= 0; i-- {
			cand := append(append([]string(nil), cur[:i]...), cur[i+1:]...)
			if len(cand) > 0 && d.fails(cand)[want] {
				cur, changed = cand, true
			}
		}
	}

	// within a request: drop single layers of a wrapper stack and single nested requests
	for i := range cur {
		f := strings.Fields(cur[i])
		switch {
		case len(f) == 3 && f[0] == "cfg" && f[1] == "stack":
			for again := true; again; {
				again = false
				layers := strings.Split(strings.Fields(cur[i])[2], ",")
				for j := len(layers) - 1; j >= 1 && len(layers) > 2; j-- {
					cand := append([]string(nil), cur...)
					cand[i] = "cfg stack " + strings.Join(append(append([]string(nil), layers[:j]...), layers[j+1:]...), ",")
					if d.fails(cand)[want] {
						cur, again = cand, true

						break
					}
				}
			}
		case f[0] == "nest" || f[0] == "nestg":
			for again := true; again; {
				again = false
				segs := strings.Split(cur[i], " / ")
				for j := len(segs) - 1; j >= 1 && len(segs) > 2; j-- {
					cand := append([]string(nil), cur...)
					cand[i] = strings.Join(append(append([]string(nil), segs[:j]...), segs[j+1:]...), " / ")
					if d.fails(cand)[want] {
						cur, again = cand, true

						break
					}
				}
			}
		}
	}

	return cur
}

func main() {
	r := hx.Start()
	r.Rule = "random histories of new/next/release/crash(idle|read|write|relwrite)/fnext(get|set)/frelease (injected store errors)/mark/par/parrel (Next racing Release, slow store writes)/chist (recorded concurrent history of Next racing Release + restart, judged by the Lean trace predicate of C07_concurrent_*) over intervals {1,2,3,5,2^32}; every fifth case at the end of the number space (intervals up to 2^64-1: leases cut off at MaxUint64, exhaustion errors); the sequence lives in a sub-view of a non-root mapdb view, 'sibling' opens and writes sibling views, 'parfr' runs concurrent Next with foreign readers of another key on the same handle; " +
		"up to four sequences with different keys and intervals over ONE store handle (k2/k3/k4), requests of other keys while a request is parked inside one of its store calls (nest/nestg: on top of the wrapper stack or inside the access callback of a debug layer; nest under GOMAXPROCS(1)), all keys concurrently (parm); random wrapper stacks (cfg stack: debug.New without callback / with any command filter, flushkv, realm views made through the wrappers, nested), faults by injected errors, by shutting down a closable layer or the mapdb itself (closedb); other users of the store (foreign: Set/Delete/DeletePrefix/Clear/Batched/Iterate on other keys, the parent view and sibling views), also concurrently (parfr, parm); " +
		"non-trivial = at least two restarts/crashes and two numbers handed out; distinct by sha256 of the op lines"
	if lines := r.ReplayLines(); lines != nil {
		runCase(r, 0, lines)
		r.Finish()

		return
	}
	// corpus: minimised past failures run first
	corpus := [][]string{
		{"new 1", "next", "new 1", "release", "new 1", "next"},
		{"new 3", "next", "release", "release", "new 2", "next", "crash write", "new 5", "next"},
		{"new 2", "next", "crash relwrite", "new 2", "next", "next", "next"},
		{"new 3", "next", "next", "next", "fnext get", "next", "fnext set", "next", "release", "new 3", "next"},
		{"new 5", "next", "frelease", "release", "new 2", "next"},
		{"new 10", "next", "next", "parrel 3 40"},
		{"new 5", "next", "next", "chist 3 30 2 3"},
		{"new 1", "chist 4 20 3 2"},
		{"new 3", "next", "release", "crash write", "new 4294967296", "next", "chist 2 40 1 4"},
		// wrap-around of next+interval (repaired in /repo: "fix: Sequence.update must not let next+interval wrap ...")
		{"new 18446744073709551615", "next", "release", "new 18446744073709551615", "next", "next", "mark"},
		{"new 9223372036854775808", "next", "crash idle", "new 9223372036854775808", "next", "crash idle", "new 9223372036854775808", "next", "next", "mark"},
		{"new 18446744073709551615", "next", "crash idle", "new 5", "next", "next", "crash write", "release", "fnext set", "mark"},
		{"new 9223372036854775807", "next", "crash idle", "new 1", "next", "next", "next", "crash write", "new 9223372036854775807", "next", "next"},
		// the database is shut down between the read and the write of a lease renewal / before the write of Release, under
		// the flushing wrapper and under the plain views (seeded change C07-r5-3: flushkv answered nil for such a write)
		{"cfg backend flush", "cfg fault close", "new 5", "next", "next", "next", "next", "next", "fnext set", "crash idle", "new 5", "next", "mark"},
		{"cfg backend flush", "cfg fault close", "new 3", "next", "frelease", "fnext get", "next", "next", "fnext set", "next", "release", "new 2", "next"},
		{"cfg backend root", "cfg fault close", "cfg wrapnf", "new 2", "fnext get", "fnext set", "next", "frelease", "crash relwrite", "new 2", "next"},
		// two sequences under prefix-related keys of one store
		{"cfg key 7365", "cfg key2 736571", "new 2", "k2 new 3", "next", "k2 next", "k2 next", "next", "next", "k2 crash write", "k2 new 1", "k2 next", "crash idle", "new 1", "next", "mark", "k2 mark"},
		// the sequence's view has siblings opened while it is in use; foreign readers share its handle
		{"new 2", "next", "sibling t", "next", "next", "sibling s2", "crash idle", "new 3", "next", "mark"},
		{"new 1", "next", "parfr 4 1500", "next", "mark"},
		// wrapper stacks: a debug layer without a callback / with a filter that leaves Set (Get) out must still forward the
		// call (seeded change C07-r6-3), also nested, under flushkv and under a realm view made through the wrappers
		{"cfg stack view,dbgnil", "new 2", "next", "next", "next", "crash idle", "new 2", "next", "mark"},
		{"cfg stack root,dbgf:8,flush,realm:7a", "new 1", "next", "release", "next", "crash write", "new 3", "next", "mark"},
		{"cfg stack view,dbgnilf:16,dbgf:0,dbg", "cfg fault close", "new 3", "next", "fnext set", "next", "frelease", "release", "new 1", "next"},
		// the database is shut down right after it took the write of a Next / Release (flushkv: the Flush meets a closed store)
		{"cfg backend flush", "new 2", "cnext", "next", "cnext", "crelease", "new 3", "cnext", "crash idle", "new 1", "next", "mark"},
		{"cfg stack view,flush,dbg,flush", "cfg fault closedb", "new 1", "cnext", "cnext", "release", "next", "crelease", "new 2", "next", "mark"},
		// two long keys that differ in their last byte only
		{"cfg key " + strings.Repeat("ab", 100), "cfg key2 " + strings.Repeat("ab", 99) + "ac", "new 2", "k2 new 3", "next", "k2 next", "k2 next", "next", "next", "crash write", "k2 crash idle", "new 1", "k2 new 1", "next", "k2 next", "mark", "k2 mark"},
		// other users of the store (other keys of the same view, parent view, sibling views: delete by prefix, clear, batches)
		{"cfg key 73746f7265", "cfg key2 73746f726573", "new 2", "k2 new 3", "next", "k2 next", "foreign own", "foreign batch", "foreign sib", "foreign parent", "foreign iter", "foreign near", "next", "k2 next", "crash idle", "k2 crash idle", "new 1", "k2 new 1", "next", "k2 next", "mark", "k2 mark"},
		{"cfg stack root,dbgf:16,flush,realm:7a", "new 1", "next", "foreign sib", "foreign own", "foreign batch", "next", "crash write", "new 2", "next", "mark"},
		// several sequences over one store: requests of other keys inside a store call of a request (on top of the stack /
		// inside the debug callback / with the caller parked) and concurrently (seeded change C07-r6-2: pooled value buffer)
		{"cfg stack view,dbg", "new 10", "k2 new 10", "k2 next", "next", "release", "nest dset next / k2 release / k2 next", "crash idle", "new 10", "next", "k2 next", "mark", "k2 mark"},
		{"new 10", "k2 new 3", "k3 new 1", "nestg set next / k2 next / k3 next", "nest set k2 release / next / k3 next", "nest get k3 crash write / release / k2 next", "k3 new 2", "k3 next", "next", "k2 next"},
		{"new 5", "k2 new 3", "k3 new 1", "k4 new 2", "parm 2 13", "crash idle", "new 2", "next", "k2 next", "k3 next", "k4 release", "k4 new 1", "k4 next"},
	}
	for _, c := range corpus {
		runCase(r, 0, c)
	}
	n := 5000 * r.Scale
	dry := newDry(r.OutDir)
	shrunk := map[string]int{}
	for i := 0; i < n; i++ {
		rng, sub := r.Rng.Fork()
		var ops []string
		if i%5 == 4 {
			ops = genExtreme(rng, 25)
		} else {
			ops = genCase(rng, 30)
		}
		// search quality: a case on which a property oracle fails is first minimised (same oracle still failing) and the
		// short history is run - and reported - before the long one
		if dry.hung {
			runCase(r, sub, ops)

			continue
		}
		if failed := dry.fails(ops); len(failed) > 0 && !dry.hung {
			names := make([]string, 0, len(failed))
			for k := range failed {
				names = append(names, k)
			}
			sort.Strings(names)
			for _, k := range names {
				if shrunk[k] < 3 {
					shrunk[k]++
					r.Count("shrunk")
					runCase(r, sub, dry.shrink(ops, k))
				}
			}
		}
		runCase(r, sub, ops)
	}
	r.Finish()
}
